(** * C02 — resolved size and alignment equal the compiler's for every emitted struct.

    Statement proved here (per accepted attempt, for every registry state and description):
    when [type_build] accepts a description, the struct it emits, laid out by the Rust Reference's
    repr(C) algorithm ([RustLayout.struct_layout] with the emitted [align(A)], or [packed_layout]
    for [#[packed]]), has exactly the resolved size and the resolved alignment, every field at the
    prefix sum of the preceding field sizes (the compiler inserts no padding of its own), and a
    declared [#[size(N)]] is that size.  Field sizes/alignments are the registry's, i.e. those of
    the items the field types name.
    REFUTED ON THE MODEL (RefutedWitnesses*.v; open findings F4b, F9): [C02_vftable_named_type_replaced_refuted_F4b]
    -- an accepted build in which a user type named <T>Vftable is replaced by T's generated table: its user is resolved
    with size 16 while the emitted struct lays out as 8; [C02_void_by_value_refuted_F9] -- resolved size 1, compiled 2. *)
From Coq Require Import List NArith Bool.
From PyxisModel Require Import Base Grammar SemTypes Registry Sem RustLayout LayoutLemmas SemLemmas
     WholeBuild Examples.
Import ListNotations.
Local Open Scope N_scope.

From PyxisModel Require RefutedInputs RefutedWitnessesOrder RefutedWitnessesEmit RefutedWitnessesFn.

Theorem C02_struct_layout : forall st p v d st' rs,
  type_build st p v d = (st', Ok rs) ->
  exists td, rs_inner rs = IType td /\
    let R := st_reg st' in
    let fs := map (region_sa R) (td_regions td) in
    Forall (fun r => r_name r <> None) (td_regions td) /\
    rs_size rs = total 0 fs /\
    (td_packed td = false ->
       struct_layout (rs_align rs) fs = (prefix_sums 0 fs, rs_size rs, rs_align rs)
       /\ is_power_of_two (rs_align rs) = true /\ Forall (region_known R) (td_regions td)) /\
    (td_packed td = true ->
       rs_align rs = 1 /\ packed_layout fs = (prefix_sums 0 fs, rs_size rs, 1)).
Proof. exact type_build_layout. Qed.
Print Assumptions C02_struct_layout.

Theorem C02_declared_size : forall st owner v ts pending vfs st' regions vt size,
  resolve_regions st owner v ts pending vfs = Ok (st', regions, vt, size) ->
  forall t, ts = Some t -> size = t.
Proof. intros. eapply resolve_regions_size; eauto. Qed.
Print Assumptions C02_declared_size.

(** ** End to end.  For every accepted build (any schedule, pointer width, list of modules) whose
    input is [collision_free] (no item is named like the vftable struct generated for a type of the
    input; decidable, [collision_freeb]; without it the claim is false, open finding F4b), every
    struct the input declares has, in the FINAL registry, the size and alignment that the
    Reference's algorithm computes from the sizes and alignments the FINAL registry gives to its
    field types. *)
Theorem C02_whole_build : forall order ptr mods st0 st p it0 gd td0 it r,
  input_state ptr mods = Ok st0 -> collision_free (st_reg st0) ->
  pyxis_resolve order ptr mods = BOk st ->
  reg_get (st_reg st0) p = Some it0 -> it_state it0 = Unresolved gd -> gi_inner gd = GIType td0 ->
  reg_get (st_reg st) p = Some it -> it_state it = Resolved r ->
  exists td, rs_inner r = IType td /\
    let fs := map (region_sa (st_reg st)) (td_regions td) in
    Forall (fun x => r_name x <> None) (td_regions td) /\
    rs_size r = total 0 fs /\
    (td_packed td = false ->
       struct_layout (rs_align r) fs = (prefix_sums 0 fs, rs_size r, rs_align r) /\
       is_power_of_two (rs_align r) = true) /\
    (td_packed td = true -> rs_align r = 1 /\ packed_layout fs = (prefix_sums 0 fs, rs_size r, 1)).
Proof. exact whole_build_layout. Qed.
Print Assumptions C02_whole_build.

(** every item an accepted build resolved was produced by one attempt on its own description, in a
    state whose resolved sizes and alignments all survive unchanged into the final registry *)
Theorem C02_items_come_from_attempts : forall order ptr mods st0 st,
  input_state ptr mods = Ok st0 -> collision_free (st_reg st0) ->
  pyxis_resolve order ptr mods = BOk st ->
  let R0 := st_reg st0 in
  ext R0 R0 (st_reg st) /\
  forall p it0 gd it r,
    reg_get R0 p = Some it0 -> it_state it0 = Unresolved gd ->
    reg_get (st_reg st) p = Some it -> it_state it = Resolved r ->
    exists st_mid st_mid',
      ext R0 R0 (st_reg st_mid) /\ attempt st_mid p gd = (st_mid', Ok r) /\
      ext R0 (st_reg st_mid) (st_reg st_mid') /\ ext R0 (st_reg st_mid') (st_reg st) /\
      ext R0 (st_reg (set_resolved st_mid' p r)) (st_reg st) /\
      (exists itm, reg_get (st_reg st_mid) p = Some itm /\ it_state itm = Unresolved gd /\ it_path itm = p) /\
      mods_rel (st_modules st_mid) (st_modules st0).
Proof. exact pyxis_resolve_items. Qed.
Print Assumptions C02_items_come_from_attempts.

Theorem C02_sizes_never_change : forall R0 R R', ext R0 R R' ->
  (forall t s, size_of R t = Some s -> size_of R' t = Some s) /\
  (forall t a, align_of R t = Some a -> align_of R' t = Some a).
Proof. intros R0 R R' H. split; [apply (size_of_ext _ _ _ H) | apply (align_of_ext _ _ _ H)]. Qed.
Print Assumptions C02_sizes_never_change.

(** non-vacuity: the input of Examples.v is an input state, collision free, and accepted *)
Example C02_whole_build_example :
  exists st0 st, input_state 4 ex_mods = Ok st0 /\ collision_freeb (st_reg st0) = true /\
                 pyxis_resolve (hook_schedule []) 4 ex_mods = BOk st.
Proof. vm_compute. eexists; eexists; repeat split; reflexivity. Qed.

(** ** the GENERATED vftable structs, on the emitted text (EmitVftLayout.v) *)
From Coq Require Import List NArith ZArith Bool String Lia.
From PyxisModel Require Import Base Sexp Grammar SemTypes Registry Sem SemLemmas FunctionLemmas
     VftableLemmas RustLayout Emit WholeBuild EmitReaders EmitShape EmitLayout EmitFnReaders
     EmitFnShape EmitVftLayout.
Import ListNotations.
Local Open Scope string_scope.
Local Open Scope list_scope.
Local Open Scope N_scope.


Theorem C02_vftable_reference_layout : forall ptr n,
  struct_layout ptr (repeat (ptr, ptr) n) = (slot_offsets ptr 0 n, N.of_nat n * ptr, ptr).
Proof. exact struct_layout_fnptrs. Qed.
Print Assumptions C02_vftable_reference_layout.


Theorem C02_generated_item_layout : forall R R' fuel owner v fs vit items,
  vftable_item R owner v fs = Some vit -> build_item R' fuel vit = Ok items ->
  reg_ptr R' = reg_ptr R ->
  let ptr := reg_ptr R in
  let n := N.of_nat (List.length fs) in
  let tys := slot_types owner fs in
  exists tname s checks rest efs rs,
    path_last owner = Some tname /\ items = s :: checks ++ rest /\
    item_kind s = Some "struct" /\ struct_name s = Some (tname +++ "Vftable") /\ struct_vis s = Some v /\
    struct_repr s = Some (ReprAlign ptr) /\
    struct_fields s = Some efs /\ Forall2 (slot_of_function owner) fs efs /\
    map ef_ty efs = map type_tokens tys /\ Forall is_fnptr_type tys /\
    map (type_sa R') tys = repeat (ptr, ptr) (List.length fs) /\
    emitted_struct_layout (map (type_sa R') tys) s = Some (slot_layout ptr fs, n * ptr, ptr) /\
    item_resolved vit = Some rs /\ rs_size rs = n * ptr /\ rs_align rs = ptr /\
    emitted_struct_layout (map (type_sa R') tys) s = Some (slot_layout ptr fs, rs_size rs, rs_align rs) /\
    size_check_shape (tname +++ "Vftable") (n * ptr) checks /\ Forall is_impl_or_const rest.
Proof. exact vftable_item_emitted_layout. Qed.
Print Assumptions C02_generated_item_layout.


Theorem C02_emitted_vftable_size_align :
  forall order ptr mods st0 st files p it0 gd td0 it r parent stm rest gfs,
  input_state ptr mods = Ok st0 -> collision_free (st_reg st0) ->
  pyxis_resolve order ptr mods = BOk st -> write_all st = Ok files ->
  reg_get (st_reg st0) p = Some it0 -> it_state it0 = Unresolved gd -> gi_inner gd = GIType td0 ->
  reg_get (st_reg st) p = Some it -> it_state it = Resolved r ->
  path_parent p = Some parent -> parent <> [] -> alookup parent (st_modules st0) <> None ->
  gt_stmts td0 = stm :: rest -> gs_field stm = GVftable gfs ->
  exists tname vp vit rs fs file items s noffs,
    path_last p = Some tname /\ vftable_path p = Some vp /\
    reg_get (st_reg st) vp = Some vit /\ item_resolved vit = Some rs /\
    In (out_path parent, file) files /\ file_items file = Some items /\
    find_struct (tname +++ "Vftable") items = Some s /\
    emitted_struct_layout (map (type_sa (st_reg st)) (slot_types p fs)) s
    = Some (noffs, rs_size rs, rs_align rs) /\
    size_of (st_reg st) (TRaw vp) = Some (rs_size rs) /\ align_of (st_reg st) (TRaw vp) = Some (rs_align rs) /\
    rs_size rs = N.of_nat (List.length fs) * ptr /\ rs_align rs = ptr /\
    (rs_size rs <> 0 -> exists c fn, In c items /\
        read_size_check c = Some (fn, tname +++ "Vftable", rs_size rs, rs_size rs)).
Proof. exact emitted_vftable_size_align_whole_build. Qed.
Print Assumptions C02_emitted_vftable_size_align.

Theorem C02_vftable_named_type_replaced_refuted_F4b :
  exists (st0 st : sstate) (files : RefutedInputs.files_t),
      RefutedInputs.built RefutedWitnessesOrder.f4b_sched 8 RefutedInputs.f4b_mods st0 st files /\
      collision_freeb (st_reg st0) = false /\
      ~ collision_free (st_reg st0) /\
      option_map it_state (reg_get (st_reg st0) RefutedWitnessesOrder.p_FooVftable) =
      Some (Unresolved RefutedWitnessesOrder.f4b_user_def) /\
      reg_get (st_reg st) RefutedWitnessesOrder.p_FooVftable <> None /\
      reg_get (st_reg st) RefutedWitnessesOrder.p_FooVftable =
      RefutedWitnessesOrder.generated_vftable_item st RefutedWitnessesOrder.p_Foo Private /\
      RefutedInputs.size_at st RefutedWitnessesOrder.p_FooVftable = Some 8 /\
      option_map FilesRead.file_decls (RefutedInputs.file_named files "a.rs") =
      Some
        [("struct"%string, "Foo"%string); ("struct"%string, "FooVftable"%string);
         ("struct"%string, "User"%string)] /\
      option_map (map EmitReaders.ef_name)
        (RefutedInputs.thenr (RefutedInputs.struct_of files "a.rs" "FooVftable")
           EmitReaders.struct_fields) = Some ["f"%string] /\
      RefutedInputs.size_at st RefutedWitnessesOrder.p_User = Some 16 /\
      option_map (map (fun r : region => (r_name r, r_type r)))
        (RefutedInputs.regions_at st RefutedWitnessesOrder.p_User) =
      Some [(Some "x"%string, TRaw RefutedWitnessesOrder.p_FooVftable)] /\
      RefutedInputs.thenr (RefutedInputs.struct_of files "a.rs" "User")
        (EmitLayout.emitted_struct_layout
           (map (EmitLayout.type_sa (st_reg st)) [TRaw RefutedWitnessesOrder.p_FooVftable])) =
      Some ([("x"%string, 0)], 8, 8) /\ RefutedInputs.size_check_of files "a.rs" "User" = Some (16, 16).
Proof. exact RefutedWitnessesOrder.C14_C02_vftable_named_type_replaced_refuted_F4b. Qed.
Print Assumptions C02_vftable_named_type_replaced_refuted_F4b.

Theorem C02_void_by_value_refuted_F9 :
  exists (st0 st : sstate) (files : RefutedInputs.files_t),
      RefutedInputs.built [] 4 RefutedInputs.f9_mods st0 st files /\
      RefutedInputs.side_ok st0 = true /\
      RefutedInputs.size_at st ["a"%string; "T"%string] = Some 1 /\
      option_map (map r_type) (RefutedInputs.regions_at st ["a"%string; "T"%string]) =
      Some RefutedWitnessesEmit.f9_tys /\
      RefutedInputs.thenr (RefutedInputs.struct_of files "a.rs" "T") EmitReaders.struct_repr =
      Some EmitReaders.ReprPacked /\
      option_map (map (fun ef : EmitReaders.efield => (EmitReaders.ef_name ef, EmitReaders.ef_ty ef)))
        (RefutedInputs.thenr (RefutedInputs.struct_of files "a.rs" "T") EmitReaders.struct_fields) =
      Some [("a"%string, RefutedWitnessesEmit.c_void_tokens); ("b"%string, [Sexp.Atom "u8"])] /\
      RefutedInputs.size_check_of files "a.rs" "T" = Some (1, 1) /\
      map (EmitLayout.type_sa (st_reg st)) RefutedWitnessesEmit.f9_tys = [(0, 1); (1, 1)] /\
      map (RefutedWitnessesEmit.rustc_field_sa (st_reg st)) RefutedWitnessesEmit.f9_tys =
      [(1, 1); (1, 1)] /\
      RefutedInputs.thenr (RefutedInputs.struct_of files "a.rs" "T")
        (EmitLayout.emitted_struct_layout
           (map (EmitLayout.type_sa (st_reg st)) RefutedWitnessesEmit.f9_tys)) =
      Some ([("a"%string, 0); ("b"%string, 0)], 1, 1) /\
      RefutedInputs.thenr (RefutedInputs.struct_of files "a.rs" "T")
        (EmitLayout.emitted_struct_layout
           (map (RefutedWitnessesEmit.rustc_field_sa (st_reg st)) RefutedWitnessesEmit.f9_tys)) =
      Some ([("a"%string, 0); ("b"%string, 1)], 2, 1).
Proof. exact RefutedWitnessesEmit.C01_C02_void_by_value_refuted_F9. Qed.
Print Assumptions C02_void_by_value_refuted_F9.
