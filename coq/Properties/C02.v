(** * C02 — resolved size and alignment equal the compiler's for every emitted struct.

    Statement proved here (per accepted attempt, for every registry state and description):
    when [type_build] accepts a description, the struct it emits, laid out by the Rust Reference's
    repr(C) algorithm ([RustLayout.struct_layout] with the emitted [align(A)], or [packed_layout]
    for [#[packed]]), has exactly the resolved size and the resolved alignment, every field at the
    prefix sum of the preceding field sizes (the compiler inserts no padding of its own), and a
    declared [#[size(N)]] is that size.  Field sizes/alignments are the registry's, i.e. those of
    the items the field types name. *)
From Coq Require Import List NArith Bool.
From PyxisModel Require Import Base Grammar SemTypes Registry Sem RustLayout LayoutLemmas SemLemmas.
Import ListNotations.
Local Open Scope N_scope.

Theorem C02_struct_layout : forall st p v d st' rs,
  type_build st p v d = (st', Ok rs) ->
  exists td, rs_inner rs = IType td /\
    let R := st_reg st' in
    let fs := map (region_sa R) (td_regions td) in
    Forall (fun r => r_name r <> None) (td_regions td) /\
    rs_size rs = total 0 fs /\
    (td_packed td = false ->
       struct_layout (rs_align rs) fs = (prefix_sums 0 fs, rs_size rs, rs_align rs)
       /\ is_power_of_two (rs_align rs) = true /\ Forall (region_known R) (td_regions td)) /\
    (td_packed td = true ->
       rs_align rs = 1 /\ packed_layout fs = (prefix_sums 0 fs, rs_size rs, 1)).
Proof. exact type_build_layout. Qed.
Print Assumptions C02_struct_layout.

Theorem C02_declared_size : forall st owner v ts pending vfs st' regions vt size,
  resolve_regions st owner v ts pending vfs = Ok (st', regions, vt, size) ->
  forall t, ts = Some t -> size = t.
Proof. intros. eapply resolve_regions_size; eauto. Qed.
Print Assumptions C02_declared_size.
