(** * C14 — every declared item is emitted exactly once, in the file of its module.

    PROVED on the model:
    - [write_all] produces exactly one file per module other than the root, named by the module path
      with ".rs" appended to its last segment;
    - a module's file is: the header, the module's rust prologues joined in source order, the items
      built from [module_definitions] (the registry items of the module's paths, each path once --
      [m_defpaths] never holds a path twice -- sorted by path), the extern-value accessors sorted by
      name, then the rust epilogues; blocks of other backends do not contribute;
    - predefined and extern items emit nothing;
    - two definitions of one path are rejected at registration ([add_definition], [add_extern_type]).
    END TO END (FilesInput.v, FilesRead.v, FilesWhole.v; readers that only look at the emitted
    tokens): [C14_files_whole] -- for every accepted, collision-free build of an input with distinct
    module paths, the written files are, up to order, exactly one file [out_path k] per input
    module [k <> []] (the root gets none), and the file of module [gm] satisfies [file_ok gm f]:
    its items are the opaque rust prologue (the input's `backend rust` prologues joined in source
    order, nothing of other backends), a body without opaque text, the opaque rust epilogue; and
    the (kind, name) pairs of the struct / enum items read back from the file are a PERMUTATION of
    [module_decls gm] = one pair per type / enum definition of the input module plus
    ("struct", T ++ "Vftable") per type with a vftable block -- nothing for extern types,
    built-ins or other modules' items; [C14_declared_names_distinct]: those names are pairwise
    distinct, so "exactly once"; [C14_file_names_distinct] / [C14_file_of_a_module_unique]: file
    names are pairwise distinct when no path segment contains '/' (necessary:
    [FilesWhole.out_path_not_injective]); [C14_files_whole_any_permutation_schedule].
    [C14_extern_accessors_exactly_once] (EmitExternOnce.v): for every module of an accepted build
    the [get_*] functions of its file are a contiguous block right before the epilogue and read
    back, with multiplicity and in name order, exactly as the accessors of the module's declared
    extern values (name, visibility, last address, type bound by the scoping rules); nothing else
    in the file is a [get_*] function ([C14_extern_accessors_no_other]).
    What the model cannot exhibit (glob, directories, the actual writes) is covered by running the
    real [pyxis::build] into a fresh directory and listing it.
    REFUTED ON THE MODEL without collision_free (RefutedWitnesses*.v; open finding F4b):
    [C14_vftable_named_type_replaced_refuted_F4b] -- the declared item <T>Vftable is not emitted; the generated table is. *)
From Coq Require Import List NArith ZArith Bool String Permutation.
From PyxisModel Require Import Base Sexp Grammar SemTypes Registry Sem SemLemmas Emit EmitLemmas.
Import ListNotations.

From PyxisModel Require EmitReaders EmitFinal FilesInput FilesRead FilesWhole.

From PyxisModel Require EmitAccessors EmitExternOnce.

From PyxisModel Require RefutedInputs RefutedWitnessesOrder RefutedWitnessesEmit RefutedWitnessesFn.

Theorem C14_one_file_per_module : forall st files,
  write_all st = Ok files ->
  Permutation (map fst files)
              (map out_path (filter (fun k => match k with [] => false | _ => true end) (map fst (st_modules st)))).
Proof. exact write_all_files. Qed.
Print Assumptions C14_one_file_per_module.

Theorem C14_file_contents : forall st m f,
  module_file st m = Ok f ->
  exists items evs,
    mapM (build_item (st_reg st) (S (List.length (reg_types (st_reg st))))) (module_definitions (st_reg st) m) = Ok items /\
    mapM build_extern_value (sort ev_leb (m_extern_values m)) = Ok evs /\
    f = SList (Atom "file" :: attrs_sexp (file_header (m_doc m)) ::
               [SList [Atom "opaque"; Str (prologue_text m)]] ++ List.concat items ++ evs ++
               [SList [Atom "opaque"; Str (epilogue_text m)]])%list.
Proof. exact module_file_shape. Qed.
Print Assumptions C14_file_contents.

Theorem C14_each_item_once : forall R m,
  Permutation (module_definitions R m) (somes (map (reg_get R) (m_defpaths m))).
Proof. exact module_definitions_perm. Qed.
Print Assumptions C14_each_item_once.

Theorem C14_paths_never_twice : forall p m,
  NoDup (m_defpaths m) -> NoDup (m_defpaths (add_defpath p m)).
Proof. exact add_defpath_nodup. Qed.
Print Assumptions C14_paths_never_twice.

Theorem C14_externs_and_builtins_not_emitted : forall R fuel it l,
  build_item R fuel it = Ok l -> it_cat it <> Defined -> l = [].
Proof. exact build_item_nothing_for_externs. Qed.
Print Assumptions C14_externs_and_builtins_not_emitted.

Theorem C14_other_backends_excluded : forall m b,
  In b (rust_blocks m) -> In ("rust"%string, b) (m_backends m).
Proof. exact rust_blocks_only. Qed.
Print Assumptions C14_other_backends_excluded.

Theorem C14_duplicate_rejected : forall mp st d,
  reg_has (st_reg st) (path_join mp (gi_name d)) = true ->
  add_definition mp st d = Err "the item is defined more than once"%string.
Proof. intros mp st d H. unfold add_definition. rewrite H. reflexivity. Qed.
Print Assumptions C14_duplicate_rejected.

Theorem C14_files_whole :
  forall (order : schedule) (ptr : N) (mods : list (path * gmodule)) (st0 st : sstate)
      (files : list (string * sexp)),
    WholeBuild.input_state ptr mods = Ok st0 ->
    NoDup (map fst mods) ->
    WholeBuild.collision_free (st_reg st0) ->
    EmitFinal.keeps_work order ->
    pyxis_resolve order ptr mods = BOk st ->
    write_all st = Ok files ->
    exists fs : list (path * sexp),
      Permutation files (map FilesRead.file_of fs) /\
      map fst fs = filter FilesInput.nonroot (map fst mods) /\
      (forall (k : path) (gm : gmodule) (f : sexp),
       In (k, gm) mods -> In (k, f) fs -> FilesWhole.file_ok gm f).
Proof. exact FilesWhole.files_whole. Qed.
Print Assumptions C14_files_whole.

Theorem C14_files_whole_any_permutation_schedule :
  forall (order : list path -> list path) (ptr : N) (mods : list (path * gmodule)) 
      (st0 st : sstate) (files : list (string * sexp)),
    WholeBuild.input_state ptr mods = Ok st0 ->
    NoDup (map fst mods) ->
    WholeBuild.collision_free (st_reg st0) ->
    (forall l : list path, Permutation (order l) l) ->
    pyxis_resolve order ptr mods = BOk st ->
    write_all st = Ok files ->
    exists fs : list (path * sexp),
      Permutation files (map FilesRead.file_of fs) /\
      map fst fs = filter FilesInput.nonroot (map fst mods) /\
      (forall (k : path) (gm : gmodule) (f : sexp),
       In (k, gm) mods -> In (k, f) fs -> FilesWhole.file_ok gm f).
Proof. exact FilesWhole.files_whole_perm. Qed.
Print Assumptions C14_files_whole_any_permutation_schedule.

Theorem C14_declared_names_distinct :
  forall (order : schedule) (ptr : N) (mods : list (path * gmodule)) (st0 st : sstate) 
      (k : path) (gm : gmodule),
    WholeBuild.input_state ptr mods = Ok st0 ->
    NoDup (map fst mods) ->
    WholeBuild.collision_free (st_reg st0) ->
    EmitFinal.keeps_work order ->
    pyxis_resolve order ptr mods = BOk st ->
    In (k, gm) mods -> NoDup (map snd (FilesWhole.module_decls gm)).
Proof. exact FilesWhole.module_decls_nodup. Qed.
Print Assumptions C14_declared_names_distinct.

Theorem C14_file_names_distinct :
  forall (order : schedule) (ptr : N) (mods : list (path * gmodule)) (st0 st : sstate)
      (files : list (string * sexp)),
    WholeBuild.input_state ptr mods = Ok st0 ->
    NoDup (map fst mods) ->
    WholeBuild.collision_free (st_reg st0) ->
    EmitFinal.keeps_work order ->
    pyxis_resolve order ptr mods = BOk st ->
    write_all st = Ok files ->
    (forall k : path, In k (map fst mods) -> FilesWhole.slash_free k) -> NoDup (map fst files).
Proof. exact FilesWhole.files_nodup. Qed.
Print Assumptions C14_file_names_distinct.

Theorem C14_file_of_a_module_unique :
  forall (order : schedule) (ptr : N) (mods : list (path * gmodule)) (st0 st : sstate)
      (files : list (string * sexp)) (k : path) (gm : gmodule) (f : sexp),
    WholeBuild.input_state ptr mods = Ok st0 ->
    NoDup (map fst mods) ->
    WholeBuild.collision_free (st_reg st0) ->
    EmitFinal.keeps_work order ->
    pyxis_resolve order ptr mods = BOk st ->
    write_all st = Ok files ->
    (forall k0 : path, In k0 (map fst mods) -> FilesWhole.slash_free k0) ->
    In (k, gm) mods -> k <> [] -> In (out_path k, f) files -> FilesWhole.file_ok gm f.
Proof. exact FilesWhole.files_unique. Qed.
Print Assumptions C14_file_of_a_module_unique.

Theorem C14_extern_accessors_exactly_once :
  forall (order : schedule) (ptr : N) (mods : list (path * gmodule)) (st0 st : sstate)
      (files : list (string * sexp)),
    WholeBuild.input_state ptr mods = Ok st0 ->
    NoDup (map fst mods) ->
    WholeBuild.collision_free (st_reg st0) ->
    EmitFinal.keeps_work order ->
    pyxis_resolve order ptr mods = BOk st ->
    write_all st = Ok files ->
    exists fs : list (path * sexp),
      Permutation files (map FilesRead.file_of fs) /\
      map fst fs = filter FilesInput.nonroot (map fst mods) /\
      (forall (k : path) (gm : gmodule) (f : sexp),
       In (k, gm) mods ->
       In (k, f) fs -> FilesWhole.file_ok gm f /\ EmitExternOnce.extern_file_ok (st_reg st) k gm f).
Proof. exact EmitExternOnce.extern_accessors_whole. Qed.
Print Assumptions C14_extern_accessors_exactly_once.

Theorem C14_extern_accessors_no_other :
  forall (order : schedule) (ptr : N) (mods : list (path * gmodule)) (st0 st : sstate)
      (files : list (string * sexp)) (name : string) (f : sexp),
    WholeBuild.input_state ptr mods = Ok st0 ->
    NoDup (map fst mods) ->
    WholeBuild.collision_free (st_reg st0) ->
    EmitFinal.keeps_work order ->
    pyxis_resolve order ptr mods = BOk st ->
    write_all st = Ok files ->
    In (name, f) files ->
    exists (k : path) (gm : gmodule),
      In (k, gm) mods /\
      k <> [] /\
      name = out_path k /\ FilesWhole.file_ok gm f /\ EmitExternOnce.extern_file_ok (st_reg st) k gm f.
Proof. exact EmitExternOnce.extern_accessors_no_other. Qed.
Print Assumptions C14_extern_accessors_no_other.

Theorem C14_vftable_named_type_replaced_refuted_F4b :
  exists (st0 st : sstate) (files : RefutedInputs.files_t),
      RefutedInputs.built RefutedWitnessesOrder.f4b_sched 8 RefutedInputs.f4b_mods st0 st files /\
      WholeBuild.collision_freeb (st_reg st0) = false /\
      ~ WholeBuild.collision_free (st_reg st0) /\
      option_map it_state (reg_get (st_reg st0) RefutedWitnessesOrder.p_FooVftable) =
      Some (Unresolved RefutedWitnessesOrder.f4b_user_def) /\
      reg_get (st_reg st) RefutedWitnessesOrder.p_FooVftable <> None /\
      reg_get (st_reg st) RefutedWitnessesOrder.p_FooVftable =
      RefutedWitnessesOrder.generated_vftable_item st RefutedWitnessesOrder.p_Foo Private /\
      RefutedInputs.size_at st RefutedWitnessesOrder.p_FooVftable = Some 8%N /\
      option_map FilesRead.file_decls (RefutedInputs.file_named files "a.rs") =
      Some
        [("struct"%string, "Foo"%string); ("struct"%string, "FooVftable"%string);
         ("struct"%string, "User"%string)] /\
      option_map (map EmitReaders.ef_name)
        (RefutedInputs.thenr (RefutedInputs.struct_of files "a.rs" "FooVftable")
           EmitReaders.struct_fields) = Some ["f"%string] /\
      RefutedInputs.size_at st RefutedWitnessesOrder.p_User = Some 16%N /\
      option_map (map (fun r : region => (r_name r, r_type r)))
        (RefutedInputs.regions_at st RefutedWitnessesOrder.p_User) =
      Some [(Some "x"%string, TRaw RefutedWitnessesOrder.p_FooVftable)] /\
      RefutedInputs.thenr (RefutedInputs.struct_of files "a.rs" "User")
        (EmitLayout.emitted_struct_layout
           (map (EmitLayout.type_sa (st_reg st)) [TRaw RefutedWitnessesOrder.p_FooVftable])) =
      Some ([("x"%string, 0%N)], 8%N, 8%N) /\
      RefutedInputs.size_check_of files "a.rs" "User" = Some (16%N, 16%N).
Proof. exact RefutedWitnessesOrder.C14_C02_vftable_named_type_replaced_refuted_F4b. Qed.
Print Assumptions C14_vftable_named_type_replaced_refuted_F4b.
