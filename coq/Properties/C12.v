(** * C12 — every input yields a result: builds never panic or hang.

    The model marks every place where the real code could panic or loop ([Panic], [BFuel]); PROVED:
    - the resolution loop terminates within the fuel [sem_build] gives it (1 + number of unresolved
      items rounds) for every schedule that preserves the number of items -- in particular every
      schedule the hook can install, hence every hash order ([C12_loop_terminates]);
    - the [unwrap]s of the alignment check are unreachable ([C12_alignment_no_panic]); they are the only
      primitive panic site of the front half, so [C12_front_half_never_panics]: for EVERY input, pointer
      width and schedule, [pyxis_resolve] (registration, loop, finish) does not end in a panic, and
      [C12_front_half_total]: it ends in accepted / error value / no-progress error, nothing else;
    - checked arithmetic: sizes, offsets and the alignment lcm go through [checked_mul] /
      [checked_add] and yield "defer" / "error" on overflow, never a wrapped value
      ([C12_no_wraparound]);
    - the back end's only recursion, the walk over the base-class hierarchy, is given 1 + #registry
      entries of fuel: [C12_hierarchy_fuel_suffices] / [C12_emitter_fuel_suffices] (HierarchyFuel.v)
      -- on every accepted build of a collision-free clean input that fuel is enough, i.e. the
      model's "hierarchy fuel exhausted" outcome (which stands for unbounded recursion of
      dfs_hierarchy in the real code) is unreachable in [write_all].
    - the BACK END (NoPanicBase.v, NoPanicNames.v, NoPanicRank.v, NoPanicEmit.v):
      [C12_emitter_never_panics] -- for every accepted build of an input whose declared names are
      identifiers ([names_fine], decidable, reads only the input state: item, field, function,
      parameter, variant and extern-value names; raw names [r#x] for items/functions excluded),
      [write_all] does not panic: every [format_ident!] site gets an identifier (the generated
      names [vftable], [_vfunc_k], [_field_hex], [<T>Vftable], [_<T>_size_check], [<base>_<fn>] are
      PROVED to be identifiers), the hierarchy walk has enough fuel, every extern value has its
      type; [C12_model_pipeline_total]: front half + back end end in accepted-with-files / error
      value / no-progress error, never a panic, out of fuel or deferral;
      [C12_raw_type_name_panics_in_the_model]: the hypothesis is needed -- [pub type r#type] is
      accepted and the emitter panics (finding F6f, on the model as on the real code).
    What the model cannot exhibit -- the lexer (proc_macro2), syn's recursion, allocation, wall-clock
    time, panics inside format_ident!/prettyplease -- is decided by the monitor only: every generated
    input (token soup, mutated valid files, boundary integers in every numeric position, deep nesting,
    cyclic types, API misuse) runs through the real pyxis in a bounded process; any panic, hang or
    crash is a violation unless it is a listed finding (F6f: raw identifiers). *)
From Coq Require Import List NArith ZArith Bool String Lia.
From PyxisModel Require Import Base Grammar SemTypes Registry Sem SemLemmas TotalityLemmas NoPanic.
Import ListNotations.

From PyxisModel Require EmitLocal HierarchyFuel.

From PyxisModel Require NoPanicBase NoPanicNames NoPanicRank NoPanicEmit.

Theorem C12_loop_terminates : forall order st,
  (forall l, List.length (order l) = List.length l) -> sem_build order st <> BFuel.
Proof. intros. now apply sem_build_never_out_of_fuel. Qed.
Print Assumptions C12_loop_terminates.

Theorem C12_hook_schedules_covered : forall ks l, List.length (hook_schedule ks l) = List.length l.
Proof. exact hook_schedule_length. Qed.
Print Assumptions C12_hook_schedules_covered.

Theorem C12_rounds_bound : forall order fuel st,
  (forall l, List.length (order l) = List.length l) ->
  (List.length (reg_unresolved (st_reg st)) < fuel)%nat -> resolve_loop order fuel st <> BFuel.
Proof. intros order fuel st H Hl. now apply resolve_loop_fuel_suffices. Qed.
Print Assumptions C12_rounds_bound.

Theorem C12_alignment_no_panic : forall st owner v ts pending vfs st' regions vt size ta m,
  resolve_regions st owner v ts pending vfs = Ok (st', regions, vt, size) ->
  compute_alignment (st_reg st') ta regions size <> Panic m.
Proof.
  intros. apply compute_alignment_no_panic. eapply resolve_regions_sizes; eauto.
Qed.
Print Assumptions C12_alignment_no_panic.

Theorem C12_no_wraparound : forall a b r,
  (checked_add a b = Some r -> r = (a + b)%N /\ (r <= usize_max)%N) /\
  (checked_mul a b = Some r -> r = (a * b)%N /\ (r <= usize_max)%N).
Proof.
  intros a b r. unfold checked_add, checked_mul, fits_usize. split; intros H.
  - destruct (a + b <=? usize_max)%N eqn:E; inversion H; subst. split; [reflexivity | now apply N.leb_le].
  - destruct (a * b <=? usize_max)%N eqn:E; inversion H; subst. split; [reflexivity | now apply N.leb_le].
Qed.
Print Assumptions C12_no_wraparound.

(** ** the front half never panics, for every input and schedule *)
Theorem C12_front_half_never_panics : forall order ptr mods m, pyxis_resolve order ptr mods <> BPanic m.
Proof. exact pyxis_resolve_no_panic. Qed.
Print Assumptions C12_front_half_never_panics.

Theorem C12_front_half_total : forall order ptr mods,
  (forall l, List.length (order l) = List.length l) ->
  match pyxis_resolve order ptr mods with
  | BOk _ | BErr _ | BNoProgress _ => True
  | BPanic _ | BFuel => False
  end.
Proof. exact pyxis_resolve_total. Qed.
Print Assumptions C12_front_half_total.

Theorem C12_emitter_fuel_suffices :
  forall (ptr : N) (mods : list (path * gmodule)) (st0 : sstate) (order : list path -> list path)
      (t : sstate),
    WholeBuild.input_state ptr mods = Ok st0 ->
    WholeBuild.collision_free (st_reg st0) ->
    OrderIndep.clean_stateb st0 = true ->
    (forall l : list path, Permutation.Permutation (order l) l) ->
    pyxis_resolve order ptr mods = BOk t -> EmitLocal.not_fuel (Emit.write_all t).
Proof. exact HierarchyFuel.write_all_not_fuel. Qed.
Print Assumptions C12_emitter_fuel_suffices.

Theorem C12_hierarchy_fuel_suffices :
  forall (ptr : N) (mods : list (path * gmodule)) (st0 : sstate) (order : list path -> list path)
      (t : sstate),
    WholeBuild.input_state ptr mods = Ok st0 ->
    WholeBuild.collision_free (st_reg st0) ->
    OrderIndep.clean_stateb st0 = true ->
    (forall l : list path, Permutation.Permutation (order l) l) ->
    pyxis_resolve order ptr mods = BOk t ->
    forall (p : path) (it : item) (rs : resolved) (td : type_def) (fields : list string),
    reg_get (st_reg t) p = Some it ->
    item_resolved it = Some rs ->
    rs_inner rs = IType td ->
    EmitLocal.not_fuel
      (Emit.dfs_hierarchy (S (Datatypes.length (reg_types (st_reg t)))) (st_reg t) td fields).
Proof. exact HierarchyFuel.hierarchy_fuel_enough. Qed.
Print Assumptions C12_hierarchy_fuel_suffices.

Theorem C12_emitter_never_panics :
  forall (order : schedule) (ptr : N) (mods : list (path * gmodule)) (st0 st : sstate),
    WholeBuild.input_state ptr mods = Ok st0 ->
    NoPanicNames.names_fine st0 = true ->
    pyxis_resolve order ptr mods = BOk st -> forall m : string, Emit.write_all st <> Panic m.
Proof. exact NoPanicEmit.write_all_no_panic. Qed.
Print Assumptions C12_emitter_never_panics.

Theorem C12_model_pipeline_total :
  forall (order : list path -> list path) (ptr : N) (mods : list (path * gmodule)),
    (forall l : list path, Permutation.Permutation (order l) l) ->
    (forall st0 : sstate, WholeBuild.input_state ptr mods = Ok st0 -> NoPanicNames.names_fine st0 = true) ->
    match NoPanicEmit.model_pipeline order ptr mods with
    | inl (BErr _) | inl (BNoProgress _) | inr (Ok _) | inr (Err _) => True
    | _ => False
    end.
Proof. exact NoPanicEmit.model_pipeline_total_perm. Qed.
Print Assumptions C12_model_pipeline_total.

Theorem C12_raw_type_name_panics_in_the_model :
  exists st0 st : sstate,
      WholeBuild.input_state 4 NoPanicEmit.raw_mods = Ok st0 /\
      WholeBuild.collision_freeb (st_reg st0) = true /\
      pyxis_resolve (hook_schedule []) 4 NoPanicEmit.raw_mods = BOk st /\
      NoPanicNames.names_fine st0 = false /\ Emit.write_all st = Panic "invalid identifier".
Proof. exact NoPanicEmit.raw_type_name_panics. Qed.
Print Assumptions C12_raw_type_name_panics_in_the_model.

Theorem C12_extern_values_typed :
  forall (order : schedule) (ptr : N) (mods : list (path * gmodule)) (st : sstate)
      (km : path * smodule) (ev : sextern),
    pyxis_resolve order ptr mods = BOk st ->
    In km (st_modules st) -> In ev (m_extern_values (snd km)) -> ev_type ev <> None.
Proof. exact NoPanicEmit.extern_values_typed. Qed.
Print Assumptions C12_extern_values_typed.
