(** * C04 — virtual-call wrappers dispatch through the declared vftable slot.

    SPEC: [slot_plan idxs 0]: a function with [#[index(i)]] gets slot i, one without the slot after
    its predecessor (0 for the first); an index below that position is a contradiction.
    PROVED (all tables, any number of functions, any indices):
    - slots: when the model's conversion of a vftable block is accepted, the plan exists, every
      declared function sits at its planned position, every other position k holds the private
      placeholder [_vfunc_k] (thiscall, receiver [&mut self]), the table has max(size, last+1)
      entries; a contradicting index or a too small [#[size]] cannot be accepted;
    - layout: in the generated <T>Vftable struct slot k is the k-th field at byte offset
      k * pointer size (every field is a fn pointer);
    - dispatch (RustExec): the wrapper of a virtual function loads the object's vftable pointer (the
      word at the object's address when the pointer is its own first field, the base sub-object's
      accessor otherwise), and makes exactly one call, to the entry stored in its slot, with the
      receiver's address first and the arguments in declared order, returning the callee's result;
    - on the emitted text (EmitFn*.v; readers that only look at tokens): [C04_emitted_vftable_struct]:
      for every type of an accepted build that declares a vftable block, the module's file contains
      the struct [<T>Vftable] (found by name), [repr(C, align(ptr))], with exactly one field per
      slot of the resolved table, in slot order, each an [unsafe extern "<cc>" fn(..)] pointer whose
      ABI string, parameter and return types are those of the slot's function
      ([C04_vftable_item_struct]); the wrapper of a virtual function is the vftable template
      [(self.vftable().<name>)(receiver, args..)] ([C05_wrapper_shape]), and the ABI of the slot
      field is the one the function record carries ([C04_slot_and_wrapper_abi]). *)
From Coq Require Import List NArith ZArith Bool String Lia.
From PyxisModel Require Import Base Grammar SemTypes Registry Sem SemLemmas FunctionLemmas
     VftableLemmas PlacementLemmas RustExec ExecLemmas WholeBuild Examples.
Import ListNotations.
Local Open Scope N_scope.

From PyxisModel Require EmitReaders EmitFnReaders EmitFnShape EmitFnFinal.

Theorem C04_slots : forall R scope fs out,
  foldM (convert_one R scope) fs [] = Ok out ->
  exists idxs positions e,
    map fn_index fs = map Some idxs /\
    slot_plan idxs 0 = Some (positions, e) /\
    N.of_nat (List.length out) = e /\
    Forall2 (fun f pos => exists sf, function_build R scope true f = Ok sf /\
                                     nth_error out (N.to_nat pos) = Some sf) fs positions /\
    (forall k, (k < List.length out)%nat -> ~ In (N.of_nat k) positions ->
               nth_error out k = Some (padding_fn (N.of_nat k))).
Proof.
  intros R scope fs out H.
  destruct (convert_functions_slots R scope fs [] out H) as (idxs & ps & e & A & B & C & _ & D & E).
  exists idxs, ps, e. repeat split; auto. intros k Hk. apply E. cbn. lia.
Qed.
Print Assumptions C04_slots.

Lemma map_some_inj {A} : forall (a b : list A), map Some a = map Some b -> a = b.
Proof. induction a; intros [|? ?] H; inversion H; f_equal; auto. Qed.

Theorem C04_reject_index : forall R scope fs idxs,
  map fn_index fs = map Some idxs -> slot_plan idxs 0 = None ->
  ~ is_ok (foldM (convert_one R scope) fs []) = true.
Proof.
  intros R scope fs idxs Hm Hp Hok.
  destruct (foldM (convert_one R scope) fs []) as [out| | |] eqn:E; try discriminate.
  destruct (C04_slots _ _ _ _ E) as (idxs' & ps & e & A & B & _).
  rewrite Hm in A. apply map_some_inj in A. subst idxs'. congruence.
Qed.
Print Assumptions C04_reject_index.

Theorem C04_table_size : forall R scope size fs out,
  convert_functions R scope size fs = Ok out ->
  exists slots, foldM (convert_one R scope) fs [] = Ok slots /\
    match size with
    | Some s => N.of_nat (List.length slots) <= s /\ N.of_nat (List.length out) = s /\
                exists pad, out = slots ++ pad
    | None => out = slots
    end.
Proof.
  unfold convert_functions. intros R scope size fs out H. inv_bind H. exists a. split; [exact Ha|].
  destruct size as [s|]; [|inversion H; reflexivity].
  destruct (s <? N.of_nat (List.length a)) eqn:E; [discriminate|]. inversion H; subst out.
  destruct (pad_to_spec s a) as [-> Hl]. split; [lia|]. split; [lia|]. eauto.
Qed.
Print Assumptions C04_table_size.

Theorem C04_slot_offset : forall R owner fs name k,
  slot_index fs name 0 = Some k ->
  exists ty, field_offset R (map (function_to_region owner) fs) name 0 = Some (k * reg_ptr R, ty).
Proof.
  intros R owner fs name k H. pose proof (vftable_field_offset R owner fs name k 0 H) as E.
  rewrite N.mul_0_l in E. eauto.
Qed.
Print Assumptions C04_slot_offset.

Theorem C04_dispatch : forall R mem callee fu p td vt name f k self vals ty rest,
  typedef_of R p = Some td -> find_method td name = Some f -> sf_body f = BVftable (sf_name f) ->
  td_vftable td = Some vt -> vt_base_field vt = None ->
  td_regions td = vftable_region_of (TConstPtr ty) :: rest ->
  nth_error (vt_functions vt) k = Some f ->
  (forall j g, (j < k)%nat -> nth_error (vt_functions vt) j = Some g -> sf_name g <> sf_name f) ->
  call_method R mem callee (S fu) p name self vals =
  let target := mem (mem self + N.of_nat k * reg_ptr R) in
  Some ([ECall target (sf_cc f) (bind_args (sf_args f) self vals)],
        callee target (sf_cc f) (bind_args (sf_args f) self vals)).
Proof.
  intros R mem callee fu p td vt name f k self vals ty rest Ht Hf Hb Hvt Hbase Hr Hn Hu.
  erewrite exec_vftable_call; eauto.
  - eapply (exec_vftable_ptr_own R mem callee); eauto.
  - rewrite (slot_index_nth mem callee _ _ _ 0 Hn Hu). reflexivity.
Qed.
Print Assumptions C04_dispatch.

Theorem C04_dispatch_inherited : forall R mem fu p td vt b off bp self,
  typedef_of R p = Some td -> td_vftable td = Some vt -> vt_base_field vt = Some b ->
  field_offset R (td_regions td) b 0 = Some (off, TRaw bp) ->
  vftable_ptr R mem (S fu) p self = vftable_ptr R mem fu bp (self + off).
Proof. intros. eapply exec_vftable_ptr_base; eauto. Qed.
Print Assumptions C04_dispatch_inherited.

Example C04_plan_example :
  slot_plan [None; Some 3; None; Some 5] 0 = Some ([0; 3; 4; 5], 6) /\
  slot_plan [Some 2; Some 1] 0 = None /\ slot_plan [None; Some 0] 0 = None.
Proof. repeat split. Qed.

(** ** End to end.  For every accepted build (any schedule) whose input is [collision_free], every
    type that declares a vftable block: the item registered under <T>Vftable in the FINAL registry is
    the struct built from exactly the slot list [fs] that the conversion of the block produced
    ([C04_slots] and [C04_table_size] describe [fs]; [C04_slot_offset] the struct), and the type's
    own vftable descriptor names that struct and carries the same list.  The item is final from the
    moment its owner is resolved: no later attempt touches it. *)
Theorem C04_whole_build : forall order ptr mods st0 st p it0 gd td0 it r s rest gfs,
  input_state ptr mods = Ok st0 -> collision_free (st_reg st0) ->
  pyxis_resolve order ptr mods = BOk st ->
  reg_get (st_reg st0) p = Some it0 -> it_state it0 = Unresolved gd -> gi_inner gd = GIType td0 ->
  reg_get (st_reg st) p = Some it -> it_state it = Resolved r ->
  gt_stmts td0 = s :: rest -> gs_field s = GVftable gfs ->
  exists R_mid scope sz fs vp vit td vt,
    ext (st_reg st0) (st_reg st0) R_mid /\ ext (st_reg st0) R_mid (st_reg st) /\
    foldM scan_vftable_size_attr (gs_attrs s) None = Ok sz /\
    convert_functions R_mid scope sz gfs = Ok fs /\
    vftable_path p = Some vp /\
    vftable_item (st_reg st) p (gi_vis gd) fs = Some vit /\
    reg_get (st_reg st) vp = Some vit /\
    rs_inner r = IType td /\ td_vftable td = Some vt /\
    vt_functions vt = fs /\ vt_type vt = TConstPtr (TRaw vp).
Proof. exact whole_build_vftable. Qed.
Print Assumptions C04_whole_build.

(** non-vacuity of [C04_whole_build]: the type [Base] of Examples.v (a vftable block with an indexed
    function) is an input item of an accepted, collision-free build *)
Example C04_whole_build_example :
  exists st0 st it0 gd td0 it r s rest gfs,
    input_state 4 Examples.ex_mods = Ok st0 /\ collision_freeb (st_reg st0) = true /\
    pyxis_resolve (hook_schedule []) 4 Examples.ex_mods = BOk st /\
    reg_get (st_reg st0) ["m"; "Base"]%string = Some it0 /\ it_state it0 = Unresolved gd /\ gi_inner gd = GIType td0 /\
    reg_get (st_reg st) ["m"; "Base"]%string = Some it /\ it_state it = Resolved r /\
    gt_stmts td0 = s :: rest /\ gs_field s = GVftable gfs /\ List.length gfs = 2%nat.
Proof. vm_compute. do 10 eexists. repeat split; reflexivity. Qed.

Theorem C04_emitted_vftable_struct :
  forall (order : schedule) (ptr : N) (mods : list (path * gmodule)) (st0 st : sstate)
      (files : list (string * Sexp.sexp)) (p : path) (it0 : item) (gd : gitemdef) 
      (td0 : gtypedef) (it : item) (r : resolved) (parent : path) (stm : gstatement)
      (rest : list gstatement) (gfs : list gfunction),
    input_state ptr mods = Ok st0 ->
    collision_free (st_reg st0) ->
    pyxis_resolve order ptr mods = BOk st ->
    Emit.write_all st = Ok files ->
    reg_get (st_reg st0) p = Some it0 ->
    it_state it0 = Unresolved gd ->
    gi_inner gd = GIType td0 ->
    reg_get (st_reg st) p = Some it ->
    it_state it = Resolved r ->
    path_parent p = Some parent ->
    parent <> [] ->
    alookup parent (st_modules st0) <> None ->
    gt_stmts td0 = stm :: rest ->
    gs_field stm = GVftable gfs ->
    exists
      (tname : string) (vp : path) (fs : list sfunction) (td : type_def) (vt : tvftable) 
    (f : Sexp.sexp) (items : list Sexp.sexp) (s : Sexp.sexp) (efs : list EmitReaders.efield),
      path_last p = Some tname /\
      vftable_path p = Some vp /\
      rs_inner r = IType td /\
      td_vftable td = Some vt /\
      vt_functions vt = fs /\
      vt_type vt = TConstPtr (TRaw vp) /\
      In (Emit.out_path parent, f) files /\
      EmitReaders.file_items f = Some items /\
      EmitReaders.find_struct (tname +++ "Vftable") items = Some s /\
      EmitReaders.struct_name s = Some (tname +++ "Vftable") /\
      EmitReaders.struct_vis s = Some (gi_vis gd) /\
      EmitReaders.struct_repr s = Some (EmitReaders.ReprAlign (reg_ptr (st_reg st))) /\
      EmitReaders.struct_fields s = Some efs /\ Forall2 (EmitFnShape.slot_of_function p) fs efs.
Proof. exact EmitFnFinal.emitted_vftable_whole_build. Qed.
Print Assumptions C04_emitted_vftable_struct.

Theorem C04_vftable_item_struct :
  forall (R R' : registry) (fuel : nat) (owner : path) (v : vis) (fs : list sfunction) 
      (vit : item) (items : list Sexp.sexp),
    vftable_item R owner v fs = Some vit ->
    Emit.build_item R' fuel vit = Ok items ->
    exists
      (parent : path) (tname : string) (vp : path) (s : Sexp.sexp) (rest : list Sexp.sexp) 
    (efs : list EmitReaders.efield),
      path_parent owner = Some parent /\
      path_last owner = Some tname /\
      vftable_path owner = Some vp /\
      vp = path_join parent (tname +++ "Vftable") /\
      it_path vit = vp /\
      items = s :: rest /\
      EmitReaders.item_kind s = Some "struct"%string /\
      EmitReaders.struct_name s = Some (tname +++ "Vftable") /\
      EmitReaders.struct_vis s = Some v /\
      EmitReaders.struct_repr s = Some (EmitReaders.ReprAlign (reg_ptr R)) /\
      EmitReaders.struct_fields s = Some efs /\ Forall2 (EmitFnShape.slot_of_function owner) fs efs.
Proof. exact EmitFnShape.vftable_item_struct_shape. Qed.
Print Assumptions C04_vftable_item_struct.

Theorem C04_slot_and_wrapper_abi :
  forall (owner : path) (f : sfunction) (ef : EmitReaders.efield),
    EmitFnShape.slot_of_function owner f ef ->
    EmitFnReaders.fnptr_abi (EmitReaders.ef_ty ef) =
    Some (EmitFnReaders.fp_abi (EmitFnShape.wrapper_fnptr f)).
Proof. exact EmitFnShape.slot_and_wrapper_abi. Qed.
Print Assumptions C04_slot_and_wrapper_abi.

(** ** slot offsets of the EMITTED vftable struct (EmitVftLayout.v) *)
From Coq Require Import List NArith ZArith Bool String Lia.
From PyxisModel Require Import Base Sexp Grammar SemTypes Registry Sem SemLemmas FunctionLemmas
     VftableLemmas RustLayout Emit WholeBuild EmitReaders EmitShape EmitLayout EmitFnReaders
     EmitFnShape EmitVftLayout.
Import ListNotations.
Local Open Scope string_scope.
Local Open Scope list_scope.
Local Open Scope N_scope.


Theorem C04_emitted_slot_offset : forall R R' fuel owner v fs vit items k f,
  vftable_item R owner v fs = Some vit -> build_item R' fuel vit = Ok items ->
  reg_ptr R' = reg_ptr R -> nth_error fs k = Some f ->
  exists s rest efs ef noffs sz al,
    items = s :: rest /\ struct_fields s = Some efs /\ nth_error efs k = Some ef /\
    slot_of_function owner f ef /\
    emitted_struct_layout (map (type_sa R') (slot_types owner fs)) s = Some (noffs, sz, al) /\
    nth_error noffs k = Some (ef_name ef, N.of_nat k * reg_ptr R).
Proof. exact vftable_item_emitted_slot. Qed.
Print Assumptions C04_emitted_slot_offset.


Theorem C04_emitted_declared_slot :
  forall order ptr mods st0 st files p it0 gd td0 it r parent stm rest gfs j gf,
  input_state ptr mods = Ok st0 -> collision_free (st_reg st0) ->
  pyxis_resolve order ptr mods = BOk st -> write_all st = Ok files ->
  reg_get (st_reg st0) p = Some it0 -> it_state it0 = Unresolved gd -> gi_inner gd = GIType td0 ->
  reg_get (st_reg st) p = Some it -> it_state it = Resolved r ->
  path_parent p = Some parent -> parent <> [] -> alookup parent (st_modules st0) <> None ->
  gt_stmts td0 = stm :: rest -> gs_field stm = GVftable gfs ->
  nth_error gfs j = Some gf ->
  exists tname fs file items s efs noffs idxs positions e pos ef,
    path_last p = Some tname /\
    In (out_path parent, file) files /\ file_items file = Some items /\
    find_struct (tname +++ "Vftable") items = Some s /\ struct_fields s = Some efs /\
    emitted_struct_layout (map (type_sa (st_reg st)) (slot_types p fs)) s
    = Some (noffs, N.of_nat (List.length fs) * ptr, ptr) /\
    map fn_index gfs = map Some idxs /\ slot_plan idxs 0 = Some (positions, e) /\
    nth_error positions j = Some pos /\
    (forall i, fn_index gf = Some (Some i) -> pos = i) /\
    nth_error efs (N.to_nat pos) = Some ef /\ ef_name ef = gf_name gf /\
    fnptr_abi (ef_ty ef) <> None /\
    nth_error noffs (N.to_nat pos) = Some (gf_name gf, pos * ptr).
Proof. exact emitted_declared_slot_whole_build. Qed.
Print Assumptions C04_emitted_declared_slot.
