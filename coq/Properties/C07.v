(** * C07 — base members are re-exposed on derived types and act on the base sub-object.

    PROVED: for the base regions b_0 .. b_m of a type (region order), [inject_bases] appends, per
    resolved base and in order, one forwarding function for every public associated function of the
    base's type (which by construction already contains what that base inherited) and, for every
    base but the first, for every public virtual function; each forwarding function copies
    arguments, return type, visibility, doc and convention and has body "call <name> on field b_i";
    it keeps the name when still unused, else is called <field>_<name>.  RustExec: calling it equals
    calling the original on the object at [self + offset(b_i)], and that offset is the prefix-sum
    offset of the base field in the emitted struct (the declared address, by C01).

    SECOND HALF (AsRef/AsMut), at the end of this file: [C07_hierarchy_*], [C07_asref_*] -- the
    hierarchy specified independently of the emitter ([HierSpec.bases_of]); the conversion items
    read back from the emitted tokens are, for every sub-object whose type occurs once, exactly one
    AsRef and one AsMut impl borrowing the place [self.<field path>]; for a type occurring more than
    once no impl, one [_CONFLICTING_] const per sub-object; the reflexive pair; nothing else; the
    place is at the sub-object's actual offset ([ConvOffset.sub_at]: the sum of the prefix-sum
    offsets of the nested base fields), under sized regions and distinct field names along the
    chain; end to end for every type of an accepted build ([C07_asref_whole_build]).
    REFUTED ON THE MODEL (RefutedWitnesses*.v; open findings F24, F10): [C07_inherited_rename_collides_refuted_F24] --
    the emitted impl has two functions named b_f; [C07_receiverless_forward_refuted_F10] -- a forwarded function without
    receiver whose body mentions self. *)
From Coq Require Import List NArith ZArith Bool String Lia.
From PyxisModel Require Import Base Grammar SemTypes Registry Sem SemLemmas PlacementLemmas
     InheritLemmas RustExec ExecLemmas WholeBuild WholeBuildMore.
Import ListNotations.

From PyxisModel Require RefutedInputs RefutedWitnessesOrder RefutedWitnessesEmit RefutedWitnessesFn.

Theorem C07_functions : forall R bases acc acc',
  inject_bases R bases O acc = Ok acc' ->
  exists contribs news,
    base_contributions R bases O = Ok contribs /\
    fst acc' = (fst acc ++ List.concat news)%list /\
    Forall2 (fun c new => Forall2 (forwards (fst c)) (snd c) new) contribs news.
Proof. intros. eapply inject_bases_spec; eauto. Qed.
Print Assumptions C07_functions.

Theorem C07_naming : forall base g fs acc,
  sf_is_public g = true ->
  exists f' rest,
    fst (add_functions base (g :: fs) acc) = (fst acc ++ f' :: rest)%list /\
    sf_name f' = (if str_mem (sf_name g) (snd acc) then base +++ "_" +++ sf_name g else sf_name g) /\
    forwards base g f'.
Proof. exact add_functions_first_name. Qed.
Print Assumptions C07_naming.

Theorem C07_exec : forall R mem callee fu p td name f b g off bp self vals,
  typedef_of R p = Some td -> find_method td name = Some f -> sf_body f = BField b g ->
  field_offset R (td_regions td) b 0 = Some (off, TRaw bp) ->
  call_method R mem callee (S fu) p name self vals =
  call_method R mem callee fu bp g (N.add self off) vals.
Proof. intros. eapply exec_field_forward; eauto. Qed.
Print Assumptions C07_exec.

Theorem C07_subobject_offset : forall R rs name off ty,
  field_offset R rs name 0%N = Some (off, ty) ->
  exists r, In (off, r) (offsets_of R 0%N rs) /\ r_name r = Some name /\ r_type r = ty.
Proof. intros. eapply field_offset_in_offsets; eauto. Qed.
Print Assumptions C07_subobject_offset.

(** ** End to end (WholeBuildMore.v): the per-attempt theorems above, for every item of every accepted
    [collision_free] build, in terms of the FINAL registry *)
Theorem C07_whole_build : forall order ptr mods st0 st p it0 gd td0 it r td,
  input_state ptr mods = Ok st0 -> collision_free (st_reg st0) ->
  pyxis_resolve order ptr mods = BOk st ->
  reg_get (st_reg st0) p = Some it0 -> it_state it0 = Unresolved gd -> gi_inner gd = GIType td0 ->
  reg_get (st_reg st) p = Some it -> it_state it = Resolved r -> rs_inner r = IType td ->
  let used0 := match td_vftable td with Some vt => map sf_name (vt_functions vt) | None => [] end in
  exists contribs news own parent module0 R_mid,
    base_contributions (st_reg st) (filter r_is_base (td_regions td)) O = Ok contribs /\
    td_assoc td = fst (forward_all contribs ([], used0)) ++ own /\
    fst (forward_all contribs ([], used0)) = List.concat news /\
    Forall2 (fun c new => Forall2 (forwards (fst c)) (snd c) new) contribs news /\
    (* the rest: the type's own impl block *)
    path_parent p = Some parent /\ alookup parent (st_modules st0) = Some module0 /\
    ext (st_reg st0) R_mid (st_reg st) /\
    match alookup p (m_impls module0) with
    | Some blk => Forall2 (fun f sf => function_build R_mid (module_scope module0) false f = Ok sf) (gb_fns blk) own
    | None => own = []
    end.
Proof. exact WholeBuildMore.C07_whole_build. Qed.
Print Assumptions C07_whole_build.

(** ** C07, second half — reference conversions to base types.

    "For every direct or transitive base type that occurs once in the hierarchy the derived type
    converts by reference (AsRef/AsMut) to that base at the base's actual offset, and for a base
    type that occurs more than once no such conversion is emitted."

    PROVED (theories/HierSpec.v, ConvReaders.v, ConvShape.v, ConvOffset.v, ConvFinal.v):
    - the hierarchy is specified independently of the emitter ([bases_of]); the emitter's
      [dfs_hierarchy] computes it, for every fuel that does not end in the model's fuel panic;
    - the items [conversions] emits, read back with readers that do not mention the printers
      ([read_as_ref], [read_conflict_const]), are: for every sub-object [(fp, t)] of the hierarchy
      whose type occurs once, exactly one [AsRef<t>] and one [AsMut<t>] impl for the type, whose
      bodies borrow the place [self.fp]; for a type that occurs more than once, no impl to it, and
      one [_CONFLICTING_] const per sub-object instead; the reflexive pair; nothing else;
    - the place [self.fp] (fields looked up by name) is at the sub-object's actual offset: the sum,
      along the chain of nested base fields, of the prefix-sum offset of each base field in the
      struct that contains it (by C01/C02 the declared addresses), provided regions are sized and
      field names are distinct along the chain;
    - end to end, for every type of an accepted build, in the file of its module, w.r.t. the
      hierarchy computed in the FINAL registry.
    "The base's actual offset" in the model: [ConvOffset.sub_at]. *)
From PyxisModel Require Import Base Sexp Grammar SemTypes Registry Sem RustExec PlacementLemmas Emit
     WholeBuild EmitReaders EmitShape EmitFinal HierSpec ConvReaders ConvShape ConvOffset ConvFinal.
Import ListNotations.
Local Open Scope string_scope.
Local Open Scope list_scope.

(** ** the hierarchy *)
Theorem C07_hierarchy_is_spec : forall fuel R td h,
  dfs_hierarchy fuel R td [] = Ok h ->
  bases_of R td [] h /\ (forall h', bases_of R td [] h' -> h' = h).
Proof.
  intros fuel R td h H. split; [eapply dfs_hierarchy_sound; eauto|].
  intros h' H'. symmetry. eapply dfs_hierarchy_spec; eauto.
Qed.
Print Assumptions C07_hierarchy_is_spec.

Theorem C07_hierarchy_fuel : forall f1 f2 R td pre,
  dfs_hierarchy f1 R td pre = dfs_hierarchy f2 R td pre \/
  dfs_hierarchy f1 R td pre = fuel_panic \/ dfs_hierarchy f2 R td pre = fuel_panic.
Proof. exact dfs_hierarchy_fuel_only. Qed.
Print Assumptions C07_hierarchy_fuel.

Theorem C07_hierarchy_prefix : forall fuel R td pre,
  dfs_hierarchy fuel R td pre = omap (map (prepend pre)) (dfs_hierarchy fuel R td []).
Proof. exact dfs_hierarchy_prefix. Qed.
Print Assumptions C07_hierarchy_prefix.

(** ** the emitted conversions *)
Theorem C07_asref_read : forall R fuel name td conv,
  conversions R fuel name td = Ok conv ->
  exists h,
    bases_of R td [] h /\ dfs_hierarchy fuel R td [] = Ok h /\
    forallb (fun x => forallb ident_ok (fst x)) h = true /\
    forallb (fun x => stype_ok (snd x)) h = true /\
    all_somes read_as_ref conv = base_impls name h ++ refl_impls name /\
    all_somes read_conflict_const conv = spec_conflicts name h /\
    Forall conv_item conv.
Proof. exact conversions_read. Qed.
Print Assumptions C07_asref_read.

Theorem C07_asref_unique_base : forall R fuel name td conv h fp t,
  conversions R fuel name td = Ok conv -> bases_of R td [] h ->
  In (fp, t) h -> occurrences t h = 1%nat ->
  exists l1 l2,
    all_somes read_as_ref conv
      = l1 ++ [conv_of name false (type_tokens t) fp; conv_of name true (type_tokens t) fp] ++ l2 ++ refl_impls name /\
    Forall (fun ci => ci_target ci <> type_tokens t) (l1 ++ l2) /\
    exists e1 e2, In e1 conv /\ In e2 conv /\
      read_as_ref e1 = Some (conv_of name false (type_tokens t) fp) /\
      read_as_ref e2 = Some (conv_of name true (type_tokens t) fp).
Proof. intros. eapply conversions_unique_base; eauto. Qed.
Print Assumptions C07_asref_unique_base.

Theorem C07_asref_repeated_base : forall R fuel name td conv h t,
  conversions R fuel name td = Ok conv -> bases_of R td [] h ->
  2 <= occurrences t h ->
  (forall e ci, In e conv -> read_as_ref e = Some ci -> ci_target ci = type_tokens t ->
                In ci (refl_impls name) /\ type_tokens t = [tk name]) /\
  (forall fp, In (fp, t) h ->
     exists e, In e conv /\ read_as_ref e = None /\
       read_conflict_const e
         = Some (conflict_name name fp, doc_lines (conflict_doc name t (map fst (same_type t h))))).
Proof. intros. eapply conversions_repeated_base; eauto. Qed.
Print Assumptions C07_asref_repeated_base.

Theorem C07_asref_repeated_base_in_module : forall R fuel name td conv h a b r,
  conversions R fuel name td = Ok conv -> bases_of R td [] h ->
  2 <= occurrences (TRaw (a :: b :: r)) h ->
  forall e ci, In e conv -> read_as_ref e = Some ci -> ci_target ci <> type_tokens (TRaw (a :: b :: r)).
Proof. intros. eapply conversions_repeated_base_qualified; eauto. Qed.
Print Assumptions C07_asref_repeated_base_in_module.

Theorem C07_asref_reflexive : forall R fuel name td conv,
  conversions R fuel name td = Ok conv ->
  exists pre e1 e2, conv = pre ++ [e1; e2] /\
    read_as_ref e1 = Some (conv_of name false [tk name] []) /\
    read_as_ref e2 = Some (conv_of name true [tk name] []).
Proof. exact conversions_reflexive. Qed.
Print Assumptions C07_asref_reflexive.

Theorem C07_asref_nothing_else : forall R fuel name td conv h,
  conversions R fuel name td = Ok conv -> bases_of R td [] h ->
  Forall conv_item conv /\
  List.length conv = (List.length (base_impls name h) + 2 + List.length (spec_conflicts name h))%nat.
Proof. exact conversions_nothing_else. Qed.
Print Assumptions C07_asref_nothing_else.

Theorem C07_asref_every_impl : forall R fuel name td conv h e ci,
  conversions R fuel name td = Ok conv -> bases_of R td [] h ->
  In e conv -> read_as_ref e = Some ci ->
  ci_self ci = name /\ ci_ret ci = ci_target ci /\
  ((ci_path ci = [] /\ ci_target ci = [tk name]) \/
   exists t, In (ci_path ci, t) h /\ occurrences t h = 1%nat /\ ci_target ci = type_tokens t).
Proof. intros. eapply conversions_every_impl; eauto. Qed.
Print Assumptions C07_asref_every_impl.

(** ** the offset *)
Theorem C07_asref_offset : forall R td h,
  bases_of R td [] h -> hier_ok R (td_regions td) ->
  Forall (fun x => exists off,
            sub_at R (td_regions td) (fst x) off (snd x) /\
            place_offset R td (fst x) = Some (off, Some (snd x)) /\
            forall self, place_addr R td self (fst x) = Some (self + off)%N) h.
Proof. exact hierarchy_path_offset. Qed.
Print Assumptions C07_asref_offset.

(** a direct base: the offset is the one the forwarded functions use ([C07_exec]) *)
Theorem C07_asref_direct_base_offset : forall R td h name t,
  bases_of R td [] h -> hier_ok R (td_regions td) -> In ([name], t) h ->
  exists off r, field_offset R (td_regions td) name 0%N = Some (off, t) /\
    In (off, r) (offsets_of R 0%N (td_regions td)) /\ r_name r = Some name /\ r_type r = t /\
    forall self, place_addr R td self [name] = Some (self + off)%N.
Proof. exact direct_base_offset. Qed.
Print Assumptions C07_asref_direct_base_offset.

(** ** end to end *)
Theorem C07_asref_whole_build : forall order ptr mods st0 st files p it0 gd td0,
  input_state ptr mods = Ok st0 -> NoDup (map fst mods) -> collision_free (st_reg st0) ->
  keeps_work order ->
  pyxis_resolve order ptr mods = BOk st -> write_all st = Ok files ->
  reg_get (st_reg st0) p = Some it0 -> it_state it0 = Unresolved gd -> gi_inner gd = GIType td0 ->
  path_parent p <> Some [] ->
  exists parent name it r td f pre s mid conv post h,
    path_parent p = Some parent /\ path_last p = Some name /\
    reg_get (st_reg st) p = Some it /\ it_state it = Resolved r /\ rs_inner r = IType td /\
    In (out_path parent, f) files /\
    file_items f = Some (pre ++ (s :: mid ++ conv) ++ post) /\
    find_struct name (pre ++ (s :: mid ++ conv) ++ post) = Some s /\
    struct_shape name (rs_align r) (it_vis it0) td s /\
    Forall not_conv (s :: mid) /\
    bases_of (st_reg st) td [] h /\
    conversions (st_reg st) (S (List.length (reg_types (st_reg st)))) name td = Ok conv /\
    forallb (fun x => forallb ident_ok (fst x)) h = true /\
    forallb (fun x => stype_ok (snd x)) h = true /\
    all_somes read_as_ref (s :: mid ++ conv) = base_impls name h ++ refl_impls name /\
    all_somes read_conflict_const (s :: mid ++ conv) = spec_conflicts name h /\
    Forall conv_item conv /\
    Forall (fun x => exists off, sub_at (st_reg st) (td_regions td) (fst x) off (snd x)) h /\
    (hier_ok (st_reg st) (td_regions td) ->
     Forall (fun x => exists off,
               sub_at (st_reg st) (td_regions td) (fst x) off (snd x) /\
               place_offset (st_reg st) td (fst x) = Some (off, Some (snd x)) /\
               forall self, place_addr (st_reg st) td self (fst x) = Some (self + off)%N) h).
Proof. exact emitted_conversions_whole_build. Qed.
Print Assumptions C07_asref_whole_build.

Theorem C07_asref_offsets_whole_build : forall order ptr mods st0 st p it0 gd td0 it r td h,
  input_state ptr mods = Ok st0 -> collision_free (st_reg st0) ->
  pyxis_resolve order ptr mods = BOk st ->
  reg_get (st_reg st0) p = Some it0 -> it_state it0 = Unresolved gd -> gi_inner gd = GIType td0 ->
  reg_get (st_reg st) p = Some it -> it_state it = Resolved r -> rs_inner r = IType td ->
  bases_of (st_reg st) td [] h ->
  Forall (fun x => declared_type st0 (snd x)) h ->
  NoDup (region_names (td_regions td)) ->
  Forall (fun x => forall bp btd, snd x = TRaw bp -> typedef_of (st_reg st) bp = Some btd ->
                                  NoDup (region_names (td_regions btd))) h ->
  hier_ok (st_reg st) (td_regions td) /\
  Forall (fun x => exists off,
            sub_at (st_reg st) (td_regions td) (fst x) off (snd x) /\
            place_offset (st_reg st) td (fst x) = Some (off, Some (snd x)) /\
            forall self, place_addr (st_reg st) td self (fst x) = Some (self + off)%N) h.
Proof. exact conversions_offsets_whole_build. Qed.
Print Assumptions C07_asref_offsets_whole_build.

Theorem C07_inherited_rename_collides_refuted_F24 :
  exists
      (st0 st : sstate) (files : RefutedInputs.files_t) (fns : list
                                                                 (option string * option vis *
                                                                  option (list EmitFnReaders.eparam) *
                                                                  option EmitFnReaders.ebody *
                                                                  option bool)),
      RefutedInputs.built [] 4 RefutedInputs.f24_mods st0 st files /\
      RefutedInputs.side_ok st0 = true /\
      option_map (fun td : type_def => map (fun f : sfunction => (sf_name f, sf_body f)) (td_assoc td))
        (RefutedInputs.typedef_at st ["a"%string; "D"%string]) =
      Some
        [("f"%string, BField "x" "f"); ("b_f"%string, BField "x" "b_f"); ("b_f"%string, BField "b" "f")] /\
      option_map (map RefutedWitnessesFn.fn_view) (RefutedInputs.impl_fns files "a.rs" "D") = Some fns /\
      map
        (fun
           v : option string * option vis * option (list EmitFnReaders.eparam) *
               option EmitFnReaders.ebody * option bool => (fst (fst (fst (fst v))), snd (fst v))) fns =
      [(Some "f"%string, Some (EmitFnReaders.EBField "x" "f" []));
       (Some "b_f"%string, Some (EmitFnReaders.EBField "x" "b_f" []));
       (Some "b_f"%string, Some (EmitFnReaders.EBField "b" "f" []))] /\
      ~
      NoDup
        (map
           (fun
              v : option string * option vis * option (list EmitFnReaders.eparam) *
                  option EmitFnReaders.ebody * option bool => fst (fst (fst (fst v)))) fns).
Proof. exact RefutedWitnessesFn.C07_C13_inherited_rename_collides_refuted_F24. Qed.
Print Assumptions C07_inherited_rename_collides_refuted_F24.

Theorem C07_receiverless_forward_refuted_F10 :
  exists
      (st0 st : sstate) (files : RefutedInputs.files_t) (f : Sexp.sexp) (params : 
                                                                         list EmitFnReaders.eparam) 
    (body : list Sexp.sexp),
      RefutedInputs.built [] 4 RefutedInputs.f10_mods st0 st files /\
      RefutedInputs.side_ok st0 = true /\
      RefutedInputs.impl_fns files "a.rs" "D" = Some [f] /\
      EmitFnReaders.fn_name f = Some "create"%string /\
      EmitFnReaders.fn_params f = Some params /\
      EmitFnReaders.fn_body f = Some body /\
      RefutedInputs.has_receiver params = false /\
      EmitFnReaders.fn_wrapper_body f =
      Some (EmitFnReaders.EBField "b" "create" [EmitFnReaders.CAName "x"]) /\
      In (Sexp.Atom "self") body /\ RefutedInputs.tokens_mention "self" body = true.
Proof. exact RefutedWitnessesFn.C07_C13_receiverless_forward_refuted_F10. Qed.
Print Assumptions C07_receiverless_forward_refuted_F10.
