(** * C07 — base members are re-exposed on derived types and act on the base sub-object.

    PROVED: for the base regions b_0 .. b_m of a type (region order), [inject_bases] appends, per
    resolved base and in order, one forwarding function for every public associated function of the
    base's type (which by construction already contains what that base inherited) and, for every
    base but the first, for every public virtual function; each forwarding function copies
    arguments, return type, visibility, doc and convention and has body "call <name> on field b_i";
    it keeps the name when still unused, else is called <field>_<name>.  RustExec: calling it equals
    calling the original on the object at [self + offset(b_i)], and that offset is the prefix-sum
    offset of the base field in the emitted struct (the declared address, by C01). *)
From Coq Require Import List NArith ZArith Bool String Lia.
From PyxisModel Require Import Base Grammar SemTypes Registry Sem SemLemmas PlacementLemmas
     InheritLemmas RustExec ExecLemmas.
Import ListNotations.

Theorem C07_functions : forall R bases acc acc',
  inject_bases R bases O acc = Ok acc' ->
  exists contribs news,
    base_contributions R bases O = Ok contribs /\
    fst acc' = (fst acc ++ List.concat news)%list /\
    Forall2 (fun c new => Forall2 (forwards (fst c)) (snd c) new) contribs news.
Proof. intros. eapply inject_bases_spec; eauto. Qed.
Print Assumptions C07_functions.

Theorem C07_naming : forall base g fs acc,
  sf_is_public g = true ->
  exists f' rest,
    fst (add_functions base (g :: fs) acc) = (fst acc ++ f' :: rest)%list /\
    sf_name f' = (if str_mem (sf_name g) (snd acc) then base +++ "_" +++ sf_name g else sf_name g) /\
    forwards base g f'.
Proof. exact add_functions_first_name. Qed.
Print Assumptions C07_naming.

Theorem C07_exec : forall R mem callee fu p td name f b g off bp self vals,
  typedef_of R p = Some td -> find_method td name = Some f -> sf_body f = BField b g ->
  field_offset R (td_regions td) b 0 = Some (off, TRaw bp) ->
  call_method R mem callee (S fu) p name self vals =
  call_method R mem callee fu bp g (N.add self off) vals.
Proof. intros. eapply exec_field_forward; eauto. Qed.
Print Assumptions C07_exec.

Theorem C07_subobject_offset : forall R rs name off ty,
  field_offset R rs name 0%N = Some (off, ty) ->
  exists r, In (off, r) (offsets_of R 0%N rs) /\ r_name r = Some name /\ r_type r = ty.
Proof. intros. eapply field_offset_in_offsets; eauto. Qed.
Print Assumptions C07_subobject_offset.
