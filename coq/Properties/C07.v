(** * C07 — base members are re-exposed on derived types and act on the base sub-object.

    PROVED: for the base regions b_0 .. b_m of a type (region order), [inject_bases] appends, per
    resolved base and in order, one forwarding function for every public associated function of the
    base's type (which by construction already contains what that base inherited) and, for every
    base but the first, for every public virtual function; each forwarding function copies
    arguments, return type, visibility, doc and convention and has body "call <name> on field b_i";
    it keeps the name when still unused, else is called <field>_<name>.  RustExec: calling it equals
    calling the original on the object at [self + offset(b_i)], and that offset is the prefix-sum
    offset of the base field in the emitted struct (the declared address, by C01). *)
From Coq Require Import List NArith ZArith Bool String Lia.
From PyxisModel Require Import Base Grammar SemTypes Registry Sem SemLemmas PlacementLemmas
     InheritLemmas RustExec ExecLemmas WholeBuild WholeBuildMore.
Import ListNotations.

Theorem C07_functions : forall R bases acc acc',
  inject_bases R bases O acc = Ok acc' ->
  exists contribs news,
    base_contributions R bases O = Ok contribs /\
    fst acc' = (fst acc ++ List.concat news)%list /\
    Forall2 (fun c new => Forall2 (forwards (fst c)) (snd c) new) contribs news.
Proof. intros. eapply inject_bases_spec; eauto. Qed.
Print Assumptions C07_functions.

Theorem C07_naming : forall base g fs acc,
  sf_is_public g = true ->
  exists f' rest,
    fst (add_functions base (g :: fs) acc) = (fst acc ++ f' :: rest)%list /\
    sf_name f' = (if str_mem (sf_name g) (snd acc) then base +++ "_" +++ sf_name g else sf_name g) /\
    forwards base g f'.
Proof. exact add_functions_first_name. Qed.
Print Assumptions C07_naming.

Theorem C07_exec : forall R mem callee fu p td name f b g off bp self vals,
  typedef_of R p = Some td -> find_method td name = Some f -> sf_body f = BField b g ->
  field_offset R (td_regions td) b 0 = Some (off, TRaw bp) ->
  call_method R mem callee (S fu) p name self vals =
  call_method R mem callee fu bp g (N.add self off) vals.
Proof. intros. eapply exec_field_forward; eauto. Qed.
Print Assumptions C07_exec.

Theorem C07_subobject_offset : forall R rs name off ty,
  field_offset R rs name 0%N = Some (off, ty) ->
  exists r, In (off, r) (offsets_of R 0%N rs) /\ r_name r = Some name /\ r_type r = ty.
Proof. intros. eapply field_offset_in_offsets; eauto. Qed.
Print Assumptions C07_subobject_offset.

(** ** End to end (WholeBuildMore.v): the per-attempt theorems above, for every item of every accepted
    [collision_free] build, in terms of the FINAL registry *)
Theorem C07_whole_build : forall order ptr mods st0 st p it0 gd td0 it r td,
  input_state ptr mods = Ok st0 -> collision_free (st_reg st0) ->
  pyxis_resolve order ptr mods = BOk st ->
  reg_get (st_reg st0) p = Some it0 -> it_state it0 = Unresolved gd -> gi_inner gd = GIType td0 ->
  reg_get (st_reg st) p = Some it -> it_state it = Resolved r -> rs_inner r = IType td ->
  let used0 := match td_vftable td with Some vt => map sf_name (vt_functions vt) | None => [] end in
  exists contribs news own parent module0 R_mid,
    base_contributions (st_reg st) (filter r_is_base (td_regions td)) O = Ok contribs /\
    td_assoc td = fst (forward_all contribs ([], used0)) ++ own /\
    fst (forward_all contribs ([], used0)) = List.concat news /\
    Forall2 (fun c new => Forall2 (forwards (fst c)) (snd c) new) contribs news /\
    (* the rest: the type's own impl block *)
    path_parent p = Some parent /\ alookup parent (st_modules st0) = Some module0 /\
    ext (st_reg st0) R_mid (st_reg st) /\
    match alookup p (m_impls module0) with
    | Some blk => Forall2 (fun f sf => function_build R_mid (module_scope module0) false f = Ok sf) (gb_fns blk) own
    | None => own = []
    end.
Proof. exact WholeBuildMore.C07_whole_build. Qed.
Print Assumptions C07_whole_build.

