(** * C06 — a derived type's vftable extends its first base's vftable and shares its pointer.

    PROVED, for every state and description: if the first [#[base]] field's type has a vftable then
    an accepted derived type (a) gets no vftable pointer region of its own, (b) when it declares a
    vftable block, the base's functions are a prefix of its own, position by position record-equal
    (name, receiver and parameters, return type, convention -- and, as the code demands, visibility
    and doc), its table has at least as many slots, and its accessor goes through that base field,
    (c) when it declares none, it inherits the base's table and type; the accessor's value is the
    base sub-object's accessor at the base field's offset (RustExec).  When no first base supplies a
    vftable and the type declares one, the single pointer-sized [vftable] field is region 0 at
    offset 0 and every declared field comes after it ([resolve_regions_offsets], start = pointer
    size). *)
From Coq Require Import List NArith ZArith Bool String Lia.
From PyxisModel Require Import Base Grammar SemTypes Registry Sem SemLemmas PlacementLemmas
     InheritLemmas RustExec ExecLemmas PerAttempt WholeBuild WholeBuildMore.
Import ListNotations.

Theorem C06_shares_base_pointer : forall st owner v fb vfs st' vt vr base_name bvt,
  owner <> [] ->
  vftable_build st owner v (Some fb) vfs = Ok (st', vt, vr) ->
  opt_region_name_and_vftable (st_reg st') (Some fb) = Ok (Some (base_name, bvt)) ->
  vr = None /\
  match vfs with
  | Some fs =>
    prefix_equal (vt_functions bvt) fs = true /\
    (List.length (vt_functions bvt) <= List.length fs)%nat /\
    exists vp, vftable_path owner = Some vp /\
      vt = Some {| vt_functions := fs; vt_base_field := Some base_name; vt_type := TConstPtr (TRaw vp) |}
  | None =>
    st' = st /\
    vt = Some {| vt_functions := vt_functions bvt; vt_base_field := Some base_name; vt_type := vt_type bvt |}
  end.
Proof. exact vftable_build_with_base. Qed.
Print Assumptions C06_shares_base_pointer.

Theorem C06_prefix_positionwise : forall base derived,
  prefix_equal base derived = true -> (List.length base <= List.length derived)%nat ->
  forall k b, nth_error base k = Some b ->
  exists d, nth_error derived k = Some d /\
    sf_name b = sf_name d /\ sf_cc b = sf_cc d /\ sf_vis b = sf_vis d /\
    list_eqb sarg_eqb (sf_args b) (sf_args d) = true /\
    opt_eqb stype_eqb (sf_ret b) (sf_ret d) = true.
Proof. exact prefix_positionwise. Qed.
Print Assumptions C06_prefix_positionwise.

(** a mutated slot cannot be accepted: any position where the records differ rejects the type *)
Theorem C06_mutation_rejected : forall base derived k b d,
  nth_error base k = Some b -> nth_error derived k = Some d -> sfunction_eqb b d = false ->
  prefix_equal base derived = false.
Proof.
  induction base as [|b0 base IH]; intros derived k b d Hb Hd Hne; [destruct k; discriminate|].
  destruct derived as [|d0 derived]; [destruct k; discriminate|].
  cbn [prefix_equal]. destruct k as [|k]; cbn [nth_error] in *.
  - inversion Hb; inversion Hd; subst. rewrite Hne. reflexivity.
  - rewrite (IH derived k b d Hb Hd Hne). apply andb_false_r.
Qed.
Print Assumptions C06_mutation_rejected.

Theorem C06_own_pointer_first : forall st owner v ts pending vfs st' regions vt size,
  resolve_regions st owner v ts pending vfs = Ok (st', regions, vt, size) ->
  reg_u8 (st_reg st') ->
  (forall x, vt = Some x -> vt_base_field x = None) -> vt <> None ->
  exists ty fs, hd_error regions = Some (vftable_region_of (TConstPtr ty)) /\
    vt = Some {| vt_functions := fs; vt_base_field := None; vt_type := TConstPtr ty |} /\
    Forall (fun x => r_name (snd x) <> None -> In x (offsets_of (st_reg st') 0 regions))
           (declared_offsets (st_reg st') (reg_ptr (st_reg st')) pending).
Proof. exact own_pointer_first. Qed.
Print Assumptions C06_own_pointer_first.

Theorem C06_accessor_value : forall R mem fu p td vt b off bp self,
  typedef_of R p = Some td -> td_vftable td = Some vt -> vt_base_field vt = Some b ->
  field_offset R (td_regions td) b 0 = Some (off, TRaw bp) ->
  vftable_ptr R mem (S fu) p self = vftable_ptr R mem fu bp (N.add self off).
Proof. intros. eapply exec_vftable_ptr_base; eauto. Qed.
Print Assumptions C06_accessor_value.

(** ** End to end (WholeBuildMore.v): the per-attempt theorems above, for every item of every accepted
    [collision_free] build, in terms of the FINAL registry *)
Theorem C06_whole_build_shared : forall order ptr mods st0 st p it0 gd td0 it r td fb bp itb rsb tdb bvt,
  input_state ptr mods = Ok st0 -> collision_free (st_reg st0) ->
  pyxis_resolve order ptr mods = BOk st ->
  reg_get (st_reg st0) p = Some it0 -> it_state it0 = Unresolved gd -> gi_inner gd = GIType td0 ->
  reg_get (st_reg st) p = Some it -> it_state it = Resolved r -> rs_inner r = IType td ->
  (* the first [#[base]] field of the item, and the item of its type, in the final registry *)
  find r_is_base (td_regions td) = Some fb -> r_type fb = TRaw bp ->
  reg_get (st_reg st) bp = Some itb -> item_resolved itb = Some rsb -> rs_inner rsb = IType tdb ->
  td_vftable tdb = Some bvt ->
  exists base_name vt R_mid module n pending vfs,
    r_name fb = Some base_name /\
    (* the vftable descriptor of the derived type goes through the base field *)
    td_vftable td = Some vt /\ vt_base_field vt = Some base_name /\
    (* [vfs]: the type's own vftable block, converted in the registry [R_mid] of the accepted
       attempt (everything resolved there is unchanged in the final registry) *)
    ext (st_reg st0) R_mid (st_reg st) /\
    foldM (process_statement R_mid (module_scope module)) (gt_stmts td0) (O, ([], None))
      = Ok (n, (pending, vfs)) /\
    match vfs with
    | Some fs =>
      vt_functions vt = fs /\
      (exists vp, vftable_path p = Some vp /\ vt_type vt = TConstPtr (TRaw vp)) /\
      prefix_equal (vt_functions bvt) fs = true /\
      (List.length (vt_functions bvt) <= List.length fs)%nat /\
      forall k b, nth_error (vt_functions bvt) k = Some b ->
        exists d, nth_error fs k = Some d /\
          sf_name b = sf_name d /\ sf_cc b = sf_cc d /\ sf_vis b = sf_vis d /\
          list_eqb sarg_eqb (sf_args b) (sf_args d) = true /\
          opt_eqb stype_eqb (sf_ret b) (sf_ret d) = true
    | None => vt_functions vt = vt_functions bvt /\ vt_type vt = vt_type bvt
    end /\
    (* no vftable pointer of its own: the declared fields are laid out from offset 0 *)
    Forall (fun x => r_name (snd x) <> None -> In x (offsets_of (st_reg st) 0%N (td_regions td)))
           (declared_offsets (st_reg st) 0%N pending).
Proof. exact WholeBuildMore.C06_whole_build_shared. Qed.
Print Assumptions C06_whole_build_shared.

Theorem C06_whole_build_own_pointer : forall order ptr mods st0 st p it0 gd td0 it r td s rest gfs,
  input_state ptr mods = Ok st0 -> collision_free (st_reg st0) ->
  pyxis_resolve order ptr mods = BOk st ->
  reg_get (st_reg st0) p = Some it0 -> it_state it0 = Unresolved gd -> gi_inner gd = GIType td0 ->
  reg_get (st_reg st) p = Some it -> it_state it = Resolved r -> rs_inner r = IType td ->
  (* the description starts with a vftable block *)
  gt_stmts td0 = s :: rest -> gs_field s = GVftable gfs ->
  (* there is no first [#[base]] field, or its type has no vftable in the final registry *)
  (forall fb bp itb rsb tdb,
     find r_is_base (td_regions td) = Some fb -> r_type fb = TRaw bp ->
     reg_get (st_reg st) bp = Some itb -> item_resolved itb = Some rsb -> rs_inner rsb = IType tdb ->
     td_vftable tdb = None) ->
  exists vp fs R_mid module n pending,
    vftable_path p = Some vp /\
    td_vftable td = Some {| vt_functions := fs; vt_base_field := None; vt_type := TConstPtr (TRaw vp) |} /\
    (* the pointer is region 0, at offset 0, one pointer long *)
    hd_error (td_regions td) = Some (vftable_region_of (TConstPtr (TRaw vp))) /\
    hd_error (offsets_of (st_reg st) 0%N (td_regions td)) = Some (0%N, vftable_region_of (TConstPtr (TRaw vp))) /\
    region_sa (st_reg st) (vftable_region_of (TConstPtr (TRaw vp))) = (reg_ptr (st_reg st), reg_ptr (st_reg st)) /\
    (* every declared field comes after it *)
    ext (st_reg st0) R_mid (st_reg st) /\
    foldM (process_statement R_mid (module_scope module)) (gt_stmts td0) (O, ([], None))
      = Ok (n, (pending, Some fs)) /\
    Forall (fun x => r_name (snd x) <> None -> In x (offsets_of (st_reg st) 0%N (td_regions td)))
           (declared_offsets (st_reg st) (reg_ptr (st_reg st)) pending).
Proof. exact WholeBuildMore.C06_whole_build_own_pointer. Qed.
Print Assumptions C06_whole_build_own_pointer.

