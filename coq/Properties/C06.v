(** * C06 — a derived type's vftable extends its first base's vftable and shares its pointer.

    PROVED, for every state and description: if the first [#[base]] field's type has a vftable then
    an accepted derived type (a) gets no vftable pointer region of its own, (b) when it declares a
    vftable block, the base's functions are a prefix of its own, position by position record-equal
    (name, receiver and parameters, return type, convention -- and, as the code demands, visibility
    and doc), its table has at least as many slots, and its accessor goes through that base field,
    (c) when it declares none, it inherits the base's table and type; the accessor's value is the
    base sub-object's accessor at the base field's offset (RustExec).  When no first base supplies a
    vftable and the type declares one, the single pointer-sized [vftable] field is region 0 at
    offset 0 and every declared field comes after it ([resolve_regions_offsets], start = pointer
    size).

    ON THE EMITTED TEXT (EmitInherit.v), accepted collision-free build, at the end of this file:
    - [C06_emitted_shared_pointer]: the emitted struct of a type whose first base carries a vftable
      has no GENERATED pointer field (every field is a declared one or [_field_<hex>] padding; "no
      field named vftable" needs that the description declares none, which nothing checks), the
      base field carries [crate::<base path>], and the [vftable()] accessor read back from the
      inherent impl goes through that base field and casts to the derived table type (own block)
      or the base's table type (no block);
    - [C06_emitted_own_pointer]: without such a base, the first emitted field is the private,
      undocumented [vftable: *const <T>Vftable] at offset 0 of the Reference layout, it is the
      only generated pointer, declared fields start at the pointer size, the accessor reads it;
    - [C06_emitted_vftable_prefix] / [_any_depth]: the emitted [<Derived>Vftable] struct starts with
      the fields of the emitted base table (possibly in another file; through any number of
      first-base levels): same name, visibility, docs, ABI, return and parameter tokens except the
      receiver's pointee, and slot k of both sits at k * ptr -- the base's struct is a layout
      prefix; [C06_derived_table_starts_with_the_base_table]: [prefix_equal] means the derived
      record list literally begins with the base's. *)
From Coq Require Import List NArith ZArith Bool String Lia.
From PyxisModel Require Import Base Grammar SemTypes Registry Sem SemLemmas PlacementLemmas
     InheritLemmas RustExec ExecLemmas PerAttempt WholeBuild WholeBuildMore.
Import ListNotations.

From PyxisModel Require EmitReaders EmitShape EmitFnReaders EmitFnShape EmitVftLayout EmitInherit.

Theorem C06_shares_base_pointer : forall st owner v fb vfs st' vt vr base_name bvt,
  owner <> [] ->
  vftable_build st owner v (Some fb) vfs = Ok (st', vt, vr) ->
  opt_region_name_and_vftable (st_reg st') (Some fb) = Ok (Some (base_name, bvt)) ->
  vr = None /\
  match vfs with
  | Some fs =>
    prefix_equal (vt_functions bvt) fs = true /\
    (List.length (vt_functions bvt) <= List.length fs)%nat /\
    exists vp, vftable_path owner = Some vp /\
      vt = Some {| vt_functions := fs; vt_base_field := Some base_name; vt_type := TConstPtr (TRaw vp) |}
  | None =>
    st' = st /\
    vt = Some {| vt_functions := vt_functions bvt; vt_base_field := Some base_name; vt_type := vt_type bvt |}
  end.
Proof. exact vftable_build_with_base. Qed.
Print Assumptions C06_shares_base_pointer.

Theorem C06_prefix_positionwise : forall base derived,
  prefix_equal base derived = true -> (List.length base <= List.length derived)%nat ->
  forall k b, nth_error base k = Some b ->
  exists d, nth_error derived k = Some d /\
    sf_name b = sf_name d /\ sf_cc b = sf_cc d /\ sf_vis b = sf_vis d /\
    list_eqb sarg_eqb (sf_args b) (sf_args d) = true /\
    opt_eqb stype_eqb (sf_ret b) (sf_ret d) = true.
Proof. exact prefix_positionwise. Qed.
Print Assumptions C06_prefix_positionwise.

(** a mutated slot cannot be accepted: any position where the records differ rejects the type *)
Theorem C06_mutation_rejected : forall base derived k b d,
  nth_error base k = Some b -> nth_error derived k = Some d -> sfunction_eqb b d = false ->
  prefix_equal base derived = false.
Proof.
  induction base as [|b0 base IH]; intros derived k b d Hb Hd Hne; [destruct k; discriminate|].
  destruct derived as [|d0 derived]; [destruct k; discriminate|].
  cbn [prefix_equal]. destruct k as [|k]; cbn [nth_error] in *.
  - inversion Hb; inversion Hd; subst. rewrite Hne. reflexivity.
  - rewrite (IH derived k b d Hb Hd Hne). apply andb_false_r.
Qed.
Print Assumptions C06_mutation_rejected.

Theorem C06_own_pointer_first : forall st owner v ts pending vfs st' regions vt size,
  resolve_regions st owner v ts pending vfs = Ok (st', regions, vt, size) ->
  reg_u8 (st_reg st') ->
  (forall x, vt = Some x -> vt_base_field x = None) -> vt <> None ->
  exists ty fs, hd_error regions = Some (vftable_region_of (TConstPtr ty)) /\
    vt = Some {| vt_functions := fs; vt_base_field := None; vt_type := TConstPtr ty |} /\
    Forall (fun x => r_name (snd x) <> None -> In x (offsets_of (st_reg st') 0 regions))
           (declared_offsets (st_reg st') (reg_ptr (st_reg st')) pending).
Proof. exact own_pointer_first. Qed.
Print Assumptions C06_own_pointer_first.

Theorem C06_accessor_value : forall R mem fu p td vt b off bp self,
  typedef_of R p = Some td -> td_vftable td = Some vt -> vt_base_field vt = Some b ->
  field_offset R (td_regions td) b 0 = Some (off, TRaw bp) ->
  vftable_ptr R mem (S fu) p self = vftable_ptr R mem fu bp (N.add self off).
Proof. intros. eapply exec_vftable_ptr_base; eauto. Qed.
Print Assumptions C06_accessor_value.

(** ** End to end (WholeBuildMore.v): the per-attempt theorems above, for every item of every accepted
    [collision_free] build, in terms of the FINAL registry *)
Theorem C06_whole_build_shared : forall order ptr mods st0 st p it0 gd td0 it r td fb bp itb rsb tdb bvt,
  input_state ptr mods = Ok st0 -> collision_free (st_reg st0) ->
  pyxis_resolve order ptr mods = BOk st ->
  reg_get (st_reg st0) p = Some it0 -> it_state it0 = Unresolved gd -> gi_inner gd = GIType td0 ->
  reg_get (st_reg st) p = Some it -> it_state it = Resolved r -> rs_inner r = IType td ->
  (* the first [#[base]] field of the item, and the item of its type, in the final registry *)
  find r_is_base (td_regions td) = Some fb -> r_type fb = TRaw bp ->
  reg_get (st_reg st) bp = Some itb -> item_resolved itb = Some rsb -> rs_inner rsb = IType tdb ->
  td_vftable tdb = Some bvt ->
  exists base_name vt R_mid module n pending vfs,
    r_name fb = Some base_name /\
    (* the vftable descriptor of the derived type goes through the base field *)
    td_vftable td = Some vt /\ vt_base_field vt = Some base_name /\
    (* [vfs]: the type's own vftable block, converted in the registry [R_mid] of the accepted
       attempt (everything resolved there is unchanged in the final registry) *)
    ext (st_reg st0) R_mid (st_reg st) /\
    foldM (process_statement R_mid (module_scope module)) (gt_stmts td0) (O, ([], None))
      = Ok (n, (pending, vfs)) /\
    match vfs with
    | Some fs =>
      vt_functions vt = fs /\
      (exists vp, vftable_path p = Some vp /\ vt_type vt = TConstPtr (TRaw vp)) /\
      prefix_equal (vt_functions bvt) fs = true /\
      (List.length (vt_functions bvt) <= List.length fs)%nat /\
      forall k b, nth_error (vt_functions bvt) k = Some b ->
        exists d, nth_error fs k = Some d /\
          sf_name b = sf_name d /\ sf_cc b = sf_cc d /\ sf_vis b = sf_vis d /\
          list_eqb sarg_eqb (sf_args b) (sf_args d) = true /\
          opt_eqb stype_eqb (sf_ret b) (sf_ret d) = true
    | None => vt_functions vt = vt_functions bvt /\ vt_type vt = vt_type bvt
    end /\
    (* no vftable pointer of its own: the declared fields are laid out from offset 0 *)
    Forall (fun x => r_name (snd x) <> None -> In x (offsets_of (st_reg st) 0%N (td_regions td)))
           (declared_offsets (st_reg st) 0%N pending).
Proof. exact WholeBuildMore.C06_whole_build_shared. Qed.
Print Assumptions C06_whole_build_shared.

Theorem C06_whole_build_own_pointer : forall order ptr mods st0 st p it0 gd td0 it r td s rest gfs,
  input_state ptr mods = Ok st0 -> collision_free (st_reg st0) ->
  pyxis_resolve order ptr mods = BOk st ->
  reg_get (st_reg st0) p = Some it0 -> it_state it0 = Unresolved gd -> gi_inner gd = GIType td0 ->
  reg_get (st_reg st) p = Some it -> it_state it = Resolved r -> rs_inner r = IType td ->
  (* the description starts with a vftable block *)
  gt_stmts td0 = s :: rest -> gs_field s = GVftable gfs ->
  (* there is no first [#[base]] field, or its type has no vftable in the final registry *)
  (forall fb bp itb rsb tdb,
     find r_is_base (td_regions td) = Some fb -> r_type fb = TRaw bp ->
     reg_get (st_reg st) bp = Some itb -> item_resolved itb = Some rsb -> rs_inner rsb = IType tdb ->
     td_vftable tdb = None) ->
  exists vp fs R_mid module n pending,
    vftable_path p = Some vp /\
    td_vftable td = Some {| vt_functions := fs; vt_base_field := None; vt_type := TConstPtr (TRaw vp) |} /\
    (* the pointer is region 0, at offset 0, one pointer long *)
    hd_error (td_regions td) = Some (vftable_region_of (TConstPtr (TRaw vp))) /\
    hd_error (offsets_of (st_reg st) 0%N (td_regions td)) = Some (0%N, vftable_region_of (TConstPtr (TRaw vp))) /\
    region_sa (st_reg st) (vftable_region_of (TConstPtr (TRaw vp))) = (reg_ptr (st_reg st), reg_ptr (st_reg st)) /\
    (* every declared field comes after it *)
    ext (st_reg st0) R_mid (st_reg st) /\
    foldM (process_statement R_mid (module_scope module)) (gt_stmts td0) (O, ([], None))
      = Ok (n, (pending, Some fs)) /\
    Forall (fun x => r_name (snd x) <> None -> In x (offsets_of (st_reg st) 0%N (td_regions td)))
           (declared_offsets (st_reg st) (reg_ptr (st_reg st)) pending).
Proof. exact WholeBuildMore.C06_whole_build_own_pointer. Qed.
Print Assumptions C06_whole_build_own_pointer.

Theorem C06_emitted_shared_pointer :
  forall (order : schedule) (ptr : N) (mods : list (path * gmodule)) (st0 st : sstate)
      (files : list (string * Sexp.sexp)) (p : path) (it0 : item) (gd : gitemdef) 
      (td0 : gtypedef) (it : item) (r : resolved) (td : type_def) (fb : region) 
      (bp : path) (itb : item) (rsb : resolved) (tdb : type_def) (bvt : tvftable),
    input_state ptr mods = Ok st0 ->
    NoDup (map fst mods) ->
    collision_free (st_reg st0) ->
    EmitFinal.keeps_work order ->
    pyxis_resolve order ptr mods = BOk st ->
    Emit.write_all st = Ok files ->
    reg_get (st_reg st0) p = Some it0 ->
    it_state it0 = Unresolved gd ->
    gi_inner gd = GIType td0 ->
    path_parent p <> Some [] ->
    reg_get (st_reg st) p = Some it ->
    it_state it = Resolved r ->
    rs_inner r = IType td ->
    find r_is_base (td_regions td) = Some fb ->
    r_type fb = TRaw bp ->
    reg_get (st_reg st) bp = Some itb ->
    item_resolved itb = Some rsb ->
    rs_inner rsb = IType tdb ->
    td_vftable tdb = Some bvt ->
    let R := st_reg st in
    exists
      (parent : path) (name base_name : string) (vt : tvftable) (vp : path) 
    (f : Sexp.sexp) (items : list Sexp.sexp) (s : Sexp.sexp) (efs : list EmitReaders.efield) 
    (k : nat) (ef : EmitReaders.efield) (im : Sexp.sexp) (fns : list Sexp.sexp) 
    (a : Sexp.sexp) (others : list Sexp.sexp) (R_mid : registry) (module : smodule) 
    (n : nat) (pending : list (option N * region)) (vfs : option (list sfunction)),
      path_parent p = Some parent /\
      path_last p = Some name /\
      vftable_path p = Some vp /\
      r_name fb = Some base_name /\
      td_vftable td = Some vt /\
      vt_base_field vt = Some base_name /\
      vt_type vt = (if EmitInherit.declares_vftable td0 then TConstPtr (TRaw vp) else vt_type bvt) /\
      In (Emit.out_path parent, f) files /\
      EmitReaders.file_items f = Some items /\
      EmitReaders.find_struct name items = Some s /\
      EmitShape.struct_shape name (rs_align r) (gi_vis gd) td s /\
      EmitReaders.struct_fields s = Some efs /\
      Forall2 EmitShape.field_of_region (td_regions td) efs /\
      Forall
        (fun e : EmitReaders.efield =>
         EmitInherit.ef_unnamed_gen e \/ EmitInherit.ef_of_statement (gt_stmts td0) e) efs /\
      (EmitInherit.no_field_named "vftable" (gt_stmts td0) ->
       Forall (fun e : EmitReaders.efield => EmitReaders.ef_name e <> "vftable"%string) efs) /\
      nth_error (td_regions td) k = Some fb /\
      nth_error efs k = Some ef /\
      (forall (j : nat) (y : region),
       j < k -> nth_error (td_regions td) j = Some y -> r_is_base y = false) /\
      (hd_error (td_regions td) = Some fb -> k = 0) /\
      EmitReaders.ef_name ef = base_name /\
      EmitReaders.ef_ty ef = Emit.type_tokens (TRaw bp) /\
      EmitReaders.ef_vis ef = r_vis fb /\
      EmitLayout.emitted_struct_layout (EmitInherit.emitted_field_sas R td) s =
      Some (EmitInherit.emitted_offsets R td efs, rs_size r, rs_align r) /\
      (exists off : N,
         nth_error (EmitInherit.emitted_offsets R td efs) k = Some (base_name, off) /\
         (k = 0 -> off = 0%N)) /\
      ext (st_reg st0) R_mid R /\
      foldM (process_statement R_mid (module_scope module)) (gt_stmts td0) (0, ([], None)) =
      Ok (n, (pending, vfs)) /\
      Forall
        (fun x : N * region =>
         forall nm : string,
         r_name (snd x) = Some nm -> In (nm, fst x) (EmitInherit.emitted_offsets R td efs))
        (declared_offsets R 0 pending) /\
      In im items /\
      EmitFnReaders.inherent_impl im = Some (name, fns) /\
      fns = a :: others /\
      EmitFnReaders.find_fn "vftable" fns = Some a /\
      EmitFnShape.accessor_shape vt a /\
      EmitFnReaders.fn_ret a = Some (Emit.type_tokens (vt_type vt)) /\
      EmitFnShape.fn_accessor a = Some (Some base_name, Emit.type_tokens (vt_type vt)).
Proof. exact EmitInherit.emitted_shared_pointer_whole_build. Qed.
Print Assumptions C06_emitted_shared_pointer.

Theorem C06_emitted_own_pointer :
  forall (order : schedule) (ptr : N) (mods : list (path * gmodule)) (st0 st : sstate)
      (files : list (string * Sexp.sexp)) (p : path) (it0 : item) (gd : gitemdef) 
      (td0 : gtypedef) (it : item) (r : resolved) (td : type_def),
    input_state ptr mods = Ok st0 ->
    NoDup (map fst mods) ->
    collision_free (st_reg st0) ->
    EmitFinal.keeps_work order ->
    pyxis_resolve order ptr mods = BOk st ->
    Emit.write_all st = Ok files ->
    reg_get (st_reg st0) p = Some it0 ->
    it_state it0 = Unresolved gd ->
    gi_inner gd = GIType td0 ->
    path_parent p <> Some [] ->
    reg_get (st_reg st) p = Some it ->
    it_state it = Resolved r ->
    rs_inner r = IType td ->
    EmitInherit.declares_vftable td0 = true ->
    (forall (fb : region) (bp : path) (itb : item) (rsb : resolved) (tdb : type_def),
     find r_is_base (td_regions td) = Some fb ->
     r_type fb = TRaw bp ->
     reg_get (st_reg st) bp = Some itb ->
     item_resolved itb = Some rsb -> rs_inner rsb = IType tdb -> td_vftable tdb = None) ->
    let R := st_reg st in
    exists
      (parent : path) (name : string) (vp : path) (fs : list sfunction) (vt : tvftable) 
    (f : Sexp.sexp) (items : list Sexp.sexp) (s : Sexp.sexp) (efs : list EmitReaders.efield) 
    (ef0 : EmitReaders.efield) (efs' : list EmitReaders.efield) (im : Sexp.sexp) 
    (fns : list Sexp.sexp) (a : Sexp.sexp) (others : list Sexp.sexp) (R_mid : registry) 
    (module : smodule) (n : nat) (pending : list (option N * region)),
      path_parent p = Some parent /\
      path_last p = Some name /\
      vftable_path p = Some vp /\
      td_vftable td = Some vt /\
      vt = {| vt_functions := fs; vt_base_field := None; vt_type := TConstPtr (TRaw vp) |} /\
      In (Emit.out_path parent, f) files /\
      EmitReaders.file_items f = Some items /\
      EmitReaders.find_struct name items = Some s /\
      EmitShape.struct_shape name (rs_align r) (gi_vis gd) td s /\
      EmitReaders.struct_fields s = Some efs /\
      Forall2 EmitShape.field_of_region (td_regions td) efs /\
      efs = ef0 :: efs' /\
      EmitInherit.ef_own_pointer (TConstPtr (TRaw vp)) ef0 /\
      Forall
        (fun e : EmitReaders.efield =>
         EmitInherit.ef_unnamed_gen e \/ EmitInherit.ef_of_statement (gt_stmts td0) e) efs' /\
      (EmitInherit.no_field_named "vftable" (gt_stmts td0) ->
       Forall (fun e : EmitReaders.efield => EmitReaders.ef_name e <> "vftable"%string) efs') /\
      EmitLayout.emitted_struct_layout (EmitInherit.emitted_field_sas R td) s =
      Some (EmitInherit.emitted_offsets R td efs, rs_size r, rs_align r) /\
      hd_error (EmitInherit.emitted_offsets R td efs) = Some ("vftable"%string, 0%N) /\
      hd_error (EmitInherit.emitted_field_sas R td) = Some (ptr, ptr) /\
      (forall (nm : string) (off : N),
       nth_error (EmitInherit.emitted_offsets R td efs) 1 = Some (nm, off) -> off = ptr) /\
      ext (st_reg st0) R_mid R /\
      foldM (process_statement R_mid (module_scope module)) (gt_stmts td0) (0, ([], None)) =
      Ok (n, (pending, Some fs)) /\
      Forall
        (fun x : N * region =>
         forall nm : string,
         r_name (snd x) = Some nm -> In (nm, fst x) (EmitInherit.emitted_offsets R td efs))
        (declared_offsets R ptr pending) /\
      In im items /\
      EmitFnReaders.inherent_impl im = Some (name, fns) /\
      fns = a :: others /\
      EmitFnReaders.find_fn "vftable" fns = Some a /\
      EmitFnShape.accessor_shape vt a /\
      EmitFnReaders.fn_ret a = Some (Emit.type_tokens (TConstPtr (TRaw vp))) /\
      EmitFnShape.fn_accessor a = Some (None, Emit.type_tokens (TConstPtr (TRaw vp))).
Proof. exact EmitInherit.emitted_own_pointer_whole_build. Qed.
Print Assumptions C06_emitted_own_pointer.

Theorem C06_emitted_vftable_prefix :
  forall (order : schedule) (ptr : N) (mods : list (path * gmodule)) (st0 st : sstate)
      (files : list (string * Sexp.sexp)) (p : path) (it0 : item) (gd : gitemdef) 
      (td0 : gtypedef) (it : item) (r : resolved) (td : type_def) (fb : region) 
      (bp : path) (itb0 : item) (gdb : gitemdef) (tdb0 : gtypedef) (itb : item) 
      (rsb : resolved) (tdb : type_def) (bvt : tvftable),
    input_state ptr mods = Ok st0 ->
    NoDup (map fst mods) ->
    collision_free (st_reg st0) ->
    pyxis_resolve order ptr mods = BOk st ->
    Emit.write_all st = Ok files ->
    reg_get (st_reg st0) p = Some it0 ->
    it_state it0 = Unresolved gd ->
    gi_inner gd = GIType td0 ->
    path_parent p <> Some [] ->
    EmitInherit.declares_vftable td0 = true ->
    reg_get (st_reg st) p = Some it ->
    it_state it = Resolved r ->
    rs_inner r = IType td ->
    find r_is_base (td_regions td) = Some fb ->
    r_type fb = TRaw bp ->
    reg_get (st_reg st0) bp = Some itb0 ->
    it_state itb0 = Unresolved gdb ->
    gi_inner gdb = GIType tdb0 ->
    path_parent bp <> Some [] ->
    EmitInherit.declares_vftable tdb0 = true ->
    reg_get (st_reg st) bp = Some itb ->
    item_resolved itb = Some rsb ->
    rs_inner rsb = IType tdb ->
    td_vftable tdb = Some bvt -> EmitInherit.vftable_prefix_emitted ptr st files p td bvt bp.
Proof. exact EmitInherit.emitted_vftable_prefix_whole_build. Qed.
Print Assumptions C06_emitted_vftable_prefix.

Theorem C06_emitted_vftable_prefix_any_depth :
  forall (order : schedule) (ptr : N) (mods : list (path * gmodule)) (st0 st : sstate)
      (files : list (string * Sexp.sexp)) (p : path) (it0 : item) (gd : gitemdef) 
      (td0 : gtypedef) (it : item) (r : resolved) (td : type_def) (fb : region) 
      (bp : path) (itb : item) (rsb : resolved) (tdb : type_def) (bvt : tvftable),
    input_state ptr mods = Ok st0 ->
    NoDup (map fst mods) ->
    collision_free (st_reg st0) ->
    pyxis_resolve order ptr mods = BOk st ->
    Emit.write_all st = Ok files ->
    EmitInherit.no_root_decl st0 ->
    reg_get (st_reg st0) p = Some it0 ->
    it_state it0 = Unresolved gd ->
    gi_inner gd = GIType td0 ->
    EmitInherit.declares_vftable td0 = true ->
    reg_get (st_reg st) p = Some it ->
    it_state it = Resolved r ->
    rs_inner r = IType td ->
    find r_is_base (td_regions td) = Some fb ->
    r_type fb = TRaw bp ->
    reg_get (st_reg st) bp = Some itb ->
    item_resolved itb = Some rsb ->
    rs_inner rsb = IType tdb ->
    td_vftable tdb = Some bvt ->
    exists q : path,
      EmitInherit.vft_origin st0 st bvt q /\ EmitInherit.vftable_prefix_emitted ptr st files p td bvt q.
Proof. exact EmitInherit.emitted_vftable_prefix_whole_build_origin. Qed.
Print Assumptions C06_emitted_vftable_prefix_any_depth.

Theorem C06_derived_table_starts_with_the_base_table :
  forall base derived : list sfunction,
    prefix_equal base derived = true ->
    Datatypes.length base <= Datatypes.length derived -> firstn (Datatypes.length base) derived = base.
Proof. exact EmitInherit.prefix_equal_firstn. Qed.
Print Assumptions C06_derived_table_starts_with_the_base_table.
