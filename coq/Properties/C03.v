(** * C03 — a type description is accepted exactly when it is realisable.

    SPEC ([C03Core.realisable], written from the property text): offsets are the declared address or
    the end of the predecessor; each offset is >= the end of the predecessor; the natural end is <= a
    declared size (then the total is the declared size); packed excludes an align attribute; otherwise
    the effective alignment (align attribute, else the sole member's alignment, else the pointer
    size) is a power of two, >= every member's alignment, every member's offset is a multiple of its
    alignment and the total size is a multiple of the effective alignment.  Zero-length array
    members keep their place in the address ordering but are not members of the emitted struct.

    PROVED HERE (for all field lists of any length, all numeric values, any pointer size):
    [C03Core.accept] -- the arithmetic skeleton of resolve_regions + finish + the alignment checks
    -- accepts iff the description is realisable.

    NOT PROVED (named so that it is not mistaken for the full claim): that the model's [type_build]
    restricted to such descriptions computes [C03Core.accept].  That refinement step is *checked* on
    every run (the full model, the core and the real implementation are evaluated on the same
    descriptions, exhaustively on the small scope stated in the evidence), not proved; hence the
    theorem below carries the suffix [_partial] w.r.t. the model and is full w.r.t. the core. *)
From Coq Require Import List NArith Bool.
From PyxisModel Require Import C03Core.
Import ListNotations.
Local Open Scope N_scope.

Definition C03_full_statement : Prop :=
  forall ptr fs size align packed, wf_fields fs ->
    (exists r, accept ptr fs size align packed = Some r) <-> realisable ptr fs size align packed.

Theorem C03_accept_iff_realisable_partial : C03_full_statement.
Proof. exact accept_iff_realisable. Qed.
Print Assumptions C03_accept_iff_realisable_partial.

(** the spec is decidable; the boolean twin is what the correspondence evaluates against the
    real implementation's verdict *)
Theorem C03_spec_reflect : forall ptr fs size align packed,
  realisableb ptr fs size align packed = true <-> realisable ptr fs size align packed.
Proof. exact realisableb_spec. Qed.
Print Assumptions C03_spec_reflect.

Theorem C03_acceptb_eq_spec : forall ptr fs size align packed, wf_fields fs ->
  acceptb ptr fs size align packed = realisableb ptr fs size align packed.
Proof. exact acceptb_realisableb. Qed.
Print Assumptions C03_acceptb_eq_spec.

(** non-vacuity / sanity of the spec on literals: a realisable description, and each way of not
    being realisable *)
Definition f (a : option N) (s al : N) : field := {| addr := a; sz := s; al := al; zarr := false |}.
Example C03_example :
  realisableb 4 [f None 4 4; f (Some 8) 2 2; f None 2 2] (Some 12) None false = true /\
  realisableb 4 [f None 4 4; f (Some 3) 2 2] None None false = false /\          (* overlap *)
  realisableb 4 [f None 1 1; f (Some 2) 4 4; f None 2 2] None None false = false /\ (* misaligned *)
  realisableb 4 [f None 4 4; f None 4 4; f None 4 4] None (Some 12) false = false /\ (* align not 2^k *)
  realisableb 4 [f None 4 4; f None 1 1] None None false = false /\             (* size not multiple *)
  realisableb 4 [f None 4 4; f None 1 1] None None true = true /\               (* packed exempt *)
  realisableb 4 [f None 4 4] None (Some 4) true = false /\                      (* packed + align *)
  realisableb 8 [f None 4 4] (Some 3) None false = false.                       (* size too small *)
Proof. vm_compute. repeat split. Qed.
