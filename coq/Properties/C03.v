(** * C03 — a type description is accepted exactly when it is realisable.

    SPEC ([C03Core.realisable], written from the property text): offsets are the declared address or
    the end of the predecessor; each offset is >= the end of the predecessor; the natural end is <= a
    declared size (then the total is the declared size); packed excludes an align attribute; otherwise
    the effective alignment (align attribute, else the sole member's alignment, else the pointer
    size) is a power of two, >= every member's alignment, every member's offset is a multiple of its
    alignment and the total size is a multiple of the effective alignment.  Zero-length array
    members keep their place in the address ordering but are not members of the emitted struct.

    PROVED HERE (for all field lists of any length, all numeric values, any pointer size):
    [C03Core.accept] -- the arithmetic skeleton of resolve_regions + finish + the alignment checks
    -- accepts iff the description is realisable.

    ALSO PROVED ([C03_model_decision_refines_core], C03Refine.v): the model's own decision code --
    [resolve_regions] followed by [compute_alignment], for a type without vftable block and without
    base fields whose field sizes/alignments are known, alignments powers of two, offsets within
    usize -- returns Ok exactly when [C03Core.accept] returns Some, with the same size and alignment,
    and an error otherwise (never a deferral or panic).  Together with the core theorem:
    [C03_model_accepts_iff_realisable].
    THE WRAPPER TOO (C03Whole.v): [C03_type_build_accepts_iff] -- for every state, path and type
    description in the class the property quantifies over ([class_okb], decidable: plain fields whose
    types resolve with known size and power-of-two alignment, no vftable block / base field /
    defaultable marker, numbers within usize), the model's whole [type_build] (attribute scan,
    statement loop, placement, alignment checks) returns Ok exactly when the attributes are well
    formed ([attrs_okb]: no negative size/align/singleton/address, doc values are strings) and the
    description is [realisable]; [C03_type_build_size_align]: the resolved size and alignment are
    the ones [accept] computes and the state is unchanged; [C03_type_build_rejects_otherwise]:
    otherwise the result is an error value -- never a deferral or a panic;
    [C03_bad_attrs_rejected], [C03_packed_with_align_never_accepted] (no class hypothesis).
    The first theorem keeps its historical [_partial] suffix (its statement is pinned).
    THE LARGER CLASSES (C03Tail.v, C03Bases.v, C03Vft.v; the decision code re-proved from any starting
    accumulator, without hypothesis on base markers):
    [C03_bases_type_build_accepts_iff] -- fields may carry `#[base]`, the type may have an impl
    block and the `defaultable` marker ([class_bases_okb]: only known sizes / power-of-two alignments
    / numbers within usize are required): the whole [type_build] returns Ok exactly when the
    attributes are well formed, the description is [realisable] -- a base is one member with the
    size and alignment of its type -- and [extras_okb] holds, the decidable conjunction of what the
    code demands besides the layout: the first `base` field is named and its type is a resolved
    struct, so is every kept `base` field, every impl function converts under a fresh name, and with
    `defaultable` every region (padding included) has a defaultable type;
    [C03_vft_type_build_accepts_iff] -- the same with a vftable block (own pointer laid out first, or
    the pointer shared with a polymorphic first base): additionally the block converts
    ([C03_vftable_block_converts_iff]: no negative index/size, no index below a function's position,
    size not below the slot count, every function converts) and the layout is [realisable] for the
    pointer followed by the fields, sizes read in the registry AFTER the table was registered;
    [_size_align] and [_rejects_otherwise] (an error value, never a deferral or a panic) for both;
    [C03_own_vftable_never_defaultable]; [C03_plain_class_is_a_special_case].
    NOT PROVED: descriptions with unresolved / unsized field types (the deferral paths, C10),
    alignments that are not powers of two, a vftable block that is not the first statement. *)
From Coq Require Import List NArith Bool.
From PyxisModel Require Import Base Grammar SemTypes Registry Sem PlacementLemmas C03Core.
From PyxisModel Require C03Refine.
Import ListNotations.
Local Open Scope N_scope.

From PyxisModel Require C03Whole.

From PyxisModel Require C03Tail C03Bases C03Vft.

Definition C03_full_statement : Prop :=
  forall ptr fs size align packed, wf_fields fs ->
    (exists r, accept ptr fs size align packed = Some r) <-> realisable ptr fs size align packed.

Theorem C03_accept_iff_realisable_partial : C03_full_statement.
Proof. exact accept_iff_realisable. Qed.
Print Assumptions C03_accept_iff_realisable_partial.

(** the spec is decidable; the boolean twin is what the correspondence evaluates against the
    real implementation's verdict *)
Theorem C03_spec_reflect : forall ptr fs size align packed,
  realisableb ptr fs size align packed = true <-> realisable ptr fs size align packed.
Proof. exact realisableb_spec. Qed.
Print Assumptions C03_spec_reflect.

Theorem C03_acceptb_eq_spec : forall ptr fs size align packed, wf_fields fs ->
  acceptb ptr fs size align packed = realisableb ptr fs size align packed.
Proof. exact acceptb_realisableb. Qed.
Print Assumptions C03_acceptb_eq_spec.

(** non-vacuity / sanity of the spec on literals: a realisable description, and each way of not
    being realisable *)
Definition f (a : option N) (s al : N) : field := {| addr := a; sz := s; al := al; zarr := false |}.
Example C03_example :
  realisableb 4 [f None 4 4; f (Some 8) 2 2; f None 2 2] (Some 12) None false = true /\
  realisableb 4 [f None 4 4; f (Some 3) 2 2] None None false = false /\          (* overlap *)
  realisableb 4 [f None 1 1; f (Some 2) 4 4; f None 2 2] None None false = false /\ (* misaligned *)
  realisableb 4 [f None 4 4; f None 4 4; f None 4 4] None (Some 12) false = false /\ (* align not 2^k *)
  realisableb 4 [f None 4 4; f None 1 1] None None false = false /\             (* size not multiple *)
  realisableb 4 [f None 4 4; f None 1 1] None None true = true /\               (* packed exempt *)
  realisableb 4 [f None 4 4] None (Some 4) true = false /\                      (* packed + align *)
  realisableb 8 [f None 4 4] (Some 3) None false = false.                       (* size too small *)
Proof. vm_compute. repeat split. Qed.

(** the model's decision code computes the core's [accept] *)
Theorem C03_model_decision_refines_core :
  forall (R : registry), reg_u8 R -> align_of R (TRaw ["u8"%string]) = Some 1 ->
  forall st owner v ta pending,
  st_reg st = R ->
  Forall (fun p => C03Refine.known R (snd p)) pending ->
  Forall (fun p => C03Refine.okP (SemLemmas.region_sa R (snd p))) pending ->
  find r_is_base (map snd pending) = None ->
  C03Refine.all_fit R 0 pending -> (forall t, ta_size ta = Some t -> t <= usize_max) ->
  match accept (reg_ptr R) (map (C03Refine.absf R) pending) (ta_size ta) (ta_align ta) (ta_packed ta) with
  | Some (total, a) =>
    exists regions, resolve_regions st owner v (ta_size ta) pending None = Ok (st, regions, None, total) /\
                    compute_alignment R ta regions total = Ok a
  | None =>
    (exists m, resolve_regions st owner v (ta_size ta) pending None = Err m) \/
    (exists regions total m, resolve_regions st owner v (ta_size ta) pending None = Ok (st, regions, None, total) /\
                             compute_alignment R ta regions total = Err m)
  end.
Proof. exact C03Refine.decision_refines. Qed.
Print Assumptions C03_model_decision_refines_core.

(** hence: the model's decision code accepts exactly the realisable descriptions *)
Theorem C03_model_accepts_iff_realisable :
  forall (R : registry), reg_u8 R -> align_of R (TRaw ["u8"%string]) = Some 1 ->
  forall st owner v ta pending,
  st_reg st = R ->
  Forall (fun p => C03Refine.known R (snd p)) pending ->
  Forall (fun p => C03Refine.okP (SemLemmas.region_sa R (snd p))) pending ->
  find r_is_base (map snd pending) = None ->
  C03Refine.all_fit R 0 pending -> (forall t, ta_size ta = Some t -> t <= usize_max) ->
  ((exists regions total a,
      resolve_regions st owner v (ta_size ta) pending None = Ok (st, regions, None, total) /\
      compute_alignment R ta regions total = Ok a)
   <-> realisable (reg_ptr R) (map (C03Refine.absf R) pending) (ta_size ta) (ta_align ta) (ta_packed ta)).
Proof.
  intros R Hu Hua st owner v ta pending HR Hk Hok Hnb Hfit Hts.
  pose proof (C03Refine.decision_refines R Hu Hua st owner v ta pending HR Hk Hok Hnb Hfit Hts) as Hd.
  assert (wf_fields (map (C03Refine.absf R) pending)) as Hwf.
  { unfold wf_fields. apply Forall_map. eapply Forall_impl; [|exact Hok]. intros p [Hp _]. exact Hp. }
  rewrite <- (accept_iff_realisable _ _ _ _ _ Hwf).
  destruct (accept (reg_ptr R) (map (C03Refine.absf R) pending) (ta_size ta) (ta_align ta) (ta_packed ta)) as [[total a]|].
  - destruct Hd as (regions & H1 & H2). split; [intros _; eauto | intros _; eauto].
  - split.
    + intros (regions & total & a & H1 & H2). exfalso.
      destruct Hd as [[m Hm]|(r2 & t2 & m & Hm1 & Hm2)]; [congruence|].
      rewrite H1 in Hm1. inversion Hm1; subst. congruence.
    + intros [r Hr]. discriminate.
Qed.
Print Assumptions C03_model_accepts_iff_realisable.

Theorem C03_type_build_accepts_iff :
  forall (st : sstate) (p : path) (v : vis) (d : gtypedef),
    C03Whole.class_okb st p d = true ->
    (exists (st' : sstate) (r : resolved), type_build st p v d = (st', Ok r)) <->
    C03Whole.attrs_okb d = true /\
    C03Whole.C.realisable (reg_ptr (st_reg st)) (C03Whole.fields_of st p d) 
      (C03Whole.declared_size d) (C03Whole.declared_align d) (C03Whole.is_packed d).
Proof. exact C03Whole.C03_type_build_iff. Qed.
Print Assumptions C03_type_build_accepts_iff.

Theorem C03_type_build_size_align :
  forall (st : sstate) (p : path) (v : vis) (d : gtypedef) (st' : sstate) (r : resolved),
    C03Whole.class_okb st p d = true ->
    type_build st p v d = (st', Ok r) ->
    st' = st /\
    C03Whole.C.accept (reg_ptr (st_reg st)) (C03Whole.fields_of st p d) (C03Whole.declared_size d)
      (C03Whole.declared_align d) (C03Whole.is_packed d) = Some (rs_size r, rs_align r).
Proof. exact C03Whole.C03_type_build_size_align. Qed.
Print Assumptions C03_type_build_size_align.

Theorem C03_type_build_rejects_otherwise :
  forall (st : sstate) (p : path) (v : vis) (d : gtypedef),
    C03Whole.class_okb st p d = true ->
    ~
    (C03Whole.attrs_okb d = true /\
     C03Whole.C.realisable (reg_ptr (st_reg st)) (C03Whole.fields_of st p d) 
       (C03Whole.declared_size d) (C03Whole.declared_align d) (C03Whole.is_packed d)) ->
    exists msg : string, type_build st p v d = (st, Err msg).
Proof. exact C03Whole.C03_type_build_rejects_otherwise. Qed.
Print Assumptions C03_type_build_rejects_otherwise.

Theorem C03_bad_attrs_rejected :
  forall (st : sstate) (p : path) (v : vis) (d : gtypedef),
    C03Whole.class_okb st p d = true ->
    C03Whole.attrs_okb d = false -> exists msg : string, type_build st p v d = (st, Err msg).
Proof. exact C03Whole.bad_attrs_rejected. Qed.
Print Assumptions C03_bad_attrs_rejected.

Theorem C03_packed_with_align_never_accepted :
  forall (st : sstate) (p : path) (v : vis) (d : gtypedef) (st' : sstate) (r : resolved),
    C03Whole.is_packed d = true ->
    C03Whole.declared_align d <> None -> type_build st p v d <> (st', Ok r).
Proof. exact C03Whole.packed_with_align_never_accepted. Qed.
Print Assumptions C03_packed_with_align_never_accepted.

Theorem C03_bases_type_build_accepts_iff :
  forall (st : sstate) (p : path) (v : vis) (d : gtypedef),
    C03Bases.class_bases_okb st p d = true ->
    (exists (st' : sstate) (r : resolved), type_build st p v d = (st', Ok r)) <->
    C03Whole.attrs_okb d = true /\
    C03Bases.C.realisable (reg_ptr (st_reg st)) (C03Whole.fields_of st p d) 
      (C03Whole.declared_size d) (C03Whole.declared_align d) (C03Whole.is_packed d) /\
    C03Bases.extras_okb st p d = true.
Proof. exact C03Bases.C03_bases_type_build_iff. Qed.
Print Assumptions C03_bases_type_build_accepts_iff.

Theorem C03_bases_type_build_size_align :
  forall (st : sstate) (p : path) (v : vis) (d : gtypedef) (st' : sstate) (r : resolved),
    C03Bases.class_bases_okb st p d = true ->
    type_build st p v d = (st', Ok r) ->
    st' = st /\
    C03Bases.C.accept (reg_ptr (st_reg st)) (C03Whole.fields_of st p d) (C03Whole.declared_size d)
      (C03Whole.declared_align d) (C03Whole.is_packed d) = Some (rs_size r, rs_align r).
Proof. exact C03Bases.C03_bases_type_build_size_align. Qed.
Print Assumptions C03_bases_type_build_size_align.

Theorem C03_bases_type_build_rejects_otherwise :
  forall (st : sstate) (p : path) (v : vis) (d : gtypedef),
    C03Bases.class_bases_okb st p d = true ->
    ~
    (C03Whole.attrs_okb d = true /\
     C03Bases.C.realisable (reg_ptr (st_reg st)) (C03Whole.fields_of st p d) 
       (C03Whole.declared_size d) (C03Whole.declared_align d) (C03Whole.is_packed d) /\
     C03Bases.extras_okb st p d = true) -> exists msg : string, type_build st p v d = (st, Err msg).
Proof. exact C03Bases.C03_bases_type_build_rejects_otherwise. Qed.
Print Assumptions C03_bases_type_build_rejects_otherwise.

Theorem C03_plain_class_is_a_special_case :
  forall (st : sstate) (p : path) (d : gtypedef),
    C03Whole.class_okb st p d = true ->
    C03Bases.class_bases_okb st p d = true /\ C03Bases.extras_okb st p d = true.
Proof. exact C03Bases.class_okb_bases. Qed.
Print Assumptions C03_plain_class_is_a_special_case.

Theorem C03_vft_type_build_accepts_iff :
  forall (st : sstate) (p : path) (v : vis) (d : gtypedef),
    C03Vft.class_vft_okb st p v d = true ->
    (exists (st' : sstate) (r : resolved), type_build st p v d = (st', Ok r)) <->
    C03Vft.attrs_vft_okb d = true /\
    C03Vft.vtable_okb_of st p d = true /\
    C03Vft.C.realisable (C03Vft.vft_ptr st p v d) (C03Vft.vft_fields st p v d)
      (C03Whole.declared_size d) (C03Whole.declared_align d) (C03Whole.is_packed d) /\
    C03Vft.vft_extras_okb st p v d = true.
Proof. exact C03Vft.C03_vft_type_build_iff. Qed.
Print Assumptions C03_vft_type_build_accepts_iff.

Theorem C03_vft_type_build_size_align :
  forall (st : sstate) (p : path) (v : vis) (d : gtypedef) (st' : sstate) (r : resolved),
    C03Vft.class_vft_okb st p v d = true ->
    type_build st p v d = (st', Ok r) ->
    (exists vp : path, C03Vft.vft_after st p v d = Some (st', vp)) /\
    C03Vft.C.accept (C03Vft.vft_ptr st p v d) (C03Vft.vft_fields st p v d) (C03Whole.declared_size d)
      (C03Whole.declared_align d) (C03Whole.is_packed d) = Some (rs_size r, rs_align r).
Proof. exact C03Vft.C03_vft_type_build_size_align. Qed.
Print Assumptions C03_vft_type_build_size_align.

Theorem C03_vft_type_build_rejects_otherwise :
  forall (st : sstate) (p : path) (v : vis) (d : gtypedef),
    C03Vft.class_vft_okb st p v d = true ->
    ~
    (C03Vft.attrs_vft_okb d = true /\
     C03Vft.vtable_okb_of st p d = true /\
     C03Vft.C.realisable (C03Vft.vft_ptr st p v d) (C03Vft.vft_fields st p v d)
       (C03Whole.declared_size d) (C03Whole.declared_align d) (C03Whole.is_packed d) /\
     C03Vft.vft_extras_okb st p v d = true) ->
    exists (s : sstate) (msg : string), type_build st p v d = (s, Err msg).
Proof. exact C03Vft.C03_vft_type_build_rejects_otherwise. Qed.
Print Assumptions C03_vft_type_build_rejects_otherwise.

Theorem C03_own_vftable_never_defaultable :
  forall (st : sstate) (p : path) (v : vis) (d : gtypedef),
    C03Vft.class_vft_okb st p v d = true ->
    C03Whole.is_defaultable d = true ->
    (forall (m : smodule) (sattrs : list gattr) (gfs : list gfunction) (rest : list gstatement),
     C03Whole.owner_module st p = Some m ->
     C03Vft.vft_stmt d = Some (sattrs, gfs, rest) ->
     C03Vft.vft_fb (st_reg st) (module_scope m) rest = None) ->
    exists (s : sstate) (msg : string), type_build st p v d = (s, Err msg).
Proof. exact C03Vft.own_vftable_never_defaultable. Qed.
Print Assumptions C03_own_vftable_never_defaultable.

Theorem C03_vftable_block_converts_iff :
  forall (R : registry) (scope : list path) (sattrs : list gattr) (fs : list gfunction),
    if C03Vft.vtable_okb R scope sattrs fs
    then exists out : list sfunction, C03Vft.vft_first R scope sattrs fs = Ok out
    else exists msg : string, C03Vft.vft_first R scope sattrs fs = Err msg.
Proof. exact C03Vft.vtable_dec. Qed.
Print Assumptions C03_vftable_block_converts_iff.
