(** * C20 — equivalent descriptions produce identical bindings.

    One theorem per rewrite of the family, each "the model computes the same result for the
    rewritten description" (so, the back end being a function of that result, the same file):
    - [C20_address_explicit]: giving a field the explicit address it already has -- the inserted
      zero-length padding is ignored;
    - [C20_natural_size]: adding [#[size(N)]] with N the natural size;
    - [C20_index_explicit]: giving a virtual function the [#[index(i)]] it already had;
    - [C20_enum_explicit]: writing enum values that equal the implicit ones.
    "Spelling a number in another base": [C20_number_spelling_irrelevant] (+ [_with_suffix],
      [C20_isize_reading_ignores_spelling], [C20_usize_reading_ignores_spelling],
      [C20_int_token_spelling_irrelevant]; IntLit.v) -- for EVERY number, every two spellings of it
      (decimal, hex in either case, binary, octal, any underscores, any integer suffix) are read as
      the same value by the lexical model of proc_macro2 + syn + [base10_parse], hence give the same
      token and the same AST; the lexical model is tied to the real lexer by C18's correspondence (D).
    - [C20_gap_is_address] + [C20_naming_ignores_gap_spelling]: replacing an [unknown<N>] gap by an
      address on the following field (and the reverse): the placement fold ends at the same offset
      with region lists that differ only in how the unnamed gap region was created, and the naming
      pass gives both the same name, type, visibility and doc -- so [resolve_regions] yields the
      same regions.
    - [C20_reorder_same_output] (ReorderReg.v, ReorderAtt.v, ConfluencePerm.v, Reorder.v): reordering
      the definitions inside the modules of an input ([reordered]: same modules, each with a
      permutation of its definitions) that is collision free and clean gives, under ANY two
      schedules, the same verdict class and -- when accepted -- exactly the same files
      ([write_all s1 = write_all s2]); the reordered input registers iff the original does
      ([C20_reorder_registration]).
    - END TO END FOR THE OTHER REWRITES (Rewrite{Conf,Reg,Whole,Att,Local,Sem,Lift,All}.v; at the end
      of this file): [C20_rewritten_same_output] and its instances -- two inputs whose definitions
      are related, one by one, by any number of the local rewrites (explicit index, explicit enum
      values, explicit address, gap <-> address, natural size; in either direction), the first
      collision free and clean: under ANY two schedules the same verdict class and, when accepted,
      exactly the same files; [C20_rewritten_same_output_accepted]: when the original is accepted,
      the side conditions of the semantic rewrites (the address / size written is the one the
      original reaches) need only hold in its final registry; [C20_rewritten_syn_same_output]:
      index and enum values need no side condition; [C20_attempt_equiv_same_output]: the common
      lemma (attempt-equivalent inputs give the same output);
      [C20_reorder_rewrite_same_output]: composed with reordering. *)
From Coq Require Import List NArith ZArith Bool String.
From PyxisModel Require Import Base Grammar SemTypes Registry Sem PlacementLemmas VftableLemmas RewriteLemmas WholeBuild Monotone OrderIndep Emit ReorderReg Reorder.
From Coq Require Import Permutation.
Import ListNotations.

From PyxisModel Require IntLit IntLitSyntax.

Theorem C20_address_explicit : forall R rs last r,
  reg_u8 R -> push_pending R (rs, last) (Some last, r) = push_pending R (rs, last) (None, r).
Proof. exact push_pending_address_explicit. Qed.
Print Assumptions C20_address_explicit.

Theorem C20_natural_size : forall st owner v pending vfs st' regions vt size,
  resolve_regions st owner v None pending vfs = Ok (st', regions, vt, size) ->
  resolve_regions st owner v (Some size) pending vfs = Ok (st', regions, vt, size).
Proof. exact resolve_regions_natural_size. Qed.
Print Assumptions C20_natural_size.

Theorem C20_index_explicit : forall R scope out f,
  fn_index f = Some None ->
  convert_one R scope out (with_index f (N.of_nat (List.length out))) = convert_one R scope out f.
Proof. exact convert_one_index_explicit. Qed.
Print Assumptions C20_index_explicit.

Theorem C20_enum_explicit : forall stmts fields di r,
  enum_cases stmts (Some 0%Z) O fields di = Ok r ->
  enum_cases (explicitate stmts 0%Z) (Some 0%Z) O fields di = Ok r.
Proof. intros. eapply enum_cases_explicit; eauto. Qed.
Print Assumptions C20_enum_explicit.

(** ** gap <-> address *)
Theorem C20_gap_is_address : forall R pre g n r post acc0 accp,
  is_gap g n -> foldM (push_pending R) pre acc0 = Ok accp ->
  same_result (foldM (push_pending R) (pre ++ (None, g) :: (None, r) :: post) acc0)
              (foldM (push_pending R) (pre ++ (Some (snd accp + n)%N, r) :: post) acc0).
Proof. exact gap_is_address_fold. Qed.
Print Assumptions C20_gap_is_address.

Theorem C20_naming_ignores_gap_spelling : forall R rs1 rs2 s0,
  Forall2 same_named rs1 rs2 -> name_regions R rs1 s0 = name_regions R rs2 s0.
Proof. exact name_regions_same_named. Qed.
Print Assumptions C20_naming_ignores_gap_spelling.

(** ** reordering the definitions of a module *)
Theorem C20_reorder_same_output : forall ptr mods mods' st0 o1 o2,
  reordered mods mods' ->
  input_state ptr mods = Ok st0 ->
  collision_free (st_reg st0) -> clean_stateb st0 = true ->
  (forall l, Permutation (o1 l) l) -> (forall l, Permutation (o2 l) l) ->
  match pyxis_resolve o1 ptr mods, pyxis_resolve o2 ptr mods' with
  | BOk s1, BOk s2 => write_all s1 = write_all s2
  | BOk _, _ | _, BOk _ => False
  | _, _ => True
  end.
Proof. exact pyxis_reorder_same_output'. Qed.
Print Assumptions C20_reorder_same_output.

Theorem C20_reorder_registration : forall ptr mods mods',
  reordered mods mods' -> is_ok (input_state ptr mods) = is_ok (input_state ptr mods').
Proof. exact input_state_reordered_ok. Qed.
Print Assumptions C20_reorder_registration.

Theorem C20_number_spelling_irrelevant :
  forall (n b1 b2 : N) (m1 m2 : list bool),
    IntLit.valid_base b1 = true ->
    IntLit.valid_base b2 = true ->
    IntLit.lit_value (IntLit.with_underscores m1 (IntLit.spell b1 n)) =
    IntLit.lit_value (IntLit.with_underscores m2 (IntLit.spell b2 n)).
Proof. exact IntLit.spelling_irrelevant. Qed.
Print Assumptions C20_number_spelling_irrelevant.

Theorem C20_number_spelling_irrelevant_with_suffix :
  forall (n : N) (up1 up2 : bool) (b1 b2 : N) (m1 m2 : list bool) (s1 s2 : string),
    IntLit.valid_base b1 = true ->
    IntLit.valid_base b2 = true ->
    In s1 IntLit.int_suffixes ->
    In s2 IntLit.int_suffixes ->
    option_map fst (IntLit.lit_value (IntLit.with_underscores m1 (IntLit.spell_case up1 b1 n) +++ s1)) =
    option_map fst (IntLit.lit_value (IntLit.with_underscores m2 (IntLit.spell_case up2 b2 n) +++ s2)).
Proof. exact IntLit.spelling_irrelevant_suffix. Qed.
Print Assumptions C20_number_spelling_irrelevant_with_suffix.

Theorem C20_isize_reading_ignores_spelling :
  forall (neg up : bool) (lead : nat) (mask : list nat) (base n : N) (sfx : string),
    IntLit.valid_base base = true ->
    IntLit.lead_ok base lead = true ->
    IntLit.suffix_ok base sfx = true ->
    IntLit.read_isize neg (IntLit.with_underscores_gen lead mask (IntLit.spell_case up base n) +++ sfx) =
    (if IntLit.isize_in_range (IntLit.signed neg n) then Some (IntLit.signed neg n) else None).
Proof. exact IntLit.read_isize_spelling. Qed.
Print Assumptions C20_isize_reading_ignores_spelling.

Theorem C20_usize_reading_ignores_spelling :
  forall (up : bool) (lead : nat) (mask : list nat) (base n : N) (sfx : string),
    IntLit.valid_base base = true ->
    IntLit.lead_ok base lead = true ->
    IntLit.suffix_ok base sfx = true ->
    IntLit.read_usize false
      (IntLit.with_underscores_gen lead mask (IntLit.spell_case up base n) +++ sfx) =
    (if fits_usize n then Some n else None).
Proof. exact IntLit.read_usize_spelling. Qed.
Print Assumptions C20_usize_reading_ignores_spelling.

Theorem C20_int_token_spelling_irrelevant :
  forall (neg : bool) (n : N) (up1 up2 : bool) (b1 b2 : N) (l1 l2 : nat) (m1 m2 : list nat)
      (s1 s2 : string),
    IntLit.valid_base b1 = true ->
    IntLit.valid_base b2 = true ->
    IntLit.lead_ok b1 l1 = true ->
    IntLit.lead_ok b2 l2 = true ->
    IntLit.suffix_ok b1 s1 = true ->
    IntLit.suffix_ok b2 s2 = true ->
    IntLitSyntax.int_token neg (IntLit.with_underscores_gen l1 m1 (IntLit.spell_case up1 b1 n) +++ s1) =
    IntLitSyntax.int_token neg (IntLit.with_underscores_gen l2 m2 (IntLit.spell_case up2 b2 n) +++ s2).
Proof. exact IntLitSyntax.int_token_spelling_irrelevant. Qed.
Print Assumptions C20_int_token_spelling_irrelevant.

(** ** the rewrites, end to end *)
From PyxisModel Require Import Base Grammar SemTypes Registry Sem Emit PlacementLemmas WholeBuild Monotone OrderIndep Reorder
     RewriteReg RewriteWhole RewriteAtt RewriteLocal RewriteSem RewriteLift RewriteAll.
From PyxisModel Require Confluence ReorderReg.
Import ListNotations.

(** the common lemma: inputs whose definitions are related one by one by a relation that keeps
    the visibility, a leading vftable block and cleanliness, and whose descriptions give the same
    outcome class when attempted in one state, give the same verdict class and the same files *)
Theorem C20_attempt_equiv_same_output : forall D ptr mods mods' st0 o1 o2,
  good_rel D -> rewritten_gen D mods mods' ->
  input_state ptr mods = Ok st0 -> collision_free (st_reg st0) -> clean_stateb st0 = true ->
  local_equiv D st0 ->
  (forall l, Permutation (o1 l) l) -> (forall l, Permutation (o2 l) l) ->
  match pyxis_resolve o1 ptr mods, pyxis_resolve o2 ptr mods' with
  | BOk s1, BOk s2 => write_all s1 = write_all s2
  | BOk _, _ | _, BOk _ => False
  | _, _ => True
  end.
Proof. exact attempt_equiv_same_output. Qed.
Print Assumptions C20_attempt_equiv_same_output.

(** all five rewrites, any reference states that cover the run of the first input *)
Theorem C20_rewritten_same_output : forall Ref ptr mods mods' st0 o1 o2,
  rewritten Ref mods mods' ->
  input_state ptr mods = Ok st0 -> collision_free (st_reg st0) -> clean_stateb st0 = true ->
  covers Ref st0 ->
  (forall l, Permutation (o1 l) l) -> (forall l, Permutation (o2 l) l) ->
  match pyxis_resolve o1 ptr mods, pyxis_resolve o2 ptr mods' with
  | BOk s1, BOk s2 => write_all s1 = write_all s2
  | BOk _, _ | _, BOk _ => False
  | _, _ => True
  end.
Proof. exact rewritten_same_output. Qed.
Print Assumptions C20_rewritten_same_output.

(** the side conditions asked in every state below the ideal of the first input *)
Theorem C20_rewritten_same_output_below : forall ptr mods mods' st0 o1 o2,
  input_state ptr mods = Ok st0 -> collision_free (st_reg st0) -> clean_stateb st0 = true ->
  rewritten (Ref_below st0) mods mods' ->
  (forall l, Permutation (o1 l) l) -> (forall l, Permutation (o2 l) l) ->
  match pyxis_resolve o1 ptr mods, pyxis_resolve o2 ptr mods' with
  | BOk s1, BOk s2 => write_all s1 = write_all s2
  | BOk _, _ | _, BOk _ => False
  | _, _ => True
  end.
Proof. exact rewritten_same_output_below. Qed.
Print Assumptions C20_rewritten_same_output_below.

(** ... in the ideal states only *)
Theorem C20_rewritten_same_output_ideal : forall ptr mods mods' st0 o1 o2,
  input_state ptr mods = Ok st0 -> collision_free (st_reg st0) -> clean_stateb st0 = true ->
  rewritten (Ref_ideal st0) mods mods' ->
  (forall l, Permutation (o1 l) l) -> (forall l, Permutation (o2 l) l) ->
  match pyxis_resolve o1 ptr mods, pyxis_resolve o2 ptr mods' with
  | BOk s1, BOk s2 => write_all s1 = write_all s2
  | BOk _, _ | _, BOk _ => False
  | _, _ => True
  end.
Proof. exact rewritten_same_output_ideal. Qed.
Print Assumptions C20_rewritten_same_output_ideal.

(** the first input is accepted: the side conditions are asked in its final registry only *)
Theorem C20_rewritten_same_output_accepted : forall ptr mods mods' st0 o1 o2 t1,
  input_state ptr mods = Ok st0 -> collision_free (st_reg st0) -> clean_stateb st0 = true ->
  (forall l, Permutation (o1 l) l) -> (forall l, Permutation (o2 l) l) ->
  pyxis_resolve o1 ptr mods = BOk t1 ->
  rewritten (Ref_final st0 t1) mods mods' ->
  exists t2, pyxis_resolve o2 ptr mods' = BOk t2 /\ write_all t1 = write_all t2.
Proof. exact rewritten_same_output_accepted. Qed.
Print Assumptions C20_rewritten_same_output_accepted.

(** the syntactic rewrites (R3, R4) need no reference state *)
Theorem C20_rewritten_syn_same_output : forall ptr mods mods' st0 o1 o2,
  input_state ptr mods = Ok st0 -> collision_free (st_reg st0) -> clean_stateb st0 = true ->
  rewritten_syn mods mods' ->
  (forall l, Permutation (o1 l) l) -> (forall l, Permutation (o2 l) l) ->
  match pyxis_resolve o1 ptr mods, pyxis_resolve o2 ptr mods' with
  | BOk s1, BOk s2 => write_all s1 = write_all s2
  | BOk _, _ | _, BOk _ => False
  | _, _ => True
  end.
Proof. exact rewritten_syn_same_output. Qed.
Print Assumptions C20_rewritten_syn_same_output.

(** the finer verdict: accepted with the same registry / no progress with the same stuck items /
    error or panic *)
Theorem C20_rewritten_same_build : forall Ref ptr mods mods' st0 o1 o2,
  rewritten Ref mods mods' ->
  input_state ptr mods = Ok st0 -> collision_free (st_reg st0) -> clean_stateb st0 = true ->
  covers Ref st0 ->
  (forall l, Permutation (o1 l) l) -> (forall l, Permutation (o2 l) l) ->
  same_build2 (pyxis_resolve o1 ptr mods) (pyxis_resolve o2 ptr mods').
Proof. exact rewritten_same_build. Qed.
Print Assumptions C20_rewritten_same_build.

(** registration succeeds for both inputs or for neither *)
Theorem C20_rewritten_registration : forall Ref ptr mods mods',
  rewritten Ref mods mods' -> is_ok (input_state ptr mods) = is_ok (input_state ptr mods').
Proof. exact rewritten_registration. Qed.
Print Assumptions C20_rewritten_registration.

(** ** one attempt, per rewrite *)
Theorem C20_enum_attempt : forall st p d d', rw_enum d d' -> attempt st p d = attempt st p d'.
Proof. exact rw_enum_attempt. Qed.
Print Assumptions C20_enum_attempt.

Theorem C20_index_attempt : forall st p d d', rw_index d d' -> attempt st p d = attempt st p d'.
Proof. exact rw_index_attempt. Qed.
Print Assumptions C20_index_attempt.

Theorem C20_address_type_build : forall st p v td td' j A,
  reg_u8 (st_reg st) -> shape_address td td' j A ->
  (forall off, field_offset_in st p v td j off -> off = A) ->
  cls_eq (snd (type_build st p v td)) (snd (type_build st p v td')).
Proof. exact address_type_build. Qed.
Print Assumptions C20_address_type_build.

Theorem C20_gap_type_build : forall st p v td td' j n A,
  shape_gap td td' j n A ->
  (forall off, field_offset_in st p v td j off -> A = (off + n)%N) ->
  cls_eq (snd (type_build st p v td)) (snd (type_build st p v td')).
Proof. exact gap_type_build. Qed.
Print Assumptions C20_gap_type_build.

Theorem C20_size_type_build : forall st p v td td' S,
  shape_size td td' S ->
  (forall sz, natural_size_in st p v td sz -> sz = S) ->
  cls_eq (snd (type_build st p v td)) (snd (type_build st p v td')).
Proof. exact size_type_build. Qed.
Print Assumptions C20_size_type_build.

(** the semantic data are monotone: what the placement reaches in a state, it reaches in every
    state that knows more resolved items *)
Theorem C20_field_offset_mono : forall R0, collision_free R0 -> user R0 ["u8"%string] ->
  forall st st' p v td j off,
  below R0 st st' p -> forallb clean_stmt (gt_stmts td) = true ->
  field_offset_in st p v td j off -> field_offset_in st' p v td j off.
Proof. exact field_offset_mono. Qed.
Print Assumptions C20_field_offset_mono.

Theorem C20_natural_size_mono : forall R0, collision_free R0 -> user R0 ["u8"%string] ->
  forall st st' p v td sz,
  below R0 st st' p -> forallb clean_stmt (gt_stmts td) = true ->
  natural_size_in st p v td sz -> natural_size_in st' p v td sz.
Proof. exact natural_size_mono. Qed.
Print Assumptions C20_natural_size_mono.

(** reordering the definitions of the modules AND rewriting them *)
Theorem C20_reorder_rewrite_same_output : forall Ref ptr mods mods1 mods' st0 o1 o2,
  ReorderReg.reordered mods mods1 ->
  input_state ptr mods = Ok st0 -> collision_free (st_reg st0) -> clean_stateb st0 = true ->
  (forall st1, input_state ptr mods1 = Ok st1 -> covers Ref st1) ->
  rewritten Ref mods1 mods' ->
  (forall l, Permutation (o1 l) l) -> (forall l, Permutation (o2 l) l) ->
  match pyxis_resolve o1 ptr mods, pyxis_resolve o2 ptr mods' with
  | BOk s1, BOk s2 => write_all s1 = write_all s2
  | BOk _, _ | _, BOk _ => False
  | _, _ => True
  end.
Proof. exact reorder_rewrite_same_output. Qed.
Print Assumptions C20_reorder_rewrite_same_output.
