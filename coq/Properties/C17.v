(** * C17 — visibility, derives, packing and documentation are carried over faithfully.

    PROVED on the model:
    - markers: the attribute scan sets copyable iff [copyable] is written; cloneable iff [copyable] or
      [cloneable]; defaultable iff [defaultable]; packed iff [packed]; the printed derive list holds
      Copy / Clone / Default exactly for those flags (so copyable yields Copy and Clone, cloneable
      Clone only); a packed type is printed [repr(C, packed)] without an alignment argument,
      any other [repr(C, align(A))];
    - documentation: an item's doc is its doc attribute values in order joined by line breaks, and
      the printed doc lines are exactly those values when none contains a line break (empty lines
      included -- the F8 fix);
    - visibility: declared fields keep their visibility (the region records it; [region_field]
      prints [r_vis]); regions the resolver generates (padding) are private and undocumented; the own
      vftable pointer region and placeholder slots are private.
    ON THE EMITTED TEXT, IN TERMS OF THE DECLARATION (EmitMarkers*.v), for every declared item of an
    accepted collision-free build, read back from the module's file by readers that only look at
    tokens:
    - [C17_emitted_type]: the struct is public iff declared pub; its derive list is exactly
      Copy+Clone if copyable, Clone if cloneable, plus Default iff defaultable; it is
      [repr(C, packed)] iff packed, else [repr(C, align(N))]; its doc lines are the declared ones in
      order; and it carries no other attribute (the count is stated);
    - [C17_emitted_fields]: every emitted field is either generated (private, undocumented, named
      [vftable] or [_field_<hex>]) or the counterpart of a declared statement, with the declared
      visibility and doc lines; every declared named non-array field has its counterpart;
    - [C17_emitted_enum]: the same for enums (fixed derives + markers; variants carry no doc);
    - [C17_emitted_impl_functions], [C17_emitted_vftable_slots] (placeholders private and
      undocumented, declared slots with the declared name/visibility/docs),
      [C17_emitted_inherited_wrappers] (a forwarded copy has the visibility and docs of the function
      it forwards to), [C17_emitted_wrappers_origin] (at any depth of inheritance every wrapper's
      visibility and docs are those of a function DECLARED in some impl or vftable block);
    - "and on no other item": [C17_no_doc_on_type_helpers], [C17_no_doc_on_enum_helpers] (size
      check, singleton impl, accessor, conversions carry no doc -- a conflict const only its
      explanatory text), [C17_emitted_module_docs] (module docs; extern accessors undocumented).
    Observations recorded while proving (none contradicts the property as worded): a field named
    [_] loses its declared [pub] and doc (it becomes a private padding field); docs written on enum
    variants, extern values and impl blocks are not emitted; [vftable()] is always pub.
    The correspondence compares vis / derive / repr / doc of every emitted node with the real output. *)
From Coq Require Import List NArith ZArith Bool String.
From PyxisModel Require Import Base Sexp Grammar SemTypes Registry Sem SemLemmas PlacementLemmas Emit EmitLemmas WholeBuild WholeBuildMore.
Import ListNotations.

From PyxisModel Require EmitMarkers EmitMarkersEnum EmitMarkersFn EmitMarkersNoDoc EmitMarkersOrigin.

Theorem C17_markers : forall attrs ta,
  foldM scan_type_attr attrs ta_init = Ok ta ->
  ta_copyable ta = has_marker "copyable" attrs /\
  ta_cloneable ta = has_marker "copyable" attrs || has_marker "cloneable" attrs /\
  ta_defaultable ta = has_marker "defaultable" attrs /\
  ta_packed ta = has_marker "packed" attrs.
Proof. intros attrs ta H. exact (scan_type_attrs_flags attrs ta_init ta H). Qed.
Print Assumptions C17_markers.

Theorem C17_derives : forall c cl d,
  (In "Copy"%string (derive_names c cl d) <-> c = true) /\
  (In "Clone"%string (derive_names c cl d) <-> cl = true) /\
  (In "Default"%string (derive_names c cl d) <-> d = true).
Proof. exact derive_names_spec. Qed.
Print Assumptions C17_derives.

Theorem C17_derive_attr : forall base c cl d,
  derive_attr base c cl d =
  match (base ++ derive_names c cl d)%list with
  | [] => []
  | names => [attr_outer [tk "derive"; paren (commas (map (fun n => [tk n]) names))]]
  end.
Proof. exact derive_attr_names. Qed.
Print Assumptions C17_derive_attr.

Theorem C17_packing : forall packed A,
  repr_attr packed A =
  attr_outer [tk "repr"; paren (if packed then [tk "C"; tk ","; tk "packed"]
                                else [tk "C"; tk ","; tk "align"; paren [tint A "-"]])].
Proof. exact repr_attr_spec. Qed.
Print Assumptions C17_packing.

Theorem C17_docs : forall attrs d,
  attrs_doc attrs = Ok d ->
  exists ls, doc_values attrs = Ok ls /\ (Forall no_newline ls -> doc_lines d = ls).
Proof. exact doc_carried. Qed.
Print Assumptions C17_docs.

Theorem C17_generated_private : forall R rs s0 rs' s,
  name_regions R rs s0 = Ok (rs', s) ->
  Forall2 (fun r r' => r_name r = None -> r_vis r' = Private /\ r_doc r' = None) rs rs'.
Proof. exact name_regions_generated_private. Qed.
Print Assumptions C17_generated_private.

Theorem C17_vftable_pointer_and_placeholders_private : forall ty k,
  r_vis (vftable_region_of ty) = Private /\ sf_vis (padding_fn k) = Private /\
  sf_doc (padding_fn k) = None /\ r_doc (vftable_region_of ty) = None.
Proof. intros. repeat split. Qed.
Print Assumptions C17_vftable_pointer_and_placeholders_private.

Example C17_doc_example :
  doc_lines (Some (join_lines [""; " b"; ""]%string)) = [""; " b"; ""]%string.
Proof. reflexivity. Qed.

(** ** End to end (WholeBuildMore.v): the per-attempt theorems above, for every item of every accepted
    [collision_free] build, in terms of the FINAL registry *)
Theorem C17_whole_build_markers : forall order ptr mods st0 st p it0 gd td0 it r,
  input_state ptr mods = Ok st0 -> collision_free (st_reg st0) ->
  pyxis_resolve order ptr mods = BOk st ->
  reg_get (st_reg st0) p = Some it0 -> it_state it0 = Unresolved gd -> gi_inner gd = GIType td0 ->
  reg_get (st_reg st) p = Some it -> it_state it = Resolved r ->
  exists td, rs_inner r = IType td /\
    td_copyable td = has_marker "copyable" (gt_attrs td0) /\
    td_cloneable td = has_marker "copyable" (gt_attrs td0) || has_marker "cloneable" (gt_attrs td0) /\
    td_defaultable td = has_marker "defaultable" (gt_attrs td0) /\
    td_packed td = has_marker "packed" (gt_attrs td0) /\
    (td_packed td = true -> rs_align r = 1%N).
Proof. exact WholeBuildMore.C17_whole_build_markers. Qed.
Print Assumptions C17_whole_build_markers.

Theorem C17_whole_build_enum_markers : forall order ptr mods st0 st p it0 gd ed0 it r,
  input_state ptr mods = Ok st0 -> collision_free (st_reg st0) ->
  pyxis_resolve order ptr mods = BOk st ->
  reg_get (st_reg st0) p = Some it0 -> it_state it0 = Unresolved gd -> gi_inner gd = GIEnum ed0 ->
  reg_get (st_reg st) p = Some it -> it_state it = Resolved r ->
  exists ed, rs_inner r = IEnum ed /\
    ed_copyable ed = has_marker "copyable" (ged_attrs ed0) /\
    ed_cloneable ed = has_marker "copyable" (ged_attrs ed0) || has_marker "cloneable" (ged_attrs ed0) /\
    ed_defaultable ed = has_marker "defaultable" (ged_attrs ed0).
Proof. exact WholeBuildMore.C17_whole_build_enum_markers. Qed.
Print Assumptions C17_whole_build_enum_markers.

Theorem C17_emitted_type :
  forall (order : schedule) (ptr : N) (mods : list (path * gmodule)) (st0 st : sstate)
      (files : list (string * sexp)) (p : path) (it0 : item) (gd : gitemdef) 
      (td0 : gtypedef),
    input_state ptr mods = Ok st0 ->
    NoDup (map fst mods) ->
    collision_free (st_reg st0) ->
    EmitFinal.keeps_work order ->
    pyxis_resolve order ptr mods = BOk st ->
    write_all st = Ok files ->
    reg_get (st_reg st0) p = Some it0 ->
    it_state it0 = Unresolved gd ->
    gi_inner gd = GIType td0 ->
    path_parent p <> Some [] ->
    exists
      (parent : path) (name : string) (f : sexp) (items : list sexp) (s : sexp) 
    (it : item) (r : resolved) (al : list sexp) (docs : list string),
      path_parent p = Some parent /\
      path_last p = Some name /\
      In (out_path parent, f) files /\
      EmitReaders.file_items f = Some items /\
      EmitReaders.find_struct name items = Some s /\
      reg_get (st_reg st) p = Some it /\
      it_state it = Resolved r /\
      EmitReaders.struct_vis s = Some (gi_vis gd) /\
      EmitReaders.struct_derives s = Some (EmitMarkers.declared_derives (gt_attrs td0)) /\
      EmitReaders.struct_repr s =
      Some
        (if has_marker "packed" (gt_attrs td0)
         then EmitReaders.ReprPacked
         else EmitReaders.ReprAlign (rs_align r)) /\
      EmitReaders.struct_docs s = Some docs /\
      EmitMarkers.docs_as_declared (gt_attrs td0) docs /\
      EmitMarkers.struct_attrs s = Some al /\
      Datatypes.length al =
      match EmitMarkers.declared_derives (gt_attrs td0) with
      | [] => 0
      | _ :: _ => 1
      end + 1 + Datatypes.length docs.
Proof. exact EmitMarkers.C17_emitted_type. Qed.
Print Assumptions C17_emitted_type.

Theorem C17_emitted_fields :
  forall (order : schedule) (ptr : N) (mods : list (path * gmodule)) (st0 st : sstate)
      (files : list (string * sexp)) (p : path) (it0 : item) (gd : gitemdef) 
      (td0 : gtypedef),
    input_state ptr mods = Ok st0 ->
    NoDup (map fst mods) ->
    collision_free (st_reg st0) ->
    EmitFinal.keeps_work order ->
    pyxis_resolve order ptr mods = BOk st ->
    write_all st = Ok files ->
    reg_get (st_reg st0) p = Some it0 ->
    it_state it0 = Unresolved gd ->
    gi_inner gd = GIType td0 ->
    path_parent p <> Some [] ->
    exists
      (parent : path) (name : string) (f : sexp) (items : list sexp) (s : sexp) 
    (efs : list EmitReaders.efield),
      path_parent p = Some parent /\
      path_last p = Some name /\
      In (out_path parent, f) files /\
      EmitReaders.file_items f = Some items /\
      EmitReaders.find_struct name items = Some s /\
      EmitReaders.struct_fields s = Some efs /\
      Forall
        (fun ef : EmitReaders.efield =>
         EmitMarkers.ef_generated ef \/
         (exists stm : gstatement, In stm (gt_stmts td0) /\ EmitMarkers.ef_declared stm ef)) efs /\
      (forall (stm : gstatement) (v : vis) (nm : string) (t : gtype),
       In stm (gt_stmts td0) ->
       gs_field stm = GField v nm t ->
       nm <> "_"%string ->
       EmitMarkers.gtype_not_array t = true ->
       exists ef : EmitReaders.efield,
         In ef efs /\
         EmitReaders.ef_name ef = nm /\
         EmitReaders.ef_vis ef = v /\
         EmitMarkers.docs_as_declared (gs_attrs stm) (EmitReaders.ef_docs ef)).
Proof. exact EmitMarkers.C17_emitted_fields_each. Qed.
Print Assumptions C17_emitted_fields.

Theorem C17_emitted_enum :
  forall (order : schedule) (ptr : N) (mods : list (path * gmodule)) (st0 st : sstate)
      (files : list (string * sexp)) (p : path) (it0 : item) (gd : gitemdef) 
      (ed0 : genumdef),
    input_state ptr mods = Ok st0 ->
    NoDup (map fst mods) ->
    collision_free (st_reg st0) ->
    EmitFinal.keeps_work order ->
    pyxis_resolve order ptr mods = BOk st ->
    write_all st = Ok files ->
    reg_get (st_reg st0) p = Some it0 ->
    it_state it0 = Unresolved gd ->
    gi_inner gd = GIEnum ed0 ->
    path_parent p <> Some [] ->
    exists
      (parent : path) (name : string) (f : sexp) (items : list sexp) (e : sexp) 
    (al : list sexp) (docs : list string) (vdocs : list (list string)),
      path_parent p = Some parent /\
      path_last p = Some name /\
      In (out_path parent, f) files /\
      EmitReaders.file_items f = Some items /\
      EmitMarkersEnum.find_enum name items = Some e /\
      EmitReaders.enum_vis e = Some (gi_vis gd) /\
      EmitReaders.enum_derives e =
      Some (EmitShape.enum_base_derives ++ EmitMarkers.declared_derives (ged_attrs ed0)) /\
      EmitReaders.enum_docs e = Some docs /\
      EmitMarkers.docs_as_declared (ged_attrs ed0) docs /\
      EmitMarkers.enum_attrs e = Some al /\
      Datatypes.length al = 2 + Datatypes.length docs /\
      EmitMarkersEnum.enum_variant_docs e = Some vdocs /\
      Datatypes.length vdocs = Datatypes.length (ged_stmts ed0) /\
      Forall (fun d : list string => d = []) vdocs.
Proof. exact EmitMarkersEnum.C17_emitted_enum. Qed.
Print Assumptions C17_emitted_enum.

Theorem C17_emitted_impl_functions :
  forall (order : schedule) (ptr : N) (mods : list (path * gmodule)) (st0 st : sstate)
      (files : list (string * sexp)) (p : path) (it0 : item) (gd : gitemdef) 
      (td0 : gtypedef) (parent : path) (module0 : smodule) (blk : gfnblock),
    input_state ptr mods = Ok st0 ->
    NoDup (map fst mods) ->
    collision_free (st_reg st0) ->
    EmitFinal.keeps_work order ->
    pyxis_resolve order ptr mods = BOk st ->
    write_all st = Ok files ->
    reg_get (st_reg st0) p = Some it0 ->
    it_state it0 = Unresolved gd ->
    gi_inner gd = GIType td0 ->
    path_parent p = Some parent ->
    parent <> [] ->
    alookup parent (st_modules st0) = Some module0 ->
    alookup p (m_impls module0) = Some blk ->
    exists (name : string) (f : sexp) (items : list sexp) (s im : sexp) (fns : list sexp),
      path_last p = Some name /\
      In (out_path parent, f) files /\
      EmitReaders.file_items f = Some items /\
      EmitReaders.find_struct name items = Some s /\
      In im items /\
      EmitFnReaders.inherent_impl im = Some (name, fns) /\
      Forall
        (fun gf : gfunction =>
         starts_with "_" (gf_name gf) = false ->
         exists e : sexp, In e fns /\ EmitMarkersFn.fn_declared gf e) (gb_fns blk).
Proof. exact EmitMarkersFn.C17_emitted_impl_functions. Qed.
Print Assumptions C17_emitted_impl_functions.

Theorem C17_emitted_vftable_slots :
  forall (order : schedule) (ptr : N) (mods : list (path * gmodule)) (st0 st : sstate)
      (files : list (string * sexp)) (p : path) (it0 : item) (gd : gitemdef) 
      (td0 : gtypedef) (it : item) (r : resolved) (parent : path) (stm : gstatement)
      (rest : list gstatement) (gfs : list gfunction),
    input_state ptr mods = Ok st0 ->
    collision_free (st_reg st0) ->
    pyxis_resolve order ptr mods = BOk st ->
    write_all st = Ok files ->
    reg_get (st_reg st0) p = Some it0 ->
    it_state it0 = Unresolved gd ->
    gi_inner gd = GIType td0 ->
    reg_get (st_reg st) p = Some it ->
    it_state it = Resolved r ->
    path_parent p = Some parent ->
    parent <> [] ->
    alookup parent (st_modules st0) <> None ->
    gt_stmts td0 = stm :: rest ->
    gs_field stm = GVftable gfs ->
    exists (tname : string) (f : sexp) (items : list sexp) (s : sexp) (efs : list EmitReaders.efield),
      path_last p = Some tname /\
      In (out_path parent, f) files /\
      EmitReaders.file_items f = Some items /\
      EmitReaders.find_struct (tname +++ "Vftable") items = Some s /\
      EmitReaders.struct_vis s = Some (gi_vis gd) /\
      EmitReaders.struct_derives s = Some [] /\
      EmitReaders.struct_docs s = Some [] /\
      (exists a : sexp, EmitMarkers.struct_attrs s = Some [a]) /\
      EmitReaders.struct_fields s = Some efs /\
      EmitMarkers.interleave EmitMarkersFn.slot_placeholder (fun _ : gfunction => False)
        EmitMarkersFn.slot_declared gfs efs.
Proof. exact EmitMarkersFn.C17_emitted_vftable_slots. Qed.
Print Assumptions C17_emitted_vftable_slots.

Theorem C17_emitted_inherited_wrappers :
  forall (order : schedule) (ptr : N) (mods : list (path * gmodule)) (st0 st : sstate)
      (files : list (string * sexp)) (p : path) (it0 : item) (gd : gitemdef) 
      (td0 : gtypedef),
    input_state ptr mods = Ok st0 ->
    NoDup (map fst mods) ->
    collision_free (st_reg st0) ->
    EmitFinal.keeps_work order ->
    pyxis_resolve order ptr mods = BOk st ->
    write_all st = Ok files ->
    reg_get (st_reg st0) p = Some it0 ->
    it_state it0 = Unresolved gd ->
    gi_inner gd = GIType td0 ->
    path_parent p <> Some [] ->
    exists
      (parent : path) (name : string) (it : item) (r : resolved) (td : type_def) 
    (f : sexp) (items : list sexp) (s im : sexp) (fns : list sexp) (contribs : 
                                                                    list (string * list sfunction)) 
    (news : list (list sfunction)) (own : list sfunction),
      path_parent p = Some parent /\
      path_last p = Some name /\
      reg_get (st_reg st) p = Some it /\
      it_state it = Resolved r /\
      rs_inner r = IType td /\
      In (out_path parent, f) files /\
      EmitReaders.file_items f = Some items /\
      EmitReaders.find_struct name items = Some s /\
      In im items /\
      EmitFnReaders.inherent_impl im = Some (name, fns) /\
      Forall
        (fun sf : sfunction =>
         sf_is_internal sf = false ->
         exists e : sexp,
           In e fns /\
           EmitFnReaders.fn_name e = Some (sf_name sf) /\
           EmitFnReaders.fn_vis e = Some (sf_vis sf) /\
           EmitFnReaders.fn_docs e = Some (doc_lines (sf_doc sf))) (td_assoc td) /\
      InheritLemmas.base_contributions (st_reg st) (filter r_is_base (td_regions td)) 0 = Ok contribs /\
      td_assoc td = List.concat news ++ own /\
      Forall2
        (fun (c : string * list sfunction) (new : list sfunction) =>
         Forall2
           (fun g f' : sfunction =>
            InheritLemmas.forwards (fst c) g f' /\
            (sf_is_internal f' = false ->
             exists e : sexp,
               In e fns /\
               EmitFnReaders.fn_name e = Some (sf_name f') /\ EmitMarkersFn.fn_forwards (fst c) g e))
           (snd c) new) contribs news.
Proof. exact EmitMarkersFn.C17_emitted_inherited_wrappers. Qed.
Print Assumptions C17_emitted_inherited_wrappers.

Theorem C17_emitted_wrappers_origin :
  forall (order : schedule) (ptr : N) (mods : list (path * gmodule)) (st0 st : sstate)
      (files : list (string * sexp)) (p : path) (it0 : item) (gd : gitemdef) 
      (td0 : gtypedef),
    input_state ptr mods = Ok st0 ->
    NoDup (map fst mods) ->
    collision_free (st_reg st0) ->
    EmitFinal.keeps_work order ->
    pyxis_resolve order ptr mods = BOk st ->
    write_all st = Ok files ->
    reg_get (st_reg st0) p = Some it0 ->
    it_state it0 = Unresolved gd ->
    gi_inner gd = GIType td0 ->
    path_parent p <> Some [] ->
    exists
      (parent : path) (name : string) (f : sexp) (items : list sexp) (s im : sexp) 
    (acc wrappers : list sexp),
      path_parent p = Some parent /\
      path_last p = Some name /\
      In (out_path parent, f) files /\
      EmitReaders.file_items f = Some items /\
      EmitReaders.find_struct name items = Some s /\
      In im items /\
      EmitFnReaders.inherent_impl im = Some (name, acc ++ wrappers) /\
      Forall
        (fun a : sexp =>
         EmitFnReaders.fn_name a = Some "vftable"%string /\
         EmitFnReaders.fn_vis a = Some Public /\ EmitFnReaders.fn_docs a = Some []) acc /\
      Datatypes.length acc <= 1 /\ Forall (EmitMarkersOrigin.fn_from_declaration st0) wrappers.
Proof. exact EmitMarkersOrigin.C17_emitted_wrappers_origin. Qed.
Print Assumptions C17_emitted_wrappers_origin.

Theorem C17_no_doc_on_type_helpers :
  forall (order : schedule) (ptr : N) (mods : list (path * gmodule)) (st0 st : sstate)
      (files : list (string * sexp)) (p : path) (it0 : item) (gd : gitemdef) 
      (td0 : gtypedef),
    input_state ptr mods = Ok st0 ->
    NoDup (map fst mods) ->
    collision_free (st_reg st0) ->
    EmitFinal.keeps_work order ->
    pyxis_resolve order ptr mods = BOk st ->
    write_all st = Ok files ->
    reg_get (st_reg st0) p = Some it0 ->
    it_state it0 = Unresolved gd ->
    gi_inner gd = GIType td0 ->
    path_parent p <> Some [] ->
    exists
      (parent : path) (name : string) (it : item) (r : resolved) (td : type_def) 
    (f : sexp) (pre : list sexp) (s : sexp) (checks sing : list sexp) (im : sexp) 
    (conv post acc wrappers : list sexp),
      path_parent p = Some parent /\
      path_last p = Some name /\
      reg_get (st_reg st) p = Some it /\
      it_state it = Resolved r /\
      rs_inner r = IType td /\
      In (out_path parent, f) files /\
      EmitReaders.file_items f = Some (pre ++ (s :: checks ++ sing ++ im :: conv) ++ post) /\
      EmitReaders.find_struct name (pre ++ (s :: checks ++ sing ++ im :: conv) ++ post) = Some s /\
      (exists docs : list string,
         EmitMarkersNoDoc.item_docs s = Some docs /\ EmitMarkers.docs_as_declared (gt_attrs td0) docs) /\
      Forall EmitMarkersNoDoc.undocumented checks /\
      Forall EmitMarkersNoDoc.undocumented sing /\
      EmitMarkersNoDoc.item_docs im = Some [] /\
      EmitMarkersNoDoc.inner_items im = Some (acc ++ wrappers) /\
      Forall (fun a : sexp => EmitMarkersNoDoc.item_docs a = Some []) acc /\
      Forall2 EmitFnShape.wrapper_shape
        (EmitFnShape.emitted_fns (td_assoc td) ++
         match td_vftable td with
         | Some vt => EmitFnShape.emitted_fns (vt_functions vt)
         | None => []
         end) wrappers /\
      Forall
        (fun e : sexp => EmitMarkersNoDoc.undocumented e \/ EmitMarkersNoDoc.conflict_documented name e)
        conv.
Proof. exact EmitMarkersNoDoc.C17_no_doc_on_type_helpers. Qed.
Print Assumptions C17_no_doc_on_type_helpers.

Theorem C17_no_doc_on_enum_helpers :
  forall (order : schedule) (ptr : N) (mods : list (path * gmodule)) (st0 st : sstate)
      (files : list (string * sexp)) (p : path) (it0 : item) (gd : gitemdef) 
      (ed0 : genumdef),
    input_state ptr mods = Ok st0 ->
    NoDup (map fst mods) ->
    collision_free (st_reg st0) ->
    EmitFinal.keeps_work order ->
    pyxis_resolve order ptr mods = BOk st ->
    write_all st = Ok files ->
    reg_get (st_reg st0) p = Some it0 ->
    it_state it0 = Unresolved gd ->
    gi_inner gd = GIEnum ed0 ->
    path_parent p <> Some [] ->
    exists
      (parent : path) (name : string) (f : sexp) (pre : list sexp) (e : sexp) 
    (rest post : list sexp),
      path_parent p = Some parent /\
      path_last p = Some name /\
      In (out_path parent, f) files /\
      EmitReaders.file_items f = Some (pre ++ (e :: rest) ++ post) /\
      EmitMarkersEnum.find_enum name (pre ++ (e :: rest) ++ post) = Some e /\
      (exists docs : list string,
         EmitMarkersNoDoc.item_docs e = Some docs /\ EmitMarkers.docs_as_declared (ged_attrs ed0) docs) /\
      Forall EmitMarkersNoDoc.undocumented rest.
Proof. exact EmitMarkersNoDoc.C17_no_doc_on_enum_helpers. Qed.
Print Assumptions C17_no_doc_on_enum_helpers.

Theorem C17_emitted_module_docs :
  forall (order : schedule) (ptr : N) (mods : list (path * gmodule)) (st0 st : sstate)
      (files : list (string * sexp)) (k : path) (gm : gmodule),
    input_state ptr mods = Ok st0 ->
    NoDup (map fst mods) ->
    collision_free (st_reg st0) ->
    pyxis_resolve order ptr mods = BOk st ->
    write_all st = Ok files ->
    In (k, gm) mods ->
    k <> [] ->
    exists (m : smodule) (f : sexp) (docs : list string) (items : list (list sexp)) 
    (evs : list sexp),
      In (k, m) (st_modules st) /\
      In (out_path k, f) files /\
      EmitMarkersNoDoc.file_docs f = Some docs /\
      EmitMarkers.docs_as_declared (gm_attrs gm) docs /\
      mapM (build_item (st_reg st) (S (Datatypes.length (reg_types (st_reg st)))))
        (module_definitions (st_reg st) m) = Ok items /\
      EmitReaders.file_items f =
      Some
        (SList [Atom "opaque"; Str (prologue_text m)]
         :: List.concat items ++ evs ++ [SList [Atom "opaque"; Str (epilogue_text m)]]) /\
      Datatypes.length evs = Datatypes.length (m_extern_values m) /\
      Forall EmitMarkersNoDoc.undocumented evs.
Proof. exact EmitMarkersNoDoc.C17_emitted_module_docs. Qed.
Print Assumptions C17_emitted_module_docs.
