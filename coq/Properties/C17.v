(** * C17 — visibility, derives, packing and documentation are carried over faithfully.

    PROVED on the model:
    - markers: the attribute scan sets copyable iff [copyable] is written; cloneable iff [copyable] or
      [cloneable]; defaultable iff [defaultable]; packed iff [packed]; the printed derive list holds
      Copy / Clone / Default exactly for those flags (so copyable yields Copy and Clone, cloneable
      Clone only); a packed type is printed [repr(C, packed)] without an alignment argument,
      any other [repr(C, align(A))];
    - documentation: an item's doc is its doc attribute values in order joined by line breaks, and
      the printed doc lines are exactly those values when none contains a line break (empty lines
      included -- the F8 fix);
    - visibility: declared fields keep their visibility (the region records it; [region_field]
      prints [r_vis]); regions the resolver generates (padding) are private and undocumented; the own
      vftable pointer region and placeholder slots are private.
    The correspondence compares vis / derive / repr / doc of every emitted node with the real output. *)
From Coq Require Import List NArith ZArith Bool String.
From PyxisModel Require Import Base Sexp Grammar SemTypes Registry Sem SemLemmas PlacementLemmas Emit EmitLemmas WholeBuild WholeBuildMore.
Import ListNotations.

Theorem C17_markers : forall attrs ta,
  foldM scan_type_attr attrs ta_init = Ok ta ->
  ta_copyable ta = has_marker "copyable" attrs /\
  ta_cloneable ta = has_marker "copyable" attrs || has_marker "cloneable" attrs /\
  ta_defaultable ta = has_marker "defaultable" attrs /\
  ta_packed ta = has_marker "packed" attrs.
Proof. intros attrs ta H. exact (scan_type_attrs_flags attrs ta_init ta H). Qed.
Print Assumptions C17_markers.

Theorem C17_derives : forall c cl d,
  (In "Copy"%string (derive_names c cl d) <-> c = true) /\
  (In "Clone"%string (derive_names c cl d) <-> cl = true) /\
  (In "Default"%string (derive_names c cl d) <-> d = true).
Proof. exact derive_names_spec. Qed.
Print Assumptions C17_derives.

Theorem C17_derive_attr : forall base c cl d,
  derive_attr base c cl d =
  match (base ++ derive_names c cl d)%list with
  | [] => []
  | names => [attr_outer [tk "derive"; paren (commas (map (fun n => [tk n]) names))]]
  end.
Proof. exact derive_attr_names. Qed.
Print Assumptions C17_derive_attr.

Theorem C17_packing : forall packed A,
  repr_attr packed A =
  attr_outer [tk "repr"; paren (if packed then [tk "C"; tk ","; tk "packed"]
                                else [tk "C"; tk ","; tk "align"; paren [tint A "-"]])].
Proof. exact repr_attr_spec. Qed.
Print Assumptions C17_packing.

Theorem C17_docs : forall attrs d,
  attrs_doc attrs = Ok d ->
  exists ls, doc_values attrs = Ok ls /\ (Forall no_newline ls -> doc_lines d = ls).
Proof. exact doc_carried. Qed.
Print Assumptions C17_docs.

Theorem C17_generated_private : forall R rs s0 rs' s,
  name_regions R rs s0 = Ok (rs', s) ->
  Forall2 (fun r r' => r_name r = None -> r_vis r' = Private /\ r_doc r' = None) rs rs'.
Proof. exact name_regions_generated_private. Qed.
Print Assumptions C17_generated_private.

Theorem C17_vftable_pointer_and_placeholders_private : forall ty k,
  r_vis (vftable_region_of ty) = Private /\ sf_vis (padding_fn k) = Private /\
  sf_doc (padding_fn k) = None /\ r_doc (vftable_region_of ty) = None.
Proof. intros. repeat split. Qed.
Print Assumptions C17_vftable_pointer_and_placeholders_private.

Example C17_doc_example :
  doc_lines (Some (join_lines [""; " b"; ""]%string)) = [""; " b"; ""]%string.
Proof. reflexivity. Qed.

(** ** End to end (WholeBuildMore.v): the per-attempt theorems above, for every item of every accepted
    [collision_free] build, in terms of the FINAL registry *)
Theorem C17_whole_build_markers : forall order ptr mods st0 st p it0 gd td0 it r,
  input_state ptr mods = Ok st0 -> collision_free (st_reg st0) ->
  pyxis_resolve order ptr mods = BOk st ->
  reg_get (st_reg st0) p = Some it0 -> it_state it0 = Unresolved gd -> gi_inner gd = GIType td0 ->
  reg_get (st_reg st) p = Some it -> it_state it = Resolved r ->
  exists td, rs_inner r = IType td /\
    td_copyable td = has_marker "copyable" (gt_attrs td0) /\
    td_cloneable td = has_marker "copyable" (gt_attrs td0) || has_marker "cloneable" (gt_attrs td0) /\
    td_defaultable td = has_marker "defaultable" (gt_attrs td0) /\
    td_packed td = has_marker "packed" (gt_attrs td0) /\
    (td_packed td = true -> rs_align r = 1%N).
Proof. exact WholeBuildMore.C17_whole_build_markers. Qed.
Print Assumptions C17_whole_build_markers.

Theorem C17_whole_build_enum_markers : forall order ptr mods st0 st p it0 gd ed0 it r,
  input_state ptr mods = Ok st0 -> collision_free (st_reg st0) ->
  pyxis_resolve order ptr mods = BOk st ->
  reg_get (st_reg st0) p = Some it0 -> it_state it0 = Unresolved gd -> gi_inner gd = GIEnum ed0 ->
  reg_get (st_reg st) p = Some it -> it_state it = Resolved r ->
  exists ed, rs_inner r = IEnum ed /\
    ed_copyable ed = has_marker "copyable" (ged_attrs ed0) /\
    ed_cloneable ed = has_marker "copyable" (ged_attrs ed0) || has_marker "cloneable" (ged_attrs ed0) /\
    ed_defaultable ed = has_marker "defaultable" (ged_attrs ed0).
Proof. exact WholeBuildMore.C17_whole_build_enum_markers. Qed.
Print Assumptions C17_whole_build_enum_markers.

