(** * C15 — singleton and extern-value accessors address the declared location.

    PROVED on the model: an extern value is registered only with an [#[address(A)]] (the last one
    wins, negative values rejected) and keeps name, visibility and address; without an address it
    is rejected; at the end of the build its type is the resolved declared type or the build fails.
    The type / enum attribute scan stores exactly the written [#[singleton(A)]].  RustExec gives
    the accessors' meaning: struct [get] loads the pointer-sized word at A and returns None when it
    is null, else a reference to the object it points to; enum [get] returns the value stored at
    A; [get_<name>] returns a reference to absolute address A.
    On the emitted text (EmitFn*.v): [C15_emitted_singleton] / [C15_emitted_enum_singleton]: the
    `get` accessor the back end prints for a singleton, read back from its tokens, is `unsafe`,
    has the item's visibility, no parameters, the documented return type and reads exactly the
    address it was given; [C15_emitted_extern_accessor] / [C15_emitted_extern_value]: every extern
    value of a module has, in the module's file, a `get_<name>` accessor with its visibility that
    casts exactly its address to a `&'static mut <declared type>`. *)
From Coq Require Import List NArith ZArith Bool String Lia.
From PyxisModel Require Import Base Grammar SemTypes Registry Sem SemLemmas FunctionLemmas
     VftableLemmas RustExec.
Import ListNotations.

From PyxisModel Require EmitReaders EmitFnReaders EmitFnShape EmitFnFinal.

Definition declared_int (name : string) (attrs : list gattr) : option Z :=
  last_some (int_attr name) attrs None.

Theorem C15_extern_value : forall ev x,
  extern_value_of ev = Ok x ->
  exists a, declared_int "address" (gev_attrs ev) = Some a /\ z_to_usize a = Some (ev_address x) /\
            ev_name x = gev_name ev /\ ev_vis x = gev_vis ev /\ ev_gtype x = gev_type ev.
Proof.
  unfold extern_value_of. intros ev x H. inv_bind H.
  pose proof (scan_int_spec "address" _ _ _ Ha) as Hs. unfold declared_int.
  destruct (last_some (int_attr "address") (gev_attrs ev) None) as [z|].
  - destruct (z_to_usize z) as [n|] eqn:Ez; cbn in Hs; [|discriminate]. inversion Hs; subst a.
    inversion H; subst x. cbn. exists z. auto.
  - subst a. discriminate.
Qed.
Print Assumptions C15_extern_value.

Theorem C15_extern_without_address_rejected : forall ev,
  declared_int "address" (gev_attrs ev) = None -> ~ is_ok (extern_value_of ev) = true.
Proof.
  intros ev Hn Hok. destruct (extern_value_of ev) as [x| | |] eqn:E; try discriminate.
  destruct (C15_extern_value _ _ E) as (a & Ha & _). congruence.
Qed.
Print Assumptions C15_extern_without_address_rejected.

Theorem C15_extern_type_resolved : forall R m m',
  resolve_extern_values R m = Ok m' ->
  Forall2 (fun ev ev' => exists t, resolve_gtype R (module_scope m) (ev_gtype ev) = Some t /\
                                   ev_type ev' = Some t /\ ev_address ev' = ev_address ev /\
                                   ev_name ev' = ev_name ev /\ ev_vis ev' = ev_vis ev)
          (m_extern_values m) (m_extern_values m').
Proof.
  unfold resolve_extern_values. intros R m m' H. inv_bind H. inversion H; subst m'. cbn.
  pose proof (mapM_ok _ _ _ Ha) as F. clear - F.
  induction F as [|ev ev' l l' Hx _ IH]; constructor; [|exact IH].
  destruct (resolve_gtype R (module_scope m) (ev_gtype ev)) as [t|]; inversion Hx; subst.
  exists t. cbn. auto.
Qed.
Print Assumptions C15_extern_type_resolved.

(** what the accessors compute (spec side) *)
Theorem C15_struct_singleton : forall mem a,
  singleton_get mem a = if N.eqb (mem a) 0 then None else Some (mem a).
Proof. reflexivity. Qed.
Theorem C15_enum_singleton : forall mem a, enum_singleton_get mem a = mem a.
Proof. reflexivity. Qed.
Theorem C15_extern_get : forall a, extern_get a = a.
Proof. reflexivity. Qed.
Print Assumptions C15_struct_singleton.
Print Assumptions C15_enum_singleton.
Print Assumptions C15_extern_get.

Theorem C15_emitted_singleton :
  forall (name : string) (v : vis) (addr : N),
    EmitFnShape.singleton_shape name v addr (Emit.singleton_struct_impl name v addr).
Proof. exact EmitFnShape.singleton_struct_impl_shape. Qed.
Print Assumptions C15_emitted_singleton.

Theorem C15_emitted_enum_singleton :
  forall (p : path) (size : N) (v : vis) (ed : enum_def) (items : list Sexp.sexp),
    Emit.build_enum p size v ed = Ok items ->
    exists (name : string) (e : Sexp.sexp) (checks sing : list Sexp.sexp),
      path_last p = Some name /\
      items = e :: checks ++ sing /\
      EmitShape.enum_shape name v ed e /\
      EmitShape.size_check_shape name size checks /\
      match ed_singleton ed with
      | Some a => exists im : Sexp.sexp, sing = [im] /\ EmitFnShape.enum_singleton_shape name v a im
      | None => sing = []
      end.
Proof. exact EmitFnShape.build_enum_singleton_shape. Qed.
Print Assumptions C15_emitted_enum_singleton.

Theorem C15_emitted_extern_accessor :
  forall (ev : sextern) (e : Sexp.sexp),
    Emit.build_extern_value ev = Ok e ->
    exists t : stype, ev_type ev = Some t /\ EmitFnShape.extern_shape ev t e.
Proof. exact EmitFnShape.build_extern_value_shape. Qed.
Print Assumptions C15_emitted_extern_accessor.

Theorem C15_emitted_extern_value :
  forall (st : sstate) (m : smodule) (f : Sexp.sexp) (ev : sextern),
    Emit.module_file st m = Ok f ->
    In ev (m_extern_values m) ->
    exists (items : list Sexp.sexp) (e : Sexp.sexp) (t : stype),
      EmitReaders.file_items f = Some items /\
      In e items /\ ev_type ev = Some t /\ EmitFnShape.extern_shape ev t e.
Proof. exact EmitFnFinal.emitted_extern_value. Qed.
Print Assumptions C15_emitted_extern_value.
