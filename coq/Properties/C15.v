(** * C15 — singleton and extern-value accessors address the declared location.

    PROVED on the model: an extern value is registered only with an [#[address(A)]] (the last one
    wins, negative values rejected) and keeps name, visibility and address; without an address it
    is rejected; at the end of the build its type is the resolved declared type or the build fails.
    The type / enum attribute scan stores exactly the written [#[singleton(A)]].  RustExec gives
    the accessors' meaning: struct [get] loads the pointer-sized word at A and returns None when it
    is null, else a reference to the object it points to; enum [get] returns the value stored at
    A; [get_<name>] returns a reference to absolute address A.
    On the emitted text (EmitFn*.v): [C15_emitted_singleton] / [C15_emitted_enum_singleton]: the
    `get` accessor the back end prints for a singleton, read back from its tokens, is `unsafe`,
    has the item's visibility, no parameters, the documented return type and reads exactly the
    address it was given; [C15_emitted_extern_accessor] / [C15_emitted_extern_value]: every extern
    value of a module has, in the module's file, a `get_<name>` accessor with its visibility that
    casts exactly its address to a `&'static mut <declared type>`. 
    END TO END FROM THE DECLARATION (EmitAccessors.v, EmitExternOnce.v, EmitSingletonOnce.v), accepted
    collision-free build, at the end of this file:
    - [C15_struct_singleton_declared] / [_get] / [_exactly_once]: a type whose last [#[singleton(A)]]
      is A gets, right after its struct and size check, an inherent impl with exactly one function
      [get] -- the type's visibility, unsafe, no parameters, [Option<&'static mut Self>] -- whose
      body reads exactly address A (and RustExec's meaning of that body: None when the word at A is
      null, else the object it points to); a type without the attribute gets none; no other
      inherent impl of the type in the file carries a singleton address;
    - [C15_enum_singleton_declared] / [_get] / [_exactly_once]: the same for enums (the value stored
      at A, read through a raw pointer);
    - [C15_negative_singleton_rejected]: a negative value anywhere in the attribute list keeps the
      build from being accepted;
    - [C15_extern_accessor_of_declaration]: every declared extern value has its [get_<name>] with
      the declared visibility, unsafe, no parameters, [&'static mut T], casting exactly the last
      declared address; [C14_extern_accessors_exactly_once] (in C14.v): the accessors of a file
      are, with multiplicity, exactly those of the module's declarations;
    - [C15_extern_without_address_rejected_build]: an input containing an extern value without an
      address is rejected at registration. *)
From Coq Require Import List NArith ZArith Bool String Lia.
From PyxisModel Require Import Base Grammar SemTypes Registry Sem SemLemmas FunctionLemmas
     VftableLemmas RustExec.
Import ListNotations.

From PyxisModel Require EmitReaders EmitFnReaders EmitFnShape EmitFnFinal.

From PyxisModel Require EmitAccessors EmitExternOnce EmitSingletonOnce.

Definition declared_int (name : string) (attrs : list gattr) : option Z :=
  last_some (int_attr name) attrs None.

Theorem C15_extern_value : forall ev x,
  extern_value_of ev = Ok x ->
  exists a, declared_int "address" (gev_attrs ev) = Some a /\ z_to_usize a = Some (ev_address x) /\
            ev_name x = gev_name ev /\ ev_vis x = gev_vis ev /\ ev_gtype x = gev_type ev.
Proof.
  unfold extern_value_of. intros ev x H. inv_bind H.
  pose proof (scan_int_spec "address" _ _ _ Ha) as Hs. unfold declared_int.
  destruct (last_some (int_attr "address") (gev_attrs ev) None) as [z|].
  - destruct (z_to_usize z) as [n|] eqn:Ez; cbn in Hs; [|discriminate]. inversion Hs; subst a.
    inversion H; subst x. cbn. exists z. auto.
  - subst a. discriminate.
Qed.
Print Assumptions C15_extern_value.

Theorem C15_extern_without_address_rejected : forall ev,
  declared_int "address" (gev_attrs ev) = None -> ~ is_ok (extern_value_of ev) = true.
Proof.
  intros ev Hn Hok. destruct (extern_value_of ev) as [x| | |] eqn:E; try discriminate.
  destruct (C15_extern_value _ _ E) as (a & Ha & _). congruence.
Qed.
Print Assumptions C15_extern_without_address_rejected.

Theorem C15_extern_type_resolved : forall R m m',
  resolve_extern_values R m = Ok m' ->
  Forall2 (fun ev ev' => exists t, resolve_gtype R (module_scope m) (ev_gtype ev) = Some t /\
                                   ev_type ev' = Some t /\ ev_address ev' = ev_address ev /\
                                   ev_name ev' = ev_name ev /\ ev_vis ev' = ev_vis ev)
          (m_extern_values m) (m_extern_values m').
Proof.
  unfold resolve_extern_values. intros R m m' H. inv_bind H. inversion H; subst m'. cbn.
  pose proof (mapM_ok _ _ _ Ha) as F. clear - F.
  induction F as [|ev ev' l l' Hx _ IH]; constructor; [|exact IH].
  destruct (resolve_gtype R (module_scope m) (ev_gtype ev)) as [t|]; inversion Hx; subst.
  exists t. cbn. auto.
Qed.
Print Assumptions C15_extern_type_resolved.

(** what the accessors compute (spec side) *)
Theorem C15_struct_singleton : forall mem a,
  singleton_get mem a = if N.eqb (mem a) 0 then None else Some (mem a).
Proof. reflexivity. Qed.
Theorem C15_enum_singleton : forall mem a, enum_singleton_get mem a = mem a.
Proof. reflexivity. Qed.
Theorem C15_extern_get : forall a, extern_get a = a.
Proof. reflexivity. Qed.
Print Assumptions C15_struct_singleton.
Print Assumptions C15_enum_singleton.
Print Assumptions C15_extern_get.

Theorem C15_emitted_singleton :
  forall (name : string) (v : vis) (addr : N),
    EmitFnShape.singleton_shape name v addr (Emit.singleton_struct_impl name v addr).
Proof. exact EmitFnShape.singleton_struct_impl_shape. Qed.
Print Assumptions C15_emitted_singleton.

Theorem C15_emitted_enum_singleton :
  forall (p : path) (size : N) (v : vis) (ed : enum_def) (items : list Sexp.sexp),
    Emit.build_enum p size v ed = Ok items ->
    exists (name : string) (e : Sexp.sexp) (checks sing : list Sexp.sexp),
      path_last p = Some name /\
      items = e :: checks ++ sing /\
      EmitShape.enum_shape name v ed e /\
      EmitShape.size_check_shape name size checks /\
      match ed_singleton ed with
      | Some a => exists im : Sexp.sexp, sing = [im] /\ EmitFnShape.enum_singleton_shape name v a im
      | None => sing = []
      end.
Proof. exact EmitFnShape.build_enum_singleton_shape. Qed.
Print Assumptions C15_emitted_enum_singleton.

Theorem C15_emitted_extern_accessor :
  forall (ev : sextern) (e : Sexp.sexp),
    Emit.build_extern_value ev = Ok e ->
    exists t : stype, ev_type ev = Some t /\ EmitFnShape.extern_shape ev t e.
Proof. exact EmitFnShape.build_extern_value_shape. Qed.
Print Assumptions C15_emitted_extern_accessor.

Theorem C15_emitted_extern_value :
  forall (st : sstate) (m : smodule) (f : Sexp.sexp) (ev : sextern),
    Emit.module_file st m = Ok f ->
    In ev (m_extern_values m) ->
    exists (items : list Sexp.sexp) (e : Sexp.sexp) (t : stype),
      EmitReaders.file_items f = Some items /\
      In e items /\ ev_type ev = Some t /\ EmitFnShape.extern_shape ev t e.
Proof. exact EmitFnFinal.emitted_extern_value. Qed.
Print Assumptions C15_emitted_extern_value.

Theorem C15_struct_singleton_declared :
  forall (order : schedule) (ptr : N) (mods : list (path * gmodule)) (st0 st : sstate)
      (files : list (string * Sexp.sexp)) (p : path) (it0 : item) (gd : gitemdef) 
      (td0 : gtypedef),
    WholeBuild.input_state ptr mods = Ok st0 ->
    NoDup (map fst mods) ->
    WholeBuild.collision_free (st_reg st0) ->
    EmitFinal.keeps_work order ->
    pyxis_resolve order ptr mods = BOk st ->
    Emit.write_all st = Ok files ->
    reg_get (st_reg st0) p = Some it0 ->
    it_state it0 = Unresolved gd ->
    gi_inner gd = GIType td0 ->
    path_parent p <> Some [] ->
    exists
      (parent : path) (name : string) (it : item) (r : resolved) (f : Sexp.sexp) 
    (pre : list Sexp.sexp) (s : Sexp.sexp) (sing : list Sexp.sexp) (im : Sexp.sexp) 
    (fns conv post : list Sexp.sexp),
      path_parent p = Some parent /\
      parent <> [] /\
      path_last p = Some name /\
      reg_get (st_reg st) p = Some it /\
      it_state it = Resolved r /\
      In (Emit.out_path parent, f) files /\
      EmitReaders.file_items f =
      Some (pre ++ (s :: Emit.size_check name (rs_size r) ++ sing ++ im :: conv) ++ post) /\
      EmitReaders.find_struct name
        (pre ++ (s :: Emit.size_check name (rs_size r) ++ sing ++ im :: conv) ++ post) = 
      Some s /\
      im = Emit.impl_sexp (Sexp.Atom "notrait") name fns /\
      Forall EmitShape.is_impl_or_const conv /\
      match EmitAccessors.declared_singleton (gt_attrs td0) with
      | Some A =>
          (0 <= A)%Z /\
          (exists e : Sexp.sexp,
             sing = [e] /\
             e = Emit.singleton_struct_impl name (gi_vis gd) (Z.to_N A) /\
             EmitFnShape.singleton_shape name (gi_vis gd) (Z.to_N A) e)
      | None => sing = []
      end.
Proof. exact EmitAccessors.C15_struct_singleton_declared. Qed.
Print Assumptions C15_struct_singleton_declared.

Theorem C15_struct_singleton_get :
  forall (order : schedule) (ptr : N) (mods : list (path * gmodule)) (st0 st : sstate)
      (files : list (string * Sexp.sexp)) (p : path) (it0 : item) (gd : gitemdef) 
      (td0 : gtypedef) (A : Z),
    WholeBuild.input_state ptr mods = Ok st0 ->
    NoDup (map fst mods) ->
    WholeBuild.collision_free (st_reg st0) ->
    EmitFinal.keeps_work order ->
    pyxis_resolve order ptr mods = BOk st ->
    Emit.write_all st = Ok files ->
    reg_get (st_reg st0) p = Some it0 ->
    it_state it0 = Unresolved gd ->
    gi_inner gd = GIType td0 ->
    path_parent p <> Some [] ->
    EmitAccessors.declared_singleton (gt_attrs td0) = Some A ->
    exists (parent : path) (name : string) (f : Sexp.sexp) (items : list Sexp.sexp) 
    (e g : Sexp.sexp),
      path_parent p = Some parent /\
      path_last p = Some name /\
      In (Emit.out_path parent, f) files /\
      EmitReaders.file_items f = Some items /\
      In e items /\
      EmitReaders.item_kind e = Some "impl"%string /\
      EmitFnReaders.inherent_impl e = Some (name, [g]) /\
      EmitReaders.item_kind g = Some "fn"%string /\
      EmitFnReaders.fn_name g = Some "get"%string /\
      EmitFnReaders.fn_vis g = Some (gi_vis gd) /\
      EmitFnReaders.fn_unsafe g = Some true /\
      EmitFnReaders.fn_params g = Some [] /\
      EmitFnReaders.fn_ret g =
      Some
        (Emit.tks
           ["Option"%string; "<"%string; "&"%string; "'"%string; "static"%string; "mut"%string;
            "Self"%string; ">"%string]) /\
      (0 <= A)%Z /\
      EmitFnShape.fn_singleton_addr g = Some (Z.to_N A) /\
      (forall mem : N -> N,
       EmitAccessors.struct_get_result mem g =
       Some (if (mem (Z.to_N A) =? 0)%N then None else Some (mem (Z.to_N A)))).
Proof. exact EmitAccessors.C15_struct_singleton_get. Qed.
Print Assumptions C15_struct_singleton_get.

Theorem C15_struct_singleton_exactly_once :
  forall (order : schedule) (ptr : N) (mods : list (path * gmodule)) (st0 st : sstate)
      (files : list (string * Sexp.sexp)) (p : path) (it0 : item) (gd : gitemdef) 
      (td0 : gtypedef),
    WholeBuild.input_state ptr mods = Ok st0 ->
    NoDup (map fst mods) ->
    WholeBuild.collision_free (st_reg st0) ->
    EmitFinal.keeps_work order ->
    pyxis_resolve order ptr mods = BOk st ->
    Emit.write_all st = Ok files ->
    reg_get (st_reg st0) p = Some it0 ->
    it_state it0 = Unresolved gd ->
    gi_inner gd = GIType td0 ->
    path_parent p <> Some [] ->
    exists
      (parent : path) (name : string) (it : item) (r : resolved) (f : Sexp.sexp) 
    (pre : list Sexp.sexp) (s : Sexp.sexp) (sing : list Sexp.sexp) (im : Sexp.sexp) 
    (fns conv post : list Sexp.sexp),
      path_parent p = Some parent /\
      parent <> [] /\
      path_last p = Some name /\
      reg_get (st_reg st) p = Some it /\
      it_state it = Resolved r /\
      In (Emit.out_path parent, f) files /\
      EmitReaders.file_items f =
      Some (pre ++ (s :: Emit.size_check name (rs_size r) ++ sing ++ im :: conv) ++ post) /\
      EmitReaders.find_struct name
        (pre ++ (s :: Emit.size_check name (rs_size r) ++ sing ++ im :: conv) ++ post) = 
      Some s /\
      im = Emit.impl_sexp (Sexp.Atom "notrait") name fns /\
      Forall EmitShape.is_impl_or_const conv /\
      Forall (fun e : Sexp.sexp => EmitSingletonOnce.impl_named name e = false) pre /\
      Forall (fun e : Sexp.sexp => EmitSingletonOnce.impl_named name e = false) post /\
      match EmitAccessors.declared_singleton (gt_attrs td0) with
      | Some A =>
          (0 <= A)%Z /\
          (exists e : Sexp.sexp,
             sing = [e] /\
             e = Emit.singleton_struct_impl name (gi_vis gd) (Z.to_N A) /\
             EmitFnShape.singleton_shape name (gi_vis gd) (Z.to_N A) e)
      | None => sing = []
      end /\
      EmitSingletonOnce.file_singleton_addrs name f =
      match EmitAccessors.declared_singleton (gt_attrs td0) with
      | Some A => [Z.to_N A]
      | None => []
      end /\ EmitSingletonOnce.file_enum_singleton_addrs name f = [].
Proof. exact EmitSingletonOnce.C15_struct_singleton_exactly_once. Qed.
Print Assumptions C15_struct_singleton_exactly_once.

Theorem C15_enum_singleton_declared :
  forall (order : schedule) (ptr : N) (mods : list (path * gmodule)) (st0 st : sstate)
      (files : list (string * Sexp.sexp)) (p : path) (it0 : item) (gd : gitemdef) 
      (ed0 : genumdef),
    WholeBuild.input_state ptr mods = Ok st0 ->
    NoDup (map fst mods) ->
    WholeBuild.collision_free (st_reg st0) ->
    EmitFinal.keeps_work order ->
    pyxis_resolve order ptr mods = BOk st ->
    Emit.write_all st = Ok files ->
    reg_get (st_reg st0) p = Some it0 ->
    it_state it0 = Unresolved gd ->
    gi_inner gd = GIEnum ed0 ->
    path_parent p <> Some [] ->
    exists
      (parent : path) (name : string) (it : item) (r : resolved) (f : Sexp.sexp) 
    (pre : list Sexp.sexp) (e : Sexp.sexp) (sing post : list Sexp.sexp),
      path_parent p = Some parent /\
      path_last p = Some name /\
      reg_get (st_reg st) p = Some it /\
      it_state it = Resolved r /\
      In (Emit.out_path parent, f) files /\
      EmitReaders.file_items f = Some (pre ++ (e :: Emit.size_check name (rs_size r) ++ sing) ++ post) /\
      EmitMarkersEnum.find_enum name (pre ++ (e :: Emit.size_check name (rs_size r) ++ sing) ++ post) =
      Some e /\
      match EmitAccessors.declared_singleton (ged_attrs ed0) with
      | Some A =>
          (0 <= A)%Z /\
          (exists im : Sexp.sexp,
             sing = [im] /\
             im = EmitAccessors.enum_singleton_impl name (gi_vis gd) (Z.to_N A) /\
             EmitFnShape.enum_singleton_shape name (gi_vis gd) (Z.to_N A) im)
      | None => sing = []
      end.
Proof. exact EmitAccessors.C15_enum_singleton_declared. Qed.
Print Assumptions C15_enum_singleton_declared.

Theorem C15_enum_singleton_get :
  forall (order : schedule) (ptr : N) (mods : list (path * gmodule)) (st0 st : sstate)
      (files : list (string * Sexp.sexp)) (p : path) (it0 : item) (gd : gitemdef) 
      (ed0 : genumdef) (A : Z),
    WholeBuild.input_state ptr mods = Ok st0 ->
    NoDup (map fst mods) ->
    WholeBuild.collision_free (st_reg st0) ->
    EmitFinal.keeps_work order ->
    pyxis_resolve order ptr mods = BOk st ->
    Emit.write_all st = Ok files ->
    reg_get (st_reg st0) p = Some it0 ->
    it_state it0 = Unresolved gd ->
    gi_inner gd = GIEnum ed0 ->
    path_parent p <> Some [] ->
    EmitAccessors.declared_singleton (ged_attrs ed0) = Some A ->
    exists (parent : path) (name : string) (f : Sexp.sexp) (items : list Sexp.sexp) 
    (e g : Sexp.sexp),
      path_parent p = Some parent /\
      path_last p = Some name /\
      In (Emit.out_path parent, f) files /\
      EmitReaders.file_items f = Some items /\
      In e items /\
      EmitReaders.item_kind e = Some "impl"%string /\
      EmitFnReaders.inherent_impl e = Some (name, [g]) /\
      EmitReaders.item_kind g = Some "fn"%string /\
      EmitFnReaders.fn_name g = Some "get"%string /\
      EmitFnReaders.fn_vis g = Some (gi_vis gd) /\
      EmitFnReaders.fn_unsafe g = Some true /\
      EmitFnReaders.fn_params g = Some [] /\
      EmitFnReaders.fn_ret g = Some [Sexp.Atom "Self"] /\
      EmitFnReaders.fn_body g =
      Some
        [Emit.tk "unsafe";
         Emit.brace
           [Emit.paren
              ([Emit.tint (Z.to_N A) "-"] ++
               Emit.tks ["as"%string; "*"%string; "const"%string; "Self"%string]); 
            Emit.tk "."; Emit.tk "read"; Emit.paren []]] /\
      (0 <= A)%Z /\
      EmitFnShape.fn_enum_singleton_addr g = Some (Z.to_N A) /\
      (forall mem : N -> N, EmitAccessors.enum_get_result mem g = Some (mem (Z.to_N A))).
Proof. exact EmitAccessors.C15_enum_singleton_get. Qed.
Print Assumptions C15_enum_singleton_get.

Theorem C15_enum_singleton_exactly_once :
  forall (order : schedule) (ptr : N) (mods : list (path * gmodule)) (st0 st : sstate)
      (files : list (string * Sexp.sexp)) (p : path) (it0 : item) (gd : gitemdef) 
      (ed0 : genumdef),
    WholeBuild.input_state ptr mods = Ok st0 ->
    NoDup (map fst mods) ->
    WholeBuild.collision_free (st_reg st0) ->
    EmitFinal.keeps_work order ->
    pyxis_resolve order ptr mods = BOk st ->
    Emit.write_all st = Ok files ->
    reg_get (st_reg st0) p = Some it0 ->
    it_state it0 = Unresolved gd ->
    gi_inner gd = GIEnum ed0 ->
    path_parent p <> Some [] ->
    exists
      (parent : path) (name : string) (it : item) (r : resolved) (f : Sexp.sexp) 
    (pre : list Sexp.sexp) (e : Sexp.sexp) (sing post : list Sexp.sexp),
      path_parent p = Some parent /\
      path_last p = Some name /\
      reg_get (st_reg st) p = Some it /\
      it_state it = Resolved r /\
      In (Emit.out_path parent, f) files /\
      EmitReaders.file_items f = Some (pre ++ (e :: Emit.size_check name (rs_size r) ++ sing) ++ post) /\
      EmitMarkersEnum.find_enum name (pre ++ (e :: Emit.size_check name (rs_size r) ++ sing) ++ post) =
      Some e /\
      Forall (fun x : Sexp.sexp => EmitSingletonOnce.impl_named name x = false) pre /\
      Forall (fun x : Sexp.sexp => EmitSingletonOnce.impl_named name x = false) post /\
      match EmitAccessors.declared_singleton (ged_attrs ed0) with
      | Some A =>
          (0 <= A)%Z /\
          (exists im : Sexp.sexp,
             sing = [im] /\
             im = EmitAccessors.enum_singleton_impl name (gi_vis gd) (Z.to_N A) /\
             EmitFnShape.enum_singleton_shape name (gi_vis gd) (Z.to_N A) im)
      | None => sing = []
      end /\
      EmitSingletonOnce.file_enum_singleton_addrs name f =
      match EmitAccessors.declared_singleton (ged_attrs ed0) with
      | Some A => [Z.to_N A]
      | None => []
      end /\ EmitSingletonOnce.file_singleton_addrs name f = [].
Proof. exact EmitSingletonOnce.C15_enum_singleton_exactly_once. Qed.
Print Assumptions C15_enum_singleton_exactly_once.

Theorem C15_negative_singleton_rejected :
  forall (order : schedule) (ptr : N) (mods : list (path * gmodule)) (st0 : sstate) 
      (k : path) (gm : gmodule) (d : gitemdef) (z : Z),
    WholeBuild.input_state ptr mods = Ok st0 ->
    NoDup (map fst mods) ->
    WholeBuild.collision_free (st_reg st0) ->
    EmitFinal.keeps_work order ->
    In (k, gm) mods ->
    In d (gm_defs gm) ->
    In (AFn "singleton" [EInt z])
      match gi_inner d with
      | GIType td0 => gt_attrs td0
      | GIEnum ed0 => ged_attrs ed0
      end -> (z < 0)%Z -> forall st : sstate, pyxis_resolve order ptr mods <> BOk st.
Proof. exact EmitAccessors.negative_singleton_rejected_build. Qed.
Print Assumptions C15_negative_singleton_rejected.

Theorem C15_extern_accessor_of_declaration :
  forall (order : schedule) (ptr : N) (mods : list (path * gmodule)) (st0 st : sstate)
      (files : list (string * Sexp.sexp)) (k : path) (gm : gmodule) (gev : gexternvalue),
    WholeBuild.input_state ptr mods = Ok st0 ->
    NoDup (map fst mods) ->
    WholeBuild.collision_free (st_reg st0) ->
    EmitFinal.keeps_work order ->
    pyxis_resolve order ptr mods = BOk st ->
    Emit.write_all st = Ok files ->
    In (k, gm) mods ->
    k <> [] ->
    In gev (gm_extern_values gm) ->
    exists (f : Sexp.sexp) (items : list Sexp.sexp) (e : Sexp.sexp) (A : Z) 
    (ty : stype),
      In (Emit.out_path k, f) files /\
      EmitReaders.file_items f = Some items /\
      In e items /\
      EmitExternOnce.declared_ev_address (gev_attrs gev) = Some A /\
      (0 <= A)%Z /\
      resolve_gtype (st_reg st) (k :: gm_uses gm) (gev_type gev) = Some ty /\
      EmitReaders.item_kind e = Some "fn"%string /\
      EmitFnReaders.fn_name e = Some ("get_" +++ gev_name gev) /\
      EmitFnReaders.fn_vis e = Some (gev_vis gev) /\
      EmitFnReaders.fn_unsafe e = Some true /\
      EmitFnReaders.fn_params e = Some [] /\
      EmitFnShape.fn_ret_static_mut e = Some (Emit.type_tokens ty) /\
      EmitFnShape.fn_extern_target e = Some (Z.to_N A, Emit.type_tokens ty) /\
      EmitExternOnce.extern_get_result e = Some (Z.to_N A).
Proof. exact EmitExternOnce.C15_extern_accessor_of_declaration. Qed.
Print Assumptions C15_extern_accessor_of_declaration.

Theorem C15_extern_without_address_rejected_build :
  forall (order : schedule) (ptr : N) (mods : list (path * gmodule)) (k : path) 
      (gm : gmodule) (gev : gexternvalue),
    In (k, gm) mods ->
    In gev (gm_extern_values gm) ->
    EmitExternOnce.declared_ev_address (gev_attrs gev) = None ->
    exists msg : string,
      WholeBuild.input_state ptr mods = Err msg /\ pyxis_resolve order ptr mods = BErr msg.
Proof. exact EmitExternOnce.extern_without_address_rejected. Qed.
Print Assumptions C15_extern_without_address_rejected_build.
