(** * C08 — enum discriminants, representation and default variant are as declared.

    SPEC: [values_spec es 0] -- the written discriminant, else predecessor + 1, else 0;
    [default_indices] -- the variants carrying [#[default]].
    PROVED for every state and enum description that [enum_build] accepts: the resolved enum has the
    declared base type as representation with that type's size and alignment; variant k has
    discriminant [values_spec] k and the declared name; exactly one default marker iff defaultable,
    and it is the default index; two markers, a marker without defaultable, defaultable without a
    marker are rejected (they cannot produce [Ok]).  [cast_discr] (RustLayout) is what rustc computes
    for the emitted [v as _]: for a value in the base type's range it is v itself.

    KNOWN FINDING (F2): a discriminant outside the base type's range is *accepted* and emitted with a
    different value; [C08_range_refuted] exhibits it on the model, and the repository's own test
    [can_resolve_enum] pins the behaviour (Item0 = -2 on u32), so it is recorded, not repaired.
    REFUTED ON THE MODEL (RefutedWitnesses*.v; open findings F12a, F12b, F12c): accepted enums that are emitted with no
    variants, with a struct as repr type, with two variants of one discriminant. *)
From Coq Require Import List NArith ZArith Bool String.
From PyxisModel Require Import Base Grammar SemTypes Registry Sem RustLayout EnumLemmas WholeBuild Sexp Emit EmitReaders EmitShape.
Import ListNotations.
Local Open Scope Z_scope.

From PyxisModel Require EmitDefault EmitMarkersEnum.

From PyxisModel Require RefutedInputs RefutedWitnessesOrder RefutedWitnessesEmit RefutedWitnessesFn.

Theorem C08_main : forall st owner d rs,
  enum_build st owner d = Ok rs ->
  exists ed es module,
    rs_inner rs = IEnum ed /\
    alookup (removelast owner) (st_modules st) = Some module /\
    resolve_gtype (st_reg st) (module_scope module) (ged_type d) = Some (ed_type ed) /\
    size_of (st_reg st) (ed_type ed) = Some (rs_size rs) /\
    align_of (st_reg st) (ed_type ed) = Some (rs_align rs) /\
    all_some (map case_value (ged_stmts d)) = Some es /\
    ed_fields ed = combine (map ge_name (ged_stmts d)) (values_spec es 0) /\
    List.length (ed_fields ed) = List.length (ged_stmts d) /\
    match default_indices (ged_stmts d) O with
    | [] => ed_default_index ed = None /\ ed_defaultable ed = false
    | [k] => ed_default_index ed = Some k /\ ed_defaultable ed = true
    | _ => False
    end.
Proof. exact enum_build_spec. Qed.
Print Assumptions C08_main.

Theorem C08_cast_in_range : forall signed bits v,
  (0 < bits)%N -> in_range signed bits v = true -> cast_discr signed bits v = v.
Proof. exact cast_in_range. Qed.
Print Assumptions C08_cast_in_range.

(** the implicit values really count up from the predecessor *)
Example C08_values_example :
  values_spec [None; None; Some 16; None; Some (-2); None] 0 = [0; 1; 16; 17; -2; -1].
Proof. reflexivity. Qed.

(** F2: accepted although 300 does not fit u8; rustc would store 44 *)
Definition kf_enum : genumdef :=
  {| ged_type := GIdent "u8";
     ged_stmts := [{| ge_name := "A"; ge_expr := Some (EInt 300); ge_attrs := [] |}];
     ged_attrs := [] |}.
Definition kf_state : outcome sstate :=
  bind (sem_new 4) (fun st => add_module st ["m"%string]
    {| gm_uses := []; gm_extern_types := []; gm_extern_values := [];
       gm_defs := [{| gi_vis := Private; gi_name := "E"; gi_inner := GIEnum kf_enum |}];
       gm_impls := []; gm_backends := []; gm_attrs := [] |}).
Definition kf_accepted_fields : option (list (string * Z)) :=
  match kf_state with
  | Ok st => match enum_build st ["m"; "E"]%string kf_enum with
             | Ok rs => match rs_inner rs with IEnum ed => Some (ed_fields ed) | _ => None end
             | _ => None
             end
  | _ => None
  end.
Theorem C08_range_refuted :
  kf_accepted_fields = Some [("A"%string, 300)] /\
  in_range false 8 300 = false /\ cast_discr false 8 300 = 44.
Proof. vm_compute. repeat split; reflexivity. Qed.
Print Assumptions C08_range_refuted.

(** ** End to end: every enum of an accepted, collision-free build (any schedule) has, in the FINAL
    registry, the size and alignment of its base type, and the discriminants [values_spec] gives *)
Theorem C08_whole_build : forall order ptr mods st0 st p it0 gd d it r,
  input_state ptr mods = Ok st0 -> collision_free (st_reg st0) ->
  pyxis_resolve order ptr mods = BOk st ->
  reg_get (st_reg st0) p = Some it0 -> it_state it0 = Unresolved gd -> gi_inner gd = GIEnum d ->
  reg_get (st_reg st) p = Some it -> it_state it = Resolved r ->
  exists ed es,
    rs_inner r = IEnum ed /\
    size_of (st_reg st) (ed_type ed) = Some (rs_size r) /\
    align_of (st_reg st) (ed_type ed) = Some (rs_align r) /\
    all_some (map case_value (ged_stmts d)) = Some es /\
    ed_fields ed = combine (map ge_name (ged_stmts d)) (values_spec es 0) /\
    List.length (ed_fields ed) = List.length (ged_stmts d).
Proof.
  intros order ptr mods st0 st p it0 gd d it r Hin Hcf Hres Hg0 Hs0 Hty Hg Hs.
  destruct (whole_build_enum _ _ _ _ _ _ _ _ _ _ _ Hin Hcf Hres Hg0 Hs0 Hty Hg Hs) as (m & _ & Hext & Hb).
  destruct (enum_build_spec _ _ _ _ Hb) as (ed & es & module & Hi & _ & _ & Hsz & Hal & Hes & Hf & Hl & _).
  exists ed, es. repeat split; auto.
  - eapply size_of_ext; eauto.
  - eapply align_of_ext; eauto.
Qed.
Print Assumptions C08_whole_build.

(** ** the emitted enum: what [build_enum] prints, read back by the readers of EmitReaders.v
    ([enum_shape]: name, visibility, the [repr] type tokens of the base type, one variant per case with
    its discriminant literal, [#[default]] exactly on the default variant, the derive list), followed by
    the size check with the resolved size *)
Theorem C08_emitted_enum_shape : forall p size v ed items,
  build_enum p size v ed = Ok items ->
  exists name e checks rest,
    path_last p = Some name /\
    items = e :: checks ++ rest /\
    enum_shape name v ed e /\
    size_check_shape name size checks /\
    Forall is_impl_or_const rest.
Proof. exact build_enum_shape. Qed.
Print Assumptions C08_emitted_enum_shape.

Theorem C08_emitted_enum_default :
  forall (order : schedule) (ptr : N) (mods : list (path * gmodule)) (st0 st : sstate)
      (files : list (string * sexp)) (p : path) (it0 : item) (gd : gitemdef) 
      (ed0 : genumdef),
    input_state ptr mods = Ok st0 ->
    NoDup (map fst mods) ->
    collision_free (st_reg st0) ->
    EmitFinal.keeps_work order ->
    pyxis_resolve order ptr mods = BOk st ->
    write_all st = Ok files ->
    reg_get (st_reg st0) p = Some it0 ->
    it_state it0 = Unresolved gd ->
    gi_inner gd = GIEnum ed0 ->
    path_parent p <> Some [] ->
    exists
      (parent : path) (name : string) (f : sexp) (items : list sexp) (e : sexp) 
    (vs : list evariant),
      path_parent p = Some parent /\
      path_last p = Some name /\
      In (out_path parent, f) files /\
      file_items f = Some items /\
      EmitMarkersEnum.find_enum name items = Some e /\
      enum_derives e = Some (enum_base_derives ++ EmitMarkers.declared_derives (ged_attrs ed0)) /\
      enum_variants_of e = Some vs /\
      map evr_default vs = map is_default_stmt (ged_stmts ed0) /\
      (EmitDefault.count_default vs <= 1)%nat /\
      (In "Default"%string (enum_base_derives ++ EmitMarkers.declared_derives (ged_attrs ed0)) <->
       EmitDefault.count_default vs = 1%nat) /\
      (EmitDefault.has_default (enum_derives e) = true -> EmitDefault.item_default_ok e = true).
Proof. exact EmitDefault.C08_emitted_enum_default. Qed.
Print Assumptions C08_emitted_enum_default.

Theorem C08_enum_without_variants_refuted_F12a :
  exists (st0 st : sstate) (files : RefutedInputs.files_t),
      RefutedInputs.built [] 4 RefutedInputs.f12a_mods st0 st files /\
      RefutedInputs.side_ok st0 = true /\
      option_map ed_fields (RefutedInputs.enumdef_at st ["a"%string; "E"%string]) = Some [] /\
      RefutedInputs.size_at st ["a"%string; "E"%string] = Some 1%N /\
      RefutedInputs.thenr (RefutedInputs.enum_of files "a.rs" "E") enum_repr = Some [Atom "u8"] /\
      RefutedInputs.thenr (RefutedInputs.enum_of files "a.rs" "E") enum_variants_of = Some [].
Proof. exact RefutedWitnessesEmit.C08_C13_enum_without_variants_refuted_F12a. Qed.
Print Assumptions C08_enum_without_variants_refuted_F12a.

Theorem C08_enum_struct_base_refuted_F12b :
  exists (st0 st : sstate) (files : RefutedInputs.files_t),
      RefutedInputs.built [] 4 RefutedInputs.f12b_mods st0 st files /\
      RefutedInputs.side_ok st0 = true /\
      option_map ed_type (RefutedInputs.enumdef_at st ["a"%string; "E"%string]) =
      Some (TRaw ["a"%string; "S"%string]) /\
      RefutedInputs.typedef_at st ["a"%string; "S"%string] <> None /\
      option_map it_cat (reg_get (st_reg st) ["a"%string; "S"%string]) = Some Defined /\
      RefutedInputs.thenr (RefutedInputs.enum_of files "a.rs" "E") enum_repr =
      Some
        (tks ["crate"%string; ":"%string; ":"%string; "a"%string; ":"%string; ":"%string; "S"%string]) /\
      option_map EmitPaths.type_paths
        (RefutedInputs.thenr (RefutedInputs.enum_of files "a.rs" "E") enum_repr) =
      Some [["a"%string; "S"%string]] /\
      option_map FilesRead.file_decls (RefutedInputs.file_named files "a.rs") =
      Some [("enum"%string, "E"%string); ("struct"%string, "S"%string)].
Proof. exact RefutedWitnessesEmit.C08_C13_enum_struct_base_refuted_F12b. Qed.
Print Assumptions C08_enum_struct_base_refuted_F12b.

Theorem C08_enum_duplicate_discriminant_refuted_F12c :
  exists (st0 st : sstate) (files : RefutedInputs.files_t) (vs : list evariant),
      RefutedInputs.built [] 4 RefutedInputs.f12c_mods st0 st files /\
      RefutedInputs.side_ok st0 = true /\
      option_map ed_fields (RefutedInputs.enumdef_at st ["a"%string; "E"%string]) =
      Some [("A"%string, 1); ("B"%string, 1)] /\
      RefutedInputs.thenr (RefutedInputs.enum_of files "a.rs" "E") enum_variants_of = Some vs /\
      map (fun v : evariant => (evr_name v, evr_disc v)) vs = [("A"%string, 1); ("B"%string, 1)] /\
      ~ NoDup (map evr_disc vs).
Proof. exact RefutedWitnessesEmit.C08_C13_enum_duplicate_discriminant_refuted_F12c. Qed.
Print Assumptions C08_enum_duplicate_discriminant_refuted_F12c.
