(** * C05 — address-bound wrappers call the declared address with the declared signature.

    [function_build _ _ false] is what every impl-block function goes through (type_build,
    [add_impl_function]).  Proved for every registry, scope and function: when it is accepted, the
    resulting function record -- which the back end prints verbatim as the wrapper -- has the
    declared name and visibility, the declared arguments in declared order each with its resolved
    type, the declared return type (never dropped), the convention of C16, and the body "call the
    absolute address A" where A is the (last) [#[address(A)]]; without an address, with an
    unresolvable parameter or return type it is rejected.  The meaning of that body shape
    (one call to A, receiver pointer first, arguments in order, callee's result returned) is
    [RustExec.exec_address_call] (spec side).
    On the emitted text (EmitFn*.v): [C05_wrapper_shape] -- every function item the back end prints
    for a function record, read back from its tokens, has the record's name, visibility, `unsafe`,
    documentation, parameters (receiver as `&self`/`&mut self`), return type and a body of the
    template its [sf_body] selects; [C05_wrapper_address]: for an address-bound function the body
    transmutes the literal A (exactly the record's address) to an `unsafe extern "<cc>" fn` pointer
    with the record's parameter/return types and calls it with the receiver cast first and the
    arguments in order; [C05_emitted_impl_function] / [C05_emitted_wrappers]: in every accepted
    build (collision free, schedule keeps the work list), each function declared in an impl block
    (name not starting with `_`) has, in the inherent impl of its type in the module's file, a
    wrapper with the declared name and visibility whose body calls the declared address
    ([declared_address]) with the convention [cc_spec] -- the end-to-end statement of C05. *)
From Coq Require Import List NArith ZArith Bool String.
From PyxisModel Require Import Base Grammar SemTypes Registry Sem FunctionLemmas WholeBuild Examples.
Import ListNotations.

From PyxisModel Require EmitReaders EmitFnReaders EmitFnShape EmitFnFinal.

Theorem C05_main : forall R scope f sf,
  function_build R scope false f = Ok sf ->
  sf_name sf = gf_name f /\ sf_vis sf = gf_vis f /\
  Forall2 (fun a b => resolve_arg R scope a = Ok b) (gf_args f) (sf_args sf) /\
  match gf_ret f with
  | Some t => exists t', resolve_gtype R scope t = Some t' /\ sf_ret sf = Some t'
  | None => sf_ret sf = None
  end /\
  exists a n, declared_address (gf_attrs f) = Some a /\ z_to_usize a = Some n /\ sf_body sf = BAddress n.
Proof.
  intros R scope f sf H.
  destruct (function_build_spec _ _ _ _ _ H) as (H1 & H2 & _ & H4 & H5 & _ & H7). auto 10.
Qed.
Print Assumptions C05_main.

Theorem C05_reject : forall R scope f,
  (declared_address (gf_attrs f) = None -> ~ is_ok (function_build R scope false f) = true) /\
  (forall n t, In (GNamed n t) (gf_args f) -> resolve_gtype R scope t = None ->
               ~ is_ok (function_build R scope false f) = true) /\
  (forall t, gf_ret f = Some t -> resolve_gtype R scope t = None ->
             ~ is_ok (function_build R scope false f) = true).
Proof.
  intros R scope f. destruct (function_build_rejects R scope f) as (H1 & _ & H3 & H4).
  repeat split; eauto.
Qed.
Print Assumptions C05_reject.

(** every function of an impl block reaches the emitted type unchanged, in order, or the build is
    rejected: the impl loop of type_build only appends *)
Theorem C05_impl_functions_kept : forall R scope fs acc acc',
  foldM (add_impl_function R scope) fs acc = Ok acc' ->
  exists new, fst acc' = fst acc ++ new /\
    Forall2 (fun f sf => function_build R scope false f = Ok sf) fs new.
Proof.
  intros R scope. induction fs as [|f fs IH]; intros acc acc' H; cbn [foldM] in H.
  - inversion H; subst. exists []. split; [now rewrite app_nil_r | constructor].
  - apply SemLemmas.bind_ok in H as (a1 & Ha & H).
    unfold add_impl_function in Ha. destruct (str_mem (gf_name f) (snd acc)); [discriminate|].
    apply SemLemmas.bind_ok in Ha as (fn & Hfn & Ha). inversion Ha; subst a1. clear Ha.
    destruct (IH _ _ H) as (new & Hnew & Hall). cbn [fst] in Hnew.
    exists (fn :: new). split; [rewrite Hnew, <- app_assoc; reflexivity | constructor; assumption].
Qed.
Print Assumptions C05_impl_functions_kept.

(** ** End to end.  Every function declared in the impl block of a type of an accepted
    ([collision_free]) build is, in the FINAL registry, an associated function of that type, built
    from its declaration (so [C05_main] applies to it: address, parameters, return type), listed after
    the functions inherited from the bases, in declaration order. *)
Theorem C05_whole_build : forall order ptr mods st0 st p it0 gd td0 it r parent module0 blk,
  input_state ptr mods = Ok st0 -> collision_free (st_reg st0) ->
  pyxis_resolve order ptr mods = BOk st ->
  reg_get (st_reg st0) p = Some it0 -> it_state it0 = Unresolved gd -> gi_inner gd = GIType td0 ->
  reg_get (st_reg st) p = Some it -> it_state it = Resolved r ->
  path_parent p = Some parent -> alookup parent (st_modules st0) = Some module0 ->
  alookup p (m_impls module0) = Some blk ->
  exists td R_mid inherited own,
    rs_inner r = IType td /\ ext (st_reg st0) R_mid (st_reg st) /\
    td_assoc td = inherited ++ own /\
    Forall2 (fun f sf => function_build R_mid (module_scope module0) false f = Ok sf) (gb_fns blk) own.
Proof. exact whole_build_impl_functions. Qed.
Print Assumptions C05_whole_build.

(** non-vacuity of [C05_whole_build]: [impl Base { #[address(120)] pub fn meth(..) }] of Examples.v *)
Example C05_whole_build_example :
  exists st0 st it0 gd td0 it r module0 blk,
    input_state 4 Examples.ex_mods = Ok st0 /\ collision_freeb (st_reg st0) = true /\
    pyxis_resolve (hook_schedule []) 4 Examples.ex_mods = BOk st /\
    reg_get (st_reg st0) ["m"; "Base"]%string = Some it0 /\ it_state it0 = Unresolved gd /\ gi_inner gd = GIType td0 /\
    reg_get (st_reg st) ["m"; "Base"]%string = Some it /\ it_state it = Resolved r /\
    alookup ["m"]%string (st_modules st0) = Some module0 /\
    alookup ["m"; "Base"]%string (m_impls module0) = Some blk /\ List.length (gb_fns blk) = 1%nat.
Proof. vm_compute. do 9 eexists. repeat split; reflexivity. Qed.

Theorem C05_wrapper_shape :
  forall (f : sfunction) (e : Sexp.sexp),
    Emit.build_function f = Ok e -> EmitFnShape.wrapper_shape f e.
Proof. exact EmitFnShape.build_function_shape. Qed.
Print Assumptions C05_wrapper_shape.

Theorem C05_wrapper_address :
  forall (f : sfunction) (e : Sexp.sexp) (a : N),
    Emit.build_function f = Ok e ->
    sf_body f = BAddress a ->
    exists (ty : EmitFnReaders.efnptr) (args : list EmitFnReaders.ecallarg),
      EmitFnReaders.fn_wrapper_body e = Some (EmitFnReaders.EBAddress ty a args) /\
      EmitFnReaders.fp_abi ty = cc_to_string (sf_cc f) /\
      cc_of_string (EmitFnReaders.fp_abi ty) = Some (sf_cc f) /\
      EmitFnReaders.fp_args ty = map EmitFnReaders.lam_of_arg (sf_args f) /\
      EmitFnReaders.fp_ret ty = option_map Emit.type_tokens (sf_ret f) /\
      args = map EmitFnReaders.callarg_of_arg (sf_args f).
Proof. exact EmitFnShape.build_function_address. Qed.
Print Assumptions C05_wrapper_address.

Theorem C05_emitted_impl_function :
  forall (order : schedule) (ptr : N) (mods : list (path * gmodule)) (st0 st : sstate)
      (files : list (string * Sexp.sexp)) (p : path) (it0 : item) (gd : gitemdef) 
      (td0 : gtypedef) (parent : path) (module0 : smodule) (blk : gfnblock) 
      (gf : gfunction),
    input_state ptr mods = Ok st0 ->
    NoDup (map fst mods) ->
    collision_free (st_reg st0) ->
    EmitFinal.keeps_work order ->
    pyxis_resolve order ptr mods = BOk st ->
    Emit.write_all st = Ok files ->
    reg_get (st_reg st0) p = Some it0 ->
    it_state it0 = Unresolved gd ->
    gi_inner gd = GIType td0 ->
    path_parent p = Some parent ->
    parent <> [] ->
    alookup parent (st_modules st0) = Some module0 ->
    alookup p (m_impls module0) = Some blk ->
    In gf (gb_fns blk) ->
    starts_with "_" (gf_name gf) = false ->
    exists
      (name : string) (f : Sexp.sexp) (items : list Sexp.sexp) (s im : Sexp.sexp) 
    (fns : list Sexp.sexp) (e : Sexp.sexp) (sf : sfunction) (ty : EmitFnReaders.efnptr) 
    (a : Z) (n : N) (c : cc),
      path_last p = Some name /\
      In (Emit.out_path parent, f) files /\
      EmitReaders.file_items f = Some items /\
      EmitReaders.find_struct name items = Some s /\
      In im items /\
      EmitFnReaders.inherent_impl im = Some (name, fns) /\
      In e fns /\
      EmitFnShape.wrapper_shape sf e /\
      EmitFnReaders.fn_name e = Some (gf_name gf) /\
      EmitFnReaders.fn_vis e = Some (gf_vis gf) /\
      EmitFnReaders.fn_unsafe e = Some true /\
      Datatypes.length (sf_args sf) = Datatypes.length (gf_args gf) /\
      EmitFnReaders.fn_params e = Some (map EmitFnReaders.param_of_arg (sf_args sf)) /\
      EmitFnReaders.fn_wrapper_body e =
      Some (EmitFnReaders.EBAddress ty n (map EmitFnReaders.callarg_of_arg (sf_args sf))) /\
      declared_address (gf_attrs gf) = Some a /\
      z_to_usize a = Some n /\
      cc_spec gf = Some c /\
      EmitFnReaders.fp_abi ty = cc_to_string c /\
      EmitFnReaders.fp_args ty = map EmitFnReaders.lam_of_arg (sf_args sf) /\
      EmitFnReaders.fp_ret ty = option_map Emit.type_tokens (sf_ret sf).
Proof. exact EmitFnFinal.emitted_impl_function_whole_build. Qed.
Print Assumptions C05_emitted_impl_function.

Theorem C05_emitted_wrappers :
  forall (order : schedule) (ptr : N) (mods : list (path * gmodule)) (st0 st : sstate)
      (files : list (string * Sexp.sexp)) (p : path) (it0 : item) (gd : gitemdef) 
      (td0 : gtypedef) (parent : path) (module0 : smodule) (blk : gfnblock),
    input_state ptr mods = Ok st0 ->
    NoDup (map fst mods) ->
    collision_free (st_reg st0) ->
    EmitFinal.keeps_work order ->
    pyxis_resolve order ptr mods = BOk st ->
    Emit.write_all st = Ok files ->
    reg_get (st_reg st0) p = Some it0 ->
    it_state it0 = Unresolved gd ->
    gi_inner gd = GIType td0 ->
    path_parent p = Some parent ->
    parent <> [] ->
    alookup parent (st_modules st0) = Some module0 ->
    alookup p (m_impls module0) = Some blk ->
    exists
      (name : string) (it : item) (r : resolved) (td : type_def) (R_mid : registry) 
    (inherited own : list sfunction) (f : Sexp.sexp) (pre : list Sexp.sexp) 
    (s : Sexp.sexp) (checks sing : list Sexp.sexp) (im : Sexp.sexp) (conv post fns : list Sexp.sexp),
      path_last p = Some name /\
      reg_get (st_reg st) p = Some it /\
      it_state it = Resolved r /\
      rs_inner r = IType td /\
      ext (st_reg st0) R_mid (st_reg st) /\
      td_assoc td = inherited ++ own /\
      Forall2
        (fun (gf : gfunction) (sf : sfunction) =>
         function_build R_mid (module_scope module0) false gf = Ok sf) (gb_fns blk) own /\
      In (Emit.out_path parent, f) files /\
      EmitReaders.file_items f = Some (pre ++ (s :: checks ++ sing ++ im :: conv) ++ post) /\
      EmitReaders.find_struct name (pre ++ (s :: checks ++ sing ++ im :: conv) ++ post) = Some s /\
      EmitShape.struct_shape name (rs_align r) (it_vis it0) td s /\
      EmitShape.size_check_shape name (rs_size r) checks /\
      match td_singleton td with
      | Some a => exists g : Sexp.sexp, sing = [g] /\ EmitFnShape.singleton_shape name (it_vis it0) a g
      | None => sing = []
      end /\
      EmitReaders.item_kind im = Some "impl"%string /\
      EmitFnReaders.inherent_impl im = Some (name, fns) /\
      Forall2
        (fun (_ : gfunction) (sf : sfunction) =>
         sf_is_internal sf = false -> exists e : Sexp.sexp, In e fns /\ EmitFnShape.wrapper_shape sf e)
        (gb_fns blk) own.
Proof. exact EmitFnFinal.emitted_wrappers_whole_build. Qed.
Print Assumptions C05_emitted_wrappers.
