(** * C05 — address-bound wrappers call the declared address with the declared signature.

    [function_build _ _ false] is what every impl-block function goes through (type_build,
    [add_impl_function]).  Proved for every registry, scope and function: when it is accepted, the
    resulting function record -- which the back end prints verbatim as the wrapper -- has the
    declared name and visibility, the declared arguments in declared order each with its resolved
    type, the declared return type (never dropped), the convention of C16, and the body "call the
    absolute address A" where A is the (last) [#[address(A)]]; without an address, with an
    unresolvable parameter or return type it is rejected.  The meaning of that body shape
    (one call to A, receiver pointer first, arguments in order, callee's result returned) is
    [RustExec.exec_address_call] (spec side). *)
From Coq Require Import List NArith ZArith Bool String.
From PyxisModel Require Import Base Grammar SemTypes Registry Sem FunctionLemmas WholeBuild Examples.
Import ListNotations.

Theorem C05_main : forall R scope f sf,
  function_build R scope false f = Ok sf ->
  sf_name sf = gf_name f /\ sf_vis sf = gf_vis f /\
  Forall2 (fun a b => resolve_arg R scope a = Ok b) (gf_args f) (sf_args sf) /\
  match gf_ret f with
  | Some t => exists t', resolve_gtype R scope t = Some t' /\ sf_ret sf = Some t'
  | None => sf_ret sf = None
  end /\
  exists a n, declared_address (gf_attrs f) = Some a /\ z_to_usize a = Some n /\ sf_body sf = BAddress n.
Proof.
  intros R scope f sf H.
  destruct (function_build_spec _ _ _ _ _ H) as (H1 & H2 & _ & H4 & H5 & _ & H7). auto 10.
Qed.
Print Assumptions C05_main.

Theorem C05_reject : forall R scope f,
  (declared_address (gf_attrs f) = None -> ~ is_ok (function_build R scope false f) = true) /\
  (forall n t, In (GNamed n t) (gf_args f) -> resolve_gtype R scope t = None ->
               ~ is_ok (function_build R scope false f) = true) /\
  (forall t, gf_ret f = Some t -> resolve_gtype R scope t = None ->
             ~ is_ok (function_build R scope false f) = true).
Proof.
  intros R scope f. destruct (function_build_rejects R scope f) as (H1 & _ & H3 & H4).
  repeat split; eauto.
Qed.
Print Assumptions C05_reject.

(** every function of an impl block reaches the emitted type unchanged, in order, or the build is
    rejected: the impl loop of type_build only appends *)
Theorem C05_impl_functions_kept : forall R scope fs acc acc',
  foldM (add_impl_function R scope) fs acc = Ok acc' ->
  exists new, fst acc' = fst acc ++ new /\
    Forall2 (fun f sf => function_build R scope false f = Ok sf) fs new.
Proof.
  intros R scope. induction fs as [|f fs IH]; intros acc acc' H; cbn [foldM] in H.
  - inversion H; subst. exists []. split; [now rewrite app_nil_r | constructor].
  - apply SemLemmas.bind_ok in H as (a1 & Ha & H).
    unfold add_impl_function in Ha. destruct (str_mem (gf_name f) (snd acc)); [discriminate|].
    apply SemLemmas.bind_ok in Ha as (fn & Hfn & Ha). inversion Ha; subst a1. clear Ha.
    destruct (IH _ _ H) as (new & Hnew & Hall). cbn [fst] in Hnew.
    exists (fn :: new). split; [rewrite Hnew, <- app_assoc; reflexivity | constructor; assumption].
Qed.
Print Assumptions C05_impl_functions_kept.

(** ** End to end.  Every function declared in the impl block of a type of an accepted
    ([collision_free]) build is, in the FINAL registry, an associated function of that type, built
    from its declaration (so [C05_main] applies to it: address, parameters, return type), listed after
    the functions inherited from the bases, in declaration order. *)
Theorem C05_whole_build : forall order ptr mods st0 st p it0 gd td0 it r parent module0 blk,
  input_state ptr mods = Ok st0 -> collision_free (st_reg st0) ->
  pyxis_resolve order ptr mods = BOk st ->
  reg_get (st_reg st0) p = Some it0 -> it_state it0 = Unresolved gd -> gi_inner gd = GIType td0 ->
  reg_get (st_reg st) p = Some it -> it_state it = Resolved r ->
  path_parent p = Some parent -> alookup parent (st_modules st0) = Some module0 ->
  alookup p (m_impls module0) = Some blk ->
  exists td R_mid inherited own,
    rs_inner r = IType td /\ ext (st_reg st0) R_mid (st_reg st) /\
    td_assoc td = inherited ++ own /\
    Forall2 (fun f sf => function_build R_mid (module_scope module0) false f = Ok sf) (gb_fns blk) own.
Proof. exact whole_build_impl_functions. Qed.
Print Assumptions C05_whole_build.

(** non-vacuity of [C05_whole_build]: [impl Base { #[address(120)] pub fn meth(..) }] of Examples.v *)
Example C05_whole_build_example :
  exists st0 st it0 gd td0 it r module0 blk,
    input_state 4 Examples.ex_mods = Ok st0 /\ collision_freeb (st_reg st0) = true /\
    pyxis_resolve (hook_schedule []) 4 Examples.ex_mods = BOk st /\
    reg_get (st_reg st0) ["m"; "Base"]%string = Some it0 /\ it_state it0 = Unresolved gd /\ gi_inner gd = GIType td0 /\
    reg_get (st_reg st) ["m"; "Base"]%string = Some it /\ it_state it = Resolved r /\
    alookup ["m"]%string (st_modules st0) = Some module0 /\
    alookup ["m"; "Base"]%string (m_impls module0) = Some blk /\ List.length (gb_fns blk) = 1%nat.
Proof. vm_compute. do 9 eexists. repeat split; reflexivity. Qed.
