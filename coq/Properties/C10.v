(** * C10 — resolution succeeds exactly when names exist and by-value embedding is acyclic.

    PROVED:
    - [C10_stuck_never_resolves] / [C10_noprogress_is_self_supporting] (abstract, Confluence.v):
      for any worklist loop whose attempts only succeed when no field-type name is undefined and all
      by-value dependencies are resolved (N1), and only defer when one of those is the case (N2):
      a self-supporting set of items stays unresolved along every sequence of steps, and the set
      listed by a no-progress end is self-supporting -- i.e. it is made of items that reach an
      undefined name or a by-value cycle;
    - [C10_pointers_do_not_embed]: the size and alignment of a pointer never read the pointee, so
      pointer cycles cannot block resolution;
    - [C10_undefined_field_defers]: a field whose type name is undefined makes the attempt defer
      (it stays in the unresolved set that the final error lists);
    - [C10_rounds]: at most 1 + #unresolved rounds (from C12);
    - nothing dropped: [function_build_spec] (C05) keeps every parameter and the return type.
    - [C10_stuck_set_is_order_independent]: for every input meeting the side conditions of C09.v, if
      the model's loop ends without progress under one schedule it does so under every schedule,
      and lists the same set of items (so the set of stuck items is a function of the input);
    - [C10_attempt_N1]: N1 for the model's real attempt (a successful attempt means every field type
      resolved and every by-value dependency was resolved before), hence
      [C10_stuck_set_never_accepted]: an input with a non-empty self-supporting set of items (each
      has an undefined field type or embeds, by value, a member of the set -- e.g. any by-value
      cycle) is not accepted under ANY schedule ([C10_cycle_example]: two mutually embedding types);
    - [C10_attempt_N2] (StuckConverse.v): N2 for the model's real attempt -- a deferral of an unresolved
      item always has a cause: a field type that names nothing, a by-value dependency that is still
      unresolved, or an overflow (an array whose byte size exceeds usize, or a layout whose unbounded
      end offset does: the model, like pyxis, then defers forever -- [C10_overflow_example]);
    - [C10_noprogress_list_exact]: the list of the no-progress error is exactly the set of items still
      unresolved in a reachable state, it is not empty, it supports itself (each member names
      nothing, overflows, or embeds another member by value) and it contains every self-supporting
      set of items; [C10_noprogress_list_greatest]: without overflow it IS the greatest
      self-supporting set;
    - [C10_wellfounded_never_noprogress] / [C10_no_self_supporting_never_noprogress]: the "if"
      direction -- every name resolves, nothing overflows and by-value embedding is well founded (resp.
      there is no non-empty self-supporting set): the front half ends, under EVERY schedule, in an
      accepted build or an error value (misaligned field, bad attribute ...), never in the
      no-progress error; [C10_no_overflow_decidable]: a decidable sufficient condition for the
      overflow hypothesis; [C10_pointer_cycle_example], [C10_undefined_name_example].
    Together: for inputs meeting the side conditions of C09.v and without overflow, the
    no-progress error occurs under some/every schedule iff a non-empty self-supporting set exists.
    NOT PROVED: that an [overflows] cause always makes the attempt defer (tightness of the third
    disjunct; not needed for either direction).  The monitor decides the property on the real
    implementation against the graph-theoretic expectation. *)
From Coq Require Import List Bool NArith String.
From Coq Require Import Permutation.
From PyxisModel Require Import StuckConverse.
From PyxisModel Require Import Base Grammar SemTypes Registry Sem SemLemmas TotalityLemmas Confluence WholeBuild
     Monotone OrderIndep Stuck.
Import ListNotations.

Theorem C10_stuck_never_resolves :
  forall (K V : Type) (eqb : K -> K -> bool), (forall a b, reflect (a = b) (eqb a b)) ->
  forall (att : (K -> option V) -> K -> res V) (items : list K) (deps : K -> list K) (undefined : K -> bool),
  (forall R k v, att R k = Done V v ->
     undefined k = false /\ forall d, In d (deps k) -> In d items -> R d <> None) ->
  forall R T, steps K V eqb att items R T ->
  forall S, self_supporting K items deps undefined S -> (forall k, S k -> R k = None) ->
  forall k, S k -> T k = None.
Proof. intros. eapply stuck_stays; eauto. Qed.
Print Assumptions C10_stuck_never_resolves.

Theorem C10_noprogress_is_self_supporting :
  forall (K V : Type) (att : (K -> option V) -> K -> res V) (items : list K) (deps : K -> list K)
         (undefined : K -> bool),
  (forall R k, In k items -> R k = None -> att R k = Defer V ->
     undefined k = true \/ exists d, In d (deps k) /\ In d items /\ R d = None) ->
  forall T, (forall k, In k (unres K V items T) -> att T k = Defer V) ->
  self_supporting K items deps undefined (fun k => In k (unres K V items T)).
Proof. intros. eapply noprogress_self_supporting; eauto. Qed.
Print Assumptions C10_noprogress_is_self_supporting.

Theorem C10_pointers_do_not_embed : forall R t,
  size_of R (TConstPtr t) = Some (reg_ptr R) /\ size_of R (TMutPtr t) = Some (reg_ptr R) /\
  align_of R (TConstPtr t) = Some (reg_ptr R) /\ align_of R (TMutPtr t) = Some (reg_ptr R).
Proof. intros. repeat split. Qed.
Print Assumptions C10_pointers_do_not_embed.

Theorem C10_undefined_field_defers : forall R scope acc s v name t,
  gs_field s = GField v name t -> resolve_gtype R scope t = None ->
  is_ok (attrs_doc (gs_attrs s)) = true -> is_ok (foldM scan_field_attr (gs_attrs s) (None, false)) = true ->
  process_statement R scope acc s = Base.Defer.
Proof.
  intros R scope [idx [pending vfs]] s v name t Hf Hr Hd Ha. unfold process_statement. rewrite Hf.
  destruct (attrs_doc (gs_attrs s)); try discriminate. cbn [bind].
  destruct (foldM scan_field_attr (gs_attrs s) (None, false)); try discriminate. cbn [bind].
  rewrite Hr. reflexivity.
Qed.
Print Assumptions C10_undefined_field_defers.

Theorem C10_rounds : forall order fuel st,
  (forall l, List.length (order l) = List.length l) ->
  (List.length (reg_unresolved (st_reg st)) < fuel)%nat -> resolve_loop order fuel st <> BFuel.
Proof. intros order fuel st H Hl. now apply resolve_loop_fuel_suffices. Qed.
Print Assumptions C10_rounds.

(** ** the no-progress verdict and its list do not depend on the schedule *)
Theorem C10_stuck_set_is_order_independent : forall ptr mods st0 o1 o2 l1,
  input_state ptr mods = Ok st0 -> collision_free (st_reg st0) -> clean_stateb st0 = true ->
  (forall l, Permutation (o1 l) l) -> (forall l, Permutation (o2 l) l) ->
  let fuel := S (List.length (reg_unresolved (st_reg st0))) in
  resolve_loop o1 fuel st0 = BNoProgress l1 ->
  exists l2, resolve_loop o2 fuel st0 = BNoProgress l2 /\ Permutation l1 l2.
Proof.
  intros ptr mods st0 o1 o2 l1 Hin Hcf Hcl P1 P2 fuel H1.
  pose proof (pyxis_loop_order_independent ptr mods st0 o1 o2 Hin Hcf Hcl P1 P2) as H. cbn zeta in H.
  fold fuel in H. rewrite H1 in H. destruct (resolve_loop o2 fuel st0); cbn in H; try contradiction. eauto.
Qed.
Print Assumptions C10_stuck_set_is_order_independent.

(** ** N1 for the model's real attempt, and what it implies *)
Theorem C10_attempt_N1 : forall st0,
  collision_free (st_reg st0) ->
  (forall km, In km (st_modules st0) -> clean_module (snd km) = true) ->
  (forall p it gd, reg_get (st_reg st0) p = Some it -> it_state it = Unresolved gd -> clean_def gd = true) ->
  NoDup (map fst (reg_types (st_reg st0))) ->
  forall A k v, att st0 A k = Done _ v ->
  undefinedb st0 k = false /\ forall d, In d (deps st0 k) -> In d (items st0) -> A d <> None.
Proof. exact att_N1. Qed.
Print Assumptions C10_attempt_N1.

Theorem C10_stuck_set_never_accepted : forall ptr mods st0 (S : path -> Prop) k0 order,
  input_state ptr mods = Ok st0 -> collision_free (st_reg st0) -> clean_stateb st0 = true ->
  S k0 -> self_supporting path (items st0) (deps st0) (undefinedb st0) S ->
  (forall l, Permutation (order l) l) ->
  forall st, pyxis_resolve order ptr mods <> BOk st.
Proof. exact pyxis_stuck_never_accepted. Qed.
Print Assumptions C10_stuck_set_never_accepted.

Theorem C10_cycle_example : forall order, (forall l, Permutation (order l) l) ->
  forall st, pyxis_resolve order 4 cycle_mods <> BOk st.
Proof. exact cycle_never_accepted. Qed.
Print Assumptions C10_cycle_example.

(** ** the converse: why an attempt defers, what the no-progress list is, and when it cannot occur *)
Theorem C10_attempt_N2 : forall st0 : sstate,
  collision_free (st_reg st0) ->
  PlacementLemmas.reg_u8 (st_reg st0) ->
  (forall km, In km (st_modules st0) -> clean_module (snd km) = true) ->
  (forall p it gd, reg_get (st_reg st0) p = Some it -> it_state it = Unresolved gd -> clean_def gd = true) ->
  FinalState.unres_defined (st_reg st0) ->
  forall (A : astate) (k : path),
  att st0 A k = Confluence.Defer resolved -> In k (items st0) -> A k = None ->
  undefinedb st0 k = true \/
  (exists d, In d (deps st0 k) /\ In d (items st0) /\ A d = None) \/
  overflows st0 A k.
Proof. exact att_N2. Qed.
Print Assumptions C10_attempt_N2.

Theorem C10_noprogress_list_exact : forall ptr mods st0,
  input_state ptr mods = Ok st0 -> collision_free (st_reg st0) -> clean_stateb st0 = true ->
  forall order : schedule, (forall l, Permutation (order l) l) ->
  forall l, pyxis_resolve order ptr mods = BNoProgress l ->
  exists A : astate,
    reachable st0 A /\ l <> [] /\
    (forall k, In k l <-> In k (items st0) /\ A k = None) /\
    self_supporting_in st0 A (fun k => In k l) /\
    (forall S : path -> Prop, StuckConverse.self_supporting st0 S -> forall k, S k -> In k l).
Proof. exact pyxis_noprogress_exact. Qed.
Print Assumptions C10_noprogress_list_exact.

Theorem C10_noprogress_list_greatest : forall ptr mods st0,
  input_state ptr mods = Ok st0 -> collision_free (st_reg st0) -> clean_stateb st0 = true ->
  forall order : schedule, (forall l, Permutation (order l) l) ->
  forall l, no_overflow st0 -> pyxis_resolve order ptr mods = BNoProgress l ->
  l <> [] /\ StuckConverse.self_supporting st0 (fun k => In k l) /\
  (forall S : path -> Prop, StuckConverse.self_supporting st0 S -> forall k, S k -> In k l).
Proof. exact pyxis_noprogress_greatest. Qed.
Print Assumptions C10_noprogress_list_greatest.

Theorem C10_wellfounded_never_noprogress : forall ptr mods st0,
  input_state ptr mods = Ok st0 -> collision_free (st_reg st0) -> clean_stateb st0 = true ->
  forall order : schedule, (forall l, Permutation (order l) l) ->
  (forall k, In k (items st0) -> undefinedb st0 k = false) ->
  no_overflow st0 ->
  (forall k, In k (items st0) -> Acc (embeds st0) k) ->
  match pyxis_resolve order ptr mods with BOk _ | BErr _ => True | _ => False end.
Proof. exact pyxis_wf_no_noprogress. Qed.
Print Assumptions C10_wellfounded_never_noprogress.

Theorem C10_no_self_supporting_never_noprogress : forall ptr mods st0,
  input_state ptr mods = Ok st0 -> collision_free (st_reg st0) -> clean_stateb st0 = true ->
  forall order : schedule, (forall l, Permutation (order l) l) ->
  no_overflow st0 ->
  (forall S : path -> Prop, StuckConverse.self_supporting st0 S -> forall k, ~ S k) ->
  match pyxis_resolve order ptr mods with BOk _ | BErr _ => True | _ => False end.
Proof. exact pyxis_no_self_supporting_no_noprogress. Qed.
Print Assumptions C10_no_self_supporting_never_noprogress.

Theorem C10_no_overflow_decidable : forall st0 : sstate,
  forallb (static_okb st0) (items st0) = true -> no_overflow st0.
Proof. exact static_no_overflow. Qed.
Print Assumptions C10_no_overflow_decidable.

Theorem C10_pointer_cycle_example : forall order : list path -> list path,
  (forall l, Permutation (order l) l) ->
  match pyxis_resolve order 4 ptrcycle_mods with BOk _ | BErr _ => True | _ => False end.
Proof. exact ptrcycle_resolves. Qed.
Print Assumptions C10_pointer_cycle_example.

Theorem C10_undefined_name_example : forall (order : list path -> list path) (l : list path),
  (forall l0, Permutation (order l0) l0) ->
  pyxis_resolve order 4 undef_mods = BNoProgress l ->
  In ["m"%string; "A"%string] l /\ In ["m"%string; "B"%string] l.
Proof. exact undef_in_every_noprogress_list. Qed.
Print Assumptions C10_undefined_name_example.

Theorem C10_overflow_example :
  pyxis_resolve (fun l : list path => l) 4 big_mods = BNoProgress [["m"%string; "A"%string]] /\
  (exists st0 : sstate,
     input_state 4 big_mods = Ok st0 /\
     undefinedb st0 ["m"%string; "A"%string] = false /\
     deps st0 ["m"%string; "A"%string] = [["u64"%string]] /\
     array_overflow st0 (fun _ : path => None) ["m"%string; "A"%string]).
Proof. exact big_overflows. Qed.
Print Assumptions C10_overflow_example.
