(** * C01 — declared field addresses are the real field offsets in the emitted struct.

    [declared_offsets R start pending] is the SPEC: every declared field that is kept (not a
    zero-sized array) gets its written address, or the end of its predecessor when none is written;
    [start] is 0, or the pointer size when the type owns its vftable pointer (which is then the first
    field, at offset 0).  [field_offsets] is the Rust Reference's repr(C) / packed algorithm
    (RustLayout.v) applied to the emitted struct.  The theorem: the two agree on every named field,
    for every registry state and every description that [type_build] accepts. *)
From Coq Require Import List NArith Bool String.
From PyxisModel Require Import Base Grammar SemTypes Registry Sem RustLayout LayoutLemmas SemLemmas
     PlacementLemmas Examples.
Import ListNotations.
Local Open Scope N_scope.

Theorem C01_main : forall st p v d st' rs,
  type_build st p v d = (st', Ok rs) -> reg_u8 (st_reg st') ->
  exists td module n pending vfs start,
    rs_inner rs = IType td /\
    foldM (process_statement (st_reg st) (module_scope module)) (gt_stmts d) (O, ([], None))
      = Ok (n, (pending, vfs)) /\
    let R := st_reg st' in
    let fs := map (region_sa R) (td_regions td) in
    (start = 0 \/ (start = reg_ptr R /\
                   exists ty, hd_error (td_regions td) = Some (vftable_region_of (TConstPtr ty)))) /\
    Forall (fun x => r_name (snd x) <> None ->
                     In x (combine (field_offsets (td_packed td) (rs_align rs) fs) (td_regions td)))
           (declared_offsets R start pending).
Proof. exact type_build_offsets. Qed.
Print Assumptions C01_main.

(** the compiler adds no padding of its own: all fields, generated padding included, sit at the
    prefix sums of the region sizes *)
Theorem C01_no_compiler_padding : forall st p v d st' rs,
  type_build st p v d = (st', Ok rs) ->
  exists td, rs_inner rs = IType td /\
    let fs := map (region_sa (st_reg st')) (td_regions td) in
    field_offsets (td_packed td) (rs_align rs) fs = prefix_sums 0 fs.
Proof.
  intros st p v d st' rs H.
  destruct (type_build_layout _ _ _ _ _ _ H) as (td & Hi & _ & _ & Hnp & Hp).
  exists td. split; [exact Hi|]. cbn zeta. unfold field_offsets.
  destruct (td_packed td) eqn:E.
  - destruct (Hp eq_refl) as [_ ->]. reflexivity.
  - destruct (Hnp eq_refl) as (-> & _). reflexivity.
Qed.
Print Assumptions C01_no_compiler_padding.

(** non-vacuity: the concrete input of Examples.v is accepted at pointer width 4, the final
    registry satisfies [reg_u8], and its type [T] (explicit addresses, a gap, a base, a zero-length
    array) resolves to 32 bytes *)
Example C01_example :
  exists st r, ex_state 4 = Some st /\ reg_u8 (st_reg st) /\
               resolved_of st ["m"; "T"]%string = Some r /\ rs_size r = 32.
Proof. vm_compute. eexists; eexists; repeat split; reflexivity. Qed.
