(** * C01 — declared field addresses are the real field offsets in the emitted struct.

    [declared_offsets R start pending] is the SPEC: every declared field that is kept (not a
    zero-sized array) gets its written address, or the end of its predecessor when none is written;
    [start] is 0, or the pointer size when the type owns its vftable pointer (which is then the first
    field, at offset 0).  [field_offsets] is the Rust Reference's repr(C) / packed algorithm
    (RustLayout.v) applied to the emitted struct.  The theorem: the two agree on every named field,
    for every registry state and every description that [type_build] accepts.
    REFUTED ON THE MODEL (RefutedWitnesses*.v; open finding F9): [C01_void_by_value_refuted_F9] -- an accepted input
    with a by-value `void` member: resolved with size 0, emitted as ::std::ffi::c_void (1 byte for the compiler), so the
    member after it is declared at 0 and compiled at 1.  The positive theorems speak of the registry's own sizes. *)
From Coq Require Import List NArith Bool String.
From PyxisModel Require Import Base Grammar SemTypes Registry Sem RustLayout LayoutLemmas SemLemmas
     PlacementLemmas WholeBuild Examples Sexp Emit EmitReaders EmitShape EmitFinal EmitLayout.
Import ListNotations.
Local Open Scope N_scope.

From PyxisModel Require RefutedInputs RefutedWitnessesOrder RefutedWitnessesEmit RefutedWitnessesFn.

Theorem C01_main : forall st p v d st' rs,
  type_build st p v d = (st', Ok rs) -> reg_u8 (st_reg st') ->
  exists td module n pending vfs start,
    rs_inner rs = IType td /\
    foldM (process_statement (st_reg st) (module_scope module)) (gt_stmts d) (O, ([], None))
      = Ok (n, (pending, vfs)) /\
    let R := st_reg st' in
    let fs := map (region_sa R) (td_regions td) in
    (start = 0 \/ (start = reg_ptr R /\
                   exists ty, hd_error (td_regions td) = Some (vftable_region_of (TConstPtr ty)))) /\
    Forall (fun x => r_name (snd x) <> None ->
                     In x (combine (field_offsets (td_packed td) (rs_align rs) fs) (td_regions td)))
           (declared_offsets R start pending).
Proof. exact type_build_offsets. Qed.
Print Assumptions C01_main.

(** the compiler adds no padding of its own: all fields, generated padding included, sit at the
    prefix sums of the region sizes *)
Theorem C01_no_compiler_padding : forall st p v d st' rs,
  type_build st p v d = (st', Ok rs) ->
  exists td, rs_inner rs = IType td /\
    let fs := map (region_sa (st_reg st')) (td_regions td) in
    field_offsets (td_packed td) (rs_align rs) fs = prefix_sums 0 fs.
Proof.
  intros st p v d st' rs H.
  destruct (type_build_layout _ _ _ _ _ _ H) as (td & Hi & _ & _ & Hnp & Hp).
  exists td. split; [exact Hi|]. cbn zeta. unfold field_offsets.
  destruct (td_packed td) eqn:E.
  - destruct (Hp eq_refl) as [_ ->]. reflexivity.
  - destruct (Hnp eq_refl) as (-> & _). reflexivity.
Qed.
Print Assumptions C01_no_compiler_padding.

(** non-vacuity: the concrete input of Examples.v is accepted at pointer width 4, the final
    registry satisfies [reg_u8], and its type [T] (explicit addresses, a gap, a base, a zero-length
    array) resolves to 32 bytes *)
Example C01_example :
  exists st r, ex_state 4 = Some st /\ reg_u8 (st_reg st) /\
               resolved_of st ["m"; "T"]%string = Some r /\ rs_size r = 32.
Proof. vm_compute. eexists; eexists; repeat split; reflexivity. Qed.

(** ** End to end.  For every accepted build whose input is [collision_free] (see C02.v; decidable;
    false without it, open finding F4b) and every struct the input declares: each declared named
    field that is kept sits, under the Reference's algorithm applied with the FINAL registry's sizes
    and alignments, at its declared address or at the end of its predecessor.  [pending] is the list
    of declared fields as [process_statement] read them in the state [R_mid] of the successful
    attempt; every size known in [R_mid] is the same in the final registry. *)
Theorem C01_whole_build : forall order ptr mods st0 st p it0 gd td0 it r,
  input_state ptr mods = Ok st0 -> collision_free (st_reg st0) ->
  pyxis_resolve order ptr mods = BOk st ->
  reg_get (st_reg st0) p = Some it0 -> it_state it0 = Unresolved gd -> gi_inner gd = GIType td0 ->
  reg_get (st_reg st) p = Some it -> it_state it = Resolved r ->
  exists td R_mid module n pending vfs start,
    rs_inner r = IType td /\
    ext (st_reg st0) (st_reg st0) R_mid /\ ext (st_reg st0) R_mid (st_reg st) /\
    foldM (process_statement R_mid (module_scope module)) (gt_stmts td0) (O, ([], None))
      = Ok (n, (pending, vfs)) /\
    let R := st_reg st in
    let fs := map (region_sa R) (td_regions td) in
    (start = 0 \/ (start = reg_ptr R /\
                   exists ty, hd_error (td_regions td) = Some (vftable_region_of (TConstPtr ty)))) /\
    Forall (fun x => r_name (snd x) <> None ->
                     In x (combine (field_offsets (td_packed td) (rs_align r) fs) (td_regions td)))
           (declared_offsets R start pending).
Proof. exact whole_build_offsets. Qed.
Print Assumptions C01_whole_build.

(** the hypothesis [reg_u8] of [C01_main] holds in every state pyxis can be in *)
Theorem C01_u8_always : forall ptr mods st0, input_state ptr mods = Ok st0 -> reg_u8 (st_reg st0).
Proof. exact input_state_u8. Qed.
Print Assumptions C01_u8_always.

(** ** The EMITTED struct (EmitReaders.v, EmitShape.v, EmitFinal.v, EmitFind.v, EmitLayout.v).  For every
    struct an input declares, in every accepted [collision_free] build whose files the model writes:
    the file of its module contains the struct item (found by name), shaped as [struct_shape] says --
    one field per region, in order, with the region's name, type tokens, visibility and docs, the
    [repr(C, align(A))] / [repr(C, packed)] attribute, the derive list --, followed by the size check
    whose literal is the resolved size; and the Reference layout computed FROM THAT EMITTED ITEM
    ([emitted_struct_layout]: its field list and its repr attribute, with the final registry's sizes of
    the field types) gives the struct the resolved size and alignment and puts every declared named
    field at its declared address.  Extra hypotheses: module paths pairwise distinct ([add_module]
    replaces a module of the same path), the item is not in the root module (which gets no file), and
    the schedule never returns the empty list for a non-empty one (every permutation does not). *)
Theorem C01_emitted_struct : forall order ptr mods st0 st files p it0 gd td0,
  input_state ptr mods = Ok st0 -> NoDup (map fst mods) -> collision_free (st_reg st0) ->
  keeps_work order ->
  pyxis_resolve order ptr mods = BOk st -> write_all st = Ok files ->
  reg_get (st_reg st0) p = Some it0 -> it_state it0 = Unresolved gd -> gi_inner gd = GIType td0 ->
  path_parent p <> Some [] ->
  exists parent name it r td f pre s checks rest post efs noffs,
    (* the item, resolved, in the final registry *)
    path_parent p = Some parent /\ path_last p = Some name /\
    reg_get (st_reg st) p = Some it /\ it_state it = Resolved r /\ rs_inner r = IType td /\
    (* the file of its module holds the struct item, then its size check, then impls *)
    In (out_path parent, f) files /\
    file_items f = Some (pre ++ (s :: checks ++ rest) ++ post) /\
    find_struct name (pre ++ (s :: checks ++ rest) ++ post) = Some s /\
    struct_shape name (rs_align r) (it_vis it0) td s /\
    size_check_shape name (rs_size r) checks /\
    Forall is_impl_or_const rest /\
    (* the layout computed from the emitted struct *)
    let R := st_reg st in
    let tys := map r_type (td_regions td) in
    struct_fields s = Some efs /\ map ef_ty efs = map type_tokens tys /\
    emitted_struct_layout (map (type_sa R) tys) s = Some (noffs, rs_size r, rs_align r) /\
    map fst noffs = map ef_name efs /\
    (* every declared named field that is kept is at its declared offset *)
    exists R_mid module n pending vfs start,
      ext (st_reg st0) (st_reg st0) R_mid /\ ext (st_reg st0) R_mid R /\
      foldM (process_statement R_mid (module_scope module)) (gt_stmts td0) (O, ([], None))
        = Ok (n, (pending, vfs)) /\
      (start = 0 \/ (start = reg_ptr R /\
                     exists ty, hd_error (td_regions td) = Some (vftable_region_of (TConstPtr ty)))) /\
      Forall (fun x => forall nm, r_name (snd x) = Some nm -> In (nm, fst x) noffs)
             (declared_offsets R start pending).
Proof. exact emitted_struct_whole_build. Qed.
Print Assumptions C01_emitted_struct.

Theorem C01_void_by_value_refuted_F9 :
  exists (st0 st : sstate) (files : RefutedInputs.files_t),
      RefutedInputs.built [] 4 RefutedInputs.f9_mods st0 st files /\
      RefutedInputs.side_ok st0 = true /\
      RefutedInputs.size_at st ["a"%string; "T"%string] = Some 1 /\
      option_map (map r_type) (RefutedInputs.regions_at st ["a"%string; "T"%string]) =
      Some RefutedWitnessesEmit.f9_tys /\
      RefutedInputs.thenr (RefutedInputs.struct_of files "a.rs" "T") struct_repr = Some ReprPacked /\
      option_map (map (fun ef : efield => (ef_name ef, ef_ty ef)))
        (RefutedInputs.thenr (RefutedInputs.struct_of files "a.rs" "T") struct_fields) =
      Some [("a"%string, RefutedWitnessesEmit.c_void_tokens); ("b"%string, [Atom "u8"])] /\
      RefutedInputs.size_check_of files "a.rs" "T" = Some (1, 1) /\
      map (type_sa (st_reg st)) RefutedWitnessesEmit.f9_tys = [(0, 1); (1, 1)] /\
      map (RefutedWitnessesEmit.rustc_field_sa (st_reg st)) RefutedWitnessesEmit.f9_tys =
      [(1, 1); (1, 1)] /\
      RefutedInputs.thenr (RefutedInputs.struct_of files "a.rs" "T")
        (emitted_struct_layout (map (type_sa (st_reg st)) RefutedWitnessesEmit.f9_tys)) =
      Some ([("a"%string, 0); ("b"%string, 0)], 1, 1) /\
      RefutedInputs.thenr (RefutedInputs.struct_of files "a.rs" "T")
        (emitted_struct_layout
           (map (RefutedWitnessesEmit.rustc_field_sa (st_reg st)) RefutedWitnessesEmit.f9_tys)) =
      Some ([("a"%string, 0); ("b"%string, 1)], 2, 1).
Proof. exact RefutedWitnessesEmit.C01_C02_void_by_value_refuted_F9. Qed.
Print Assumptions C01_void_by_value_refuted_F9.
