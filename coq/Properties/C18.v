(** * C18 — parsing is the inverse of printing.

    MODEL: Syntax.v -- tokens as proc_macro2/syn deliver them, a printer and a recursive-descent
    parser for the type, expression and attribute sub-languages, written branch by branch after
    src/parser/mod.rs ([impl Parse for Type] with the [parse_type_ident] generics hack,
    [impl Parse for Expr], [Attribute::parse_many] with [Punctuated::parse_terminated]).
    PROVED, for every abstract value (any nesting depth, any list length):
    - [C18_type_roundtrip]: parse (print t ++ rest) = (t, rest) for every well-formed type, provided
      the following token is not one the generics hack would swallow;
    - [C18_expr_roundtrip], [C18_attrs_roundtrip]: the same for expressions and for attribute lists
      (names, order and arguments preserved).
    - [C18_module_roundtrip] (SyntaxItems.v / SyntaxItemsLemmas.v: printers and parsers for functions,
      fields, vftable blocks, type and enum definitions, impl blocks, extern types and values, use
      paths, backend blocks in all forms, module attributes and the item loop, each written after the
      corresponding function of src/parser/mod.rs): [parse_module (print_module m) = Some m] for EVERY
      well-formed module [m] -- any number of items of every kind, any nesting, any attribute lists;
      [C18_module_roundtrip_any_order]: the same for any interleaving of the item kinds;
      [C18_wf_decidable]: the precondition is the executable [wf_module_b] (identifiers are not
      keywords, literals in range, types at most 64 deep -- the real parser's nesting limit --, a
      private field is not called [vftable], backend strings trimmed);
      [C18_module_eqb_correct]: the boolean equality used to compare the Coq parser's module with
      the real parser's is equality.
    - INTEGER LITERALS (IntLit.v, IntLitSyntax.v): [lit_value], the value and suffix of a literal
      spelling as proc_macro2's lexer and syn's [parse_lit_int] read it (prefixes [0x 0o 0b],
      underscores, either hex case, suffixes, the float look-alikes that are NOT integers), and
      [read_isize] / [read_usize] = pyxis's [base10_parse::<isize>] / [::<usize>] on top of it:
      [C18_literal_value_of_every_spelling] (every spelling of [n] in every base, with any
      underscores and any admissible suffix, reads as [n] -- for all [n]),
      [C18_decimal_literal_roundtrip] / [C18_printed_number_reads_back] (the printer's decimal
      spelling is the only canonical one and reads back), [C18_isize_reading_spec] /
      [C18_usize_reading_spec] (reading succeeds exactly when the value is in range; [usize] takes
      no sign), [C18_int_token_printed] (the token the grammar model consumes).
    NOT MODELLED, by nature: the rest of lexing (whitespace, comments, string literals, doc comments
    becoming doc attributes -- the token stream is the real lexer's) and error positions.  The theorems are
    about the printer's canonical spelling; other legal spellings are covered by the correspondence
    of this property: (A) abstract modules over the full grammar are printed with randomised legal
    formatting and parsed by the REAL parser, which must return exactly the generated module; (B)
    the Coq parsers and the real parser are run on the same token streams -- types, attribute
    lists, and (C) whole module texts, valid and token-damaged -- and must agree on acceptance and on
    the module; (D) integer literal spellings, well formed and damaged, in an isize position and
    in a usize position: the real parser and [read_isize] / [read_usize] must agree on acceptance
    and on the value. *)
From Coq Require Import List NArith ZArith Bool String.
From PyxisModel Require Import Base Grammar Syntax SyntaxLemmas SyntaxItems ModuleEq SyntaxItemsLemmas.
Import ListNotations.

From PyxisModel Require IntLit IntLitSyntax.

Theorem C18_type_roundtrip : forall t fuel rest,
  wf_type t -> stops_type_ident rest -> (type_depth t <= fuel)%nat ->
  parse_type fuel (print_type t ++ rest) = Some (t, rest).
Proof. exact parse_print_type. Qed.
Print Assumptions C18_type_roundtrip.

Theorem C18_expr_roundtrip : forall e rest, wf_expr e -> parse_expr (print_expr e ++ rest) = Some (e, rest).
Proof. exact parse_print_expr. Qed.
Print Assumptions C18_expr_roundtrip.

Theorem C18_attrs_roundtrip : forall l fuel rest,
  Forall wf_attr l ->
  (match rest with KPunct p :: _ => p <> "#"%string | _ => True end) ->
  (List.length l < fuel)%nat ->
  parse_attrs fuel (print_attrs l ++ rest) = Some (l, rest).
Proof. exact parse_print_attrs. Qed.
Print Assumptions C18_attrs_roundtrip.

(** nesting is kept: pointer to array of pointers to an unknown block *)
Example C18_example :
  let t := GConstPtr (GArray (GMutPtr (GArray (GUnknown 4) 0)) 3) in
  parse_type 8 (print_type t ++ [KPunct ","%string]) = Some (t, [KPunct ","%string]) /\
  parse_type 8 [KId "Shared"; KPunct "<"; KId "Foo"; KPunct ">"; KPunct ";"]%string
    = Some (GIdent "Shared<Foo>", [KPunct ";"])%string /\
  parse_type 8 [KPunct "*"; KId "volatile"; KId "u8"]%string = None.
Proof. vm_compute. repeat split. Qed.

(** ** the whole module grammar *)
Theorem C18_module_roundtrip : forall m, wf_module m -> parse_module (print_module m) = Some m.
Proof. exact parse_print_module. Qed.
Print Assumptions C18_module_roundtrip.

Theorem C18_module_roundtrip_any_order : forall attrs (items : list item),
  Forall wf_attr attrs -> Forall wf_item items ->
  parse_module (print_mod_attrs attrs ++ flat_map print_item items)
  = Some (set_attrs attrs (fold_right add_item empty_module items)).
Proof. exact parse_print_module_any_order. Qed.
Print Assumptions C18_module_roundtrip_any_order.

Theorem C18_wf_decidable : forall m, wf_module_b m = true -> wf_module m.
Proof. exact wf_module_b_sound. Qed.
Print Assumptions C18_wf_decidable.

Theorem C18_module_eqb_correct : forall a b, gmodule_eqb a b = true <-> a = b.
Proof. exact gmodule_eqb_spec. Qed.
Print Assumptions C18_module_eqb_correct.

(** non-vacuity: a module with every kind of item is well formed and round-trips (by the theorem and
    by computation) *)
Example C18_module_example :
  wf_module Example.m /\ parse_module (print_module Example.m) = Some Example.m.
Proof. split; [exact Example.m_wf | exact Example.m_roundtrip]. Qed.

Theorem C18_literal_value_of_every_spelling :
  forall (up : bool) (base n : N) (lead : nat) (mask : list nat) (sfx : string),
    IntLit.valid_base base = true ->
    IntLit.lead_ok base lead = true ->
    IntLit.suffix_ok base sfx = true ->
    IntLit.lit_value (IntLit.with_underscores_gen lead mask (IntLit.spell_case up base n) +++ sfx) =
    Some (n, sfx).
Proof. exact IntLit.lit_value_general. Qed.
Print Assumptions C18_literal_value_of_every_spelling.

Theorem C18_decimal_literal_roundtrip :
  forall (s : string) (n : N),
    IntLit.canonical_dec s = true -> IntLit.lit_value s = Some (n, ""%string) -> s = IntLit.spell 10 n.
Proof. exact IntLit.lit_value_inj_canonical. Qed.
Print Assumptions C18_decimal_literal_roundtrip.

Theorem C18_printed_number_reads_back :
  forall n : N, IntLit.lit_value (dec_of_N n) = Some (n, ""%string).
Proof. exact IntLit.lit_value_dec_of_N. Qed.
Print Assumptions C18_printed_number_reads_back.

Theorem C18_isize_reading_spec :
  forall (neg : bool) (s : string) (z : Z),
    IntLit.read_isize neg s = Some z <->
    (exists (n : N) (sfx : string),
       IntLit.lit_value s = Some (n, sfx) /\ z = IntLit.signed neg n /\ (isize_min <= z <= isize_max)%Z).
Proof. exact IntLit.read_isize_spec. Qed.
Print Assumptions C18_isize_reading_spec.

Theorem C18_usize_reading_spec :
  forall (neg : bool) (s : string) (n : N),
    IntLit.read_usize neg s = Some n <->
    neg = false /\ (exists sfx : string, IntLit.lit_value s = Some (n, sfx) /\ (n <= usize_max)%N).
Proof. exact IntLit.read_usize_spec. Qed.
Print Assumptions C18_usize_reading_spec.

Theorem C18_int_token_printed :
  forall n : N, IntLitSyntax.int_token false (dec_of_N n) = Some (KInt (Z.of_N n)).
Proof. exact IntLitSyntax.int_token_printed. Qed.
Print Assumptions C18_int_token_printed.

(** The two readers of a literal text ([base10_parse::<usize>()] for counts, [::<isize>()] for
    values) never disagree about the number it denotes (IntLitAgree.v). *)
From PyxisModel Require IntLitAgree.

Theorem C18_literal_readers_agree : forall (s : string) (n : N) (z : Z),
    IntLit.read_usize false s = Some n -> IntLit.read_isize false s = Some z -> z = Z.of_N n.
Proof. exact IntLitAgree.readers_agree. Qed.
Print Assumptions C18_literal_readers_agree.

Theorem C18_isize_literal_is_usize_literal : forall (s : string) (z : Z),
    IntLit.read_isize false s = Some z -> IntLit.read_usize false s = Some (Z.to_N z).
Proof. exact IntLitAgree.isize_reading_is_usize_reading. Qed.
Print Assumptions C18_isize_literal_is_usize_literal.

Theorem C18_usize_literal_is_isize_literal_iff : forall (s : string) (n : N),
    IntLit.read_usize false s = Some n ->
    (IntLit.read_isize false s = Some (Z.of_N n) <-> (Z.of_N n <= isize_max)%Z) /\
    (IntLit.read_isize false s = None <-> (isize_max < Z.of_N n)%Z).
Proof. exact IntLitAgree.usize_reading_is_isize_reading_iff. Qed.
Print Assumptions C18_usize_literal_is_isize_literal_iff.

Theorem C18_negated_literal_is_opposite : forall (s : string) (z : Z),
    IntLit.read_isize false s = Some z -> IntLit.read_isize true s = Some (- z)%Z.
Proof. exact IntLitAgree.negated_isize_is_opposite. Qed.
Print Assumptions C18_negated_literal_is_opposite.

Theorem C18_usize_token_vs_text : forall (neg : bool) (s : string) (n : N) (sfx : string),
    IntLit.lit_value s = Some (n, sfx) ->
    (usize_of (IntLit.signed neg n) = IntLit.read_usize neg s <-> ~ (neg = true /\ n = 0%N)).
Proof. exact IntLitAgree.usize_token_vs_text. Qed.
Print Assumptions C18_usize_token_vs_text.
