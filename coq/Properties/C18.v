(** * C18 — parsing is the inverse of printing.

    MODEL: Syntax.v -- tokens as proc_macro2/syn deliver them, a printer and a recursive-descent
    parser for the type, expression and attribute sub-languages, written branch by branch after
    src/parser/mod.rs ([impl Parse for Type] with the [parse_type_ident] generics hack,
    [impl Parse for Expr], [Attribute::parse_many] with [Punctuated::parse_terminated]).
    PROVED, for every abstract value (any nesting depth, any list length):
    - [C18_type_roundtrip]: parse (print t ++ rest) = (t, rest) for every well-formed type, provided
      the following token is not one the generics hack would swallow;
    - [C18_expr_roundtrip], [C18_attrs_roundtrip]: the same for expressions and for attribute lists
      (names, order and arguments preserved).
    NOT MODELLED (hence partial): items, functions, fields, enums, impl/extern/use/backend statements
    and the module loop -- and, by nature, lexing (whitespace, comments, literal spellings, doc
    comments becoming doc attributes) and error positions.  Those are covered by the correspondence
    of this property: abstract modules over the full grammar are printed with randomised legal
    formatting and parsed by the REAL parser, which must return exactly the generated module; the
    Coq parser and the real parser are run on the same token streams for types and attribute lists. *)
From Coq Require Import List NArith ZArith Bool String.
From PyxisModel Require Import Base Grammar Syntax SyntaxLemmas.
Import ListNotations.

Theorem C18_type_roundtrip : forall t fuel rest,
  wf_type t -> stops_type_ident rest -> (type_depth t <= fuel)%nat ->
  parse_type fuel (print_type t ++ rest) = Some (t, rest).
Proof. exact parse_print_type. Qed.
Print Assumptions C18_type_roundtrip.

Theorem C18_expr_roundtrip : forall e rest, wf_expr e -> parse_expr (print_expr e ++ rest) = Some (e, rest).
Proof. exact parse_print_expr. Qed.
Print Assumptions C18_expr_roundtrip.

Theorem C18_attrs_roundtrip : forall l fuel rest,
  Forall wf_attr l ->
  (match rest with KPunct p :: _ => p <> "#"%string | _ => True end) ->
  (List.length l < fuel)%nat ->
  parse_attrs fuel (print_attrs l ++ rest) = Some (l, rest).
Proof. exact parse_print_attrs. Qed.
Print Assumptions C18_attrs_roundtrip.

(** nesting is kept: pointer to array of pointers to an unknown block *)
Example C18_example :
  let t := GConstPtr (GArray (GMutPtr (GArray (GUnknown 4) 0)) 3) in
  parse_type 8 (print_type t ++ [KPunct ","%string]) = Some (t, [KPunct ","%string]) /\
  parse_type 8 [KId "Shared"; KPunct "<"; KId "Foo"; KPunct ">"; KPunct ";"]%string
    = Some (GIdent "Shared<Foo>", [KPunct ";"])%string /\
  parse_type 8 [KPunct "*"; KId "volatile"; KId "u8"]%string = None.
Proof. vm_compute. repeat split. Qed.
