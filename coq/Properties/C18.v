(** * C18 — parsing is the inverse of printing.

    MODEL: Syntax.v -- tokens as proc_macro2/syn deliver them, a printer and a recursive-descent
    parser for the type, expression and attribute sub-languages, written branch by branch after
    src/parser/mod.rs ([impl Parse for Type] with the [parse_type_ident] generics hack,
    [impl Parse for Expr], [Attribute::parse_many] with [Punctuated::parse_terminated]).
    PROVED, for every abstract value (any nesting depth, any list length):
    - [C18_type_roundtrip]: parse (print t ++ rest) = (t, rest) for every well-formed type, provided
      the following token is not one the generics hack would swallow;
    - [C18_expr_roundtrip], [C18_attrs_roundtrip]: the same for expressions and for attribute lists
      (names, order and arguments preserved).
    - [C18_module_roundtrip] (SyntaxItems.v / SyntaxItemsLemmas.v: printers and parsers for functions,
      fields, vftable blocks, type and enum definitions, impl blocks, extern types and values, use
      paths, backend blocks in all forms, module attributes and the item loop, each written after the
      corresponding function of src/parser/mod.rs): [parse_module (print_module m) = Some m] for EVERY
      well-formed module [m] -- any number of items of every kind, any nesting, any attribute lists;
      [C18_module_roundtrip_any_order]: the same for any interleaving of the item kinds;
      [C18_wf_decidable]: the precondition is the executable [wf_module_b] (identifiers are not
      keywords, literals in range, types at most 64 deep -- the real parser's nesting limit --, a
      private field is not called [vftable], backend strings trimmed);
      [C18_module_eqb_correct]: the boolean equality used to compare the Coq parser's module with
      the real parser's is equality.
    NOT MODELLED, by nature: lexing (whitespace, comments, literal spellings, doc comments becoming
    doc attributes -- the token stream is the real lexer's) and error positions.  The theorems are
    about the printer's canonical spelling; other legal spellings are covered by the correspondence
    of this property: (A) abstract modules over the full grammar are printed with randomised legal
    formatting and parsed by the REAL parser, which must return exactly the generated module; (B)
    the Coq parsers and the real parser are run on the same token streams -- types, attribute
    lists, and (C) whole module texts, valid and token-damaged -- and must agree on acceptance and on
    the module. *)
From Coq Require Import List NArith ZArith Bool String.
From PyxisModel Require Import Base Grammar Syntax SyntaxLemmas SyntaxItems ModuleEq SyntaxItemsLemmas.
Import ListNotations.

Theorem C18_type_roundtrip : forall t fuel rest,
  wf_type t -> stops_type_ident rest -> (type_depth t <= fuel)%nat ->
  parse_type fuel (print_type t ++ rest) = Some (t, rest).
Proof. exact parse_print_type. Qed.
Print Assumptions C18_type_roundtrip.

Theorem C18_expr_roundtrip : forall e rest, wf_expr e -> parse_expr (print_expr e ++ rest) = Some (e, rest).
Proof. exact parse_print_expr. Qed.
Print Assumptions C18_expr_roundtrip.

Theorem C18_attrs_roundtrip : forall l fuel rest,
  Forall wf_attr l ->
  (match rest with KPunct p :: _ => p <> "#"%string | _ => True end) ->
  (List.length l < fuel)%nat ->
  parse_attrs fuel (print_attrs l ++ rest) = Some (l, rest).
Proof. exact parse_print_attrs. Qed.
Print Assumptions C18_attrs_roundtrip.

(** nesting is kept: pointer to array of pointers to an unknown block *)
Example C18_example :
  let t := GConstPtr (GArray (GMutPtr (GArray (GUnknown 4) 0)) 3) in
  parse_type 8 (print_type t ++ [KPunct ","%string]) = Some (t, [KPunct ","%string]) /\
  parse_type 8 [KId "Shared"; KPunct "<"; KId "Foo"; KPunct ">"; KPunct ";"]%string
    = Some (GIdent "Shared<Foo>", [KPunct ";"])%string /\
  parse_type 8 [KPunct "*"; KId "volatile"; KId "u8"]%string = None.
Proof. vm_compute. repeat split. Qed.

(** ** the whole module grammar *)
Theorem C18_module_roundtrip : forall m, wf_module m -> parse_module (print_module m) = Some m.
Proof. exact parse_print_module. Qed.
Print Assumptions C18_module_roundtrip.

Theorem C18_module_roundtrip_any_order : forall attrs (items : list item),
  Forall wf_attr attrs -> Forall wf_item items ->
  parse_module (print_mod_attrs attrs ++ flat_map print_item items)
  = Some (set_attrs attrs (fold_right add_item empty_module items)).
Proof. exact parse_print_module_any_order. Qed.
Print Assumptions C18_module_roundtrip_any_order.

Theorem C18_wf_decidable : forall m, wf_module_b m = true -> wf_module m.
Proof. exact wf_module_b_sound. Qed.
Print Assumptions C18_wf_decidable.

Theorem C18_module_eqb_correct : forall a b, gmodule_eqb a b = true <-> a = b.
Proof. exact gmodule_eqb_spec. Qed.
Print Assumptions C18_module_eqb_correct.

(** non-vacuity: a module with every kind of item is well formed and round-trips (by the theorem and
    by computation) *)
Example C18_module_example :
  wf_module Example.m /\ parse_module (print_module Example.m) = Some Example.m.
Proof. split; [exact Example.m_wf | exact Example.m_roundtrip]. Qed.
