(** * C13 — the emitted files form a Rust crate that type-checks.

    What is PROVED on the model (the parts of "type-checks" that are pyxis's own obligations):
    - paths resolve: every path occurring in a resolved field / parameter / return / extern-value
      type is an entry of the registry, i.e. a built-in, a declared extern type, a declared item or
      a generated vftable struct ([C13_paths_resolve]);
    - the size checks hold: the transmute in [_<T>_size_check] is between [[u8; S]] and a struct
      whose Reference layout has size S ([C13_size_check], from C02);
    - Default is satisfiable: a defaultable type only has fields whose types bottom out, through
      arrays, in items that are themselves defaultable ([C13_default_satisfiable]);
    - the struct's alignment attribute is one rustc accepts: a power of two ([C13_align_accepted]).
    ON THE EMITTED TEXT, WHOLE BUILD (EmitPaths.v, PathsClosed.v, PathsWhole.v; at the end of this
    file): "every path mentioned resolves to an emitted item, a built-in or a declared extern type"
    - [C13_type_paths_read]: a reader extracts from printed type tokens exactly the paths the type
      mentions ([crate :: a :: b :: T] runs and bare names; [:: std :: ffi :: c_void] skipped);
    - [C13_registry_closed]: the final registry of an accepted build is closed under "mentions" (a new
      invariant carried through every attempt); [C13_path_class]: every entry is a built-in, a
      declared extern type of an input module, or a declared item / generated vftable struct;
    - [C13_emitted_struct_fields_resolve], [C13_emitted_enum_repr_resolves],
      [C13_emitted_impl_fns_resolve], [C13_emitted_extern_values_resolve]: every path read from the
      field types of EVERY struct item of EVERY written file (vftable structs' fn-pointer types
      included), from every enum's repr, from the signature of every function of every inherent
      impl, and from every extern accessor is [path_ok]: a Rust built-in, a declared extern type, or
      the name of a struct/enum item that is in the written file of its parent module;
    - [C13_emitted_size_check_holds]: the emitted size check transmutes between equal sizes.
    - derives (DefaultClosed.v, EmitDefault.v): [C13_default_closed_in_the_final_registry] -- a
      defaultable type's fields bottom out, through arrays, in items that are defaultable in the
      FINAL registry (no pointer, no extern type; an own vftable pointer excludes the marker:
      [C13_defaultable_own_vftable_not_accepted]); [C13_emitted_default_fields]: on the emitted text,
      a struct derives Default iff declared defaultable, and then every field (padding included)
      satisfies Rust's rule for Default ([rust_default_ok]: primitive, array of at most 32 of such,
      or an item whose OWN emitted definition derives Default -- an enum moreover with exactly one
      [#[default]] variant, [C08_emitted_enum_default] in C08.v) EXACTLY WHEN it meets the side
      condition pyxis does not check (array lengths <= 32, no by-value void):
      [C13_default_padding_refuted] / [C13_default_void_refuted] are accepted inputs that violate
      it (the 33-byte gap is outside the property's documented fragment; by-value void is finding
      F9); [C13_emitted_copy_has_clone] (Copy iff copyable, Copy always with Clone) is all that is
      true about Copy/Clone -- [C13_copy_refuted] is finding F17 on the model.
    Not covered: positions that are not a printed type (Self, size-check fns), fn-pointer types
    repeated inside wrapper bodies, opaque prologue/epilogue text, that extern types are defined on
    the Rust side, items of a root module (no file).
    What is NOT proved: that rustc accepts the crate as a whole.  That is decided on every run by the
    type-check ORACLE (rustc itself, on the implementation's emitted files) -- the monitor of this
    property -- and the classes in which it fails on the unchanged tree are the listed known findings
    (F9, F10, F12, F13, F14, F17, F19).  The claim is therefore partial by construction: theorem names
    say which clause they cover.
    REFUTED ON THE MODEL (RefutedWitnesses*.v), one accepted input per open finding, with the emitted item that rustc
    rejects: F12a/F12b/F12c (enums), F13 (packed embeds an aligned struct), F14 (two fields named vftable), F24 (two
    functions of one name), F10/F21 (no receiver, body mentions self), F19 (private slot read from another module). *)
From Coq Require Import List NArith ZArith Bool String.
From PyxisModel Require Import Base Grammar SemTypes Registry Sem SemLemmas RustLayout LayoutLemmas ScopeLemmas.
Import ListNotations.

From PyxisModel Require EmitFnReaders EmitFnShape FilesWhole FilesRead EmitPaths PathsClosed PathsWhole.

From PyxisModel Require DefaultClosed EmitDefault EmitDefaultExamples EmitMarkers.

From PyxisModel Require RefutedInputs RefutedWitnessesOrder RefutedWitnessesEmit RefutedWitnessesFn.

Theorem C13_paths_resolve_partial : forall R scope, reg_has R ["u8"%string] = true -> forall t t',
  resolve_gtype R scope t = Some t' -> Forall (fun p => reg_has R p = true) (stype_paths t').
Proof. exact resolve_gtype_paths. Qed.
Print Assumptions C13_paths_resolve_partial.

Theorem C13_size_check_partial : forall st p v d st' rs,
  type_build st p v d = (st', Ok rs) ->
  exists td, rs_inner rs = IType td /\
    let fs := map (region_sa (st_reg st')) (td_regions td) in
    (td_packed td = false -> snd (fst (struct_layout (rs_align rs) fs)) = rs_size rs) /\
    (td_packed td = true -> snd (fst (packed_layout fs)) = rs_size rs).
Proof.
  intros st p v d st' rs H.
  destruct (type_build_layout _ _ _ _ _ _ H) as (td & Hi & _ & _ & Hnp & Hp).
  exists td. split; [exact Hi|]. cbn zeta. split; intros E.
  - destruct (Hnp E) as (-> & _). reflexivity.
  - destruct (Hp E) as (_ & ->). reflexivity.
Qed.
Print Assumptions C13_size_check_partial.

Theorem C13_align_accepted_partial : forall st p v d st' rs,
  type_build st p v d = (st', Ok rs) ->
  exists td, rs_inner rs = IType td /\ (td_packed td = false -> is_power_of_two (rs_align rs) = true).
Proof.
  intros st p v d st' rs H.
  destruct (type_build_layout _ _ _ _ _ _ H) as (td & Hi & _ & _ & Hnp & _).
  exists td. split; [exact Hi|]. intros E. apply (Hnp E).
Qed.
Print Assumptions C13_align_accepted_partial.

Theorem C13_default_satisfiable_partial : forall R r,
  check_defaultable R r = Ok tt ->
  exists p it, defaultable_path (r_type r) = Some p /\ reg_get R p = Some it /\
    match item_resolved it with
    | Some rs => inner_defaultable (rs_inner rs) = true
    | None => True
    end.
Proof.
  unfold check_defaultable. intros R r H.
  destruct (defaultable_path (r_type r)) as [p|]; [|discriminate].
  destruct (reg_get R p) as [it|] eqn:Eg; [|discriminate].
  exists p, it. split; [reflexivity|]. split; [exact Eg|].
  destruct (item_resolved it) as [rs|]; [|exact I].
  destruct (inner_defaultable (rs_inner rs)); [reflexivity | discriminate].
Qed.
Print Assumptions C13_default_satisfiable_partial.

(** ** on the emitted text *)
From PyxisModel Require Emit WholeBuild EmitReaders EmitShape EmitFinal EmitLayout EmitVftLayout.

(** the emitted size check of a declared struct compares equal sizes: the literal it transmutes from is the
    size the Reference algorithm computes for the emitted struct itself *)
Theorem C13_emitted_size_check_holds : forall order ptr mods st0 st files p it0 gd td0,
  WholeBuild.input_state ptr mods = Ok st0 -> NoDup (map fst mods) -> WholeBuild.collision_free (st_reg st0) ->
  EmitFinal.keeps_work order ->
  pyxis_resolve order ptr mods = BOk st -> Emit.write_all st = Ok files ->
  reg_get (st_reg st0) p = Some it0 -> it_state it0 = Unresolved gd -> gi_inner gd = GIType td0 ->
  path_parent p <> Some [] ->
  exists parent name f items s checks td noffs sz al,
    path_parent p = Some parent /\ path_last p = Some name /\
    In (Emit.out_path parent, f) files /\ EmitReaders.file_items f = Some items /\
    EmitReaders.find_struct name items = Some s /\
    (exists pre rest post, items = pre ++ (s :: checks ++ rest) ++ post) /\
    EmitShape.size_check_shape name sz checks /\
    EmitLayout.emitted_struct_layout (map (EmitLayout.type_sa (st_reg st)) (map r_type (td_regions td))) s = Some (noffs, sz, al).
Proof.
  intros order ptr mods st0 st files p it0 gd td0 H1 H2 H3 H4 H5 H6 H7 H8 H9 H10.
  destruct (EmitLayout.emitted_struct_whole_build order ptr mods st0 st files p it0 gd td0 H1 H2 H3 H4 H5 H6 H7 H8 H9 H10)
    as (parent & name & it & r & td & f & pre & s & checks & rest & post & efs & noffs & Hpar & Hlast & _ & _ & _ & Hin & Hitems & Hfind & _ & Hsc & _ & Hlay).
  cbn zeta in Hlay. destruct Hlay as (_ & _ & Hl & _).
  exists parent, name, f, (pre ++ (s :: checks ++ rest) ++ post), s, checks, td, noffs, (rs_size r), (rs_align r).
  repeat split; eauto.
Qed.
Print Assumptions C13_emitted_size_check_holds.

Theorem C13_type_paths_read :
  forall t : stype,
    Emit.stype_ok t = true -> EmitPaths.type_paths (Emit.type_tokens t) = EmitPaths.printed_paths t.
Proof. exact EmitPaths.type_paths_type_tokens. Qed.
Print Assumptions C13_type_paths_read.

Theorem C13_registry_closed :
  forall (order : schedule) (ptr : N) (mods : list (path * gmodule)) (st0 st : sstate),
    WholeBuild.input_state ptr mods = Ok st0 ->
    pyxis_resolve order ptr mods = BOk st ->
    PathsClosed.has (st_reg st) ["u8"%string] /\
    (forall (p : path) (it : item),
     reg_get (st_reg st) p = Some it -> PathsClosed.item_closed (st_reg st) it) /\
    (forall (k : path) (m : smodule) (ev : sextern),
     In (k, m) (st_modules st) -> In ev (m_extern_values m) -> PathsClosed.ev_closed (st_reg st) ev).
Proof. exact PathsClosed.final_closed. Qed.
Print Assumptions C13_registry_closed.

Theorem C13_path_class :
  forall (order : schedule) (ptr : N) (mods : list (path * gmodule)) (st0 st : sstate),
    WholeBuild.input_state ptr mods = Ok st0 ->
    NoDup (map fst mods) ->
    WholeBuild.collision_free (st_reg st0) ->
    EmitFinal.keeps_work order ->
    pyxis_resolve order ptr mods = BOk st ->
    forall (p : path) (it : item), reg_get (st_reg st) p = Some it -> PathsWhole.path_class mods p it.
Proof. exact PathsWhole.final_path_class. Qed.
Print Assumptions C13_path_class.

Theorem C13_emitted_struct_fields_resolve :
  forall (order : schedule) (ptr : N) (mods : list (path * gmodule)) (st0 st : sstate),
    WholeBuild.input_state ptr mods = Ok st0 ->
    NoDup (map fst mods) ->
    WholeBuild.collision_free (st_reg st0) ->
    EmitFinal.keeps_work order ->
    pyxis_resolve order ptr mods = BOk st ->
    forall files : list (string * Sexp.sexp),
    Emit.write_all st = Ok files ->
    forall (name : string) (f : Sexp.sexp) (items : list Sexp.sexp) (s : Sexp.sexp)
      (efs : list EmitReaders.efield) (ef : EmitReaders.efield) (p : path),
    In (name, f) files ->
    EmitReaders.file_items f = Some items ->
    In s items ->
    EmitReaders.item_kind s = Some "struct"%string ->
    EmitReaders.struct_fields s = Some efs ->
    In ef efs -> In p (EmitPaths.type_paths (EmitReaders.ef_ty ef)) -> PathsWhole.path_ok mods files p.
Proof. exact PathsWhole.C13_struct_field_paths. Qed.
Print Assumptions C13_emitted_struct_fields_resolve.

Theorem C13_emitted_enum_repr_resolves :
  forall (order : schedule) (ptr : N) (mods : list (path * gmodule)) (st0 st : sstate),
    WholeBuild.input_state ptr mods = Ok st0 ->
    NoDup (map fst mods) ->
    WholeBuild.collision_free (st_reg st0) ->
    EmitFinal.keeps_work order ->
    pyxis_resolve order ptr mods = BOk st ->
    forall files : list (string * Sexp.sexp),
    Emit.write_all st = Ok files ->
    forall (name : string) (f : Sexp.sexp) (items : list Sexp.sexp) (e : Sexp.sexp)
      (toks : list Sexp.sexp) (p : path),
    In (name, f) files ->
    EmitReaders.file_items f = Some items ->
    In e items ->
    EmitReaders.item_kind e = Some "enum"%string ->
    EmitReaders.enum_repr e = Some toks ->
    In p (EmitPaths.type_paths toks) -> PathsWhole.path_ok mods files p.
Proof. exact PathsWhole.C13_enum_repr_paths. Qed.
Print Assumptions C13_emitted_enum_repr_resolves.

Theorem C13_emitted_impl_fns_resolve :
  forall (order : schedule) (ptr : N) (mods : list (path * gmodule)) (st0 st : sstate),
    WholeBuild.input_state ptr mods = Ok st0 ->
    NoDup (map fst mods) ->
    WholeBuild.collision_free (st_reg st0) ->
    EmitFinal.keeps_work order ->
    pyxis_resolve order ptr mods = BOk st ->
    forall files : list (string * Sexp.sexp),
    Emit.write_all st = Ok files ->
    forall (name : string) (f : Sexp.sexp) (items : list Sexp.sexp) (s : Sexp.sexp),
    In (name, f) files ->
    EmitReaders.file_items f = Some items ->
    In s items ->
    EmitReaders.item_kind s = Some "struct"%string ->
    exists (n : string) (checks sing : list Sexp.sexp) (im : Sexp.sexp) (conv fns : list Sexp.sexp),
      EmitReaders.struct_name s = Some n /\
      incl (s :: checks ++ sing ++ im :: conv) items /\
      EmitReaders.item_kind im = Some "impl"%string /\
      EmitFnReaders.inherent_impl im = Some (n, fns) /\
      (forall (e : Sexp.sexp) (toks : list Sexp.sexp) (p : path),
       In e fns ->
       In toks (PathsWhole.fn_sig_types e) ->
       In p (EmitPaths.type_paths toks) -> PathsWhole.path_ok mods files p).
Proof. exact PathsWhole.C13_impl_fn_paths. Qed.
Print Assumptions C13_emitted_impl_fns_resolve.

Theorem C13_emitted_extern_values_resolve :
  forall (order : schedule) (ptr : N) (mods : list (path * gmodule)) (st0 st : sstate),
    WholeBuild.input_state ptr mods = Ok st0 ->
    NoDup (map fst mods) ->
    WholeBuild.collision_free (st_reg st0) ->
    EmitFinal.keeps_work order ->
    pyxis_resolve order ptr mods = BOk st ->
    forall files : list (string * Sexp.sexp),
    Emit.write_all st = Ok files ->
    forall (name : string) (f : Sexp.sexp),
    In (name, f) files ->
    exists (k : path) (m : smodule),
      In (k, m) (st_modules st) /\
      name = Emit.out_path k /\
      (forall ev : sextern,
       In ev (m_extern_values m) ->
       exists (items : list Sexp.sexp) (e : Sexp.sexp) (t : stype),
         EmitReaders.file_items f = Some items /\
         In e items /\
         ev_type ev = Some t /\
         EmitFnShape.extern_shape ev t e /\
         (forall (toks : list Sexp.sexp) (p : path),
          EmitFnShape.fn_ret_static_mut e = Some toks \/
          (exists a : N, EmitFnShape.fn_extern_target e = Some (a, toks)) ->
          In p (EmitPaths.type_paths toks) -> PathsWhole.path_ok mods files p)).
Proof. exact PathsWhole.C13_written_extern_value_paths. Qed.
Print Assumptions C13_emitted_extern_values_resolve.

Theorem C13_default_closed_in_the_final_registry :
  forall (order : schedule) (ptr : N) (mods : list (path * gmodule)) (st0 st : sstate),
    WholeBuild.input_state ptr mods = Ok st0 ->
    WholeBuild.collision_free (st_reg st0) ->
    pyxis_resolve order ptr mods = BOk st ->
    DefaultClosed.gen_nondefault (st_reg st0) (st_reg st) /\
    (forall (p : path) (it : item) (rs : resolved) (td : type_def),
     reg_get (st_reg st) p = Some it ->
     item_resolved it = Some rs ->
     rs_inner rs = IType td ->
     td_defaultable td = true -> Forall (DefaultClosed.dflt_region (st_reg st)) (td_regions td)).
Proof. exact DefaultClosed.final_default_closed. Qed.
Print Assumptions C13_default_closed_in_the_final_registry.

Theorem C13_emitted_default_fields :
  forall (order : schedule) (ptr : N) (mods : list (path * gmodule)) (st0 st : sstate)
      (files : list (string * Sexp.sexp)) (p : path) (it0 : item) (gd : gitemdef) 
      (td0 : gtypedef),
    WholeBuild.input_state ptr mods = Ok st0 ->
    NoDup (map fst mods) ->
    ~ In [] (map fst mods) ->
    WholeBuild.collision_free (st_reg st0) ->
    EmitFinal.keeps_work order ->
    pyxis_resolve order ptr mods = BOk st ->
    Emit.write_all st = Ok files ->
    reg_get (st_reg st0) p = Some it0 ->
    it_state it0 = Unresolved gd ->
    gi_inner gd = GIType td0 ->
    exists
      (parent : path) (name : string) (f : Sexp.sexp) (items : list Sexp.sexp) 
    (s : Sexp.sexp) (efs : list EmitReaders.efield),
      path_parent p = Some parent /\
      path_last p = Some name /\
      In (Emit.out_path parent, f) files /\
      EmitReaders.file_items f = Some items /\
      EmitReaders.find_struct name items = Some s /\
      EmitReaders.struct_fields s = Some efs /\
      EmitReaders.struct_derives s = Some (EmitMarkers.declared_derives (gt_attrs td0)) /\
      (In "Default"%string (EmitMarkers.declared_derives (gt_attrs td0)) <->
       EmitLemmas.has_marker "defaultable" (gt_attrs td0) = true) /\
      (In "Default"%string (EmitMarkers.declared_derives (gt_attrs td0)) ->
       Forall
         (fun ef : EmitReaders.efield =>
          (exists (t : stype) (q : path),
             EmitReaders.ef_ty ef = Emit.type_tokens t /\
             Emit.stype_ok t = true /\ defaultable_path t = Some q) /\
          EmitDefault.rust_default_ok files (EmitReaders.ef_ty ef) =
          EmitDefault.default_side (EmitReaders.ef_ty ef)) efs).
Proof. exact EmitDefault.C13_emitted_default_fields. Qed.
Print Assumptions C13_emitted_default_fields.

Theorem C13_emitted_copy_has_clone :
  forall (order : schedule) (ptr : N) (mods : list (path * gmodule)) (st0 st : sstate)
      (files : list (string * Sexp.sexp)) (p : path) (it0 : item) (gd : gitemdef),
    WholeBuild.input_state ptr mods = Ok st0 ->
    NoDup (map fst mods) ->
    WholeBuild.collision_free (st_reg st0) ->
    EmitFinal.keeps_work order ->
    pyxis_resolve order ptr mods = BOk st ->
    Emit.write_all st = Ok files ->
    reg_get (st_reg st0) p = Some it0 ->
    it_state it0 = Unresolved gd ->
    path_parent p <> Some [] ->
    exists
      (parent : path) (name : string) (f : Sexp.sexp) (items : list Sexp.sexp) 
    (e : Sexp.sexp) (l : list string),
      path_parent p = Some parent /\
      path_last p = Some name /\
      In (Emit.out_path parent, f) files /\
      EmitReaders.file_items f = Some items /\
      match gi_inner gd with
      | GIType td0 =>
          EmitReaders.find_struct name items = Some e /\
          EmitReaders.struct_derives e = Some l /\
          (In "Copy"%string l <-> EmitLemmas.has_marker "copyable" (gt_attrs td0) = true)
      | GIEnum ed0 =>
          EmitMarkersEnum.find_enum name items = Some e /\
          EmitReaders.enum_derives e = Some l /\
          (In "Copy"%string l <-> EmitLemmas.has_marker "copyable" (ged_attrs ed0) = true)
      end /\ (In "Copy"%string l -> In "Clone"%string l).
Proof. exact EmitDefault.C13_emitted_copy_has_clone. Qed.
Print Assumptions C13_emitted_copy_has_clone.

Theorem C13_defaultable_own_vftable_not_accepted :
  forall (order : schedule) (ptr : N) (mods : list (path * gmodule)) (st0 st : sstate) 
      (p : path) (it0 : item) (gd : gitemdef) (td0 : gtypedef) (it : item) (r : resolved)
      (td : type_def) (s : gstatement) (rest : list gstatement) (gfs : list gfunction),
    WholeBuild.input_state ptr mods = Ok st0 ->
    WholeBuild.collision_free (st_reg st0) ->
    pyxis_resolve order ptr mods = BOk st ->
    reg_get (st_reg st0) p = Some it0 ->
    it_state it0 = Unresolved gd ->
    gi_inner gd = GIType td0 ->
    reg_get (st_reg st) p = Some it ->
    it_state it = Resolved r ->
    rs_inner r = IType td ->
    gt_stmts td0 = s :: rest ->
    gs_field s = GVftable gfs ->
    (forall (fb : region) (bp : path) (itb : item) (rsb : resolved) (tdb : type_def),
     find r_is_base (td_regions td) = Some fb ->
     r_type fb = TRaw bp ->
     reg_get (st_reg st) bp = Some itb ->
     item_resolved itb = Some rsb -> rs_inner rsb = IType tdb -> td_vftable tdb = None) ->
    EmitLemmas.has_marker "defaultable" (gt_attrs td0) = true -> False.
Proof. exact EmitDefault.C13_defaultable_own_vftable_not_accepted. Qed.
Print Assumptions C13_defaultable_own_vftable_not_accepted.

Theorem C13_default_padding_refuted :
  EmitShapeExamples.bindo (EmitDefaultExamples.m_struct EmitDefaultExamples.gap_files "Gap")
      EmitReaders.struct_derives = Some ["Default"%string] /\
    option_map (map (fun ef : EmitReaders.efield => (EmitReaders.ef_name ef, EmitReaders.ef_ty ef)))
      (EmitShapeExamples.bindo (EmitDefaultExamples.m_struct EmitDefaultExamples.gap_files "Gap")
         EmitReaders.struct_fields) =
    Some
      [("a"%string, Emit.type_tokens (TRaw ["u8"%string]));
       ("_field_1"%string, Emit.type_tokens (TArray (TRaw ["u8"%string]) 33));
       ("b"%string, Emit.type_tokens (TRaw ["u8"%string]));
       ("_field_23"%string, Emit.type_tokens (TArray (TRaw ["u8"%string]) 1))] /\
    EmitDefaultExamples.field_verdicts EmitDefaultExamples.gap_files "Gap" =
    Some
      [("a"%string, true, true); ("_field_1"%string, false, false); ("b"%string, true, true);
       ("_field_23"%string, true, true)] /\
    option_map (EmitDefault.struct_default_ok EmitDefaultExamples.gap_files)
      (EmitDefaultExamples.m_struct EmitDefaultExamples.gap_files "Gap") = Some false.
Proof. exact EmitDefaultExamples.C13_default_padding_refuted. Qed.
Print Assumptions C13_default_padding_refuted.

Theorem C13_default_void_refuted :
  EmitShapeExamples.bindo (EmitDefaultExamples.m_struct EmitDefaultExamples.vd_files "V")
      EmitReaders.struct_derives = Some ["Default"%string] /\
    option_map (map (fun ef : EmitReaders.efield => (EmitReaders.ef_name ef, EmitReaders.ef_ty ef)))
      (EmitShapeExamples.bindo (EmitDefaultExamples.m_struct EmitDefaultExamples.vd_files "V")
         EmitReaders.struct_fields) =
    Some
      [("a"%string, Emit.type_tokens (TRaw ["u32"%string]));
       ("v"%string, Emit.type_tokens (TRaw ["void"%string]))] /\
    EmitDefaultExamples.field_verdicts EmitDefaultExamples.vd_files "V" =
    Some [("a"%string, true, true); ("v"%string, false, false)] /\
    option_map (EmitDefault.struct_default_ok EmitDefaultExamples.vd_files)
      (EmitDefaultExamples.m_struct EmitDefaultExamples.vd_files "V") = Some false.
Proof. exact EmitDefaultExamples.C13_default_void_refuted. Qed.
Print Assumptions C13_default_void_refuted.

Theorem C13_copy_refuted :
  EmitShapeExamples.bindo (EmitDefaultExamples.m_struct EmitDefaultExamples.cp_files "K")
      EmitReaders.struct_derives = Some ["Copy"%string; "Clone"%string] /\
    option_map
      (map
         (fun ef : EmitReaders.efield =>
          (EmitReaders.ef_name ef, EmitPaths.type_paths (EmitReaders.ef_ty ef))))
      (EmitShapeExamples.bindo (EmitDefaultExamples.m_struct EmitDefaultExamples.cp_files "K")
         EmitReaders.struct_fields) = Some [("c"%string, [["m"%string; "C"%string]])] /\
    EmitShapeExamples.bindo (EmitDefaultExamples.m_struct EmitDefaultExamples.cp_files "C")
      EmitReaders.struct_derives = Some ["Clone"%string].
Proof. exact EmitDefaultExamples.C13_copy_refuted. Qed.
Print Assumptions C13_copy_refuted.

Theorem C13_enum_without_variants_refuted_F12a :
  exists (st0 st : sstate) (files : RefutedInputs.files_t),
      RefutedInputs.built [] 4 RefutedInputs.f12a_mods st0 st files /\
      RefutedInputs.side_ok st0 = true /\
      option_map ed_fields (RefutedInputs.enumdef_at st ["a"%string; "E"%string]) = Some [] /\
      RefutedInputs.size_at st ["a"%string; "E"%string] = Some 1%N /\
      RefutedInputs.thenr (RefutedInputs.enum_of files "a.rs" "E") EmitReaders.enum_repr =
      Some [Sexp.Atom "u8"] /\
      RefutedInputs.thenr (RefutedInputs.enum_of files "a.rs" "E") EmitReaders.enum_variants_of =
      Some [].
Proof. exact RefutedWitnessesEmit.C08_C13_enum_without_variants_refuted_F12a. Qed.
Print Assumptions C13_enum_without_variants_refuted_F12a.

Theorem C13_enum_struct_base_refuted_F12b :
  exists (st0 st : sstate) (files : RefutedInputs.files_t),
      RefutedInputs.built [] 4 RefutedInputs.f12b_mods st0 st files /\
      RefutedInputs.side_ok st0 = true /\
      option_map ed_type (RefutedInputs.enumdef_at st ["a"%string; "E"%string]) =
      Some (TRaw ["a"%string; "S"%string]) /\
      RefutedInputs.typedef_at st ["a"%string; "S"%string] <> None /\
      option_map it_cat (reg_get (st_reg st) ["a"%string; "S"%string]) = Some Defined /\
      RefutedInputs.thenr (RefutedInputs.enum_of files "a.rs" "E") EmitReaders.enum_repr =
      Some
        (Emit.tks
           ["crate"%string; ":"%string; ":"%string; "a"%string; ":"%string; ":"%string; "S"%string]) /\
      option_map EmitPaths.type_paths
        (RefutedInputs.thenr (RefutedInputs.enum_of files "a.rs" "E") EmitReaders.enum_repr) =
      Some [["a"%string; "S"%string]] /\
      option_map FilesRead.file_decls (RefutedInputs.file_named files "a.rs") =
      Some [("enum"%string, "E"%string); ("struct"%string, "S"%string)].
Proof. exact RefutedWitnessesEmit.C08_C13_enum_struct_base_refuted_F12b. Qed.
Print Assumptions C13_enum_struct_base_refuted_F12b.

Theorem C13_enum_duplicate_discriminant_refuted_F12c :
  exists (st0 st : sstate) (files : RefutedInputs.files_t) (vs : list EmitReaders.evariant),
      RefutedInputs.built [] 4 RefutedInputs.f12c_mods st0 st files /\
      RefutedInputs.side_ok st0 = true /\
      option_map ed_fields (RefutedInputs.enumdef_at st ["a"%string; "E"%string]) =
      Some [("A"%string, 1%Z); ("B"%string, 1%Z)] /\
      RefutedInputs.thenr (RefutedInputs.enum_of files "a.rs" "E") EmitReaders.enum_variants_of =
      Some vs /\
      map (fun v : EmitReaders.evariant => (EmitReaders.evr_name v, EmitReaders.evr_disc v)) vs =
      [("A"%string, 1%Z); ("B"%string, 1%Z)] /\ ~ NoDup (map EmitReaders.evr_disc vs).
Proof. exact RefutedWitnessesEmit.C08_C13_enum_duplicate_discriminant_refuted_F12c. Qed.
Print Assumptions C13_enum_duplicate_discriminant_refuted_F12c.

Theorem C13_packed_embeds_aligned_refuted_F13 :
  exists (st0 st : sstate) (files : RefutedInputs.files_t),
      RefutedInputs.built [] 4 RefutedInputs.f13_mods st0 st files /\
      RefutedInputs.side_ok st0 = true /\
      (RefutedInputs.size_at st ["a"%string; "P"%string],
       RefutedInputs.align_at st ["a"%string; "P"%string],
       RefutedInputs.align_at st ["a"%string; "I"%string]) = (Some 5%N, Some 1%N, Some 4%N) /\
      RefutedInputs.thenr (RefutedInputs.struct_of files "a.rs" "P") EmitReaders.struct_repr =
      Some EmitReaders.ReprPacked /\
      option_map
        (map
           (fun ef : EmitReaders.efield =>
            (EmitReaders.ef_name ef, EmitPaths.type_paths (EmitReaders.ef_ty ef))))
        (RefutedInputs.thenr (RefutedInputs.struct_of files "a.rs" "P") EmitReaders.struct_fields) =
      Some [("x"%string, [["u8"%string]]); ("i"%string, [["a"%string; "I"%string]])] /\
      RefutedInputs.thenr (RefutedInputs.struct_of files "a.rs" "I") EmitReaders.struct_repr =
      Some (EmitReaders.ReprAlign 4).
Proof. exact RefutedWitnessesEmit.C13_packed_embeds_aligned_refuted_F13. Qed.
Print Assumptions C13_packed_embeds_aligned_refuted_F13.

Theorem C13_two_fields_named_vftable_refuted_F14 :
  exists
      (st0 st : sstate) (files : RefutedInputs.files_t) (fs : list (vis * string * list Sexp.sexp)),
      RefutedInputs.built [] 4 RefutedInputs.f14_mods st0 st files /\
      RefutedInputs.side_ok st0 = true /\
      option_map (map (fun r : region => (r_name r, r_type r)))
        (RefutedInputs.regions_at st ["a"%string; "D"%string]) =
      Some
        [(Some "vftable"%string, TConstPtr (TRaw ["a"%string; "DVftable"%string]));
         (Some "vftable"%string, TRaw ["u32"%string])] /\
      option_map
        (map
           (fun ef : EmitReaders.efield =>
            (EmitReaders.ef_vis ef, EmitReaders.ef_name ef, EmitReaders.ef_ty ef)))
        (RefutedInputs.thenr (RefutedInputs.struct_of files "a.rs" "D") EmitReaders.struct_fields) =
      Some fs /\
      map (fun x : vis * string * list Sexp.sexp => snd (fst x)) fs =
      ["vftable"%string; "vftable"%string] /\
      ~ NoDup (map (fun x : vis * string * list Sexp.sexp => snd (fst x)) fs).
Proof. exact RefutedWitnessesEmit.C13_two_fields_named_vftable_refuted_F14. Qed.
Print Assumptions C13_two_fields_named_vftable_refuted_F14.

Theorem C13_inherited_rename_collides_refuted_F24 :
  exists
      (st0 st : sstate) (files : RefutedInputs.files_t) (fns : list
                                                                 (option string * option vis *
                                                                  option (list EmitFnReaders.eparam) *
                                                                  option EmitFnReaders.ebody *
                                                                  option bool)),
      RefutedInputs.built [] 4 RefutedInputs.f24_mods st0 st files /\
      RefutedInputs.side_ok st0 = true /\
      option_map (fun td : type_def => map (fun f : sfunction => (sf_name f, sf_body f)) (td_assoc td))
        (RefutedInputs.typedef_at st ["a"%string; "D"%string]) =
      Some
        [("f"%string, BField "x" "f"); ("b_f"%string, BField "x" "b_f"); ("b_f"%string, BField "b" "f")] /\
      option_map (map RefutedWitnessesFn.fn_view) (RefutedInputs.impl_fns files "a.rs" "D") = Some fns /\
      map
        (fun
           v : option string * option vis * option (list EmitFnReaders.eparam) *
               option EmitFnReaders.ebody * option bool => (fst (fst (fst (fst v))), snd (fst v))) fns =
      [(Some "f"%string, Some (EmitFnReaders.EBField "x" "f" []));
       (Some "b_f"%string, Some (EmitFnReaders.EBField "x" "b_f" []));
       (Some "b_f"%string, Some (EmitFnReaders.EBField "b" "f" []))] /\
      ~
      NoDup
        (map
           (fun
              v : option string * option vis * option (list EmitFnReaders.eparam) *
                  option EmitFnReaders.ebody * option bool => fst (fst (fst (fst v)))) fns).
Proof. exact RefutedWitnessesFn.C07_C13_inherited_rename_collides_refuted_F24. Qed.
Print Assumptions C13_inherited_rename_collides_refuted_F24.

Theorem C13_receiverless_forward_refuted_F10 :
  exists
      (st0 st : sstate) (files : RefutedInputs.files_t) (f : Sexp.sexp) (params : 
                                                                         list EmitFnReaders.eparam) 
    (body : list Sexp.sexp),
      RefutedInputs.built [] 4 RefutedInputs.f10_mods st0 st files /\
      RefutedInputs.side_ok st0 = true /\
      RefutedInputs.impl_fns files "a.rs" "D" = Some [f] /\
      EmitFnReaders.fn_name f = Some "create"%string /\
      EmitFnReaders.fn_params f = Some params /\
      EmitFnReaders.fn_body f = Some body /\
      RefutedInputs.has_receiver params = false /\
      EmitFnReaders.fn_wrapper_body f =
      Some (EmitFnReaders.EBField "b" "create" [EmitFnReaders.CAName "x"]) /\
      In (Sexp.Atom "self") body /\ RefutedInputs.tokens_mention "self" body = true.
Proof. exact RefutedWitnessesFn.C07_C13_receiverless_forward_refuted_F10. Qed.
Print Assumptions C13_receiverless_forward_refuted_F10.

Theorem C13_receiverless_virtual_refuted_F21 :
  exists
      (st0 st : sstate) (files : RefutedInputs.files_t) (acc f : Sexp.sexp) 
    (params : list EmitFnReaders.eparam) (body : list Sexp.sexp),
      RefutedInputs.built [] 4 RefutedInputs.f21_mods st0 st files /\
      RefutedInputs.side_ok st0 = true /\
      RefutedInputs.impl_fns files "a.rs" "T" = Some [acc; f] /\
      EmitFnReaders.fn_name f = Some "f"%string /\
      EmitFnReaders.fn_params f = Some params /\
      EmitFnReaders.fn_body f = Some body /\
      RefutedInputs.has_receiver params = false /\
      EmitFnReaders.fn_wrapper_body f = Some (EmitFnReaders.EBVftable "f" [EmitFnReaders.CAName "a"]) /\
      RefutedInputs.tokens_mention "self" body = true.
Proof. exact RefutedWitnessesFn.C13_receiverless_virtual_refuted_F21. Qed.
Print Assumptions C13_receiverless_virtual_refuted_F21.

Theorem C13_private_slot_read_across_modules_refuted_F19 :
  exists (st0 st : sstate) (files : RefutedInputs.files_t),
      RefutedInputs.built [] 4 RefutedInputs.f19_mods st0 st files /\
      RefutedInputs.side_ok st0 = true /\
      map fst files = ["m/base.rs"%string; "m/derived.rs"%string] /\
      option_map FilesRead.file_decls (RefutedInputs.file_named files "m/derived.rs") =
      Some [("struct"%string, "Derived"%string)] /\
      option_map (map RefutedWitnessesFn.fn_view)
        (RefutedInputs.impl_fns files "m/derived.rs" "Derived") =
      Some
        [(Some "vftable"%string, Some Public, Some [EmitFnReaders.EPSelf], None, Some true);
         (Some "hidden"%string, Some Private, Some [EmitFnReaders.EPSelf],
          Some (EmitFnReaders.EBVftable "hidden" [EmitFnReaders.CASelfConst]), 
          Some true);
         (Some "shown"%string, Some Public, Some [EmitFnReaders.EPSelf],
          Some (EmitFnReaders.EBVftable "shown" [EmitFnReaders.CASelfConst]), 
          Some true)] /\
      option_map
        (map
           (fun f : Sexp.sexp =>
            (EmitFnReaders.fn_name f, option_map EmitPaths.type_paths (EmitFnReaders.fn_ret f))))
        (RefutedInputs.impl_fns files "m/derived.rs" "Derived") =
      Some
        [(Some "vftable"%string, Some [["m"%string; "base"%string; "BaseVftable"%string]]);
         (Some "hidden"%string, Some []); (Some "shown"%string, Some [])] /\
      RefutedInputs.thenr (RefutedInputs.struct_of files "m/base.rs" "BaseVftable")
        EmitReaders.struct_vis = Some Public /\
      option_map (map (fun ef : EmitReaders.efield => (EmitReaders.ef_vis ef, EmitReaders.ef_name ef)))
        (RefutedInputs.thenr (RefutedInputs.struct_of files "m/base.rs" "BaseVftable")
           EmitReaders.struct_fields) = Some [(Private, "hidden"%string); (Public, "shown"%string)].
Proof. exact RefutedWitnessesFn.C13_private_slot_read_across_modules_refuted_F19. Qed.
Print Assumptions C13_private_slot_read_across_modules_refuted_F19.
