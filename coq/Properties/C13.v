(** * C13 — the emitted files form a Rust crate that type-checks.

    What is PROVED on the model (the parts of "type-checks" that are pyxis's own obligations):
    - paths resolve: every path occurring in a resolved field / parameter / return / extern-value
      type is an entry of the registry, i.e. a built-in, a declared extern type, a declared item or
      a generated vftable struct ([C13_paths_resolve]);
    - the size checks hold: the transmute in [_<T>_size_check] is between [[u8; S]] and a struct
      whose Reference layout has size S ([C13_size_check], from C02);
    - Default is satisfiable: a defaultable type only has fields whose types bottom out, through
      arrays, in items that are themselves defaultable ([C13_default_satisfiable]);
    - the struct's alignment attribute is one rustc accepts: a power of two ([C13_align_accepted]).
    What is NOT proved: that rustc accepts the crate as a whole.  That is decided on every run by the
    type-check ORACLE (rustc itself, on the implementation's emitted files) -- the monitor of this
    property -- and the classes in which it fails on the unchanged tree are the listed known findings
    (F9, F10, F12, F13, F14, F17, F19).  The claim is therefore partial by construction: theorem names
    say which clause they cover. *)
From Coq Require Import List NArith ZArith Bool String.
From PyxisModel Require Import Base Grammar SemTypes Registry Sem SemLemmas RustLayout LayoutLemmas ScopeLemmas.
Import ListNotations.

Theorem C13_paths_resolve_partial : forall R scope, reg_has R ["u8"%string] = true -> forall t t',
  resolve_gtype R scope t = Some t' -> Forall (fun p => reg_has R p = true) (stype_paths t').
Proof. exact resolve_gtype_paths. Qed.
Print Assumptions C13_paths_resolve_partial.

Theorem C13_size_check_partial : forall st p v d st' rs,
  type_build st p v d = (st', Ok rs) ->
  exists td, rs_inner rs = IType td /\
    let fs := map (region_sa (st_reg st')) (td_regions td) in
    (td_packed td = false -> snd (fst (struct_layout (rs_align rs) fs)) = rs_size rs) /\
    (td_packed td = true -> snd (fst (packed_layout fs)) = rs_size rs).
Proof.
  intros st p v d st' rs H.
  destruct (type_build_layout _ _ _ _ _ _ H) as (td & Hi & _ & _ & Hnp & Hp).
  exists td. split; [exact Hi|]. cbn zeta. split; intros E.
  - destruct (Hnp E) as (-> & _). reflexivity.
  - destruct (Hp E) as (_ & ->). reflexivity.
Qed.
Print Assumptions C13_size_check_partial.

Theorem C13_align_accepted_partial : forall st p v d st' rs,
  type_build st p v d = (st', Ok rs) ->
  exists td, rs_inner rs = IType td /\ (td_packed td = false -> is_power_of_two (rs_align rs) = true).
Proof.
  intros st p v d st' rs H.
  destruct (type_build_layout _ _ _ _ _ _ H) as (td & Hi & _ & _ & Hnp & _).
  exists td. split; [exact Hi|]. intros E. apply (Hnp E).
Qed.
Print Assumptions C13_align_accepted_partial.

Theorem C13_default_satisfiable_partial : forall R r,
  check_defaultable R r = Ok tt ->
  exists p it, defaultable_path (r_type r) = Some p /\ reg_get R p = Some it /\
    match item_resolved it with
    | Some rs => inner_defaultable (rs_inner rs) = true
    | None => True
    end.
Proof.
  unfold check_defaultable. intros R r H.
  destruct (defaultable_path (r_type r)) as [p|]; [|discriminate].
  destruct (reg_get R p) as [it|] eqn:Eg; [|discriminate].
  exists p, it. split; [reflexivity|]. split; [exact Eg|].
  destruct (item_resolved it) as [rs|]; [|exact I].
  destruct (inner_defaultable (rs_inner rs)); [reflexivity | discriminate].
Qed.
Print Assumptions C13_default_satisfiable_partial.

(** ** on the emitted text *)
From PyxisModel Require Emit WholeBuild EmitReaders EmitShape EmitFinal EmitLayout EmitVftLayout.

(** the emitted size check of a declared struct compares equal sizes: the literal it transmutes from is the
    size the Reference algorithm computes for the emitted struct itself *)
Theorem C13_emitted_size_check_holds : forall order ptr mods st0 st files p it0 gd td0,
  WholeBuild.input_state ptr mods = Ok st0 -> NoDup (map fst mods) -> WholeBuild.collision_free (st_reg st0) ->
  EmitFinal.keeps_work order ->
  pyxis_resolve order ptr mods = BOk st -> Emit.write_all st = Ok files ->
  reg_get (st_reg st0) p = Some it0 -> it_state it0 = Unresolved gd -> gi_inner gd = GIType td0 ->
  path_parent p <> Some [] ->
  exists parent name f items s checks td noffs sz al,
    path_parent p = Some parent /\ path_last p = Some name /\
    In (Emit.out_path parent, f) files /\ EmitReaders.file_items f = Some items /\
    EmitReaders.find_struct name items = Some s /\
    (exists pre rest post, items = pre ++ (s :: checks ++ rest) ++ post) /\
    EmitShape.size_check_shape name sz checks /\
    EmitLayout.emitted_struct_layout (map (EmitLayout.type_sa (st_reg st)) (map r_type (td_regions td))) s = Some (noffs, sz, al).
Proof.
  intros order ptr mods st0 st files p it0 gd td0 H1 H2 H3 H4 H5 H6 H7 H8 H9 H10.
  destruct (EmitLayout.emitted_struct_whole_build order ptr mods st0 st files p it0 gd td0 H1 H2 H3 H4 H5 H6 H7 H8 H9 H10)
    as (parent & name & it & r & td & f & pre & s & checks & rest & post & efs & noffs & Hpar & Hlast & _ & _ & _ & Hin & Hitems & Hfind & _ & Hsc & _ & Hlay).
  cbn zeta in Hlay. destruct Hlay as (_ & _ & Hl & _).
  exists parent, name, f, (pre ++ (s :: checks ++ rest) ++ post), s, checks, td, noffs, (rs_size r), (rs_align r).
  repeat split; eauto.
Qed.
Print Assumptions C13_emitted_size_check_holds.
