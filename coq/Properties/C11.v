(** * C11 — type names bind to the definition the scoping rules select.

    [lookup_spec] is the property's precedence list, written over a membership test for item paths
    and the module's [use] list.  Proved: the model's [resolve_string] (a partition / reverse / find /
    chain pipeline mirroring type_registry.rs) computes exactly [lookup_spec], for every registry, every
    module path that is not itself an item path, every use list and every name; the result is always an
    entry of the registry; the emitted reference is [crate::] + that path (bare for root-level
    built-ins), and the size/alignment used for layout are read from exactly that entry.

    FOR THE WHOLE BUILD (BindingWhole.v, BindingEmit.v), collision-free clean input, any schedule:
    - [C11_binding_stable_whole_build] / [C11_attempt_binding_is_final]: a clean name resolves, in
      every registry the build passes through and in the final one, to what it resolves to in the
      INPUT registry -- [lookup_spec] over the input's definitions alone; what a name was bound to
      when its user was attempted is what the rules select at the end
      ([C11_ext_alone_does_not_fix_a_binding]: the weaker [ext] relation would not suffice);
    - [C11_field_whole_build] / [C11_field_of_named_type]: every declared field's region carries the
      type obtained by binding its names with the rules, and the size and alignment the layout uses
      are those of exactly the selected entry in the final registry;
    - [C11_impl_functions_whole_build], [C11_vftable_functions_whole_build],
      [C11_enum_base_whole_build], [C11_extern_values_whole_build]: the same for parameters, return
      types, enum base types and extern values;
    - [C11_emitted_field], [C11_emitted_impl_functions], [C11_emitted_extern_values]: the emitted
      struct field / wrapper / accessor carries [type_tokens] of that type, i.e. [crate::<path of
      the selected definition>].
    The [lookup_spec] forms carry the premise that the module's path is not itself an item path;
    names ending in "Vftable" are outside ([clean]: pyxis is order dependent there, F4b/F7b). *)
From Coq Require Import List NArith Bool String.
From PyxisModel Require Import Base Sexp Grammar SemTypes Registry Sem Emit ScopeLemmas.
Import ListNotations.

From PyxisModel Require BindingWhole BindingEmit.

Theorem C11_main : forall R modpath uses name,
  reg_has R modpath = false ->
  resolve_string R (modpath :: uses) name =
  option_map TRaw (lookup_spec (reg_has R) modpath uses name).
Proof. exact resolve_string_spec. Qed.
Print Assumptions C11_main.

Theorem C11_binds_to_an_entry : forall R scope name p,
  resolve_string R scope name = Some (TRaw p) -> reg_has R p = true.
Proof. exact resolve_string_has. Qed.
Print Assumptions C11_binds_to_an_entry.

(** the layout numbers are those of that very entry *)
Theorem C11_layout_of_that_entry : forall R p it,
  reg_get R p = Some it ->
  size_of R (TRaw p) = item_size it /\ align_of R (TRaw p) = item_align it.
Proof. intros R p it H. cbn. rewrite H. auto. Qed.
Print Assumptions C11_layout_of_that_entry.

(** the emitted reference: fully qualified from the crate root for every item below a module *)
Theorem C11_emitted_reference : forall m rest name,
  raw_tokens (m :: rest ++ [name]) =
  Atom "crate"%string :: Atom ":"%string :: Atom ":"%string :: path_tokens (m :: rest ++ [name]).
Proof.
  intros m rest name. unfold raw_tokens.
  assert (is_void (m :: rest ++ [name]) = false) as ->.
  { destruct rest; reflexivity. }
  destruct rest; reflexivity.
Qed.
Print Assumptions C11_emitted_reference.

(** the precedence list in action: T is defined in the module itself, in an imported module, and
    imported by name from a third one; the by-name import wins; without it the local one; built-ins
    beat local definitions *)
Local Open Scope string_scope.
Definition has_ex (p : path) : bool :=
  path_mem p [["u32"]; ["m"; "T"]; ["a"; "T"]; ["b"; "T"]; ["m"; "u32"]].
Example C11_example :
  lookup_spec has_ex ["m"] [["a"]; ["b"; "T"]; ["a"; "T"]] "T" = Some ["a"; "T"] /\
  lookup_spec has_ex ["m"] [["a"]; ["b"; "T"]] "T" = Some ["b"; "T"] /\
  lookup_spec has_ex ["m"] [["a"]] "T" = Some ["m"; "T"] /\
  lookup_spec has_ex ["z"] [["b"]; ["a"]] "T" = Some ["b"; "T"] /\
  lookup_spec has_ex ["m"] [] "u32" = Some ["u32"] /\
  lookup_spec has_ex ["z"] [["c"]] "T" = None.
Proof. vm_compute. repeat split. Qed.

Theorem C11_binding_stable_whole_build :
  forall (order : schedule) (ptr : N) (mods : list (path * gmodule)) (st0 st : sstate) 
      (k : path) (m : smodule) (n : string),
    WholeBuild.input_state ptr mods = Ok st0 ->
    WholeBuild.collision_free (st_reg st0) ->
    OrderIndep.clean_stateb st0 = true ->
    pyxis_resolve order ptr mods = BOk st ->
    alookup k (st_modules st0) = Some m ->
    Monotone.ends_vft n = false ->
    let R0 := st_reg st0 in
    forall R_mid : registry,
    Monotone.reach R0 R_mid ->
    resolve_string R_mid (module_scope m) n = resolve_string R0 (module_scope m) n /\
    resolve_string (st_reg st) (module_scope m) n = resolve_string R0 (module_scope m) n /\
    (reg_has R0 (m_path m) = false ->
     resolve_string R_mid (module_scope m) n =
     option_map TRaw (lookup_spec (reg_has R0) (m_path m) (gm_uses (m_ast m)) n) /\
     resolve_string (st_reg st) (module_scope m) n =
     option_map TRaw (lookup_spec (reg_has R0) (m_path m) (gm_uses (m_ast m)) n) /\
     lookup_spec (reg_has (st_reg st)) (m_path m) (gm_uses (m_ast m)) n =
     lookup_spec (reg_has R0) (m_path m) (gm_uses (m_ast m)) n).
Proof. exact BindingWhole.C11_binding_stable_whole_build. Qed.
Print Assumptions C11_binding_stable_whole_build.

Theorem C11_attempt_binding_is_final :
  forall (order : schedule) (ptr : N) (mods : list (path * gmodule)) (st0 st : sstate) 
      (p : path) (it0 : item) (gd : gitemdef) (it : item) (r : resolved),
    WholeBuild.input_state ptr mods = Ok st0 ->
    WholeBuild.collision_free (st_reg st0) ->
    OrderIndep.clean_stateb st0 = true ->
    pyxis_resolve order ptr mods = BOk st ->
    reg_get (st_reg st0) p = Some it0 ->
    it_state it0 = Unresolved gd ->
    reg_get (st_reg st) p = Some it ->
    it_state it = Resolved r ->
    let R0 := st_reg st0 in
    exists st_mid st_mid' : sstate,
      attempt st_mid p gd = (st_mid', Ok r) /\
      WholeBuild.ext R0 R0 (st_reg st_mid) /\
      WholeBuild.ext R0 (st_reg st_mid) (st_reg st_mid') /\
      WholeBuild.ext R0 (st_reg st_mid') (st_reg st) /\
      (forall (k : path) (m : smodule) (n : string) (t : stype),
       alookup k (st_modules st0) = Some m ->
       Monotone.ends_vft n = false ->
       resolve_string (st_reg st_mid) (module_scope m) n = Some t \/
       resolve_string (st_reg st_mid') (module_scope m) n = Some t ->
       resolve_string (st_reg st) (module_scope m) n = Some t /\
       resolve_string R0 (module_scope m) n = Some t).
Proof. exact BindingWhole.C11_attempt_binding_is_final. Qed.
Print Assumptions C11_attempt_binding_is_final.

Theorem C11_field_whole_build :
  forall (order : schedule) (ptr : N) (mods : list (path * gmodule)) (st0 st : sstate) 
      (p : path) (it0 : item) (gd : gitemdef) (td0 : gtypedef) (it : item) (r : resolved)
      (parent : path) (m0 : smodule) (s : gstatement) (v : vis) (name : string) 
      (t : gtype),
    WholeBuild.input_state ptr mods = Ok st0 ->
    WholeBuild.collision_free (st_reg st0) ->
    OrderIndep.clean_stateb st0 = true ->
    pyxis_resolve order ptr mods = BOk st ->
    reg_get (st_reg st0) p = Some it0 ->
    it_state it0 = Unresolved gd ->
    gi_inner gd = GIType td0 ->
    reg_get (st_reg st) p = Some it ->
    it_state it = Resolved r ->
    path_parent p = Some parent ->
    alookup parent (st_modules st0) = Some m0 ->
    In s (gt_stmts td0) ->
    gs_field s = GField v name t ->
    let R0 := st_reg st0 in
    let R := st_reg st in
    let scope := module_scope m0 in
    exists (td : type_def) (ty : stype) (sz al : N),
      rs_inner r = IType td /\
      resolve_gtype R0 scope t = Some ty /\
      resolve_gtype R scope t = Some ty /\
      (reg_has R0 (m_path m0) = false ->
       BindingWhole.bind_gtype (lookup_spec (reg_has R0) (m_path m0) (gm_uses (m_ast m0))) t = Some ty) /\
      size_of R ty = Some sz /\
      align_of R ty = Some al /\
      (name <> "_"%string ->
       (sz =? 0)%N && stype_is_array ty = false ->
       exists (off : N) (rg : region),
         In (off, rg)
           (combine
              (PlacementLemmas.field_offsets (td_packed td) (rs_align r)
                 (map (SemLemmas.region_sa R) (td_regions td))) (td_regions td)) /\
         r_name rg = Some name /\ r_type rg = ty /\ r_vis rg = v /\ SemLemmas.region_sa R rg = (sz, al)).
Proof. exact BindingWhole.C11_field_whole_build. Qed.
Print Assumptions C11_field_whole_build.

Theorem C11_field_of_named_type :
  forall (order : schedule) (ptr : N) (mods : list (path * gmodule)) (st0 st : sstate) 
      (p : path) (it0 : item) (gd : gitemdef) (td0 : gtypedef) (it : item) (r : resolved)
      (parent : path) (m0 : smodule) (s : gstatement) (v : vis) (name tn : string),
    WholeBuild.input_state ptr mods = Ok st0 ->
    WholeBuild.collision_free (st_reg st0) ->
    OrderIndep.clean_stateb st0 = true ->
    pyxis_resolve order ptr mods = BOk st ->
    reg_get (st_reg st0) p = Some it0 ->
    it_state it0 = Unresolved gd ->
    gi_inner gd = GIType td0 ->
    reg_get (st_reg st) p = Some it ->
    it_state it = Resolved r ->
    path_parent p = Some parent ->
    alookup parent (st_modules st0) = Some m0 ->
    In s (gt_stmts td0) ->
    gs_field s = GField v name (GIdent tn) ->
    reg_has (st_reg st0) (m_path m0) = false ->
    let R0 := st_reg st0 in
    let R := st_reg st in
    exists (td : type_def) (q : path) (itq : item) (rsq : resolved),
      rs_inner r = IType td /\
      lookup_spec (reg_has R0) (m_path m0) (gm_uses (m_ast m0)) tn = Some q /\
      lookup_spec (reg_has R) (m_path m0) (gm_uses (m_ast m0)) tn = Some q /\
      reg_get R0 q <> None /\
      resolve_string R (module_scope m0) tn = Some (TRaw q) /\
      reg_get R q = Some itq /\
      item_resolved itq = Some rsq /\
      size_of R (TRaw q) = Some (rs_size rsq) /\
      align_of R (TRaw q) = Some (rs_align rsq) /\
      (name <> "_"%string ->
       exists (off : N) (rg : region),
         In (off, rg)
           (combine
              (PlacementLemmas.field_offsets (td_packed td) (rs_align r)
                 (map (SemLemmas.region_sa R) (td_regions td))) (td_regions td)) /\
         r_name rg = Some name /\
         r_type rg = TRaw q /\ r_vis rg = v /\ SemLemmas.region_sa R rg = (rs_size rsq, rs_align rsq)).
Proof. exact BindingWhole.C11_field_of_named_type. Qed.
Print Assumptions C11_field_of_named_type.

Theorem C11_impl_functions_whole_build :
  forall (order : schedule) (ptr : N) (mods : list (path * gmodule)) (st0 st : sstate) 
      (p : path) (it0 : item) (gd : gitemdef) (td0 : gtypedef) (it : item) (r : resolved)
      (parent : path) (m0 : smodule) (blk : gfnblock),
    WholeBuild.input_state ptr mods = Ok st0 ->
    WholeBuild.collision_free (st_reg st0) ->
    OrderIndep.clean_stateb st0 = true ->
    pyxis_resolve order ptr mods = BOk st ->
    reg_get (st_reg st0) p = Some it0 ->
    it_state it0 = Unresolved gd ->
    gi_inner gd = GIType td0 ->
    reg_get (st_reg st) p = Some it ->
    it_state it = Resolved r ->
    path_parent p = Some parent ->
    alookup parent (st_modules st0) = Some m0 ->
    alookup p (m_impls m0) = Some blk ->
    exists (td : type_def) (inherited own : list sfunction),
      rs_inner r = IType td /\
      td_assoc td = (inherited ++ own)%list /\
      Forall2 (BindingWhole.fn_built_bound (st_reg st0) (st_reg st) m0 false) (gb_fns blk) own.
Proof. exact BindingWhole.C11_impl_functions_whole_build. Qed.
Print Assumptions C11_impl_functions_whole_build.

Theorem C11_vftable_functions_whole_build :
  forall (order : schedule) (ptr : N) (mods : list (path * gmodule)) (st0 st : sstate) 
      (p : path) (it0 : item) (gd : gitemdef) (td0 : gtypedef) (it : item) (r : resolved)
      (parent : path) (m0 : smodule) (s : gstatement) (rest : list gstatement) 
      (gfs : list gfunction),
    WholeBuild.input_state ptr mods = Ok st0 ->
    WholeBuild.collision_free (st_reg st0) ->
    OrderIndep.clean_stateb st0 = true ->
    pyxis_resolve order ptr mods = BOk st ->
    reg_get (st_reg st0) p = Some it0 ->
    it_state it0 = Unresolved gd ->
    gi_inner gd = GIType td0 ->
    reg_get (st_reg st) p = Some it ->
    it_state it = Resolved r ->
    path_parent p = Some parent ->
    alookup parent (st_modules st0) = Some m0 ->
    gt_stmts td0 = s :: rest ->
    gs_field s = GVftable gfs ->
    exists (sz : option N) (fs : list sfunction) (td : type_def) (vt : tvftable),
      foldM scan_vftable_size_attr (gs_attrs s) None = Ok sz /\
      convert_functions (st_reg st0) (module_scope m0) sz gfs = Ok fs /\
      convert_functions (st_reg st) (module_scope m0) sz gfs = Ok fs /\
      rs_inner r = IType td /\
      td_vftable td = Some vt /\
      vt_functions vt = fs /\
      Forall
        (fun f : gfunction =>
         exists sf : sfunction,
           In sf fs /\ BindingWhole.fn_built_bound (st_reg st0) (st_reg st) m0 true f sf) gfs.
Proof. exact BindingWhole.C11_vftable_functions_whole_build. Qed.
Print Assumptions C11_vftable_functions_whole_build.

Theorem C11_enum_base_whole_build :
  forall (order : schedule) (ptr : N) (mods : list (path * gmodule)) (st0 st : sstate) 
      (p : path) (it0 : item) (gd : gitemdef) (ed0 : genumdef) (it : item) (r : resolved)
      (parent : path) (m0 : smodule),
    WholeBuild.input_state ptr mods = Ok st0 ->
    WholeBuild.collision_free (st_reg st0) ->
    OrderIndep.clean_stateb st0 = true ->
    pyxis_resolve order ptr mods = BOk st ->
    reg_get (st_reg st0) p = Some it0 ->
    it_state it0 = Unresolved gd ->
    gi_inner gd = GIEnum ed0 ->
    reg_get (st_reg st) p = Some it ->
    it_state it = Resolved r ->
    path_parent p = Some parent ->
    alookup parent (st_modules st0) = Some m0 ->
    let R0 := st_reg st0 in
    let R := st_reg st in
    exists ed : enum_def,
      rs_inner r = IEnum ed /\
      resolve_gtype R0 (module_scope m0) (ged_type ed0) = Some (ed_type ed) /\
      resolve_gtype R (module_scope m0) (ged_type ed0) = Some (ed_type ed) /\
      (reg_has R0 (m_path m0) = false ->
       BindingWhole.bind_gtype (lookup_spec (reg_has R0) (m_path m0) (gm_uses (m_ast m0)))
         (ged_type ed0) = Some (ed_type ed)) /\
      size_of R (ed_type ed) = Some (rs_size r) /\ align_of R (ed_type ed) = Some (rs_align r).
Proof. exact BindingWhole.C11_enum_base_whole_build. Qed.
Print Assumptions C11_enum_base_whole_build.

Theorem C11_extern_values_whole_build :
  forall (order : schedule) (ptr : N) (mods : list (path * gmodule)) (st0 st : sstate) 
      (k : path) (m' : smodule),
    WholeBuild.input_state ptr mods = Ok st0 ->
    WholeBuild.collision_free (st_reg st0) ->
    OrderIndep.clean_stateb st0 = true ->
    pyxis_resolve order ptr mods = BOk st ->
    In (k, m') (st_modules st) ->
    let R0 := st_reg st0 in
    let R := st_reg st in
    exists m0 : smodule,
      In (k, m0) (st_modules st0) /\
      m_path m' = m_path m0 /\
      m_ast m' = m_ast m0 /\
      Forall2
        (fun ev ev' : sextern =>
         exists ty : stype,
           resolve_gtype R0 (module_scope m0) (ev_gtype ev) = Some ty /\
           resolve_gtype R (module_scope m0) (ev_gtype ev) = Some ty /\
           (reg_has R0 (m_path m0) = false ->
            BindingWhole.bind_gtype (lookup_spec (reg_has R0) (m_path m0) (gm_uses (m_ast m0)))
              (ev_gtype ev) = Some ty) /\
           ev_type ev' = Some ty /\
           ev_address ev' = ev_address ev /\ ev_name ev' = ev_name ev /\ ev_vis ev' = ev_vis ev)
        (m_extern_values m0) (m_extern_values m').
Proof. exact BindingWhole.C11_extern_values_whole_build. Qed.
Print Assumptions C11_extern_values_whole_build.

Theorem C11_emitted_field :
  forall (order : schedule) (ptr : N) (mods : list (path * gmodule)) (st0 st : sstate)
      (files : list (string * sexp)) (p : path) (it0 : item) (gd : gitemdef) 
      (td0 : gtypedef) (parent : path) (m0 : smodule) (s0 : gstatement) (v : vis) 
      (name : string) (t : gtype),
    WholeBuild.input_state ptr mods = Ok st0 ->
    NoDup (map fst mods) ->
    WholeBuild.collision_free (st_reg st0) ->
    OrderIndep.clean_stateb st0 = true ->
    EmitFinal.keeps_work order ->
    pyxis_resolve order ptr mods = BOk st ->
    write_all st = Ok files ->
    reg_get (st_reg st0) p = Some it0 ->
    it_state it0 = Unresolved gd ->
    gi_inner gd = GIType td0 ->
    path_parent p = Some parent ->
    parent <> [] ->
    alookup parent (st_modules st0) = Some m0 ->
    In s0 (gt_stmts td0) ->
    gs_field s0 = GField v name t ->
    name <> "_"%string ->
    let R0 := st_reg st0 in
    let R := st_reg st in
    exists
      (sname : string) (f : sexp) (items : list sexp) (s : sexp) (efs : list EmitReaders.efield) 
    (ty : stype) (sz al : N),
      path_last p = Some sname /\
      In (out_path parent, f) files /\
      EmitReaders.file_items f = Some items /\
      EmitReaders.find_struct sname items = Some s /\
      EmitReaders.struct_fields s = Some efs /\
      resolve_gtype R0 (module_scope m0) t = Some ty /\
      resolve_gtype R (module_scope m0) t = Some ty /\
      (reg_has R0 (m_path m0) = false ->
       BindingWhole.bind_gtype (lookup_spec (reg_has R0) (m_path m0) (gm_uses (m_ast m0))) t = Some ty) /\
      size_of R ty = Some sz /\
      align_of R ty = Some al /\
      ((sz =? 0)%N && stype_is_array ty = false ->
       exists ef : EmitReaders.efield,
         In ef efs /\
         EmitReaders.ef_name ef = name /\
         EmitReaders.ef_ty ef = type_tokens ty /\ EmitReaders.ef_vis ef = v).
Proof. exact BindingEmit.C11_emitted_field. Qed.
Print Assumptions C11_emitted_field.

Theorem C11_emitted_impl_functions :
  forall (order : schedule) (ptr : N) (mods : list (path * gmodule)) (st0 st : sstate)
      (files : list (string * sexp)) (p : path) (it0 : item) (gd : gitemdef) 
      (td0 : gtypedef) (parent : path) (m0 : smodule) (blk : gfnblock),
    WholeBuild.input_state ptr mods = Ok st0 ->
    NoDup (map fst mods) ->
    WholeBuild.collision_free (st_reg st0) ->
    OrderIndep.clean_stateb st0 = true ->
    EmitFinal.keeps_work order ->
    pyxis_resolve order ptr mods = BOk st ->
    write_all st = Ok files ->
    reg_get (st_reg st0) p = Some it0 ->
    it_state it0 = Unresolved gd ->
    gi_inner gd = GIType td0 ->
    path_parent p = Some parent ->
    parent <> [] ->
    alookup parent (st_modules st0) = Some m0 ->
    alookup p (m_impls m0) = Some blk ->
    exists
      (name : string) (it : item) (r : resolved) (td : type_def) (inherited own : list sfunction) 
    (f : sexp) (items : list sexp) (im : sexp) (fns : list sexp),
      path_last p = Some name /\
      reg_get (st_reg st) p = Some it /\
      it_state it = Resolved r /\
      rs_inner r = IType td /\
      td_assoc td = (inherited ++ own)%list /\
      In (out_path parent, f) files /\
      EmitReaders.file_items f = Some items /\
      In im items /\
      EmitReaders.item_kind im = Some "impl"%string /\
      EmitFnReaders.inherent_impl im = Some (name, fns) /\
      Forall2
        (fun (gf : gfunction) (sf : sfunction) =>
         BindingWhole.fn_built_bound (st_reg st0) (st_reg st) m0 false gf sf /\
         (sf_is_internal sf = false -> exists e : sexp, In e fns /\ EmitFnShape.wrapper_shape sf e))
        (gb_fns blk) own.
Proof. exact BindingEmit.C11_emitted_impl_functions. Qed.
Print Assumptions C11_emitted_impl_functions.

Theorem C11_emitted_extern_values :
  forall (order : schedule) (ptr : N) (mods : list (path * gmodule)) (st0 st : sstate)
      (files : list (string * sexp)) (k : path) (m' : smodule),
    WholeBuild.input_state ptr mods = Ok st0 ->
    WholeBuild.collision_free (st_reg st0) ->
    OrderIndep.clean_stateb st0 = true ->
    pyxis_resolve order ptr mods = BOk st ->
    write_all st = Ok files ->
    In (k, m') (st_modules st) ->
    k <> [] ->
    let R0 := st_reg st0 in
    let R := st_reg st in
    exists (m0 : smodule) (f : sexp) (items : list sexp),
      In (k, m0) (st_modules st0) /\
      m_path m' = m_path m0 /\
      m_ast m' = m_ast m0 /\
      In (out_path k, f) files /\
      EmitReaders.file_items f = Some items /\
      Forall2
        (fun ev ev' : sextern =>
         exists (ty : stype) (e : sexp),
           resolve_gtype R0 (module_scope m0) (ev_gtype ev) = Some ty /\
           resolve_gtype R (module_scope m0) (ev_gtype ev) = Some ty /\
           (reg_has R0 (m_path m0) = false ->
            BindingWhole.bind_gtype (lookup_spec (reg_has R0) (m_path m0) (gm_uses (m_ast m0)))
              (ev_gtype ev) = Some ty) /\
           ev_type ev' = Some ty /\
           ev_address ev' = ev_address ev /\
           ev_name ev' = ev_name ev /\ In e items /\ EmitFnShape.extern_shape ev' ty e)
        (m_extern_values m0) (m_extern_values m').
Proof. exact BindingEmit.C11_emitted_extern_values. Qed.
Print Assumptions C11_emitted_extern_values.

Theorem C11_ext_alone_does_not_fix_a_binding :
  WholeBuild.ext BindingWhole.cx_R0 BindingWhole.cx_R0 BindingWhole.cx_Rmid /\
    WholeBuild.ext BindingWhole.cx_R0 BindingWhole.cx_Rmid BindingWhole.cx_R0 /\
    Monotone.clean_path ["T"%string] = true /\
    Monotone.ends_vft "T" = false /\
    resolve_string BindingWhole.cx_Rmid [["m"%string]] "T" = Some (TRaw ["T"%string]) /\
    resolve_string BindingWhole.cx_R0 [["m"%string]] "T" = None.
Proof. exact BindingWhole.ext_alone_does_not_fix_a_binding. Qed.
Print Assumptions C11_ext_alone_does_not_fix_a_binding.
