(** * C11 — type names bind to the definition the scoping rules select.

    [lookup_spec] is the property's precedence list, written over a membership test for item paths
    and the module's [use] list.  Proved: the model's [resolve_string] (a partition / reverse / find /
    chain pipeline mirroring type_registry.rs) computes exactly [lookup_spec], for every registry, every
    module path that is not itself an item path, every use list and every name; the result is always an
    entry of the registry; the emitted reference is [crate::] + that path (bare for root-level
    built-ins), and the size/alignment used for layout are read from exactly that entry. *)
From Coq Require Import List NArith Bool String.
From PyxisModel Require Import Base Sexp Grammar SemTypes Registry Sem Emit ScopeLemmas.
Import ListNotations.

Theorem C11_main : forall R modpath uses name,
  reg_has R modpath = false ->
  resolve_string R (modpath :: uses) name =
  option_map TRaw (lookup_spec (reg_has R) modpath uses name).
Proof. exact resolve_string_spec. Qed.
Print Assumptions C11_main.

Theorem C11_binds_to_an_entry : forall R scope name p,
  resolve_string R scope name = Some (TRaw p) -> reg_has R p = true.
Proof. exact resolve_string_has. Qed.
Print Assumptions C11_binds_to_an_entry.

(** the layout numbers are those of that very entry *)
Theorem C11_layout_of_that_entry : forall R p it,
  reg_get R p = Some it ->
  size_of R (TRaw p) = item_size it /\ align_of R (TRaw p) = item_align it.
Proof. intros R p it H. cbn. rewrite H. auto. Qed.
Print Assumptions C11_layout_of_that_entry.

(** the emitted reference: fully qualified from the crate root for every item below a module *)
Theorem C11_emitted_reference : forall m rest name,
  raw_tokens (m :: rest ++ [name]) =
  Atom "crate"%string :: Atom ":"%string :: Atom ":"%string :: path_tokens (m :: rest ++ [name]).
Proof.
  intros m rest name. unfold raw_tokens.
  assert (is_void (m :: rest ++ [name]) = false) as ->.
  { destruct rest; reflexivity. }
  destruct rest; reflexivity.
Qed.
Print Assumptions C11_emitted_reference.

(** the precedence list in action: T is defined in the module itself, in an imported module, and
    imported by name from a third one; the by-name import wins; without it the local one; built-ins
    beat local definitions *)
Local Open Scope string_scope.
Definition has_ex (p : path) : bool :=
  path_mem p [["u32"]; ["m"; "T"]; ["a"; "T"]; ["b"; "T"]; ["m"; "u32"]].
Example C11_example :
  lookup_spec has_ex ["m"] [["a"]; ["b"; "T"]; ["a"; "T"]] "T" = Some ["a"; "T"] /\
  lookup_spec has_ex ["m"] [["a"]; ["b"; "T"]] "T" = Some ["b"; "T"] /\
  lookup_spec has_ex ["m"] [["a"]] "T" = Some ["m"; "T"] /\
  lookup_spec has_ex ["z"] [["b"]; ["a"]] "T" = Some ["b"; "T"] /\
  lookup_spec has_ex ["m"] [] "u32" = Some ["u32"] /\
  lookup_spec has_ex ["z"] [["c"]] "T" = None.
Proof. vm_compute. repeat split. Qed.
