(** * C09 — the output is a deterministic function of the input set.

    PROVED:
    - [C09_order_independent_abstract]: for ANY worklist loop of the shape of SemanticState::build
      (keys, an attempt with outcomes Done / Defer / Fail, rounds over a permutation of the unresolved
      keys, abort on Fail, stop on no progress), monotone attempts (M1: a Done stays the same Done, M2:
      a Fail stays a Fail, when more keys are resolved) make the outcome class and the final state
      independent of the order function -- for every pair of permutation-valued order functions
      (Confluence.v; no bound on the number of items);
    - the registry reads that attempts are made of are monotone / local: name resolution depends
      only on which paths exist ([C09_lookup_keys_only]); a known size or alignment never changes when
      more items get resolved ([C09_size_monotone], [C09_align_monotone]);
    - the emitter sorts what it prints ([sort_perm] in C14), and the model is a function.
    - [C09_attempt_monotone]: the model's real [attempt] satisfies M1 and M2 (an attempt that does
      not defer gives the same result in every state that knows at least the same resolved input
      items), under two decidable side conditions: [collision_free] (no input item is named like the
      vftable struct generated for an input type) and cleanliness (no module path, use path, impl
      name position or type name written in the input ends in "Vftable").  Without them it is false of
      the model and of pyxis: open findings F4b and F7b are exactly these two cases;
    - [C09_model_order_independent]: hence, for EVERY input (any pointer width, any list of modules)
      meeting the side conditions and ANY two permutation-valued order functions -- in particular
      any two schedules the hook can install ([C09_hook_schedules_are_permutations]) -- the
      resolution loop ends with the same verdict class (accepted / no progress / error) and the same
      resolved value for every input item (simulation of [resolve_loop] by the abstract loop,
      OrderIndep.v);
    - [C09_pyxis_resolve_order_independent]: the same for the whole front half [pyxis_resolve]
      (registration, loop, [finish_build]): same verdict class, and an accepted build resolves every
      input item to the same value, whatever the order;
    - [C09_output_order_independent] (SortUnique.v, EmitInvariance.v, FinalState.v, OutputIndep.v):
      and the FILES: for every input meeting the side conditions and any two permutation-valued order
      functions, two accepted runs of the model write exactly the same files ([write_all s1 =
      write_all s2]).  Ingredients: the emitter reads the registry only as a map and each module's
      item paths only up to permutation (it sorts them; sorting two permutations by a total
      antisymmetric order gives one list); the two final registries agree on ALL keys (the generated
      vftable items are functions of their owners' resolved values, [C04_whole_build]); the module
      tables differ only in the order of the generated item paths.
    What the model cannot say -- real hash maps, the file system, process state -- is decided by the
    monitor of this property directly on the real code: exhaustive enumeration of first-round
    resolution orders and sampled later rounds through the schedule hook, every permutation of
    module-addition order through the API, repeated builds in one process and in fresh processes
    with real hash seeds -- all compared byte for byte.
    REFUTED ON THE MODEL without the side conditions (RefutedWitnesses*.v; open findings F4b, F7b):
    [C09_order_dependence_F4b_refuted] -- collision_free false: two permutation schedules with different verdicts (width 4)
    and with different files (width 8); [C09_order_dependence_F7b_refuted] -- collision_free but not clean: accepted under
    one schedule, an error under another; [C09_order_dependence_F25_refuted] -- a field naming a generated table
    of a deferred owner: accepted under one schedule, the no-progress error under another. *)
From Coq Require Import List Bool Permutation NArith String.
From PyxisModel Require Import Base Grammar SemTypes Registry Sem ScopeLemmas Confluence WholeBuild Monotone
     OrderIndep OutputIndep Emit Examples.
Import ListNotations.

From PyxisModel Require RefutedInputs RefutedWitnessesOrder RefutedWitnessesEmit RefutedWitnessesFn.

From PyxisModel Require RefutedWitnessesF25.

Theorem C09_order_independent_abstract :
  forall (K V : Type) (eqb : K -> K -> bool), (forall a b, reflect (a = b) (eqb a b)) ->
  forall att : (K -> option V) -> K -> res V,
  (forall R R' k v, le K V R R' -> R k = None -> R' k = None -> att R k = Done V v -> att R' k = Done V v) ->
  (forall R R' k, le K V R R' -> R k = None -> R' k = None -> att R k = Fail V -> att R' k = Fail V) ->
  forall (items : list K) (o1 o2 : list K -> list K),
  (forall l, Permutation (o1 l) l) -> (forall l, Permutation (o2 l) l) ->
  forall fuel R0, List.length (unres K V items R0) < fuel ->
  same_outcome K V items (loop K V eqb att items o1 true fuel R0) (loop K V eqb att items o2 true fuel R0).
Proof. intros. eapply order_independent; eauto. Qed.
Print Assumptions C09_order_independent_abstract.

Theorem C09_lookup_keys_only : forall R R' scope t,
  (forall p, reg_has R p = reg_has R' p) -> resolve_gtype R scope t = resolve_gtype R' scope t.
Proof. intros. now apply resolve_gtype_keys. Qed.
Print Assumptions C09_lookup_keys_only.

Theorem C09_size_monotone : forall R R' t s,
  reg_extends R R' -> size_of R t = Some s -> size_of R' t = Some s.
Proof. intros. eapply size_of_mono; eauto. Qed.
Print Assumptions C09_size_monotone.

Theorem C09_align_monotone : forall R R' t a,
  reg_extends R R' -> align_of R t = Some a -> align_of R' t = Some a.
Proof. intros. eapply align_of_mono; eauto. Qed.
Print Assumptions C09_align_monotone.

(** ** M1 and M2 for the model's real attempt *)
Theorem C09_attempt_monotone : forall R0, collision_free R0 -> user R0 ["u8"%string] ->
  forall st st' p gd o,
  usub R0 (st_reg st) (st_reg st') -> mods_agree (st_modules st) (st_modules st') ->
  present R0 (st_reg st) -> chas R0 (st_reg st) -> chas R0 (st_reg st') -> user R0 p ->
  (forall parent m, path_parent p = Some parent -> alookup parent (st_modules st) = Some m ->
                    clean_module m = true) ->
  clean_def gd = true ->
  snd (attempt st p gd) = o -> o <> Base.Defer -> snd (attempt st' p gd) = o.
Proof. exact attempt_mono. Qed.
Print Assumptions C09_attempt_monotone.

Theorem C09_hook_schedules_are_permutations : forall ks l, Permutation (hook_schedule ks l) l.
Proof. exact hook_schedule_perm. Qed.
Print Assumptions C09_hook_schedules_are_permutations.

(** ** order independence of the model's resolution loop, for every input meeting the side
    conditions; [same_verdict]: both accepted with the same resolved value for every input item, or
    both without progress on the same set of items, or both in error *)
Theorem C09_model_order_independent : forall ptr mods st0 o1 o2,
  input_state ptr mods = Ok st0 -> collision_free (st_reg st0) -> clean_stateb st0 = true ->
  (forall l, Permutation (o1 l) l) -> (forall l, Permutation (o2 l) l) ->
  let fuel := S (List.length (reg_unresolved (st_reg st0))) in
  same_verdict st0 (resolve_loop o1 fuel st0) (resolve_loop o2 fuel st0).
Proof. exact pyxis_loop_order_independent. Qed.
Print Assumptions C09_model_order_independent.

Theorem C09_pyxis_resolve_order_independent : forall ptr mods st0 o1 o2,
  input_state ptr mods = Ok st0 -> collision_free (st_reg st0) -> clean_stateb st0 = true ->
  (forall l, Permutation (o1 l) l) -> (forall l, Permutation (o2 l) l) ->
  same_build st0 (pyxis_resolve o1 ptr mods) (pyxis_resolve o2 ptr mods).
Proof. exact pyxis_resolve_order_independent. Qed.
Print Assumptions C09_pyxis_resolve_order_independent.

(** ** the emitted files *)
Theorem C09_output_order_independent : forall ptr mods st0 o1 o2,
  input_state ptr mods = Ok st0 -> collision_free (st_reg st0) -> clean_stateb st0 = true ->
  (forall l, Permutation (o1 l) l) -> (forall l, Permutation (o2 l) l) ->
  match pyxis_resolve o1 ptr mods, pyxis_resolve o2 ptr mods with
  | BOk s1, BOk s2 => write_all s1 = write_all s2
  | _, _ => True
  end.
Proof. exact pyxis_output_order_independent. Qed.
Print Assumptions C09_output_order_independent.

(** non-vacuity: the input of Examples.v meets both side conditions *)
Example C09_side_conditions_example :
  exists st0, input_state 4 ex_mods = Ok st0 /\ collision_freeb (st_reg st0) = true /\ clean_stateb st0 = true.
Proof. vm_compute. eexists; repeat split; reflexivity. Qed.

Theorem C09_order_dependence_F4b_refuted :
  (exists (ks1 ks2 : list N) (st0 st1 : sstate) (msg : string),
       (forall l : list path, Permutation (hook_schedule ks1 l) l) /\
       (forall l : list path, Permutation (hook_schedule ks2 l) l) /\
       input_state 4 RefutedInputs.f4b_mods = Ok st0 /\
       pyxis_resolve (hook_schedule ks1) 4 RefutedInputs.f4b_mods = BOk st1 /\
       pyxis_resolve (hook_schedule ks2) 4 RefutedInputs.f4b_mods = BErr msg /\
       ~
       same_build st0 (pyxis_resolve (hook_schedule ks1) 4 RefutedInputs.f4b_mods)
         (pyxis_resolve (hook_schedule ks2) 4 RefutedInputs.f4b_mods)) /\
    (exists (ks1 ks2 : list N) (st1 st2 : sstate) (files1 files2 : list (string * Sexp.sexp)),
       (forall l : list path, Permutation (hook_schedule ks1 l) l) /\
       (forall l : list path, Permutation (hook_schedule ks2 l) l) /\
       pyxis_resolve (hook_schedule ks1) 8 RefutedInputs.f4b_mods = BOk st1 /\
       write_all st1 = Ok files1 /\
       pyxis_resolve (hook_schedule ks2) 8 RefutedInputs.f4b_mods = BOk st2 /\
       write_all st2 = Ok files2 /\
       RefutedInputs.size_check_of files1 "a.rs" "User" = Some (8%N, 8%N) /\
       RefutedInputs.size_check_of files2 "a.rs" "User" = Some (16%N, 16%N) /\
       write_all st1 <> write_all st2).
Proof. exact RefutedWitnessesOrder.C09_order_dependence_F4b_refuted. Qed.
Print Assumptions C09_order_dependence_F4b_refuted.

Theorem C09_order_dependence_F7b_refuted :
  exists (ks1 ks2 : list N) (st0 st1 : sstate) (files1 : list (string * Sexp.sexp)) 
    (msg : string),
      (forall l : list path, Permutation (hook_schedule ks1 l) l) /\
      (forall l : list path, Permutation (hook_schedule ks2 l) l) /\
      input_state 4 RefutedInputs.f7b_mods = Ok st0 /\
      collision_free (st_reg st0) /\
      clean_stateb st0 = false /\
      pyxis_resolve (hook_schedule ks1) 4 RefutedInputs.f7b_mods = BOk st1 /\
      write_all st1 = Ok files1 /\
      pyxis_resolve (hook_schedule ks2) 4 RefutedInputs.f7b_mods = BErr msg /\
      ~
      same_build st0 (pyxis_resolve (hook_schedule ks1) 4 RefutedInputs.f7b_mods)
        (pyxis_resolve (hook_schedule ks2) 4 RefutedInputs.f7b_mods).
Proof. exact RefutedWitnessesOrder.C09_order_dependence_F7b_refuted. Qed.
Print Assumptions C09_order_dependence_F7b_refuted.

Theorem C09_order_dependence_F25_refuted :
  exists
      (ks1 ks2 : list N) (st0 st1 : sstate) (files1 : list (string * Sexp.sexp)) 
    (stuck : list path),
      (forall l : list path, Permutation (hook_schedule ks1 l) l) /\
      (forall l : list path, Permutation (hook_schedule ks2 l) l) /\
      input_state 4 RefutedWitnessesF25.f25_mods = Ok st0 /\
      collision_free (st_reg st0) /\
      clean_stateb st0 = false /\
      pyxis_resolve (hook_schedule ks1) 4 RefutedWitnessesF25.f25_mods = BOk st1 /\
      write_all st1 = Ok files1 /\
      pyxis_resolve (hook_schedule ks2) 4 RefutedWitnessesF25.f25_mods = BNoProgress stuck /\
      ~
      same_build st0 (pyxis_resolve (hook_schedule ks1) 4 RefutedWitnessesF25.f25_mods)
        (pyxis_resolve (hook_schedule ks2) 4 RefutedWitnessesF25.f25_mods).
Proof. exact RefutedWitnessesF25.C09_order_dependence_F25_refuted. Qed.
Print Assumptions C09_order_dependence_F25_refuted.
