(** * C09 — the output is a deterministic function of the input set.

    PROVED:
    - [C09_order_independent_abstract]: for ANY worklist loop of the shape of SemanticState::build
      (keys, an attempt with outcomes Done / Defer / Fail, rounds over a permutation of the unresolved
      keys, abort on Fail, stop on no progress), monotone attempts (M1: a Done stays the same Done, M2:
      a Fail stays a Fail, when more keys are resolved) make the outcome class and the final state
      independent of the order function -- for every pair of permutation-valued order functions
      (Confluence.v; no bound on the number of items);
    - the registry reads that attempts are made of are monotone / local: name resolution depends
      only on which paths exist ([C09_lookup_keys_only]); a known size or alignment never changes when
      more items get resolved ([C09_size_monotone], [C09_align_monotone]);
    - the emitter sorts what it prints ([sort_perm] in C14), and the model is a function.
    NOT PROVED (so the claim is partial): that the model's [attempt], as a whole, satisfies M1 and
    M2.  At the pinned commit it did not (F7a, repaired; F7b, listed).  The order-independence of the
    real implementation is therefore decided by the monitor of this property, directly on the real
    code: exhaustive enumeration of first-round resolution orders and sampled later rounds through
    the schedule hook, every permutation of module-addition order through the API, repeated builds
    in one process and in fresh processes with real hash seeds -- all compared byte for byte. *)
From Coq Require Import List Bool Permutation NArith String.
From PyxisModel Require Import Base Grammar SemTypes Registry Sem ScopeLemmas Confluence.
Import ListNotations.

Theorem C09_order_independent_abstract :
  forall (K V : Type) (eqb : K -> K -> bool), (forall a b, reflect (a = b) (eqb a b)) ->
  forall att : (K -> option V) -> K -> res V,
  (forall R R' k v, le K V R R' -> R k = None -> R' k = None -> att R k = Done V v -> att R' k = Done V v) ->
  (forall R R' k, le K V R R' -> R k = None -> R' k = None -> att R k = Fail V -> att R' k = Fail V) ->
  forall (items : list K) (o1 o2 : list K -> list K),
  (forall l, Permutation (o1 l) l) -> (forall l, Permutation (o2 l) l) ->
  forall fuel R0, List.length (unres K V items R0) < fuel ->
  same_outcome K V items (loop K V eqb att items o1 true fuel R0) (loop K V eqb att items o2 true fuel R0).
Proof. intros. eapply order_independent; eauto. Qed.
Print Assumptions C09_order_independent_abstract.

Theorem C09_lookup_keys_only : forall R R' scope t,
  (forall p, reg_has R p = reg_has R' p) -> resolve_gtype R scope t = resolve_gtype R' scope t.
Proof. intros. now apply resolve_gtype_keys. Qed.
Print Assumptions C09_lookup_keys_only.

Theorem C09_size_monotone : forall R R' t s,
  reg_extends R R' -> size_of R t = Some s -> size_of R' t = Some s.
Proof. intros. eapply size_of_mono; eauto. Qed.
Print Assumptions C09_size_monotone.

Theorem C09_align_monotone : forall R R' t a,
  reg_extends R R' -> align_of R t = Some a -> align_of R' t = Some a.
Proof. intros. eapply align_of_mono; eauto. Qed.
Print Assumptions C09_align_monotone.
