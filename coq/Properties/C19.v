(** * C19 — a module's bindings do not depend on unrelated definitions.

    PROVED (the locality facts the property rests on):
    - [C19_lookup_local]: resolving a name in a module consults the registry only at the module's
      scope paths (its own path and its [use] lines), at the root, and at those paths extended by the
      name -- adding, removing or changing any other entry cannot change the result;
    - [C19_sizes_of_resolved_stable]: the size and alignment of a type expression are determined by
      the resolved entries it names (registries that agree on those agree on the numbers);
    - the file of a module is assembled from that module's own item paths, extern values, doc and
      backend blocks only ([module_file_shape], C14).
    - [C19_locality_abstract] (Locality.v, on top of Confluence.v): for ANY two worklist loops of
      the shape of SemanticState::build, the second over a larger set of items, whose attempt
      functions agree on the items of the first (in every state) and where the second is monotone
      (M1): if both end accepted, every item of the first build has the same resolved value in
      both -- whatever the two orders.  Adding items whose presence the old items' attempts do not
      notice leaves the old items' results unchanged.
    - the concrete theorem for the model (Frame.v, Unrelated.v, UnrelatedStates.v): [C19_unrelated_modules],
      [C19_unrelated_modules_externs] -- two inputs, the second with additional modules, both accepted:
      every item and extern value of the first input has the same resolved value in both;
    - and on the EMITTED FILES (EmitLocal.v, UnrelatedGen.v, UnrelatedFilesLift.v, HierarchyFuel.v,
      UnrelatedFiles.v): [C19_unrelated_module_file] -- under the same hypotheses the file of every
      module of the first input is the same in both builds ([module_file t1 m1 = module_file t2 m2],
      equality of outcomes, errors included); [C19_unrelated_files_written] /
      [C19_unrelated_files_included]: when the bigger build writes its files the smaller one
      writes too, and every (path, content) pair it writes is one the bigger build writes.
    Side conditions (all decidable): both inputs collision free and clean (C09.v) and [no_capture]
    (the additional modules do not replace a module of the first input and define nothing at a
    lookup candidate of it -- sufficient, not necessary).  Only accepted/accepted pairs are treated.
    The monitor decides the property on the real code: pairs of accepted input sets that differ
    only outside the observed module's import closure, output file compared byte for byte. *)
From Coq Require Import List Bool NArith String.
From Coq Require Import Permutation.
From PyxisModel Require Import Base Grammar SemTypes Registry Sem ScopeLemmas Confluence Locality WholeBuild Monotone OrderIndep Unrelated UnrelatedStates.
Import ListNotations.

From PyxisModel Require EmitLocal HierarchyFuel UnrelatedFiles.

Theorem C19_lookup_local : forall R R' scope name,
  (forall p, In p (lookup_candidates scope name) -> reg_has R p = reg_has R' p) ->
  resolve_string R scope name = resolve_string R' scope name.
Proof. exact resolve_string_local. Qed.
Print Assumptions C19_lookup_local.

Theorem C19_sizes_of_resolved_stable : forall R R' t s a,
  reg_extends R R' ->
  (size_of R t = Some s -> size_of R' t = Some s) /\ (align_of R t = Some a -> align_of R' t = Some a).
Proof. intros R R' t s a H. split; [apply size_of_mono | apply align_of_mono]; exact H. Qed.
Print Assumptions C19_sizes_of_resolved_stable.

Theorem C19_locality_abstract :
  forall (K V : Type) (eqb : K -> K -> bool), (forall a b, reflect (a = b) (eqb a b)) ->
  forall (att1 att2 : (K -> option V) -> K -> res V) (items1 items2 : list K),
  incl items1 items2 ->
  (forall R k, In k items1 -> att1 R k = att2 R k) ->
  (forall R R' k v, le K V R R' -> R k = None -> R' k = None -> att2 R k = Done V v -> att2 R' k = Done V v) ->
  forall o1 o2 fuel1 fuel2 R0 T1 T2,
  (forall l, Permutation (o1 l) l) -> (forall l, Permutation (o2 l) l) ->
  loop K V eqb att1 items1 o1 true fuel1 R0 = OOk K V T1 ->
  loop K V eqb att2 items2 o2 true fuel2 R0 = OOk K V T2 ->
  forall k, In k items1 -> T1 k <> None /\ T1 k = T2 k.
Proof.
  intros K V eqb Hspec att1 att2 items1 items2 Hsub Hloc M1 o1 o2 fuel1 fuel2 R0 T1 T2 P1 P2 H1 H2.
  exact (accepted_builds_agree K V eqb Hspec att1 att2 items1 items2 Hsub Hloc M1 o1 o2 fuel1 fuel2 R0 T1 T2 P1 P2 H1 H2).
Qed.
Print Assumptions C19_locality_abstract.

(** ** The concrete theorem for the model (Frame.v, Unrelated.v, UnrelatedStates.v).  Two inputs, the
    second with additional modules; both collision free and clean; [no_capture] (decidable): the
    additional modules do not replace a module of the first input, and no lookup candidate of the
    first input (scope path, or scope module / root joined with a name its definitions mention) is a
    key of the second registry only.  If both are accepted -- under ANY two schedules -- every item
    of the first input has the same resolved value in both final registries, and every module of the
    first input has the same resolved extern values. *)
Theorem C19_unrelated_modules : forall ptr mods1 extra st1 st2 o1 o2 t1 t2,
  input_state ptr mods1 = Ok st1 -> input_state ptr (mods1 ++ extra) = Ok st2 ->
  collision_free (st_reg st1) -> collision_free (st_reg st2) ->
  clean_stateb st1 = true -> clean_stateb st2 = true ->
  no_capture st1 st2 extra = true ->
  (forall l, Permutation (o1 l) l) -> (forall l, Permutation (o2 l) l) ->
  pyxis_resolve o1 ptr mods1 = BOk t1 -> pyxis_resolve o2 ptr (mods1 ++ extra) = BOk t2 ->
  forall p, user (st_reg st1) p -> reg_get (st_reg t1) p = reg_get (st_reg t2) p.
Proof. exact pyxis_resolve_unrelated. Qed.
Print Assumptions C19_unrelated_modules.

Theorem C19_unrelated_modules_externs : forall ptr mods1 extra st1 st2 o1 o2 t1 t2,
  input_state ptr mods1 = Ok st1 -> input_state ptr (mods1 ++ extra) = Ok st2 ->
  collision_free (st_reg st1) -> collision_free (st_reg st2) ->
  clean_stateb st1 = true -> clean_stateb st2 = true ->
  no_capture st1 st2 extra = true ->
  (forall l, Permutation (o1 l) l) -> (forall l, Permutation (o2 l) l) ->
  pyxis_resolve o1 ptr mods1 = BOk t1 -> pyxis_resolve o2 ptr (mods1 ++ extra) = BOk t2 ->
  forall k m, alookup k (st_modules st1) = Some m ->
  exists m1 m2, alookup k (st_modules t1) = Some m1 /\ alookup k (st_modules t2) = Some m2 /\
                m_extern_values m1 = m_extern_values m2.
Proof. exact pyxis_resolve_unrelated_externs. Qed.
Print Assumptions C19_unrelated_modules_externs.

(** non-vacuity: module [a] {A{x:u32,b:B}, B}, extra module [z] that also defines a [B]: [no_capture]
    holds, both builds are accepted, the theorem applies; and a pair where [no_capture] is false and
    the resolved value indeed differs *)
Example C19_unrelated_example :
  (exists st1 st2,
    input_state 4 unrel_mods1 = Ok st1 /\ input_state 4 (unrel_mods1 ++ unrel_extra) = Ok st2 /\
    collision_freeb (st_reg st1) = true /\ collision_freeb (st_reg st2) = true /\
    clean_stateb st1 = true /\ clean_stateb st2 = true /\
    no_capture st1 st2 unrel_extra = true) /\
  ((exists t1, pyxis_resolve (hook_schedule []) 4 unrel_mods1 = BOk t1) /\
   (exists t2, pyxis_resolve (hook_schedule []) 4 (unrel_mods1 ++ unrel_extra) = BOk t2)) /\
  (exists st1 st2,
    input_state 4 capt_mods1 = Ok st1 /\ input_state 4 (capt_mods1 ++ capt_extra) = Ok st2 /\
    no_capture st1 st2 capt_extra = false).
Proof.
  split; [|split].
  - destruct unrelated_no_capture as (st1 & st2 & H1 & H2 & C1 & C2 & K1 & K2 & _ & _ & Hnc).
    exists st1, st2. repeat split; assumption.
  - exact unrelated_accepted.
  - destruct capture_detected as (st1 & st2 & H1 & H2 & Hnc & _). exists st1, st2. repeat split; assumption.
Qed.

Theorem C19_unrelated_module_file :
  forall (ptr : N) (mods1 extra : list (path * gmodule)) (st1 st2 : sstate)
      (o1 o2 : list path -> list path) (t1 t2 : sstate),
    input_state ptr mods1 = Ok st1 ->
    input_state ptr (mods1 ++ extra) = Ok st2 ->
    collision_free (st_reg st1) ->
    collision_free (st_reg st2) ->
    clean_stateb st1 = true ->
    clean_stateb st2 = true ->
    no_capture st1 st2 extra = true ->
    (forall l : list path, Permutation (o1 l) l) ->
    (forall l : list path, Permutation (o2 l) l) ->
    pyxis_resolve o1 ptr mods1 = BOk t1 ->
    pyxis_resolve o2 ptr (mods1 ++ extra) = BOk t2 ->
    forall (k : path) (m : smodule),
    alookup k (st_modules st1) = Some m ->
    exists m1 m2 : smodule,
      alookup k (st_modules t1) = Some m1 /\
      alookup k (st_modules t2) = Some m2 /\ Emit.module_file t1 m1 = Emit.module_file t2 m2.
Proof. exact UnrelatedFiles.module_file_unrelated. Qed.
Print Assumptions C19_unrelated_module_file.

Theorem C19_unrelated_files_written :
  forall (ptr : N) (mods1 extra : list (path * gmodule)) (st1 st2 : sstate)
      (o1 o2 : list path -> list path) (t1 t2 : sstate) (files2 : list (string * Sexp.sexp)),
    input_state ptr mods1 = Ok st1 ->
    input_state ptr (mods1 ++ extra) = Ok st2 ->
    collision_free (st_reg st1) ->
    collision_free (st_reg st2) ->
    clean_stateb st1 = true ->
    clean_stateb st2 = true ->
    no_capture st1 st2 extra = true ->
    (forall l : list path, Permutation (o1 l) l) ->
    (forall l : list path, Permutation (o2 l) l) ->
    pyxis_resolve o1 ptr mods1 = BOk t1 ->
    pyxis_resolve o2 ptr (mods1 ++ extra) = BOk t2 ->
    Emit.write_all t2 = Ok files2 ->
    exists files1 : list (string * Sexp.sexp), Emit.write_all t1 = Ok files1 /\ incl files1 files2.
Proof. exact UnrelatedFiles.write_all_unrelated. Qed.
Print Assumptions C19_unrelated_files_written.

Theorem C19_unrelated_files_included :
  forall (ptr : N) (mods1 extra : list (path * gmodule)) (st1 st2 : sstate)
      (o1 o2 : list path -> list path) (t1 t2 : sstate) (files1 files2 : list (string * Sexp.sexp)),
    input_state ptr mods1 = Ok st1 ->
    input_state ptr (mods1 ++ extra) = Ok st2 ->
    collision_free (st_reg st1) ->
    collision_free (st_reg st2) ->
    clean_stateb st1 = true ->
    clean_stateb st2 = true ->
    no_capture st1 st2 extra = true ->
    (forall l : list path, Permutation (o1 l) l) ->
    (forall l : list path, Permutation (o2 l) l) ->
    pyxis_resolve o1 ptr mods1 = BOk t1 ->
    pyxis_resolve o2 ptr (mods1 ++ extra) = BOk t2 ->
    Emit.write_all t1 = Ok files1 -> Emit.write_all t2 = Ok files2 -> incl files1 files2.
Proof. exact UnrelatedFiles.write_all_unrelated_incl. Qed.
Print Assumptions C19_unrelated_files_included.
