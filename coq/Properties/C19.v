(** * C19 — a module's bindings do not depend on unrelated definitions.

    PROVED (the locality facts the property rests on):
    - [C19_lookup_local]: resolving a name in a module consults the registry only at the module's
      scope paths (its own path and its [use] lines), at the root, and at those paths extended by the
      name -- adding, removing or changing any other entry cannot change the result;
    - [C19_sizes_of_resolved_stable]: the size and alignment of a type expression are determined by
      the resolved entries it names (registries that agree on those agree on the numbers);
    - the file of a module is assembled from that module's own item paths, extern values, doc and
      backend blocks only ([module_file_shape], C14).
    NOT PROVED: the end-to-end statement for two whole builds (it needs the schedule-independence of
    C09 for the real attempt); so the claim is partial and decided on the real code by the monitor:
    pairs of accepted input sets that differ only outside the observed module's import closure,
    output file compared byte for byte. *)
From Coq Require Import List Bool NArith String.
From PyxisModel Require Import Base Grammar SemTypes Registry Sem ScopeLemmas.
Import ListNotations.

Theorem C19_lookup_local : forall R R' scope name,
  (forall p, In p (lookup_candidates scope name) -> reg_has R p = reg_has R' p) ->
  resolve_string R scope name = resolve_string R' scope name.
Proof. exact resolve_string_local. Qed.
Print Assumptions C19_lookup_local.

Theorem C19_sizes_of_resolved_stable : forall R R' t s a,
  reg_extends R R' ->
  (size_of R t = Some s -> size_of R' t = Some s) /\ (align_of R t = Some a -> align_of R' t = Some a).
Proof. intros R R' t s a H. split; [apply size_of_mono | apply align_of_mono]; exact H. Qed.
Print Assumptions C19_sizes_of_resolved_stable.
