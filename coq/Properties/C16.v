(** * C16 — calling conventions are the declared ones, or the documented defaults.

    [cc_spec f]: the convention named by the (last) [calling_convention("...")] attribute, else
    thiscall when the function has a receiver, else system.  Proved for impl functions and virtual
    functions alike: the resolved function record carries exactly [cc_spec f]; an unknown name is
    rejected; placeholder slots are thiscall.  The same record is what fills the vftable slot
    ([function_to_region] copies [sf_cc] into the fn-pointer type) and what the wrapper prints.
    On the emitted text (EmitFn*.v): [C16_fnptr_abi_read_back]: the ABI string read back from the
    tokens of a printed fn-pointer type is [cc_to_string] of its convention, and names it
    ([cc_of_string]); [C16_emitted_slot_abi]: every slot field of an emitted vftable struct carries
    the convention of its function record; with [C04_emitted_vftable_struct] and
    [C05_emitted_impl_function] (whose ABI is [cc_spec] of the declaration) this is C16 on the
    text of the accepted build. *)
From Coq Require Import List NArith ZArith Bool String.
From PyxisModel Require Import Base Grammar SemTypes Registry Sem FunctionLemmas WholeBuild.
Import ListNotations.

From PyxisModel Require EmitReaders EmitFnReaders EmitFnShape EmitFnFinal.

Theorem C16_main : forall R scope is_vfunc f sf,
  function_build R scope is_vfunc f = Ok sf -> cc_spec f = Some (sf_cc sf).
Proof. intros. eapply function_build_spec; eauto. Qed.
Print Assumptions C16_main.

Theorem C16_unknown_rejected : forall R scope f s,
  In s (flat_map (fun a => match cc_attr a with Some s => [s] | None => [] end) (gf_attrs f)) ->
  cc_of_string s = None -> forall v, ~ is_ok (function_build R scope v f) = true.
Proof. intros R scope f. apply function_build_rejects. Qed.
Print Assumptions C16_unknown_rejected.

(** the seven supported names, and nothing else *)
Theorem C16_supported_names : forall s,
  cc_of_string s <> None <->
  In s ["C"; "cdecl"; "stdcall"; "fastcall"; "thiscall"; "vectorcall"; "system"]%string.
Proof.
  intros s. unfold cc_of_string. split.
  - intros H.
    repeat match goal with
           | H : context [if String.eqb s ?x then _ else _] |- _ =>
             destruct (String.eqb_spec s x); [subst; cbn; tauto|]
           end. congruence.
  - cbn. intros [<-|[<-|[<-|[<-|[<-|[<-|[<-|[]]]]]]]]; cbn; discriminate.
Qed.
Print Assumptions C16_supported_names.

(** slot and wrapper agree: the fn-pointer type of the slot carries the function's convention, and
    placeholder slots are thiscall *)
Theorem C16_slot_convention : forall owner f,
  exists args ret, r_type (function_to_region owner f) = TFunction (sf_cc f) args ret.
Proof. intros. cbn. eauto. Qed.
Print Assumptions C16_slot_convention.

Theorem C16_placeholder_thiscall : forall k, sf_cc (padding_fn k) = CC_Thiscall.
Proof. reflexivity. Qed.
Print Assumptions C16_placeholder_thiscall.

(** ** End to end: the calling convention of every impl function of every type of an accepted
    ([collision_free]) build, as it stands in the FINAL registry, is the declared one or the default *)
Theorem C16_whole_build : forall order ptr mods st0 st p it0 gd td0 it r parent module0 blk,
  input_state ptr mods = Ok st0 -> collision_free (st_reg st0) ->
  pyxis_resolve order ptr mods = BOk st ->
  reg_get (st_reg st0) p = Some it0 -> it_state it0 = Unresolved gd -> gi_inner gd = GIType td0 ->
  reg_get (st_reg st) p = Some it -> it_state it = Resolved r ->
  path_parent p = Some parent -> alookup parent (st_modules st0) = Some module0 ->
  alookup p (m_impls module0) = Some blk ->
  exists td inherited own,
    rs_inner r = IType td /\ td_assoc td = inherited ++ own /\
    Forall2 (fun f sf => cc_spec f = Some (sf_cc sf) /\ sf_name sf = gf_name f) (gb_fns blk) own.
Proof.
  intros order ptr mods st0 st p it0 gd td0 it r parent module0 blk Hin Hcf Hres Hg0 Hs0 Hty Hg Hs Hpar Hmod Hblk.
  destruct (whole_build_impl_functions _ _ _ _ _ _ _ _ _ _ _ _ _ _ Hin Hcf Hres Hg0 Hs0 Hty Hg Hs Hpar Hmod Hblk)
    as (td & R_mid & inherited & own & Hi & _ & Ha & Hall).
  exists td, inherited, own. split; [exact Hi|]. split; [exact Ha|]. clear Ha Hblk.
  induction Hall as [|f sf fs sfs Hf _ IH]; [constructor|]. constructor; [|exact IH].
  split; [eapply function_build_spec; eauto|].
  unfold function_build in Hf. apply SemLemmas.bind_ok in Hf as (doc & _ & Hf). apply SemLemmas.bind_ok in Hf as (stt & _ & Hf).
  destruct (fst stt); [|discriminate]. apply SemLemmas.bind_ok in Hf as (args & _ & Hf). apply SemLemmas.bind_ok in Hf as (ret & _ & Hf).
  inversion Hf. reflexivity.
Qed.
Print Assumptions C16_whole_build.

Theorem C16_fnptr_abi_read_back :
  forall (c : cc) (args : list (string * stype)) (ret : option stype),
    EmitFnReaders.fnptr_abi (Emit.type_tokens (TFunction c args ret)) = Some (cc_to_string c) /\
    EmitFnReaders.fnptr_cc (Emit.type_tokens (TFunction c args ret)) = Some c.
Proof. exact EmitFnShape.fnptr_abi_correct. Qed.
Print Assumptions C16_fnptr_abi_read_back.

Theorem C16_emitted_slot_abi :
  forall (R : registry) (fuel : nat) (owner : path) (size alignment : N) (v : vis) 
      (td : type_def) (fs : list sfunction) (vp : path) (items : list Sexp.sexp),
    td_regions td = map (function_to_region owner) fs ->
    Emit.build_type R fuel vp size alignment v td = Ok items ->
    exists (name : string) (s : Sexp.sexp) (rest : list Sexp.sexp) (efs : list EmitReaders.efield),
      path_last vp = Some name /\
      items = s :: rest /\
      EmitShape.struct_shape name alignment v td s /\
      EmitReaders.struct_fields s = Some efs /\ Forall2 (EmitFnShape.slot_of_function owner) fs efs.
Proof. exact EmitFnShape.vftable_struct_shape. Qed.
Print Assumptions C16_emitted_slot_abi.
