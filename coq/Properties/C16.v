(** * C16 — calling conventions are the declared ones, or the documented defaults.

    [cc_spec f]: the convention named by the (last) [calling_convention("...")] attribute, else
    thiscall when the function has a receiver, else system.  Proved for impl functions and virtual
    functions alike: the resolved function record carries exactly [cc_spec f]; an unknown name is
    rejected; placeholder slots are thiscall.  The same record is what fills the vftable slot
    ([function_to_region] copies [sf_cc] into the fn-pointer type) and what the wrapper prints. *)
From Coq Require Import List NArith ZArith Bool String.
From PyxisModel Require Import Base Grammar SemTypes Registry Sem FunctionLemmas.
Import ListNotations.

Theorem C16_main : forall R scope is_vfunc f sf,
  function_build R scope is_vfunc f = Ok sf -> cc_spec f = Some (sf_cc sf).
Proof. intros. eapply function_build_spec; eauto. Qed.
Print Assumptions C16_main.

Theorem C16_unknown_rejected : forall R scope f s,
  In s (flat_map (fun a => match cc_attr a with Some s => [s] | None => [] end) (gf_attrs f)) ->
  cc_of_string s = None -> forall v, ~ is_ok (function_build R scope v f) = true.
Proof. intros R scope f. apply function_build_rejects. Qed.
Print Assumptions C16_unknown_rejected.

(** the seven supported names, and nothing else *)
Theorem C16_supported_names : forall s,
  cc_of_string s <> None <->
  In s ["C"; "cdecl"; "stdcall"; "fastcall"; "thiscall"; "vectorcall"; "system"]%string.
Proof.
  intros s. unfold cc_of_string. split.
  - intros H.
    repeat match goal with
           | H : context [if String.eqb s ?x then _ else _] |- _ =>
             destruct (String.eqb_spec s x); [subst; cbn; tauto|]
           end. congruence.
  - cbn. intros [<-|[<-|[<-|[<-|[<-|[<-|[<-|[]]]]]]]]; cbn; discriminate.
Qed.
Print Assumptions C16_supported_names.

(** slot and wrapper agree: the fn-pointer type of the slot carries the function's convention, and
    placeholder slots are thiscall *)
Theorem C16_slot_convention : forall owner f,
  exists args ret, r_type (function_to_region owner f) = TFunction (sf_cc f) args ret.
Proof. intros. cbn. eauto. Qed.
Print Assumptions C16_slot_convention.

Theorem C16_placeholder_thiscall : forall k, sf_cc (padding_fn k) = CC_Thiscall.
Proof. reflexivity. Qed.
Print Assumptions C16_placeholder_thiscall.
