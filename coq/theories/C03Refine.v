(** * C03 refinement: the model's resolve_regions + compute_alignment compute C03Core.accept *)
From Coq Require Import List NArith ZArith Bool Lia String.
From PyxisModel Require Import Base Grammar SemTypes Registry Sem RustLayout LayoutLemmas SemLemmas PlacementLemmas.
From PyxisModel Require C03Core.
Import ListNotations.
Local Open Scope N_scope.
Module C := C03Core.
Arguments N.add : simpl never. Arguments N.mul : simpl never. Arguments N.sub : simpl never.
Arguments N.modulo : simpl never. Arguments N.div : simpl never. Arguments N.gcd : simpl never.

Section Refine.
  Variable R : registry.
  Hypothesis Hu8 : reg_u8 R.
  Hypothesis Hu8a : align_of R (TRaw ["u8"%string]) = Some 1.

  Definition absf (p : option N * region) : C.field :=
    {| C.addr := fst p; C.sz := fst (region_sa R (snd p)); C.al := snd (region_sa R (snd p));
       C.zarr := stype_is_array (r_type (snd p)) |}.
  Definition absr (rs : list region) : list C.region := map (region_sa R) rs.
  Definition known (r : region) : Prop :=
    size_of R (r_type r) <> None /\ align_of R (r_type r) <> None.

  Lemma absr_app a b : absr (a ++ b) = absr a ++ absr b.
  Proof. apply map_app. Qed.

  (** one region pushed *)
  Lemma push_refine r rs last :
    known r -> last + fst (region_sa R r) <= usize_max ->
    exists rs', regions_push R (rs, last) r = Some (rs', snd (C.push (absr rs, last) (region_sa R r) (stype_is_array (r_type r))))
                /\ absr rs' = fst (C.push (absr rs, last) (region_sa R r) (stype_is_array (r_type r))).
  Proof.
    intros [Hs Ha] Hfit.
    destruct (size_of R (r_type r)) as [s|] eqn:Es; [|congruence].
    destruct (align_of R (r_type r)) as [a|] eqn:Ea; [|congruence].
    assert (region_sa R r = (s, a)) as Hsa by (unfold region_sa; now rewrite Es, Ea).
    rewrite Hsa in *. cbn [fst snd] in *.
    unfold regions_push, C.push. rewrite Es. cbn [fst snd].
    destruct ((s =? 0) && stype_is_array (r_type r)) eqn:E.
    - exists rs. split; reflexivity.
    - unfold checked_add, fits_usize. assert ((last + s <=? usize_max) = true) as -> by (apply N.leb_le; exact Hfit).
      exists (rs ++ [r]). split; [reflexivity|]. rewrite absr_app. cbn [absr map]. now rewrite Hsa.
  Qed.

  (** padding regions: [u8; n], size n, alignment 1, an array *)
  Lemma padding_sa n : n <= usize_max -> region_sa R (unnamed_region (padding_type n)) = (n, 1).
  Proof.
    intros Hn. unfold region_sa. cbn [unnamed_region r_type]. rewrite (padding_size_eq _ _ Hu8).
    assert (align_of R (padding_type n) = align_of R (TRaw ["u8"%string])) as -> by reflexivity.
    rewrite Hu8a. unfold checked_mul, fits_usize. rewrite N.mul_1_l.
    assert ((n <=? usize_max) = true) as -> by (apply N.leb_le; exact Hn). reflexivity.
  Qed.
  Lemma padding_known n : n <= usize_max -> known (unnamed_region (padding_type n)).
  Proof.
    intros Hn. unfold known. cbn [unnamed_region r_type]. split.
    - rewrite (padding_size_eq _ _ Hu8). unfold checked_mul, fits_usize. rewrite N.mul_1_l.
      assert ((n <=? usize_max) = true) as -> by (apply N.leb_le; exact Hn). discriminate.
    - assert (align_of R (padding_type n) = align_of R (TRaw ["u8"%string])) as -> by reflexivity.
      rewrite Hu8a. discriminate.
  Qed.

  (** one pending entry *)
  Definition entry_fits (last : N) (p : option N * region) : Prop :=
    match fst p with Some a => a | None => last end + fst (region_sa R (snd p)) <= usize_max.

  Lemma step_refine p rs last :
    known (snd p) -> entry_fits last p ->
    match C.step (absr rs, last) (absf p) with
    | None => exists m, push_pending R (rs, last) p = Err m
    | Some (rs2, l2) => exists rs', push_pending R (rs, last) p = Ok (rs', l2) /\ absr rs' = rs2
    end.
  Proof.
    intros Hk Hfit. destruct p as [addr r]. unfold entry_fits in Hfit. cbn [fst snd] in *.
    unfold C.step, absf, push_pending. cbn [C.addr C.sz C.al C.zarr fst snd].
    destruct addr as [a|].
    - destruct (a <? last) eqn:Elt; [eexists; reflexivity|]. apply N.ltb_ge in Elt.
      assert (a - last <= usize_max) as Hpad by lia.
      destruct (push_refine (unnamed_region (padding_type (a - last))) rs last (padding_known _ Hpad)) as (rs1 & H1 & A1).
      { rewrite (padding_sa _ Hpad). cbn [fst]. lia. }
      rewrite (padding_sa _ Hpad) in H1, A1. cbn [unnamed_region r_type padding_type stype_is_array] in H1, A1.
      rewrite H1. cbn [defer_opt bind].
      set (st1 := C.push (absr rs, last) (a - last, 1) true) in *.
      assert (snd st1 = a) as Hl1.
      { unfold st1, C.push. cbn [fst snd]. destruct ((a - last =? 0) && true) eqn:E; cbn [snd]; [|lia].
        rewrite andb_true_r in E. apply N.eqb_eq in E. lia. }
      destruct (push_refine r rs1 (snd st1) Hk) as (rs2 & H2 & A2); [rewrite Hl1; exact Hfit|].
      rewrite H2. cbn [defer_opt].
      replace (absr rs1, snd st1) with st1 in * by (destruct st1; cbn in *; now subst).
      destruct (C.push st1 _ _) as [rsf lf] eqn:Ef. cbn [fst snd] in *. eexists. split; [reflexivity | exact A2].
    - cbn [bind]. destruct (push_refine r rs last Hk Hfit) as (rs2 & H2 & A2). rewrite H2. cbn [defer_opt].
      destruct (C.push _ _ _) as [rsf lf] eqn:Ef. cbn [fst snd] in *. eexists. split; [reflexivity | exact A2].
  Qed.

  (** all pending entries: the model's fold is the core's [steps] *)
  Fixpoint all_fit (last : N) (pending : list (option N * region)) : Prop :=
    match pending with
    | [] => True
    | p :: rest =>
      entry_fits last p /\
      all_fit (match fst p with Some a => a | None => last end + fst (region_sa R (snd p))) rest
    end.

  Lemma push_end st r b : snd (C.push st r b) = snd st + fst r.
  Proof.
    unfold C.push. destruct ((fst r =? 0) && b) eqn:E; cbn [snd]; [|reflexivity].
    apply andb_prop in E as [E _]. apply N.eqb_eq in E. lia.
  Qed.

  Lemma step_end rs last p rs2 l2 :
    C.step (absr rs, last) (absf p) = Some (rs2, l2) ->
    l2 = match fst p with Some a => a | None => last end + fst (region_sa R (snd p)).
  Proof.
    destruct p as [addr r]. unfold C.step, absf. cbn [C.addr C.sz C.al C.zarr fst snd].
    destruct addr as [a|].
    - destruct (a <? last) eqn:E; [discriminate|]. apply N.ltb_ge in E. intros H.
      assert (l2 = snd (C.push (C.push (absr rs, last) (a - last, 1) true)
                               (fst (region_sa R r), snd (region_sa R r)) (stype_is_array (r_type r)))) as ->
          by (apply (f_equal (fun o => match o with Some x => snd x | None => 0 end)) in H; cbn in H; symmetry; exact H).
      rewrite !push_end. cbn [fst snd]. lia.
    - intros H.
      assert (l2 = snd (C.push (absr rs, last) (fst (region_sa R r), snd (region_sa R r)) (stype_is_array (r_type r)))) as ->
          by (apply (f_equal (fun o => match o with Some x => snd x | None => 0 end)) in H; cbn in H; symmetry; exact H).
      rewrite push_end. reflexivity.
  Qed.

  Lemma steps_refine : forall pending rs last,
    Forall (fun p => known (snd p)) pending -> all_fit last pending ->
    match C.steps (absr rs, last) (map absf pending) with
    | None => exists m, foldM (push_pending R) pending (rs, last) = Err m
    | Some (rs2, l2) => exists rs', foldM (push_pending R) pending (rs, last) = Ok (rs', l2) /\ absr rs' = rs2
    end.
  Proof.
    induction pending as [|p pending IH]; intros rs last Hk Hfit; cbn [map C.steps foldM].
    - exists rs. split; reflexivity.
    - inversion Hk as [|? ? Hp Hrest]; subst. destruct Hfit as [Hf1 Hf2].
      pose proof (step_refine p rs last Hp Hf1) as Hs.
      destruct (C.step (absr rs, last) (absf p)) as [[rs2 l2]|] eqn:Es.
      + destruct Hs as (rs' & Hpp & Habs). rewrite Hpp. cbn [bind]. subst rs2.
        rewrite (step_end _ _ _ _ _ Es) in *. apply IH; assumption.
      + destruct Hs as [m Hm]. rewrite Hm. cbn [bind]. eauto.
  Qed.

  (** the size padding: the model's tail push is the core's [finish] before the final comparison *)
  Lemma finish_refine rs last ts :
    (forall t, ts = Some t -> t <= usize_max) ->
    exists rs',
      match ts with
      | Some t => if (last <? t)
                  then defer_opt (regions_push R (rs, last) (unnamed_region (padding_type (t - last))))
                  else Ok (rs, last)
      | None => Ok (rs, last)
      end = Ok (rs', snd (match ts with
                          | Some t => if last <? t then C.push (absr rs, last) (t - last, 1) true else (absr rs, last)
                          | None => (absr rs, last) end)) /\
      absr rs' = fst (match ts with
                      | Some t => if last <? t then C.push (absr rs, last) (t - last, 1) true else (absr rs, last)
                      | None => (absr rs, last) end).
  Proof.
    intros Hts. destruct ts as [t|]; [|exists rs; split; reflexivity].
    specialize (Hts t eq_refl). destruct (last <? t) eqn:E; [|exists rs; split; reflexivity].
    apply N.ltb_lt in E. assert (t - last <= usize_max) as Hpad by lia.
    destruct (push_refine (unnamed_region (padding_type (t - last))) rs last (padding_known _ Hpad)) as (rs1 & H1 & A1).
    { rewrite (padding_sa _ Hpad). cbn [fst]. lia. }
    rewrite (padding_sa _ Hpad) in H1, A1. cbn [unnamed_region r_type padding_type stype_is_array] in H1, A1.
    rewrite H1. cbn [defer_opt]. exists rs1. split; [reflexivity | exact A1].
  Qed.

  (** naming keeps sizes and alignments; the total is the core's running end *)
  Lemma name_regions_refine : forall rs s0,
    Forall known rs ->
    exists rs', name_regions R rs s0 = Ok (rs', total s0 (absr rs)) /\ absr rs' = absr rs /\ Forall known rs'.
  Proof.
    induction rs as [|r rs IH]; intros s0 Hk; cbn [name_regions].
    - exists []. repeat split; constructor.
    - inversion Hk as [|? ? [Hs Ha] Hr]; subst.
      destruct (size_of R (r_type r)) as [s|] eqn:Es; [|congruence].
      destruct (IH (s0 + s) Hr) as (rs' & Hn & Habs & Hkn). rewrite Hn. cbn [bind fst snd].
      eexists. split; [|split].
      + f_equal. f_equal. cbn [absr map total]. unfold region_sa at 1. rewrite Es. reflexivity.
      + cbn [absr map]. f_equal; [|exact Habs]. destruct (r_name r); [reflexivity|]. apply region_sa_type. reflexivity.
      + constructor; [|exact Hkn]. unfold known. destruct (r_name r); cbn [r_type]; rewrite ?Es; split; try discriminate; exact Ha.
  Qed.

  Lemma push_known rs last r rs' last' : regions_push R (rs, last) r = Some (rs', last') -> Forall known rs -> known r -> Forall known rs'.
  Proof.
    intros H Hrs Hr. destruct (regions_push_spec _ _ _ _ _ _ H) as (s & _ & Hx).
    destruct (ignored R r); [destruct Hx as (-> & _); exact Hrs|].
    destruct Hx as (-> & _). apply Forall_app. split; [exact Hrs | constructor; [exact Hr | constructor]].
  Qed.

  (** ** the alignment decision *)
  Definition aligns_ok (rs : list region) : Prop :=
    Forall (fun r => C.pow2 (snd (region_sa R r)) /\ snd (region_sa R r) <= usize_max) rs.

  Lemma known_sa r : known r -> size_of R (r_type r) = Some (fst (region_sa R r)) /\ align_of R (r_type r) = Some (snd (region_sa R r)).
  Proof.
    intros [Hs Ha]. unfold region_sa. destruct (size_of R (r_type r)); [|congruence].
    destruct (align_of R (r_type r)); [|congruence]. split; reflexivity.
  Qed.

  Lemma flat_aligns_abs rs : Forall known rs -> flat_aligns R rs = map snd (absr rs).
  Proof.
    induction rs as [|r rs IH]; intros H; cbn [flat_aligns absr map]; [reflexivity|].
    inversion H as [|? ? Hr Hrs]; subst. destruct (known_sa r Hr) as [_ Ha]. rewrite Ha. f_equal. apply IH. exact Hrs.
  Qed.

  Lemma div_mul_swap a g x : g <> 0 -> N.divide g a -> (a / g) * x = a * x / g.
  Proof.
    intros Hg [k ->]. rewrite N.div_mul by exact Hg.
    replace (k * g * x) with (k * x * g) by lia. now rewrite N.div_mul by exact Hg.
  Qed.

  Lemma lcm2_agree acc x : acc <> 0 -> C.lcm2 acc x <= usize_max -> lcm2 acc x = Some (C.lcm2 acc x).
  Proof.
    intros Hacc Hfit. unfold lcm2, C.lcm2 in *.
    destruct (N.gcd acc x) as [|g] eqn:Eg; [apply N.gcd_eq_0_l in Eg; contradiction|].
    assert (acc / N.pos g * x = acc * x / N.pos g) as E
        by (apply div_mul_swap; [discriminate | rewrite <- Eg; apply N.gcd_divide_l]).
    unfold checked_mul, fits_usize. rewrite E.
    assert ((acc * x / N.pos g <=? usize_max) = true) as -> by (apply N.leb_le; exact Hfit). reflexivity.
  Qed.

  Lemma pow2_nz x : C.pow2 x -> x <> 0.
  Proof. intros H. pose proof (C.pow2_pos x H). lia. Qed.

  Lemma lcm_list_agree : forall (l : list C.region) acc,
    C.pow2 acc -> acc <= usize_max -> Forall (fun r : C.region => C.pow2 (snd r) /\ snd r <= usize_max) l ->
    lcm_list_aux (map snd l) acc = Some (fold_left (fun a (r : C.region) => C.lcm2 a (snd r)) l acc).
  Proof.
    induction l as [|r l IH]; intros acc Pa Ha Hl; cbn [map lcm_list_aux fold_left]; [reflexivity|].
    inversion Hl as [|? ? [Pr Hr] Hl']; subst.
    assert (C.lcm2 acc (snd r) = N.max acc (snd r)) as Em by (apply C.lcm2_pow2; assumption).
    rewrite lcm2_agree; [| apply pow2_nz; exact Pa | rewrite Em; lia].
    apply IH; [rewrite Em; apply C.pow2_max; assumption | rewrite Em; lia | exact Hl'].
  Qed.

  Lemma cfa_refine : forall rs cur, Forall known rs -> Forall (fun r => snd (region_sa R r) <> 0) rs ->
    check_fields_aligned R rs cur = if C.aligned_from cur (absr rs) then Ok tt else Err "field is located at an address not divisible by its alignment"%string.
  Proof.
    induction rs as [|r rs IH]; intros cur Hk Hnz; cbn [check_fields_aligned absr map C.aligned_from]; [reflexivity|].
    inversion Hk as [|? ? Hr Hrs]; inversion Hnz as [|? ? Hz Hzs]; subst.
    destruct (known_sa r Hr) as [Hs Ha]. rewrite Ha, Hs.
    destruct (region_sa R r) as [s a] eqn:Esa. cbn [fst snd] in *.
    assert ((a =? 0) = false) as -> by (apply N.eqb_neq; exact Hz). cbn [orb].
    destruct (cur mod a =? 0); cbn [negb andb]; [apply IH; assumption | reflexivity].
  Qed.

  Theorem align_refine ta regions total :
    Forall known regions -> aligns_ok regions ->
    match (if ta_packed ta then match ta_align ta with Some _ => None | None => Some 1 end
           else let a := C.choose_align (reg_ptr R) (ta_align ta) (absr regions) in
                if negb (C.is_pow2b a) then None
                else if a <? C.lcml (absr regions) then None
                else if negb (C.aligned_from 0 (absr regions)) then None
                else if negb (total mod a =? 0) then None else Some a) with
    | Some a => compute_alignment R ta regions total = Ok a
    | None => exists m, compute_alignment R ta regions total = Err m
    end.
  Proof.
    intros Hk Hal. unfold compute_alignment.
    destruct (ta_packed ta).
    { destruct (ta_align ta); [eexists; reflexivity | reflexivity]. }
    assert (match ta_align ta with
            | Some a => a
            | None => match regions with
                      | [r] => match align_of R (r_type r) with Some a => a | None => reg_ptr R end
                      | _ => reg_ptr R end
            end = C.choose_align (reg_ptr R) (ta_align ta) (absr regions)) as ->.
    { unfold C.choose_align. destruct (ta_align ta); [reflexivity|].
      destruct regions as [|r [|r2 rest]]; cbn [absr map]; try reflexivity.
      inversion Hk as [|? ? Hr _]; subst. destruct (known_sa r Hr) as [_ Ha]. now rewrite Ha. }
    set (a := C.choose_align (reg_ptr R) (ta_align ta) (absr regions)).
    assert (is_power_of_two a = C.is_pow2b a) as -> by reflexivity.
    destruct (C.is_pow2b a) eqn:Ep; cbn [negb]; [|eexists; reflexivity].
    rewrite (flat_aligns_abs _ Hk).
    assert (lcm_list (map snd (absr regions)) = Some (C.lcml (absr regions))) as ->.
    { unfold lcm_list, C.lcml. apply lcm_list_agree; [apply C.pow2_1 | unfold usize_max; lia |].
      unfold absr. apply Forall_map. exact Hal. }
    destruct (a <? C.lcml (absr regions)); [eexists; reflexivity|].
    rewrite cfa_refine; [| exact Hk |].
    2:{ eapply Forall_impl; [|exact Hal]. intros r [P _]. apply pow2_nz. exact P. }
    destruct (C.aligned_from 0 (absr regions)); cbn [negb bind]; [|eexists; reflexivity].
    destruct (total mod a =? 0); cbn [negb]; [reflexivity | eexists; reflexivity].
  Qed.

  (** ** assembling: resolve_regions (no vftable block, no base) + compute_alignment = C03Core.accept *)
  Definition okP (r : C.region) : Prop := C.pow2 (snd r) /\ snd r <= usize_max.

  Lemma core_push_P st r b : Forall okP (fst st) -> okP r -> Forall okP (fst (C.push st r b)).
  Proof.
    intros H Hr. unfold C.push. destruct ((fst r =? 0) && b); [exact H|]. cbn [fst].
    apply Forall_app. split; [exact H | constructor; [exact Hr | constructor]].
  Qed.
  Lemma okP_pad n : okP (n, 1).
  Proof. split; cbn; [apply C.pow2_1 | unfold usize_max; lia]. Qed.

  Lemma core_steps_P : forall fs st st', C.steps st fs = Some st' -> Forall okP (fst st) ->
    Forall (fun f => okP (C.sz f, C.al f)) fs -> Forall okP (fst st').
  Proof.
    induction fs as [|f fs IH]; intros st st' H Hst Hfs; cbn [C.steps] in H; [inversion H; subst; exact Hst|].
    inversion Hfs as [|? ? Hf Hrest]; subst.
    destruct (C.step st f) as [st1|] eqn:Es; [|discriminate].
    eapply IH; [exact H | | exact Hrest].
    unfold C.step in Es. destruct (C.addr f) as [a|].
    - destruct (a <? snd st); [discriminate|]. inversion Es; subst.
      apply core_push_P; [apply core_push_P; [exact Hst | apply okP_pad] | exact Hf].
    - inversion Es; subst. apply core_push_P; assumption.
  Qed.

  Lemma push_keeps_known rs last r rs' last' :
    regions_push R (rs, last) r = Some (rs', last') -> align_of R (r_type r) <> None ->
    Forall known rs -> Forall known rs'.
  Proof.
    intros H Ha Hrs. destruct (regions_push_spec _ _ _ _ _ _ H) as (s & Hs & Hx).
    destruct (ignored R r); [destruct Hx as (-> & _); exact Hrs|].
    destruct Hx as (-> & _). apply Forall_app. split; [exact Hrs|].
    constructor; [|constructor]. split; [rewrite Hs; discriminate | exact Ha].
  Qed.
  Lemma pad_align n : align_of R (r_type (unnamed_region (padding_type n))) <> None.
  Proof.
    cbn [unnamed_region r_type].
    assert (align_of R (padding_type n) = align_of R (TRaw ["u8"%string])) as -> by reflexivity.
    rewrite Hu8a. discriminate.
  Qed.

  Lemma fold_keeps_known : forall pending rs last rs' last',
    foldM (push_pending R) pending (rs, last) = Ok (rs', last') ->
    Forall (fun p => known (snd p)) pending -> Forall known rs -> Forall known rs'.
  Proof.
    induction pending as [|p pending IH]; intros rs last rs' last' H Hp Hrs; cbn [foldM] in H.
    - inversion H; subst. exact Hrs.
    - inv_bind H. destruct a as [rs1 l1]. inversion Hp as [|? ? [_ Hpa] Hrest]; subst.
      eapply IH; [exact H | exact Hrest |].
      unfold push_pending in Ha. cbn [fst snd] in Ha. inv_bind Ha. destruct a as [rs0 l0].
      apply defer_opt_ok in Ha.
      eapply push_keeps_known; [exact Ha | exact Hpa |].
      destruct (fst p) as [a|].
      + destruct (a <? last); [discriminate|]. apply defer_opt_ok in Ha0.
        eapply push_keeps_known; [exact Ha0 | apply pad_align | exact Hrs].
      + inversion Ha0; subst. exact Hrs.
  Qed.

  Theorem decision_refines st owner v ta pending :
    st_reg st = R ->
    Forall (fun p => known (snd p)) pending ->
    Forall (fun p => okP (region_sa R (snd p))) pending ->
    find r_is_base (map snd pending) = None ->
    all_fit 0 pending -> (forall t, ta_size ta = Some t -> t <= usize_max) ->
    match C.accept (reg_ptr R) (map absf pending) (ta_size ta) (ta_align ta) (ta_packed ta) with
    | Some (total, a) =>
      exists regions, resolve_regions st owner v (ta_size ta) pending None = Ok (st, regions, None, total) /\
                      compute_alignment R ta regions total = Ok a
    | None =>
      (exists m, resolve_regions st owner v (ta_size ta) pending None = Err m) \/
      (exists regions total m, resolve_regions st owner v (ta_size ta) pending None = Ok (st, regions, None, total) /\
                               compute_alignment R ta regions total = Err m)
    end.
  Proof.
    intros HR Hk Hok Hnb Hfit Hts.
    unfold resolve_regions, C.accept. rewrite Hnb.
    assert (first_base_unresolved (st_reg st) None = false) as -> by reflexivity.
    cbn [vftable_build opt_region_name_and_vftable bind]. rewrite HR.
    pose proof (steps_refine pending [] 0 Hk Hfit) as Hs. change (absr []) with (@nil C.region) in Hs.
    destruct (C.steps ([], 0) (map absf pending)) as [[crs cl]|] eqn:Ecs.
    2:{ destruct Hs as [m Hm]. rewrite Hm. cbn [bind]. left. eauto. }
    destruct Hs as (rs1 & Hf1 & Habs1). rewrite Hf1. cbn [bind fst snd]. subst crs.
    pose proof (fold_keeps_known _ _ _ _ _ Hf1 Hk (Forall_nil _)) as Hk1.
    assert (Forall okP (absr rs1)) as Hok1.
    { pose proof (core_steps_P _ _ _ Ecs) as H. cbn [fst] in H. apply H; [constructor|].
      apply Forall_map. eapply Forall_impl; [|exact Hok]. intros p Hp. unfold absf. cbn [C.sz C.al].
      rewrite <- surjective_pairing. exact Hp. }
    destruct (finish_refine rs1 cl (ta_size ta) Hts) as (rs2 & Hfin & Habs2). rewrite Hfin. cbn [bind fst snd].
    (* the regions after the size padding *)
    set (cst := match ta_size ta with
                | Some t => if cl <? t then C.push (absr rs1, cl) (t - cl, 1) true else (absr rs1, cl)
                | None => (absr rs1, cl) end) in *.
    assert (Forall known rs2) as Hk2.
    { destruct (ta_size ta) as [t|]; [|inversion Hfin; subst; exact Hk1].
      destruct (cl <? t); [|inversion Hfin; subst; exact Hk1].
      apply defer_opt_ok in Hfin. eapply push_keeps_known; [exact Hfin | apply pad_align | exact Hk1]. }
    assert (Forall okP (absr rs2)) as Hok2.
    { rewrite Habs2. unfold cst. destruct (ta_size ta) as [t|]; [|exact Hok1].
      destruct (cl <? t); [|exact Hok1]. apply core_push_P; [exact Hok1 | apply okP_pad]. }
    destruct (name_regions_refine rs2 0 Hk2) as (named & Hname & Habsn & Hkn). rewrite Hname. cbn [bind fst snd].
    assert (aligns_ok named) as Han.
    { unfold aligns_ok. rewrite <- Habsn in Hok2. unfold absr in Hok2. rewrite Forall_map in Hok2. exact Hok2. }
    assert (total 0 (absr rs2) = snd cst) as Htot.
    { (* the running end is the total of the regions: from the model side *)
      assert (G : forall pending rs l rs' l', foldM (push_pending R) pending (rs, l) = Ok (rs', l') ->
                l = total 0 (absr rs) -> l' = total 0 (absr rs')).
      { clear. induction pending as [|[addr r] pending IH]; intros rs l rs' l' H Hl; cbn [foldM] in H.
        - inversion H. congruence.
        - inv_bind H. destruct a as [rsA lA]. eapply IH; [exact H|].
          unfold push_pending in Ha. cbn [fst snd] in Ha. inv_bind Ha. destruct a as [rsB lB].
          apply defer_opt_ok in Ha.
          assert (lB = total 0 (absr rsB)) as HB.
          { destruct addr as [a|].
            - destruct (a <? l); [discriminate|]. apply defer_opt_ok in Ha0.
              destruct (regions_push_spec _ _ _ _ _ _ Ha0) as (s & Hsz & Hr).
              destruct (ignored _ _); [destruct Hr as (-> & -> & _); exact Hl|].
              destruct Hr as (-> & ->). unfold absr. rewrite total_snoc, (region_sa_size _ _ _ Hsz). fold (absr rs). lia.
            - inversion Ha0. congruence. }
          destruct (regions_push_spec _ _ _ _ _ _ Ha) as (s & Hsz & Hr).
          destruct (ignored _ r); [destruct Hr as (-> & -> & _); exact HB|].
          destruct Hr as (-> & ->). unfold absr. rewrite total_snoc, (region_sa_size _ _ _ Hsz). fold (absr rsB). lia. }
      pose proof (G _ _ _ _ _ Hf1 eq_refl) as Hcl.
      unfold cst. destruct (ta_size ta) as [t|] eqn:Et.
      - destruct (cl <? t) eqn:Elt.
        + apply defer_opt_ok in Hfin. destruct (regions_push_spec _ _ _ _ _ _ Hfin) as (s & Hsz & Hr).
          rewrite push_end. cbn [fst snd].
          assert (t - cl <= usize_max) as Hpad by (specialize (Hts t eq_refl); lia).
          pose proof (padding_sa _ Hpad) as Hpsa.
          destruct (ignored _ _).
          * destruct Hr as (-> & _ & Hz). rewrite <- Hcl.
            assert (s = t - cl) by (rewrite (region_sa_size _ _ _ Hsz) in Hpsa || (unfold region_sa in Hpsa; rewrite Hsz in Hpsa; inversion Hpsa; reflexivity)). lia.
          * destruct Hr as (-> & _). unfold absr. rewrite total_snoc. fold (absr rs1). rewrite Hpsa. cbn [fst]. lia.
        + inversion Hfin; subst. cbn [snd]. congruence.
      - inversion Hfin; subst. cbn [snd]. congruence. }
    rewrite Htot.
    (* core's finish *)
    assert (Hend : forall total0, snd cst = total0 ->
      match (let '(rs, total) := (fst cst, total0) in
             if ta_packed ta then match ta_align ta with Some _ => None | None => Some (total, 1) end
             else let a := C.choose_align (reg_ptr R) (ta_align ta) rs in
                  if negb (C.is_pow2b a) then None
                  else if a <? C.lcml rs then None
                  else if negb (C.aligned_from 0 rs) then None
                  else if negb (total mod a =? 0) then None else Some (total, a)) with
      | Some (total, a) => total = total0 /\ compute_alignment R ta named total0 = Ok a
      | None => exists m, compute_alignment R ta named total0 = Err m
      end).
    { intros total0 _. cbn [fst snd]. pose proof (align_refine ta named total0 Hkn Han) as Har.
      rewrite Habsn, Habs2 in Har. fold cst in Har.
      destruct (ta_packed ta).
      - destruct (ta_align ta); [exact Har | split; [reflexivity | exact Har]].
      - cbn zeta in *. destruct (negb (C.is_pow2b _)); [exact Har|].
        destruct (_ <? C.lcml _); [exact Har|]. destruct (negb (C.aligned_from _ _)); [exact Har|].
        destruct (negb (_ mod _ =? 0)); [exact Har | split; [reflexivity | exact Har]]. }
    destruct (ta_size ta) as [t|] eqn:Et.
    - assert (C.finish (absr rs1, cl) (Some t) = if snd cst =? t then Some cst else None) as -> by reflexivity.
      clearbody cst.
      destruct (snd cst =? t) eqn:Eeq; cbv beta iota.
      + apply N.eqb_eq in Eeq. specialize (Hend t Eeq).
        destruct cst as [crs ccl]. cbn [fst snd] in *. subst ccl. rewrite ?Eeq.
        match type of Hend with match ?e with _ => _ end => destruct e as [[tt_ a]|] end; cbv beta iota in Hend |- *.
        * destruct Hend as [-> Hc]. exists named. split; [reflexivity | exact Hc].
        * destruct Hend as [m Hm]. right. exists named, t, m. split; [reflexivity | exact Hm].
      + left. cbn [negb]. eexists. reflexivity.
    - assert (C.finish (absr rs1, cl) None = Some cst) as -> by reflexivity.
      clearbody cst.
      specialize (Hend (snd cst) eq_refl).
      destruct cst as [crs ccl]. cbn [fst snd] in *.
      match type of Hend with match ?e with _ => _ end => destruct e as [[tt_ a]|] end; cbv beta iota in Hend |- *.
      * destruct Hend as [-> Hc]. exists named. split; [reflexivity | exact Hc].
      * destruct Hend as [m Hm]. right. exists named, ccl, m. split; [reflexivity | exact Hm].
  Qed.
End Refine.
