(** * EmitReaders: reading the structured form of an emitted Rust file back.

    The back end of the model (Emit.v) prints items as S-expressions.  This file defines small
    READERS on S-expressions (name, visibility, fields, repr attribute, derive list, doc lines of a
    struct; the literal of a size check; ...) and proves that they invert the printers of Emit.v.
    The readers only look at constructors and compare atoms with [String.eqb]; they do not mention
    the printers, so the shape theorems of EmitShape.v do not restate the definition of
    [build_type]. *)
From Coq Require Import List String Ascii NArith ZArith Bool Lia.
From Coq Require Import DecimalString DecimalN DecimalPos Decimal.
From PyxisModel Require Import Base Sexp Grammar SemTypes Registry Sem Emit EmitLemmas.
Import ListNotations.
Local Open Scope string_scope.
Local Open Scope list_scope.

(** ** decimal numerals: [N_of_dec] inverts [dec_of_N] *)
Fixpoint uval (d : Decimal.uint) (acc : N) : N :=
  match d with
  | Nil => acc
  | D0 l => uval l (acc * 10 + 0)
  | D1 l => uval l (acc * 10 + 1)
  | D2 l => uval l (acc * 10 + 2)
  | D3 l => uval l (acc * 10 + 3)
  | D4 l => uval l (acc * 10 + 4)
  | D5 l => uval l (acc * 10 + 5)
  | D6 l => uval l (acc * 10 + 6)
  | D7 l => uval l (acc * 10 + 7)
  | D8 l => uval l (acc * 10 + 8)
  | D9 l => uval l (acc * 10 + 9)
  end%N.

Lemma N_of_dec_aux_uint : forall d acc,
  N_of_dec_aux (DecimalString.NilEmpty.string_of_uint d) acc = Some (uval d acc).
Proof.
  induction d as [|d IH|d IH|d IH|d IH|d IH|d IH|d IH|d IH|d IH|d IH]; intros acc;
    cbn [DecimalString.NilEmpty.string_of_uint N_of_dec_aux uval]; try reflexivity;
    (unfold digit_of_ascii; cbn; apply IH).
Qed.

Lemma uval_pos : forall d acc, uval d (Npos acc) = Npos (Pos.of_uint_acc d acc).
Proof.
  induction d as [|d IH|d IH|d IH|d IH|d IH|d IH|d IH|d IH|d IH|d IH]; intros acc;
    cbn [uval Pos.of_uint_acc]; try reflexivity;
    (match goal with |- uval _ ?a = _ =>
       match goal with |- _ = Npos (Pos.of_uint_acc _ ?b) =>
         replace a with (Npos b) by lia end end; apply IH).
Qed.

Lemma uval_zero : forall d, uval d 0 = Pos.of_uint d.
Proof.
  induction d as [|d IH|d IH|d IH|d IH|d IH|d IH|d IH|d IH|d IH|d IH];
    cbn [uval Pos.of_uint]; try reflexivity; try exact IH;
    (match goal with |- uval _ ?a = _ => change a with (Npos 1) || change a with (Npos 2)
       || change a with (Npos 3) || change a with (Npos 4) || change a with (Npos 5)
       || change a with (Npos 6) || change a with (Npos 7) || change a with (Npos 8)
       || change a with (Npos 9) end; apply uval_pos).
Qed.

Theorem N_of_dec_dec_of_N n : N_of_dec (dec_of_N n) = Some n.
Proof.
  unfold dec_of_N, DecimalString.NilZero.string_of_uint.
  pose proof (DecimalN.Unsigned.of_to n) as Hn. unfold N.of_uint in Hn.
  destruct (N.to_uint n) as [|d|d|d|d|d|d|d|d|d|d] eqn:E.
  - cbn in Hn. subst n. reflexivity.
  - rewrite <- Hn, <- uval_zero. unfold N_of_dec.
    cbn [DecimalString.NilEmpty.string_of_uint]. apply (N_of_dec_aux_uint (D0 d)).
  - rewrite <- Hn, <- uval_zero. unfold N_of_dec.
    cbn [DecimalString.NilEmpty.string_of_uint]. apply (N_of_dec_aux_uint (D1 d)).
  - rewrite <- Hn, <- uval_zero. unfold N_of_dec.
    cbn [DecimalString.NilEmpty.string_of_uint]. apply (N_of_dec_aux_uint (D2 d)).
  - rewrite <- Hn, <- uval_zero. unfold N_of_dec.
    cbn [DecimalString.NilEmpty.string_of_uint]. apply (N_of_dec_aux_uint (D3 d)).
  - rewrite <- Hn, <- uval_zero. unfold N_of_dec.
    cbn [DecimalString.NilEmpty.string_of_uint]. apply (N_of_dec_aux_uint (D4 d)).
  - rewrite <- Hn, <- uval_zero. unfold N_of_dec.
    cbn [DecimalString.NilEmpty.string_of_uint]. apply (N_of_dec_aux_uint (D5 d)).
  - rewrite <- Hn, <- uval_zero. unfold N_of_dec.
    cbn [DecimalString.NilEmpty.string_of_uint]. apply (N_of_dec_aux_uint (D6 d)).
  - rewrite <- Hn, <- uval_zero. unfold N_of_dec.
    cbn [DecimalString.NilEmpty.string_of_uint]. apply (N_of_dec_aux_uint (D7 d)).
  - rewrite <- Hn, <- uval_zero. unfold N_of_dec.
    cbn [DecimalString.NilEmpty.string_of_uint]. apply (N_of_dec_aux_uint (D8 d)).
  - rewrite <- Hn, <- uval_zero. unfold N_of_dec.
    cbn [DecimalString.NilEmpty.string_of_uint]. apply (N_of_dec_aux_uint (D9 d)).
Qed.

(** ** generic accessors *)
Definition item_kind (e : sexp) : option string :=
  match e with SList (Atom k :: _) => Some k | _ => None end.

Definition read_vis (e : sexp) : option vis :=
  match e with
  | Atom s => if String.eqb s "pub" then Some Public else if String.eqb s "priv" then Some Private else None
  | _ => None
  end.

(** an integer literal token [(i <decimal> <suffix>)] *)
Definition read_int (e : sexp) : option (N * string) :=
  match e with
  | SList [Atom i; n; Atom suffix] =>
    if String.eqb i "i" then match atom_N n with Some v => Some (v, suffix) | None => None end else None
  | _ => None
  end.

(** a string literal token [(s "...")] *)
Definition read_strlit (e : sexp) : option string :=
  match e with
  | SList [Atom s; Str v] => if String.eqb s "s" then Some v else None
  | _ => None
  end.

(** [first_some f l]: the first element [f] reads; [all_somes f l]: everything [f] reads, in order;
    [read_all f l]: all elements, [None] if one of them is not read *)
Fixpoint first_some {A B} (f : A -> option B) (l : list A) : option B :=
  match l with
  | [] => None
  | a :: r => match f a with Some b => Some b | None => first_some f r end
  end.
Fixpoint all_somes {A B} (f : A -> option B) (l : list A) : list B :=
  match l with
  | [] => []
  | a :: r => match f a with Some b => b :: all_somes f r | None => all_somes f r end
  end.
Fixpoint read_all {A B} (f : A -> option B) (l : list A) : option (list B) :=
  match l with
  | [] => Some []
  | a :: r => match f a, read_all f r with Some b, Some bs => Some (b :: bs) | _, _ => None end
  end.

(** strip a prefix of given atoms *)
Fixpoint atoms_prefix (names : list string) (l : list sexp) : option (list sexp) :=
  match names with
  | [] => Some l
  | n :: ns => match l with
               | Atom a :: r => if String.eqb a n then atoms_prefix ns r else None
               | _ => None
               end
  end.

(** ** attributes *)
(** the tokens of an outer attribute [#[...]] *)
Definition read_attr_outer (e : sexp) : option (list sexp) :=
  match e with
  | SList (Atom a :: Atom o :: l) => if String.eqb a "attr" && String.eqb o "outer" then Some l else None
  | _ => None
  end.

(** [#[doc = "line"]] *)
Definition read_doc_attr (e : sexp) : option string :=
  match read_attr_outer e with
  | Some [Atom d; Atom eq; lit] => if String.eqb d "doc" && String.eqb eq "=" then read_strlit lit else None
  | _ => None
  end.

(** the representation a struct asks for: [#[repr(C, packed)]] or [#[repr(C, align(A))]] *)
Inductive repr : Type := ReprPacked | ReprAlign (a : N).

Definition read_repr_attr (e : sexp) : option repr :=
  match read_attr_outer e with
  | Some [Atom r; args] =>
    if String.eqb r "repr" then
      match tagged "paren" args with
      | Some [Atom c; Atom comma; Atom k] =>
        if String.eqb c "C" && String.eqb comma "," && String.eqb k "packed" then Some ReprPacked else None
      | Some [Atom c; Atom comma; Atom k; arg] =>
        if String.eqb c "C" && String.eqb comma "," && String.eqb k "align" then
          match tagged "paren" arg with
          | Some [lit] => match read_int lit with Some (a, _) => Some (ReprAlign a) | None => None end
          | _ => None
          end
        else None
      | _ => None
      end
    else None
  | _ => None
  end.

(** the token list inside [#[repr(...)]] (enums: the integer type) *)
Definition read_repr_tokens (e : sexp) : option (list sexp) :=
  match read_attr_outer e with
  | Some [Atom r; args] => if String.eqb r "repr" then tagged "paren" args else None
  | _ => None
  end.

(** a comma-separated list of identifiers *)
Fixpoint split_commas (l : list sexp) : option (list string) :=
  match l with
  | [] => Some []
  | [Atom n] => Some [n]
  | Atom n :: Atom c :: r =>
    if String.eqb c "," then match split_commas r with Some ns => Some (n :: ns) | None => None end else None
  | _ => None
  end.

(** [#[derive(A, B, ...)]] *)
Definition read_derive_attr (e : sexp) : option (list string) :=
  match read_attr_outer e with
  | Some [Atom d; args] =>
    if String.eqb d "derive" then
      match tagged "paren" args with Some l => split_commas l | None => None end
    else None
  | _ => None
  end.

(** ** structs and enums: [(kind (attrs ...) vis name members...)] *)
Definition item_parts (kind : string) (e : sexp) : option (list sexp * vis * string * list sexp) :=
  match e with
  | SList (Atom k :: attrs :: v :: Atom name :: members) =>
    if String.eqb k kind then
      match tagged "attrs" attrs, read_vis v with
      | Some al, Some vi => Some (al, vi, name, members)
      | _, _ => None
      end
    else None
  | _ => None
  end.

Definition parts_attrs (x : list sexp * vis * string * list sexp) : list sexp := fst (fst (fst x)).
Definition parts_vis (x : list sexp * vis * string * list sexp) : vis := snd (fst (fst x)).
Definition parts_name (x : list sexp * vis * string * list sexp) : string := snd (fst x).
Definition parts_members (x : list sexp * vis * string * list sexp) : list sexp := snd x.

(** an emitted field: its doc lines, visibility, name and the tokens of its type *)
Record efield := { ef_docs : list string; ef_vis : vis; ef_name : string; ef_ty : list sexp }.

Definition read_field (e : sexp) : option efield :=
  match e with
  | SList [Atom k; attrs; v; Atom n; ty] =>
    if String.eqb k "field" then
      match tagged "attrs" attrs, read_vis v, tagged "ty" ty with
      | Some al, Some vi, Some toks =>
        match read_all read_doc_attr al with
        | Some docs => Some {| ef_docs := docs; ef_vis := vi; ef_name := n; ef_ty := toks |}
        | None => None
        end
      | _, _, _ => None
      end
    else None
  | _ => None
  end.

Definition struct_name (e : sexp) : option string := option_map parts_name (item_parts "struct" e).
Definition struct_vis (e : sexp) : option vis := option_map parts_vis (item_parts "struct" e).
Definition struct_fields (e : sexp) : option (list efield) :=
  match item_parts "struct" e with Some x => read_all read_field (parts_members x) | None => None end.
Definition struct_repr (e : sexp) : option repr :=
  match item_parts "struct" e with Some x => first_some read_repr_attr (parts_attrs x) | None => None end.
(** the derive list; no derive attribute reads as the empty list *)
Definition struct_derives (e : sexp) : option (list string) :=
  match item_parts "struct" e with
  | Some x => Some (match first_some read_derive_attr (parts_attrs x) with Some l => l | None => [] end)
  | None => None
  end.
Definition struct_docs (e : sexp) : option (list string) :=
  option_map (fun x => all_somes read_doc_attr (parts_attrs x)) (item_parts "struct" e).

(** ** the size check:
    [fn _T_size_check() { unsafe { ::std::mem::transmute::<[u8; N], T>([0u8; N]); } unreachable!() }]
    read as (function name, type name, N of the array type, N of the array value) *)
Definition read_size_check (e : sexp) : option (string * string * N * N) :=
  match e with
  | SList [Atom k; _; _; _; Atom fname; params; ret; body] =>
    if String.eqb k "fn" then
      match tagged "params" params, tagged "ret" ret, tagged "body" body with
      | Some [], Some [], Some (Atom u :: br :: _) =>
        if String.eqb u "unsafe" then
          match tagged "brace" br with
          | Some l =>
            match atoms_prefix [":"; ":"; "std"; ":"; ":"; "mem"; ":"; ":"; "transmute"; ":"; ":"; "<"] l with
            | Some [arr; Atom comma; Atom ty; Atom gt; arg; Atom semi] =>
              if String.eqb comma "," && String.eqb gt ">" && String.eqb semi ";" then
                match tagged "bracket" arr, tagged "paren" arg with
                | Some [Atom u8; Atom s1; lit1], Some [arr2] =>
                  if String.eqb u8 "u8" && String.eqb s1 ";" then
                    match tagged "bracket" arr2 with
                    | Some [_; Atom s2; lit2] =>
                      if String.eqb s2 ";" then
                        match read_int lit1, read_int lit2 with
                        | Some (n1, _), Some (n2, _) => Some (fname, ty, n1, n2)
                        | _, _ => None
                        end
                      else None
                    | _ => None
                    end
                  else None
                | _, _ => None
                end
              else None
            | _ => None
            end
          | None => None
          end
        else None
      | _, _, _ => None
      end
    else None
  | _ => None
  end.

(** ** enums *)
Definition is_default_attr (a : sexp) : bool :=
  match read_attr_outer a with Some [Atom d] => String.eqb d "default" | _ => false end.

(** a discriminant [<n>i64 as _] or [- <n>i64 as _] *)
Definition read_disc (l : list sexp) : option Z :=
  match l with
  | [lit; Atom a; Atom u] =>
    if String.eqb a "as" && String.eqb u "_" then
      match read_int lit with
      | Some (n, sfx) => if String.eqb sfx "i64" then Some (Z.of_N n) else None
      | None => None
      end
    else None
  | [Atom m; lit; Atom a; Atom u] =>
    if String.eqb m "-" && String.eqb a "as" && String.eqb u "_" then
      match read_int lit with
      | Some (n, sfx) => if String.eqb sfx "i64" then Some (Z.opp (Z.of_N n)) else None
      | None => None
      end
    else None
  | _ => None
  end.

(** an emitted variant: is it marked [#[default]], its name, its discriminant *)
Record evariant := { evr_default : bool; evr_name : string; evr_disc : Z }.

Definition read_variant (e : sexp) : option evariant :=
  match e with
  | SList [Atom k; attrs; Atom n; disc] =>
    if String.eqb k "variant" then
      match tagged "attrs" attrs, tagged "disc" disc with
      | Some al, Some dl =>
        match read_disc dl with
        | Some z => Some {| evr_default := existsb is_default_attr al; evr_name := n; evr_disc := z |}
        | None => None
        end
      | _, _ => None
      end
    else None
  | _ => None
  end.

Definition enum_name (e : sexp) : option string := option_map parts_name (item_parts "enum" e).
Definition enum_vis (e : sexp) : option vis := option_map parts_vis (item_parts "enum" e).
Definition enum_variants_of (e : sexp) : option (list evariant) :=
  match item_parts "enum" e with Some x => read_all read_variant (parts_members x) | None => None end.
Definition enum_repr (e : sexp) : option (list sexp) :=
  match item_parts "enum" e with Some x => first_some read_repr_tokens (parts_attrs x) | None => None end.
Definition enum_derives (e : sexp) : option (list string) :=
  match item_parts "enum" e with
  | Some x => Some (match first_some read_derive_attr (parts_attrs x) with Some l => l | None => [] end)
  | None => None
  end.
Definition enum_docs (e : sexp) : option (list string) :=
  option_map (fun x => all_somes read_doc_attr (parts_attrs x)) (item_parts "enum" e).

(** ** a file: [(file (attrs ...) item...)] *)
Definition file_items (f : sexp) : option (list sexp) :=
  match tagged "file" f with Some (_ :: items) => Some items | _ => None end.

(** the struct of a given name among a list of items (the first one) *)
Definition is_struct_named (name : string) (e : sexp) : bool :=
  match struct_name e with Some n => String.eqb n name | None => false end.
Definition find_struct (name : string) (items : list sexp) : option sexp := find (is_struct_named name) items.

(** ** the readers invert the printers of Emit.v *)
Lemma read_int_tint n sfx : read_int (tint n sfx) = Some (n, sfx).
Proof. unfold read_int, tint, sN, atom_N. cbn [String.eqb Ascii.eqb Bool.eqb]. now rewrite N_of_dec_dec_of_N. Qed.

Lemma read_strlit_tstr s : read_strlit (tstr s) = Some s.
Proof. reflexivity. Qed.

Lemma read_vis_vis_sexp v : read_vis (vis_sexp v) = Some v.
Proof. destruct v; reflexivity. Qed.

Lemma read_attr_outer_attr_outer l : read_attr_outer (attr_outer l) = Some l.
Proof. reflexivity. Qed.

Lemma read_doc_attr_doc l : read_doc_attr (attr_outer [tk "doc"; tk "="; tstr l]) = Some l.
Proof. reflexivity. Qed.

Lemma read_repr_attr_repr packed a :
  read_repr_attr (repr_attr packed a) = Some (if packed then ReprPacked else ReprAlign a).
Proof.
  destruct packed; [reflexivity|].
  unfold read_repr_attr, repr_attr. rewrite read_attr_outer_attr_outer. unfold tk, paren.
  cbn [String.eqb Ascii.eqb Bool.eqb tagged andb]. now rewrite read_int_tint.
Qed.

Lemma read_repr_tokens_repr toks : read_repr_tokens (attr_outer [tk "repr"; paren toks]) = Some toks.
Proof. reflexivity. Qed.

Lemma split_commas_commas : forall names, split_commas (commas (map (fun n => [tk n]) names)) = Some names.
Proof.
  induction names as [|a names IH]; [reflexivity|].
  destruct names as [|b names]; [reflexivity|].
  change (commas (map (fun n => [tk n]) (a :: b :: names)))
    with (Atom a :: Atom "," :: commas (map (fun n => [tk n]) (b :: names))).
  cbn [split_commas String.eqb Ascii.eqb Bool.eqb]. now rewrite IH.
Qed.

Lemma read_derive_attr_derive names :
  read_derive_attr (attr_outer [tk "derive"; paren (commas (map (fun n => [tk n]) names))]) = Some names.
Proof.
  unfold read_derive_attr. rewrite read_attr_outer_attr_outer. unfold tk, paren.
  cbn [String.eqb Ascii.eqb Bool.eqb tagged]. apply split_commas_commas.
Qed.

(** what the other attribute readers make of each kind of attribute *)
Lemma read_repr_attr_derive x : read_repr_attr (attr_outer [tk "derive"; x]) = None.
Proof. reflexivity. Qed.
Lemma read_repr_tokens_derive x : read_repr_tokens (attr_outer [tk "derive"; x]) = None.
Proof. reflexivity. Qed.
Lemma read_repr_attr_doc l : read_repr_attr (attr_outer [tk "doc"; tk "="; tstr l]) = None.
Proof. reflexivity. Qed.
Lemma read_derive_attr_doc l : read_derive_attr (attr_outer [tk "doc"; tk "="; tstr l]) = None.
Proof. reflexivity. Qed.
Lemma read_derive_attr_repr x : read_derive_attr (attr_outer [tk "repr"; x]) = None.
Proof. reflexivity. Qed.
Lemma read_doc_attr_repr x : read_doc_attr (attr_outer [tk "repr"; x]) = None.
Proof. destruct x; reflexivity. Qed.
Lemma read_doc_attr_derive x : read_doc_attr (attr_outer [tk "derive"; x]) = None.
Proof. destruct x; reflexivity. Qed.

Lemma first_some_app {A B} (f : A -> option B) l1 l2 :
  first_some f (l1 ++ l2) = match first_some f l1 with Some b => Some b | None => first_some f l2 end.
Proof. induction l1 as [|a l1 IH]; cbn [app first_some]; [reflexivity|]. destruct (f a); auto. Qed.
Lemma all_somes_app {A B} (f : A -> option B) l1 l2 : all_somes f (l1 ++ l2) = all_somes f l1 ++ all_somes f l2.
Proof.
  induction l1 as [|a l1 IH]; cbn [app all_somes]; [reflexivity|]. destruct (f a); cbn [app]; now rewrite IH.
Qed.
Lemma first_some_none {A B} (f : A -> option B) l : Forall (fun a => f a = None) l -> first_some f l = None.
Proof. induction 1 as [|a l Ha _ IH]; cbn [first_some]; [reflexivity|]. now rewrite Ha. Qed.
Lemma all_somes_none {A B} (f : A -> option B) l : Forall (fun a => f a = None) l -> all_somes f l = [].
Proof. induction 1 as [|a l Ha _ IH]; cbn [all_somes]; [reflexivity|]. now rewrite Ha. Qed.
Lemma all_somes_map {A B} (f : A -> option B) (g : B -> A) l :
  (forall b, f (g b) = Some b) -> all_somes f (map g l) = l.
Proof. intros H. induction l as [|b l IH]; cbn [map all_somes]; [reflexivity|]. now rewrite H, IH. Qed.
Lemma read_all_map {A B} (f : A -> option B) (g : B -> A) l :
  (forall b, f (g b) = Some b) -> read_all f (map g l) = Some l.
Proof. intros H. induction l as [|b l IH]; cbn [map read_all]; [reflexivity|]. now rewrite H, IH. Qed.

(** doc attributes *)
Lemma docs_read d : all_somes read_doc_attr (doc_attrs d) = doc_lines d.
Proof. unfold doc_attrs. now apply all_somes_map. Qed.
Lemma docs_read_all d : read_all read_doc_attr (doc_attrs d) = Some (doc_lines d).
Proof. unfold doc_attrs. now apply read_all_map. Qed.
Lemma docs_no_repr d : Forall (fun a => read_repr_attr a = None) (doc_attrs d).
Proof. unfold doc_attrs. apply Forall_forall. intros a Ha. apply in_map_iff in Ha as (l & <- & _). reflexivity. Qed.
Lemma docs_no_derive d : Forall (fun a => read_derive_attr a = None) (doc_attrs d).
Proof. unfold doc_attrs. apply Forall_forall. intros a Ha. apply in_map_iff in Ha as (l & <- & _). reflexivity. Qed.

(** the derive attribute: absent when the list is empty *)
Lemma derive_attr_cases base c cl d :
  (base ++ derive_names c cl d = [] /\ derive_attr base c cl d = []) \/
  derive_attr base c cl d =
    [attr_outer [tk "derive"; paren (commas (map (fun n => [tk n]) (base ++ derive_names c cl d)))]].
Proof.
  rewrite derive_attr_names. destruct (base ++ derive_names c cl d); [left; auto | right; reflexivity].
Qed.

Lemma derive_attr_read base c cl d :
  match first_some read_derive_attr (derive_attr base c cl d) with Some l => l | None => [] end
  = base ++ derive_names c cl d.
Proof.
  destruct (derive_attr_cases base c cl d) as [[E ->]| ->]; [now rewrite E|].
  cbn [first_some]. now rewrite read_derive_attr_derive.
Qed.
Lemma derive_attr_first base c cl d :
  first_some read_derive_attr (derive_attr base c cl d) = None -> base ++ derive_names c cl d = [].
Proof.
  destruct (derive_attr_cases base c cl d) as [[E ->]| ->]; [auto|].
  cbn [first_some]. rewrite read_derive_attr_derive. discriminate.
Qed.
Lemma derive_attr_no_repr base c cl d : Forall (fun a => read_repr_attr a = None) (derive_attr base c cl d).
Proof. destruct (derive_attr_cases base c cl d) as [[_ ->]| ->]; repeat constructor. Qed.
Lemma derive_attr_no_repr_tokens base c cl d : Forall (fun a => read_repr_tokens a = None) (derive_attr base c cl d).
Proof. destruct (derive_attr_cases base c cl d) as [[_ ->]| ->]; repeat constructor. Qed.
Lemma derive_attr_no_doc base c cl d : Forall (fun a => read_doc_attr a = None) (derive_attr base c cl d).
Proof. destruct (derive_attr_cases base c cl d) as [[_ ->]| ->]; repeat constructor. Qed.

(** fields *)
Definition region_efield (r : region) (n : string) : efield :=
  {| ef_docs := doc_lines (r_doc r); ef_vis := r_vis r; ef_name := n; ef_ty := type_tokens (r_type r) |}.

Lemma region_field_read r f :
  region_field r = Ok f -> exists n, r_name r = Some n /\ read_field f = Some (region_efield r n).
Proof.
  unfold region_field. destruct (r_name r) as [n|]; [|discriminate].
  destruct (negb (ident_ok n)); [discriminate|]. destruct (negb (stype_ok (r_type r))); [discriminate|].
  intros H; inversion H; subst f; clear H. exists n. split; [reflexivity|].
  unfold read_field, attrs_sexp. cbn [String.eqb Ascii.eqb Bool.eqb tagged].
  now rewrite docs_read_all, read_vis_vis_sexp.
Qed.

(** the size check *)
Lemma read_size_check_size_check name size :
  size <> 0%N ->
  exists c, size_check name size = [c] /\
            read_size_check c = Some ("_" +++ name +++ "_size_check", name, size, size).
Proof.
  intros Hs. unfold size_check. destruct (size =? 0)%N eqn:E; [apply N.eqb_eq in E; contradiction|].
  eexists. split; [reflexivity|].
  unfold read_size_check, fn_sexp, brace, bracket, paren, dcolon, tk.
  cbn [String.eqb Ascii.eqb Bool.eqb tagged app atoms_prefix andb].
  now rewrite !read_int_tint.
Qed.

Lemma size_check_zero name : size_check name 0 = [].
Proof. reflexivity. Qed.

(** variants *)
Lemma read_disc_disc_tokens z : read_disc (disc_tokens z) = Some z.
Proof.
  unfold disc_tokens, read_disc. destruct (Z.ltb_spec z 0) as [E|E]; cbn [app tk String.eqb Ascii.eqb Bool.eqb andb];
    rewrite read_int_tint; cbn [String.eqb Ascii.eqb Bool.eqb]; unfold tint; f_equal; rewrite N2Z.inj_abs_N; lia.
Qed.
