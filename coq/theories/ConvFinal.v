(** * ConvFinal: the reference conversions of every type of an accepted build, in the emitted file.

    C07, second half (AsRef/AsMut), part 5.
    - [build_type_conversions]: the items [build_type] emits for a type are
      [s :: mid ++ conv] with [conversions R fuel name td = Ok conv]; no item before [conv] (the
      struct, the size check, the singleton impl, the inherent impl) is read as a reference
      conversion or as a conflict const: the conversions read from ALL the items of the type are
      those of [conv].
    - [emitted_conversions_whole_build]: for every type the input declares, in every accepted,
      [collision_free] build whose files are written: the file of the declaring module holds,
      contiguously, the items of the type, starting with THE struct of that name ([find_struct]);
      the reference conversions read from these items are, in order, exactly
      [base_impls name h ++ refl_impls name], and the conflict consts exactly [spec_conflicts name h],
      where [h] is the hierarchy of the SPEC ([HierSpec.bases_of]) computed in the FINAL registry;
      hence (a)-(d) of ConvShape.v hold for them ([conversions_unique_base], ...), and the places
      the impls borrow are at the offsets of ConvOffset.v in the final registry. *)
From Coq Require Import List NArith ZArith Bool Lia String Permutation.
From PyxisModel Require Import Base Sexp Grammar SemTypes Registry Sem SemLemmas FunctionLemmas
     ScopeLemmas PlacementLemmas TotalityLemmas RustExec Emit EmitLemmas WholeBuild Monotone OrderIndep
     EmitInvariance FinalState OutputIndep EmitReaders EmitShape EmitFinal EmitFind
     EmitFnReaders EmitFnShape HierSpec ConvReaders ConvShape ConvOffset.
Import ListNotations.
Local Open Scope string_scope.
Local Open Scope list_scope.

(** an item that neither reader reads *)
Definition not_conv (e : sexp) : Prop := read_as_ref e = None /\ read_conflict_const e = None.

Lemma not_conv_kind e k : item_kind e = Some k -> k <> "impl" -> k <> "const" -> not_conv e.
Proof.
  intros Hk H1 H2. split.
  - destruct (read_as_ref e) as [ci|] eqn:E; [|reflexivity]. apply read_as_ref_kind in E. congruence.
  - destruct (read_conflict_const e) as [c|] eqn:E; [|reflexivity]. apply read_conflict_const_kind in E. congruence.
Qed.

Lemma not_conv_inherent e x : inherent_impl e = Some x -> item_kind e = Some "impl" -> not_conv e.
Proof.
  intros Hi Hk. split.
  - destruct (read_as_ref e) as [ci|] eqn:E; [|reflexivity]. apply read_as_ref_not_inherent in E. congruence.
  - destruct (read_conflict_const e) as [c|] eqn:E; [|reflexivity]. apply read_conflict_const_kind in E. congruence.
Qed.

Lemma all_somes_not_conv {B} (f : sexp -> option B) l : Forall (fun e => f e = None) l -> all_somes f l = [].
Proof. apply all_somes_none. Qed.

Theorem build_type_conversions R fuel p size alignment v td items :
  build_type R fuel p size alignment v td = Ok items ->
  exists name s mid conv,
    path_last p = Some name /\ items = s :: mid ++ conv /\
    struct_shape name alignment v td s /\
    conversions R fuel name td = Ok conv /\
    Forall not_conv (s :: mid) /\
    all_somes read_as_ref items = all_somes read_as_ref conv /\
    all_somes read_conflict_const items = all_somes read_conflict_const conv.
Proof.
  intros H. destruct (build_type_struct_shape _ _ _ _ _ _ _ _ H) as (name & s0 & checks0 & rest0 & Hname & Hitems & Hsh & _ & _).
  unfold build_type in H. rewrite Hname in H. destruct (negb (ident_ok name)); [discriminate|].
  apply bind_ok in H as (fields & _ & H). destruct (negb (ident_ok _)); [discriminate|].
  apply bind_ok in H as (acc & _ & H). apply bind_ok in H as (assoc & _ & H).
  apply bind_ok in H as (vfns & _ & H). apply bind_ok in H as (conv & Hconv & H).
  inversion H as [Hi]; clear H. rewrite <- Hi in Hitems. apply head_eq in Hitems as [Hs _]. subst s0.
  set (s := SList (Atom "struct" :: _)) in *.
  set (mid := size_check name size ++
              match td_singleton td with Some a => [singleton_struct_impl name v a] | None => [] end ++
              [impl_sexp (Atom "notrait") name (acc ++ assoc ++ vfns)]).
  assert (Forall not_conv (s :: mid)) as Hnc.
  { constructor.
    - apply (not_conv_kind s "struct"); [reflexivity | discriminate | discriminate].
    - unfold mid. apply Forall_app. split; [|apply Forall_app; split].
      + unfold size_check. destruct (N.eqb size 0); [constructor|]. constructor; [|constructor].
        eapply not_conv_kind; [apply fn_sexp_kind | discriminate | discriminate].
      + destruct (td_singleton td); [|constructor]. constructor; [|constructor].
        eapply not_conv_inherent; [apply inherent_impl_printed | reflexivity].
      + constructor; [|constructor]. eapply not_conv_inherent; [apply inherent_impl_printed | reflexivity]. }
  exists name, s, mid, conv. split; [exact Hname|]. split.
  { unfold mid. cbn [app]. rewrite <- !app_assoc. reflexivity. }
  split; [exact Hsh|]. split; [exact Hconv|]. split; [exact Hnc|].
  match goal with |- all_somes read_as_ref ?l = _ /\ _ =>
    assert (l = (s :: mid) ++ conv) as -> by (unfold mid; cbn [app]; rewrite <- !app_assoc; reflexivity) end.
  rewrite !all_somes_app.
  rewrite (all_somes_none read_as_ref (s :: mid)), (all_somes_none read_conflict_const (s :: mid)); [auto| |].
  - revert Hnc. apply Forall_impl. intros e [_ X]. exact X.
  - revert Hnc. apply Forall_impl. intros e [X _]. exact X.
Qed.

(** ** whole build *)
Theorem emitted_conversions_whole_build order ptr mods st0 st files p it0 gd td0 :
  input_state ptr mods = Ok st0 -> NoDup (map fst mods) -> collision_free (st_reg st0) ->
  keeps_work order ->
  pyxis_resolve order ptr mods = BOk st -> write_all st = Ok files ->
  reg_get (st_reg st0) p = Some it0 -> it_state it0 = Unresolved gd -> gi_inner gd = GIType td0 ->
  path_parent p <> Some [] ->
  exists parent name it r td f pre s mid conv post h,
    (* the item, resolved, in the final registry *)
    path_parent p = Some parent /\ path_last p = Some name /\
    reg_get (st_reg st) p = Some it /\ it_state it = Resolved r /\ rs_inner r = IType td /\
    (* the file of its module: THE struct of the type, its other items, its conversions *)
    In (out_path parent, f) files /\
    file_items f = Some (pre ++ (s :: mid ++ conv) ++ post) /\
    find_struct name (pre ++ (s :: mid ++ conv) ++ post) = Some s /\
    struct_shape name (rs_align r) (it_vis it0) td s /\
    Forall not_conv (s :: mid) /\
    (* the hierarchy of the spec, in the FINAL registry *)
    bases_of (st_reg st) td [] h /\
    conversions (st_reg st) (S (List.length (reg_types (st_reg st)))) name td = Ok conv /\
    forallb (fun x => forallb ident_ok (fst x)) h = true /\
    forallb (fun x => stype_ok (snd x)) h = true /\
    (* what is read from the items of the type *)
    all_somes read_as_ref (s :: mid ++ conv) = base_impls name h ++ refl_impls name /\
    all_somes read_conflict_const (s :: mid ++ conv) = spec_conflicts name h /\
    Forall conv_item conv /\
    (* the sub-objects the hierarchy names, and their offsets in the final registry *)
    Forall (fun x => exists off, sub_at (st_reg st) (td_regions td) (fst x) off (snd x)) h /\
    (hier_ok (st_reg st) (td_regions td) ->
     Forall (fun x => exists off,
               sub_at (st_reg st) (td_regions td) (fst x) off (snd x) /\
               place_offset (st_reg st) td (fst x) = Some (off, Some (snd x)) /\
               forall self, place_addr (st_reg st) td self (fst x) = Some (self + off)%N) h).
Proof.
  intros Hin HN Hcf Hord Hres Hw Hg0 Hs0 Hty Hroot.
  destruct (accepted_declared_item _ _ _ _ _ _ _ _ Hin HN Hcf Hord Hres Hg0 Hs0)
    as (it & r & parent & m & Hg & Hs & Hpath & Hvis & Hcat & Hpar & Hmod & Hdef & HK & Hnd & Hparents).
  destruct (whole_build_layout _ _ _ _ _ _ _ _ _ _ _ Hin Hcf Hres Hg0 Hs0 Hty Hg Hs) as (td & Hi & _).
  assert (parent <> []) as Hne by (intros ->; contradiction).
  destruct (write_all_in _ _ _ _ Hw Hmod Hne) as (f & Hf & Hfile).
  destruct (module_file_items _ _ _ _ _ Hf Hdef Hg) as (pre0 & its & post0 & Hb & _).
  assert (item_resolved it = Some r) as Hr by (unfold item_resolved; now rewrite Hs).
  pose proof Hb as Hb'. unfold build_item in Hb'. rewrite Hr, Hcat, Hi in Hb'.
  destruct (build_type_conversions _ _ _ _ _ _ _ _ Hb')
    as (name & s & mid & conv & Hname & -> & Hshape & Hconv & Hnc & Ha & Hc).
  rewrite Hpath in Hname. rewrite Hvis in Hshape.
  destruct (module_file_find_struct _ _ _ _ _ _ _ _ _ Hf HK Hnd Hparents Hdef Hg Hname Hb
              (struct_shape_is_named _ _ _ _ _ Hshape)) as (pre & post & Hitems & _ & Hfind).
  destruct (conversions_read _ _ _ _ _ Hconv) as (h & Hh & _ & Hid & Hok & A & B & C).
  exists parent, name, it, r, td, f, pre, s, mid, conv, post, h.
  split; [exact Hpar|]. split; [exact Hname|]. split; [exact Hg|]. split; [exact Hs|]. split; [exact Hi|].
  split; [exact Hfile|]. split; [exact Hitems|]. split; [exact Hfind|]. split; [exact Hshape|].
  split; [exact Hnc|]. split; [exact Hh|]. split; [exact Hconv|]. split; [exact Hid|]. split; [exact Hok|].
  split; [now rewrite Ha|]. split; [now rewrite Hc|]. split; [exact C|].
  split; [now apply hierarchy_sub_at|]. intros Hwf. now apply hierarchy_path_offset.
Qed.

(** ** offsets, whole build *)
(** the regions of every declared type of an accepted build are sized in the FINAL registry *)
Theorem whole_build_regions_sized order ptr mods st0 st p it0 gd td0 it r td :
  input_state ptr mods = Ok st0 -> collision_free (st_reg st0) ->
  pyxis_resolve order ptr mods = BOk st ->
  reg_get (st_reg st0) p = Some it0 -> it_state it0 = Unresolved gd -> gi_inner gd = GIType td0 ->
  reg_get (st_reg st) p = Some it -> it_state it = Resolved r -> rs_inner r = IType td ->
  Forall (fun rg => size_of (st_reg st) (r_type rg) <> None) (td_regions td).
Proof.
  intros Hin Hcf Hres Hg0 Hs0 Hty Hg Hs Hi.
  destruct (pyxis_resolve_items _ _ _ _ _ Hin Hcf Hres) as (_ & Hall).
  destruct (Hall _ _ _ _ _ Hg0 Hs0 Hg Hs) as (m & m' & _ & Hat & _ & Hext & _).
  unfold attempt in Hat. rewrite Hty in Hat.
  destruct (type_build_inv _ _ _ _ _ _ Hat) as
      (parent & module & doc & ta & n & pending & vfs & regions & vt & size & funcs & A &
       _ & _ & _ & _ & Hrr & _ & Hr).
  assert (td_regions td = regions) as Hregs by (subst r; cbn in Hi; inversion Hi; reflexivity).
  pose proof (resolve_regions_sizes _ _ _ _ _ _ _ _ _ _ Hrr) as Hsized. rewrite <- Hregs in Hsized.
  revert Hsized. apply Forall_impl. intros rg Hrg.
  destruct (size_of (st_reg m') (r_type rg)) as [sz|] eqn:E; [|congruence].
  rewrite (size_of_ext _ _ _ Hext _ _ E). discriminate.
Qed.

(** a type the input declares (unresolved in the input state) *)
Definition declared_type (st0 : sstate) (t : stype) : Prop :=
  exists bp it0 gd td0, t = TRaw bp /\ reg_get (st_reg st0) bp = Some it0 /\
                        it_state it0 = Unresolved gd /\ gi_inner gd = GIType td0.

(** for a declared type whose hierarchy consists of declared types, in an accepted build: when the
    field names of the type and of the types of its hierarchy are distinct (else the emitted struct
    has two fields of one name), the place every conversion borrows exists and is at the
    sub-object's actual offset, in the FINAL registry *)
Theorem conversions_offsets_whole_build order ptr mods st0 st p it0 gd td0 it r td h :
  input_state ptr mods = Ok st0 -> collision_free (st_reg st0) ->
  pyxis_resolve order ptr mods = BOk st ->
  reg_get (st_reg st0) p = Some it0 -> it_state it0 = Unresolved gd -> gi_inner gd = GIType td0 ->
  reg_get (st_reg st) p = Some it -> it_state it = Resolved r -> rs_inner r = IType td ->
  bases_of (st_reg st) td [] h ->
  Forall (fun x => declared_type st0 (snd x)) h ->
  NoDup (region_names (td_regions td)) ->
  Forall (fun x => forall bp btd, snd x = TRaw bp -> typedef_of (st_reg st) bp = Some btd ->
                                  NoDup (region_names (td_regions btd))) h ->
  hier_ok (st_reg st) (td_regions td) /\
  Forall (fun x => exists off,
            sub_at (st_reg st) (td_regions td) (fst x) off (snd x) /\
            place_offset (st_reg st) td (fst x) = Some (off, Some (snd x)) /\
            forall self, place_addr (st_reg st) td self (fst x) = Some (self + off)%N) h.
Proof.
  intros Hin Hcf Hres Hg0 Hs0 Hty Hg Hs Hi Hh Hdecl Hnd Hnds.
  assert (hier_ok (st_reg st) (td_regions td)) as Hok.
  { eapply hier_ok_of_entries; [exact Hh| |].
    - split; [eapply whole_build_regions_sized; eauto | exact Hnd].
    - rewrite Forall_forall in *. intros x Hx bp btd Ex Htd.
      destruct (Hdecl _ Hx) as (bp' & itb0 & gdb & tdb0 & Ex' & Hgb0 & Hsb0 & Htyb).
      rewrite Ex in Ex'. inversion Ex'; subst bp'.
      pose proof Htd as Htd'.
      unfold typedef_of in Htd. destruct (reg_get (st_reg st) bp) as [itb|] eqn:Egb; [|discriminate].
      unfold item_resolved in Htd. destruct (it_state itb) as [?|rb] eqn:Esb; [discriminate|].
      destruct (rs_inner rb) as [tdb|] eqn:Eib; [|discriminate]. inversion Htd; subst tdb.
      split; [eapply (whole_build_regions_sized _ _ _ _ _ bp); eauto | eapply Hnds; eauto]. }
  split; [exact Hok | now apply hierarchy_path_offset].
Qed.

Print Assumptions build_type_conversions.
Print Assumptions emitted_conversions_whole_build.
Print Assumptions conversions_offsets_whole_build.
