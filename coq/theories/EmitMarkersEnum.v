(** * EmitMarkersEnum: C17 on the emitted ENUM, in terms of the declaration (Part 3 of EmitMarkers.v).

    For every enum the input declares, in every accepted, [collision_free] build whose files are
    written: THE enum of that name in the file of the declaring module ([find_enum]) has the
    declared visibility; its derive list is the fixed [PartialEq, Eq, PartialOrd, Ord, Debug]
    followed by [Copy, Clone] / [Clone] / [Default] as the declared markers say; its doc lines are
    the ones written on the enum, in order; it carries no other attribute than [repr(<base>)],
    that derive and those doc lines; and its variants carry no doc line (the back end prints only
    [#[default]] on a variant). *)
From Coq Require Import List NArith ZArith Bool Lia String Permutation.
From PyxisModel Require Import Base Sexp Grammar SemTypes Registry Sem SemLemmas FunctionLemmas
     ScopeLemmas PlacementLemmas TotalityLemmas Emit EmitLemmas WholeBuild WholeBuildMore FinalState
     EnumLemmas EmitReaders EmitShape EmitFinal EmitFind EmitMarkers.
Import ListNotations.
Local Open Scope string_scope.
Local Open Scope list_scope.

(** ** looking an item up by name, generically *)
Lemma module_file_find_gen (named : string -> sexp -> bool) st m f parent name p it s its' :
  (forall it1 its1 n e,
     build_item (st_reg st) (S (List.length (reg_types (st_reg st)))) it1 = Ok its1 -> In e its1 ->
     named n e = true -> path_last (it_path it1) = Some n) ->
  (forall txt, named name (SList [Atom "opaque"; Str txt]) = false) ->
  module_file st m = Ok f ->
  keyed (st_reg st) -> NoDup (m_defpaths m) ->
  (forall q, In q (m_defpaths m) -> path_parent q = Some parent) ->
  In p (m_defpaths m) -> reg_get (st_reg st) p = Some it -> path_last p = Some name ->
  build_item (st_reg st) (S (List.length (reg_types (st_reg st)))) it = Ok (s :: its') ->
  named name s = true ->
  exists pre post,
    file_items f = Some (pre ++ (s :: its') ++ post) /\
    Forall (fun e => named name e = false) pre /\
    find (named name) (pre ++ (s :: its') ++ post) = Some s.
Proof.
  intros Hnames Hopq H HK HN Hpar Hp Hg Hname Hb Hs.
  destruct (module_file_shape _ _ _ H) as (items & evs & Hitems & _ & ->).
  pose proof (module_definitions_in _ _ _ _ Hp Hg) as Hin.
  pose proof (module_definitions_nodup (st_reg st) m HK HN) as Hnd.
  destruct (in_split _ _ Hin) as (l1 & l2 & Hl). rewrite Hl in Hitems, Hnd.
  destruct (mapM_app_inv _ _ _ _ _ Hitems) as (o1 & b & o2 & H1 & Hb' & _ & ->).
  rewrite Hb in Hb'. inversion Hb'; subst b. clear Hb'.
  assert (~ In it l1) as Hnot.
  { apply NoDup_remove_2 in Hnd. intros X. apply Hnd. apply in_or_app. now left. }
  assert (Forall (fun e => named name e = false) (List.concat o1)) as Hpre.
  { apply Forall_forall. intros e He. apply in_concat in He as (its1 & Hits1 & He).
    destruct (named name e) eqn:En; [exfalso|reflexivity].
    pose proof (mapM_ok _ _ _ H1) as F2.
    assert (exists it1, In it1 l1 /\ build_item (st_reg st) (S (List.length (reg_types (st_reg st)))) it1 = Ok its1)
      as (it1 & Hit1 & Hb1).
    { clear -F2 Hits1. induction F2 as [|x y l l' Hxy _ IH]; [destruct Hits1|].
      destruct Hits1 as [<-|Hi]; [exists x; split; [now left | exact Hxy]|].
      destruct (IH Hi) as (it1 & A & B). exists it1. split; [now right | exact B]. }
    pose proof (Hnames _ _ _ _ Hb1 He En) as Hlast.
    assert (In it1 (module_definitions (st_reg st) m)) as Hin1 by (rewrite Hl; apply in_or_app; now left).
    destruct (module_definitions_from _ _ _ Hin1) as (q & Hq & Hgq).
    pose proof (HK _ _ Hgq) as Hkq. rewrite Hkq in Hlast.
    assert (q = p) as ->.
    { rewrite (path_parent_last _ _ _ (Hpar _ Hq) Hlast), (path_parent_last _ _ _ (Hpar _ Hp) Hname). reflexivity. }
    rewrite Hg in Hgq. inversion Hgq; subst it1. contradiction. }
  exists (SList [Atom "opaque"; Str (prologue_text m)] :: List.concat o1),
         (List.concat o2 ++ evs ++ [SList [Atom "opaque"; Str (epilogue_text m)]]).
  assert (Forall (fun e => named name e = false)
                 (SList [Atom "opaque"; Str (prologue_text m)] :: List.concat o1)) as Hpre'.
  { constructor; [apply Hopq | exact Hpre]. }
  split; [|split; [exact Hpre'|]].
  - unfold file_items. cbn [tagged String.eqb Ascii.eqb Bool.eqb app].
    rewrite concat_app. cbn [List.concat]. now rewrite <- !app_assoc.
  - rewrite (find_app_skip _ _ _ Hpre'). cbn [app find]. now rewrite Hs.
Qed.

(** ** enums by name *)
Definition is_enum_named (name : string) (e : sexp) : bool :=
  match enum_name e with Some n => String.eqb n name | None => false end.
Definition find_enum (name : string) (items : list sexp) : option sexp := find (is_enum_named name) items.

Lemma not_enum_kind e k : item_kind e = Some k -> k <> "enum" -> forall n, is_enum_named n e = false.
Proof.
  intros Hk Hne n. unfold is_enum_named, enum_name, item_parts.
  destruct e as [|?|[|[k'| |] [|a [|b [|[nm| |] ms]]]]]; try reflexivity.
  cbn in Hk. inversion Hk; subst k'. destruct (String.eqb_spec k "enum"); [contradiction | reflexivity].
Qed.

Lemma Forall_not_enum l n :
  Forall (fun e => exists k, item_kind e = Some k /\ k <> "enum") l ->
  Forall (fun e => is_enum_named n e = false) l.
Proof. apply Forall_impl. intros e (k & Hk & Hne). eapply not_enum_kind; eauto. Qed.

Lemma checks_not_enum name size checks n :
  size_check_shape name size checks -> Forall (fun e => is_enum_named n e = false) checks.
Proof.
  intros [[_ ->]|(_ & c & -> & Hk & _)]; [constructor|].
  apply Forall_not_enum. constructor; [|constructor]. exists "fn". split; [exact Hk | discriminate].
Qed.

Lemma rest_not_enum rest n :
  Forall is_impl_or_const rest -> Forall (fun e => is_enum_named n e = false) rest.
Proof.
  intros H. apply Forall_not_enum. eapply Forall_impl; [|exact H].
  intros e [Hk|Hk]; eexists; (split; [exact Hk | discriminate]).
Qed.

Lemma build_item_enum_names R fuel it its n e :
  build_item R fuel it = Ok its -> In e its -> is_enum_named n e = true ->
  path_last (it_path it) = Some n.
Proof.
  intros H Hin Hn. unfold build_item in H.
  destruct (item_resolved it) as [rs|] eqn:Er; [|discriminate].
  destruct (it_cat it) eqn:Ec; try (inversion H; subst its; destruct Hin).
  destruct (rs_inner rs) as [td|ed] eqn:Ei.
  - exfalso.
    destruct (build_type_struct_shape _ _ _ _ _ _ _ _ H) as (name & s & checks & rest & Hname & -> & Hsh & Hck & Hrest).
    destruct Hin as [<-|Hin].
    + destruct Hsh as [Hk _ _ _ _ _ _]. rewrite (not_enum_kind _ _ Hk) in Hn; discriminate.
    + apply in_app_or in Hin as [Hin|Hin].
      * pose proof (checks_not_enum _ _ _ n Hck) as F. rewrite Forall_forall in F. rewrite (F _ Hin) in Hn. discriminate.
      * pose proof (rest_not_enum _ n Hrest) as F. rewrite Forall_forall in F. rewrite (F _ Hin) in Hn. discriminate.
  - destruct (build_enum_shape _ _ _ _ _ H) as (name & en & checks & rest & Hname & -> & Hsh & Hck & Hrest).
    destruct Hin as [<-|Hin].
    + destruct Hsh as [_ Hsn _ _ _ _ _]. unfold is_enum_named in Hn. rewrite Hsn in Hn.
      apply String.eqb_eq in Hn. now subst.
    + exfalso. apply in_app_or in Hin as [Hin|Hin].
      * pose proof (checks_not_enum _ _ _ n Hck) as F. rewrite Forall_forall in F. rewrite (F _ Hin) in Hn. discriminate.
      * pose proof (rest_not_enum _ n Hrest) as F. rewrite Forall_forall in F. rewrite (F _ Hin) in Hn. discriminate.
Qed.

(** ** the attempt: doc of an accepted enum *)
Lemma enum_build_doc st owner d r :
  enum_build st owner d = Ok r -> exists ed, rs_inner r = IEnum ed /\ attrs_doc (ged_attrs d) = Ok (ed_doc ed).
Proof.
  unfold enum_build. intros H.
  destruct (path_parent owner) as [parent|]; [|discriminate].
  destruct (alookup parent (st_modules st)) as [module|]; [|discriminate].
  destruct (resolve_gtype _ _ _) as [ty|]; [|discriminate].
  destruct (size_of _ ty) as [size|]; [|discriminate].
  inv_bind H. rename a into cases. inv_bind H. rename a into doc. inv_bind H. rename a into ea.
  destruct (ea_defaultable ea); destruct (snd cases); try discriminate;
    (destruct (align_of _ ty) as [al|]; [|discriminate]; inversion H; subst r;
     eexists; split; [reflexivity | exact Ha0]).
Qed.

(** ** variants: the doc lines a variant carries *)
Definition read_variant_docs (e : sexp) : option (list string) :=
  match e with
  | SList [Atom k; attrs; Atom n; disc] =>
    if String.eqb k "variant" then option_map (all_somes read_doc_attr) (tagged "attrs" attrs) else None
  | _ => None
  end.
Definition enum_variant_docs (e : sexp) : option (list (list string)) :=
  match item_parts "enum" e with Some x => read_all read_variant_docs (parts_members x) | None => None end.

Lemma enum_variants_no_docs : forall fs idx di vars,
  enum_variants fs idx di = Ok vars ->
  read_all read_variant_docs vars = Some (map (fun _ => []) fs).
Proof.
  induction fs as [|[n z] fs IH]; intros idx di vars H; cbn [enum_variants] in H.
  - inversion H; subst. reflexivity.
  - destruct (negb (ident_ok n)); [discriminate|]. inv_bind H. inversion H; subst vars; clear H.
    cbn [read_all map]. rewrite (IH _ _ _ Ha).
    destruct (match di with Some i => Nat.eqb i idx | None => false end); reflexivity.
Qed.

Lemma build_enum_attrs p size v ed e rest :
  build_enum p size v ed = Ok (e :: rest) ->
  enum_attrs e = Some ([attr_outer [tk "repr"; paren (type_tokens (ed_type ed))]] ++
                       derive_attr enum_base_derives (ed_copyable ed) (ed_cloneable ed) (ed_defaultable ed) ++
                       doc_attrs (ed_doc ed)) /\
  enum_variant_docs e = Some (map (fun _ => []) (ed_fields ed)).
Proof.
  unfold build_enum. intros H. destruct (path_last p) as [name|]; [|discriminate].
  destruct (negb (ident_ok name)); [discriminate|]. destruct (negb (stype_ok _)); [discriminate|].
  destruct (negb (ident_ok _)); [discriminate|]. inv_bind H. inversion H; subst e. clear H.
  unfold enum_attrs, enum_variant_docs. rewrite item_parts_printed. split; [reflexivity|].
  cbn [parts_members snd]. eapply enum_variants_no_docs; eauto.
Qed.

(** what is known of a declared enum in an accepted build whose files are written *)
Lemma emitted_enum_master order ptr mods st0 st files p it0 gd ed0 :
  input_state ptr mods = Ok st0 -> NoDup (map fst mods) -> collision_free (st_reg st0) ->
  keeps_work order ->
  pyxis_resolve order ptr mods = BOk st -> write_all st = Ok files ->
  reg_get (st_reg st0) p = Some it0 -> it_state it0 = Unresolved gd -> gi_inner gd = GIEnum ed0 ->
  path_parent p <> Some [] ->
  exists parent name it r ed f pre e rest post,
    path_parent p = Some parent /\ path_last p = Some name /\
    reg_get (st_reg st) p = Some it /\ it_state it = Resolved r /\ rs_inner r = IEnum ed /\
    attrs_doc (ged_attrs ed0) = Ok (ed_doc ed) /\
    List.length (ed_fields ed) = List.length (ged_stmts ed0) /\
    build_enum p (rs_size r) (gi_vis gd) ed = Ok (e :: rest) /\
    In (out_path parent, f) files /\
    file_items f = Some (pre ++ (e :: rest) ++ post) /\
    find_enum name (pre ++ (e :: rest) ++ post) = Some e /\
    enum_shape name (gi_vis gd) ed e.
Proof.
  intros Hin HN Hcf Hord Hres Hw Hg0 Hs0 Hty Hroot.
  destruct (accepted_declared_item _ _ _ _ _ _ _ _ Hin HN Hcf Hord Hres Hg0 Hs0)
    as (it & r & parent & m & Hg & Hs & Hpath & Hvis & Hcat & Hpar & Hmod & Hdef & HK & Hnd & Hparents).
  destruct (whole_build_enum _ _ _ _ _ _ _ _ _ _ _ Hin Hcf Hres Hg0 Hs0 Hty Hg Hs) as (sm & _ & _ & Hbuild).
  destruct (enum_build_doc _ _ _ _ Hbuild) as (ed & Hi & Hdoc).
  destruct (enum_build_spec _ _ _ _ Hbuild) as (ed' & es & module & Hi' & _ & _ & _ & _ & _ & _ & Hlen & _).
  rewrite Hi in Hi'. inversion Hi'; subst ed'. clear Hi'.
  assert (parent <> []) as Hne by (intros ->; contradiction).
  destruct (write_all_in _ _ _ _ Hw Hmod Hne) as (f & Hf & Hfile).
  destruct (module_file_items _ _ _ _ _ Hf Hdef Hg) as (pre0 & its & post0 & Hb & _).
  assert (item_resolved it = Some r) as Hr by (unfold item_resolved; now rewrite Hs).
  destruct (build_item_enum_shape _ _ _ _ _ _ Hr Hcat Hi Hb)
    as (name & e & checks & rest & Hname & -> & Hshape & _ & _).
  rewrite Hpath in Hname. rewrite Hvis, (input_state_vis _ _ _ _ _ _ Hin Hg0 Hs0) in Hshape.
  assert (is_enum_named name e = true) as Hnamed.
  { unfold is_enum_named. rewrite (es_name _ _ _ _ Hshape). apply String.eqb_refl. }
  destruct (module_file_find_gen is_enum_named _ _ _ _ _ _ _ _ _
              (fun it1 its1 n e1 => build_item_enum_names _ _ it1 its1 n e1) (fun _ => eq_refl)
              Hf HK Hnd Hparents Hdef Hg Hname Hb Hnamed) as (pre & post & Hitems & _ & Hfind).
  unfold build_item in Hb. rewrite Hr, Hcat, Hi, Hpath, Hvis, (input_state_vis _ _ _ _ _ _ Hin Hg0 Hs0) in Hb.
  exists parent, name, it, r, ed, f, pre, e, (checks ++ rest), post.
  repeat (split; [assumption|]). exact Hshape.
Qed.

(** ** Part 3 (ENUM) *)
Theorem C17_emitted_enum order ptr mods st0 st files p it0 gd ed0 :
  input_state ptr mods = Ok st0 -> NoDup (map fst mods) -> collision_free (st_reg st0) ->
  keeps_work order ->
  pyxis_resolve order ptr mods = BOk st -> write_all st = Ok files ->
  reg_get (st_reg st0) p = Some it0 -> it_state it0 = Unresolved gd -> gi_inner gd = GIEnum ed0 ->
  path_parent p <> Some [] ->
  exists parent name f items e al docs vdocs,
    (* THE enum of that name in the file of the declaring module *)
    path_parent p = Some parent /\ path_last p = Some name /\
    In (out_path parent, f) files /\ file_items f = Some items /\ find_enum name items = Some e /\
    (* public exactly when declared pub *)
    enum_vis e = Some (gi_vis gd) /\
    (* the fixed five, then Copy and Clone / Clone only / Default as declared *)
    enum_derives e = Some (enum_base_derives ++ declared_derives (ged_attrs ed0)) /\
    (* the doc lines written on the enum, in order *)
    enum_docs e = Some docs /\ docs_as_declared (ged_attrs ed0) docs /\
    (* no other attribute: one repr, one derive, the doc lines *)
    enum_attrs e = Some al /\ List.length al = (2 + List.length docs)%nat /\
    (* one variant per declared case, none with a doc line *)
    enum_variant_docs e = Some vdocs /\ List.length vdocs = List.length (ged_stmts ed0) /\
    Forall (fun d => d = []) vdocs.
Proof.
  intros Hin HN Hcf Hord Hres Hw Hg0 Hs0 Hty Hroot.
  destruct (emitted_enum_master _ _ _ _ _ _ _ _ _ _ Hin HN Hcf Hord Hres Hw Hg0 Hs0 Hty Hroot)
    as (parent & name & it & r & ed & f & pre & e & rest & post &
        Hpar & Hname & Hg & Hs & Hi & Hdoc & Hlen & Hb & Hfile & Hitems & Hfind & Hshape).
  destruct (C17_whole_build_enum_markers _ _ _ _ _ _ _ _ _ _ _ Hin Hcf Hres Hg0 Hs0 Hty Hg Hs)
    as (ed' & Hi' & Hc & Hcl & Hd).
  rewrite Hi in Hi'. inversion Hi'; subst ed'. clear Hi'.
  destruct (build_enum_attrs _ _ _ _ _ _ Hb) as (Hattrs & Hvd).
  exists parent, name, f, (pre ++ (e :: rest) ++ post), e. eexists. exists (doc_lines (ed_doc ed)). eexists.
  split; [exact Hpar|]. split; [exact Hname|]. split; [exact Hfile|]. split; [exact Hitems|]. split; [exact Hfind|].
  split; [apply Hshape|].
  split; [rewrite (es_derives _ _ _ _ Hshape); unfold declared_derives; now rewrite Hc, Hcl, Hd|].
  split; [apply Hshape|]. split; [now apply docs_of_attrs_doc|].
  split; [exact Hattrs|]. split.
  { rewrite !app_length, derive_attr_length, doc_attrs_length. cbn [List.length app enum_base_derives]. lia. }
  split; [exact Hvd|]. split; [now rewrite map_length|].
  apply Forall_forall. intros d0 Hd0. apply in_map_iff in Hd0 as (x & <- & _). reflexivity.
Qed.

Print Assumptions C17_emitted_enum.
