(** * Lemmas about RustLayout: when pyxis's checks pass, repr(C) adds no padding of its own. *)
From Coq Require Import List NArith ZArith Bool Lia ZifyBool ZifyN.
From PyxisModel Require Import RustLayout.
Import ListNotations.
Local Open Scope N_scope.
Ltac Zify.zify_post_hook ::= Z.div_mod_to_equations.
Arguments N.add : simpl never. Arguments N.mul : simpl never.
Arguments N.modulo : simpl never. Arguments N.div : simpl never.

(** pyxis's per-field check, abstractly: every running offset is a multiple of the field's alignment *)
Fixpoint aligned_from (cur : N) (fs : list sa) : bool :=
  match fs with
  | [] => true
  | (sz, al) :: r => negb (al =? 0) && (cur mod al =? 0) && aligned_from (cur + sz) r
  end.

Lemma place_ok : forall fs cur m, aligned_from cur fs = true ->
  Forall (fun f => snd f <= m) fs ->
  place cur m fs = (prefix_sums cur fs, total cur fs, m).
Proof.
  induction fs as [|[sz al] r IH]; intros cur m Ha Hf; cbn [place prefix_sums total]; [reflexivity|].
  cbn [aligned_from] in Ha. apply andb_prop in Ha as [H1 H2]. apply andb_prop in H1 as [H0 H1].
  inversion Hf as [|? ? Hle Hr]; subst. cbn [snd] in *.
  unfold round_up. rewrite H1. rewrite N.max_l by lia. rewrite (IH _ _ H2 Hr). reflexivity.
Qed.

(** The central layout fact.  No power-of-two assumption is needed. *)
Theorem regions_layout : forall fs A, aligned_from 0 fs = true ->
  Forall (fun f => snd f <= A) fs -> (total 0 fs) mod A = 0 ->
  struct_layout A fs = (prefix_sums 0 fs, total 0 fs, A).
Proof.
  intros fs A Ha Hf Hs. unfold struct_layout. rewrite (place_ok _ _ _ Ha Hf).
  unfold round_up. rewrite Hs. reflexivity.
Qed.

Lemma aligned_from_ones : forall fs cur, aligned_from cur (map (fun f : sa => (fst f, 1)) fs) = true.
Proof.
  induction fs as [|[sz al] r IH]; intros cur; cbn [map aligned_from fst]; [reflexivity|].
  rewrite IH. rewrite N.mod_1_r. reflexivity.
Qed.
Lemma prefix_sums_ones : forall fs cur,
  prefix_sums cur (map (fun f : sa => (fst f, 1)) fs) = prefix_sums cur fs.
Proof. induction fs as [|[sz al] r IH]; intros cur; cbn; [reflexivity|]. now rewrite IH. Qed.
Lemma total_ones : forall fs cur, total cur (map (fun f : sa => (fst f, 1)) fs) = total cur fs.
Proof. induction fs as [|[sz al] r IH]; intros cur; cbn; [reflexivity|]. now rewrite IH. Qed.

(** packed: offsets are the prefix sums whatever the field alignments are *)
Theorem packed_layout_sums : forall fs,
  packed_layout fs = (prefix_sums 0 fs, total 0 fs, 1).
Proof.
  intros fs. unfold packed_layout. rewrite regions_layout.
  - now rewrite prefix_sums_ones, total_ones.
  - apply aligned_from_ones.
  - apply Forall_forall. intros [s a] Hin. apply in_map_iff in Hin as [[s' a'] [E _]].
    inversion E; subst. cbn. lia.
  - apply N.mod_1_r.
Qed.

(** offsets are non-decreasing and fields do not overlap: offset k+1 = offset k + size k *)
Lemma prefix_sums_length fs : forall cur, length (prefix_sums cur fs) = length fs.
Proof. induction fs as [|[s a] r IH]; intros; cbn; [reflexivity|]. now rewrite IH. Qed.

Lemma prefix_sums_app : forall a b cur,
  prefix_sums cur (a ++ b) = prefix_sums cur a ++ prefix_sums (total cur a) b.
Proof. induction a as [|[s al] r IH]; intros b cur; cbn; [reflexivity|]. now rewrite IH. Qed.
Lemma total_app : forall a b cur, total cur (a ++ b) = total (total cur a) b.
Proof. induction a as [|[s al] r IH]; intros b cur; cbn; [reflexivity|]. now rewrite IH. Qed.
Lemma total_shift : forall fs cur, total cur fs = cur + total 0 fs.
Proof.
  induction fs as [|[s a] r IH]; intros cur; cbn [total]; [lia|].
  rewrite (IH (cur + s)), (IH (0 + s)). lia.
Qed.
