(** * S-expressions: the interchange format between harness, tools and model.
    Same grammar as /verif/harness/src/sexp.rs. *)
From PyxisModel Require Import Base.
Local Open Scope string_scope.

Inductive sexp : Type :=
| Atom (s : string)
| Str (s : string)
| SList (l : list sexp).

(** ** Printer *)
Definition hex_digit (n : N) : ascii :=
  ascii_of_N (if (n <? 10)%N then 48 + n else 87 + n).
Definition quote_char (c : ascii) : string :=
  let n := N_of_ascii c in
  if (n =? 34)%N then "\""" else
  if (n =? 92)%N then "\\" else
  if (n =? 10)%N then "\n" else
  if ((32 <=? n) && (n <=? 126))%N then String c "" else
  String "\" (String "x" (String (hex_digit (n / 16)) (String (hex_digit (n mod 16)) ""))).
Fixpoint quote_body (s : string) : string :=
  match s with
  | EmptyString => """"
  | String c r => quote_char c ++ quote_body r
  end.
Definition quote (s : string) : string := String """" (quote_body s).

Fixpoint print_sexp (e : sexp) : string :=
  match e with
  | Atom s => s
  | Str s => quote s
  | SList l =>
    "(" ++ (fix go (l : list sexp) : string :=
              match l with
              | [] => ")"
              | [x] => print_sexp x ++ ")"
              | x :: r => print_sexp x ++ String " " (go r)
              end) l
  end.

(** ** Reader *)
Inductive lexmode : Type :=
| MNorm
| MAtom (acc : list ascii)
| MStr (acc : list ascii)
| MEsc (acc : list ascii)
| MHex1 (acc : list ascii)
| MHex2 (acc : list ascii) (d : N).

Definition push_elem (e : sexp) (stack : list (list sexp)) : option (list (list sexp)) :=
  match stack with
  | top :: rest => Some ((e :: top) :: rest)
  | [] => None
  end.
Definition close_list (stack : list (list sexp)) : option (list (list sexp)) :=
  match stack with
  | top :: next :: rest => Some ((SList (rev top) :: next) :: rest)
  | _ => None
  end.
Definition hexval (c : ascii) : option N :=
  let n := N_of_ascii c in
  if ((48 <=? n) && (n <=? 57))%N then Some (n - 48)%N
  else if ((97 <=? n) && (n <=? 102))%N then Some (n - 87)%N
  else if ((65 <=? n) && (n <=? 70))%N then Some (n - 55)%N
  else None.
Definition is_space (c : ascii) : bool :=
  let n := N_of_ascii c in ((n =? 32) || (n =? 9) || (n =? 10) || (n =? 13))%N.
Definition atom_of (acc : list ascii) : sexp := Atom (string_of_list (rev acc)).

(** one step in normal mode (also used to finish an atom) *)
Definition norm_step (c : ascii) (stack : list (list sexp)) : option (lexmode * list (list sexp)) :=
  if is_space c then Some (MNorm, stack)
  else if Ascii.eqb c "(" then Some (MNorm, [] :: stack)
  else if Ascii.eqb c ")" then option_map (fun s => (MNorm, s)) (close_list stack)
  else if Ascii.eqb c """" then Some (MStr [], stack)
  else Some (MAtom [c], stack).

Fixpoint lex (s : string) (m : lexmode) (stack : list (list sexp)) : option (list sexp) :=
  match s with
  | EmptyString =>
    match m with
    | MNorm => match stack with [top] => Some (rev top) | _ => None end
    | MAtom acc => match push_elem (atom_of acc) stack with
                   | Some [top] => Some (rev top)
                   | _ => None
                   end
    | _ => None
    end
  | String c r =>
    match m with
    | MNorm => match norm_step c stack with Some (m', st') => lex r m' st' | None => None end
    | MAtom acc =>
      if is_space c || Ascii.eqb c "(" || Ascii.eqb c ")" || Ascii.eqb c """" then
        match push_elem (atom_of acc) stack with
        | Some st => match norm_step c st with Some (m', st') => lex r m' st' | None => None end
        | None => None
        end
      else lex r (MAtom (c :: acc)) stack
    | MStr acc =>
      if Ascii.eqb c """" then
        match push_elem (Str (string_of_list (rev acc))) stack with
        | Some st => lex r MNorm st
        | None => None
        end
      else if Ascii.eqb c "\" then lex r (MEsc acc) stack
      else lex r (MStr (c :: acc)) stack
    | MEsc acc =>
      if Ascii.eqb c "n" then lex r (MStr (newline :: acc)) stack
      else if Ascii.eqb c "\" then lex r (MStr (c :: acc)) stack
      else if Ascii.eqb c """" then lex r (MStr (c :: acc)) stack
      else if Ascii.eqb c "x" then lex r (MHex1 acc) stack
      else None
    | MHex1 acc => match hexval c with Some d => lex r (MHex2 acc d) stack | None => None end
    | MHex2 acc d => match hexval c with
                     | Some d2 => lex r (MStr (ascii_of_N (d * 16 + d2) :: acc)) stack
                     | None => None
                     end
    end
  end.

Definition parse_sexps (s : string) : option (list sexp) := lex s MNorm [[]].

(** ** Accessors *)
Definition tagged (tag : string) (e : sexp) : option (list sexp) :=
  match e with
  | SList (Atom t :: r) => if String.eqb t tag then Some r else None
  | _ => None
  end.
Fixpoint field (tag : string) (l : list sexp) : option (list sexp) :=
  match l with
  | [] => None
  | e :: r => match tagged tag e with Some x => Some x | None => field tag r end
  end.
Definition atom_N (e : sexp) : option N := match e with Atom s => N_of_dec s | _ => None end.
Definition atom_Z (e : sexp) : option Z := match e with Atom s => Z_of_dec s | _ => None end.
Definition get_str (e : sexp) : option string := match e with Str s => Some s | _ => None end.

Definition sN (n : N) : sexp := Atom (dec_of_N n).
Definition sZ (z : Z) : sexp := Atom (dec_of_Z z).
Definition stag (t : string) (l : list sexp) : sexp := SList (Atom t :: l).
