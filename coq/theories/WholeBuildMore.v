(** * End-to-end versions of C06 (vftable sharing), C07 (forwarded base functions) and C17 (markers).

    The per-attempt theorems of Properties/C06.v, C07.v, C17.v speak about one call of
    [type_build] in an arbitrary registry.  Here they are lifted, with [WholeBuild], to every
    accepted build: the conclusions are about the FINAL registry [st_reg st] of
    [pyxis_resolve order ptr mods = BOk st], for every schedule, pointer width and module list,
    under [input_state ptr mods = Ok st0] and [collision_free (st_reg st0)].

    What is new with respect to WholeBuild.v: the attempts of C06 and C07 look up the *contents* of
    the base items (their vftable, their associated functions), not only sizes.  [ext] keeps the
    contents of input items; for the items pyxis generates (the [XVftable] structs, which a user may
    name as the type of a [#[base]] field) this file carries one more invariant through the
    resolution loop, [gen_plain]: an item that is not of the input is a struct without associated
    functions and without vftable. *)
From Coq Require Import List NArith ZArith Bool Lia String.
From PyxisModel Require Import Base Sexp Grammar SemTypes Registry Sem RustLayout LayoutLemmas SemLemmas
     PlacementLemmas TotalityLemmas InheritLemmas EmitLemmas WholeBuild Examples.
From PyxisModel Require Import PerAttempt.
Import ListNotations.
Local Open Scope string_scope.
Local Open Scope list_scope.

(** ** one more invariant of the loop: generated items are plain structs *)
Definition plain_item (it : item) : Prop :=
  exists rs td, item_resolved it = Some rs /\ rs_inner rs = IType td /\
                td_assoc td = [] /\ td_vftable td = None.

Definition gen_plain (R0 R : registry) : Prop :=
  forall q it, reg_get R q = Some it -> reg_get R0 q = None -> plain_item it.

Lemma gen_plain_init R0 : gen_plain R0 R0.
Proof. intros q it Hg Hn. congruence. Qed.

Lemma vftable_item_plain R owner v fs vit : vftable_item R owner v fs = Some vit -> plain_item vit.
Proof.
  unfold vftable_item. destruct (vftable_path owner) as [vp|]; [|discriminate].
  intros H; inversion H; subst vit; clear H. unfold plain_item, item_resolved. cbn [it_state].
  eexists. eexists. split; [reflexivity|]. cbn [rs_inner td_assoc td_vftable]. auto.
Qed.

Lemma gen_plain_add R0 R it : gen_plain R0 R -> plain_item it -> gen_plain R0 (reg_add R it).
Proof.
  intros HJ Hp q itq Hq Hn. destruct (path_eqb_spec (it_path it) q) as [<-|Hne].
  - rewrite reg_get_add_same in Hq. inversion Hq; subst itq. exact Hp.
  - rewrite reg_get_add_other in Hq by exact Hne. eapply HJ; eauto.
Qed.

Lemma attempt_gen_plain R0 st p gd st' o :
  gen_plain R0 (st_reg st) -> attempt st p gd = (st', o) -> gen_plain R0 (st_reg st').
Proof.
  intros HJ H. unfold attempt in H. destruct (gi_inner gd) as [td|ed].
  - destruct (type_build_step _ _ _ _ _ _ H) as [->|v fs vit _ Hvi Hadd]; [exact HJ|].
    rewrite (add_item_reg _ _ _ Hadd). apply gen_plain_add; [exact HJ|].
    eapply vftable_item_plain; eauto.
  - inversion H; subst. exact HJ.
Qed.

Lemma set_resolved_gen_plain R0 st p it r :
  gen_plain R0 (st_reg st) -> keyed (st_reg st) -> reg_get (st_reg st) p = Some it ->
  reg_get R0 p <> None -> gen_plain R0 (st_reg (set_resolved st p r)).
Proof.
  intros HJ HK Hg Hin q itq Hq Hn. unfold set_resolved in Hq. rewrite Hg in Hq. cbn [st_reg] in Hq.
  rewrite reg_get_add_other in Hq; [eapply HJ; eauto|].
  cbn [it_path]. rewrite (HK _ _ Hg). intros E. subst q. congruence.
Qed.

(** ** the chain of WholeBuild.v once more, with [gen_plain] at the state of the attempt *)
Definition built2 (R0 : registry) (ms0 : list (path * smodule)) (st_a st_b : sstate) (p : path) (r : resolved) : Prop :=
  exists st_mid st_mid' it gd,
    ext R0 (st_reg st_a) (st_reg st_mid) /\
    (Inv R0 (st_reg st_mid) /\ keyed (st_reg st_mid) /\ mods_rel (st_modules st_mid) ms0 /\
     gen_plain R0 (st_reg st_mid)) /\
    reg_get (st_reg st_mid) p = Some it /\ it_state it = Unresolved gd /\
    attempt st_mid p gd = (st_mid', Ok r) /\ ext R0 (st_reg st_mid') (st_reg st_b).

Lemma built2_weaken R0 ms0 st_a st_a' st_b st_b' p r :
  ext R0 (st_reg st_a') (st_reg st_a) -> ext R0 (st_reg st_b) (st_reg st_b') ->
  built2 R0 ms0 st_a st_b p r -> built2 R0 ms0 st_a' st_b' p r.
Proof.
  intros Ha Hb (m & m' & it & gd & H1 & H2 & H3 & H4 & H5 & H6).
  exists m, m', it, gd.
  split; [eapply ext_trans; eauto|]. split; [exact H2|]. split; [exact H3|]. split; [exact H4|].
  split; [exact H5|]. eapply ext_trans; eauto.
Qed.

Lemma resolve_pass_built2 R0 ms0 : collision_free R0 -> forall ps st st',
  Inv R0 (st_reg st) -> keyed (st_reg st) -> mods_rel (st_modules st) ms0 -> gen_plain R0 (st_reg st) ->
  resolve_pass st ps = inl st' ->
  Inv R0 (st_reg st') /\ keyed (st_reg st') /\ mods_rel (st_modules st') ms0 /\ gen_plain R0 (st_reg st') /\
  ext R0 (st_reg st) (st_reg st') /\
  forall p r, reg_get R0 p <> None -> resolved_at st' p r -> resolved_at st p r \/ built2 R0 ms0 st st' p r.
Proof.
  intros Hcf. induction ps as [|p ps IH]; intros st st' HI HK HM HJ H; cbn [resolve_pass] in H.
  - inversion H; subst. split; [exact HI|]. split; [exact HK|]. split; [exact HM|]. split; [exact HJ|].
    split; [apply ext_refl|]. intros; now left.
  - destruct (reg_get (st_reg st) p) as [it|] eqn:Hg; [|discriminate].
    destruct (it_state it) as [gd|r0] eqn:Hs; [|now apply IH].
    destruct (attempt st p gd) as [st1 o] eqn:Hat.
    destruct (attempt_inv _ _ _ _ _ _ _ Hcf HI HK Hg Hs Hat) as (HI1 & HK1 & Hext1 & Hback1).
    pose proof (attempt_mods_rel _ _ _ _ _ _ HM Hat) as HM1.
    pose proof (attempt_gen_plain _ _ _ _ _ _ HJ Hat) as HJ1.
    destruct (Inv_unresolved _ _ _ _ _ HI Hg Hs) as (it0 & Hg0 & Hs0).
    assert (reg_get R0 p <> None) as Hp0 by congruence.
    assert (reg_get (st_reg st1) p = Some it) as Hg1 by (rewrite Hback1; [exact Hg | exact Hp0]).
    destruct o as [r| |m|m]; try discriminate.
    + destruct (set_resolved_inv R0 st1 p it gd r Hcf HI1 HK1 Hg1 Hs) as (HI2 & HK2 & Hext2 & (it2 & Hg2 & Hs2) & Hoth).
      assert (mods_rel (st_modules (set_resolved st1 p r)) ms0) as HM2 by (rewrite set_resolved_modules; exact HM1).
      pose proof (set_resolved_gen_plain R0 st1 p it r HJ1 HK1 Hg1 Hp0) as HJ2.
      destruct (IH _ _ HI2 HK2 HM2 HJ2 H) as (HI' & HK' & HM' & HJ' & Hext' & Hall).
      split; [exact HI'|]. split; [exact HK'|]. split; [exact HM'|]. split; [exact HJ'|].
      split; [eauto using ext_trans|].
      intros q r' Hq Hres. destruct (Hall _ _ Hq Hres) as [(itq & Hgq & Hsq)|Hb].
      * destruct (path_eqb_spec q p) as [->|Hne].
        -- right. rewrite Hg2 in Hgq. inversion Hgq; subst itq. rewrite Hs2 in Hsq. inversion Hsq; subst r'.
           exists st, st1, it, gd. split; [apply ext_refl|].
           split; [split; [exact HI | split; [exact HK | split; [exact HM | exact HJ]]]|].
           split; [exact Hg|]. split; [exact Hs|]. split; [exact Hat|]. eapply ext_trans; eauto.
        -- left. exists itq. split; [|exact Hsq]. rewrite Hoth in Hgq by exact Hne.
           rewrite Hback1 in Hgq by exact Hq. exact Hgq.
      * right. eapply built2_weaken; [| apply ext_refl | exact Hb]. eauto using ext_trans.
    + destruct (IH _ _ HI1 HK1 HM1 HJ1 H) as (HI' & HK' & HM' & HJ' & Hext' & Hall).
      split; [exact HI'|]. split; [exact HK'|]. split; [exact HM'|]. split; [exact HJ'|].
      split; [eauto using ext_trans|].
      intros q r' Hq Hres. destruct (Hall _ _ Hq Hres) as [(itq & Hgq & Hsq)|Hb].
      * left. exists itq. split; [|exact Hsq]. rewrite Hback1 in Hgq by exact Hq. exact Hgq.
      * right. eapply built2_weaken; [| apply ext_refl | exact Hb]. exact Hext1.
Qed.

Lemma resolve_loop_built2 R0 ms0 order : collision_free R0 -> forall fuel st st',
  Inv R0 (st_reg st) -> keyed (st_reg st) -> mods_rel (st_modules st) ms0 -> gen_plain R0 (st_reg st) ->
  resolve_loop order fuel st = BOk st' ->
  gen_plain R0 (st_reg st') /\ ext R0 (st_reg st) (st_reg st') /\
  forall p r, reg_get R0 p <> None -> resolved_at st' p r -> resolved_at st p r \/ built2 R0 ms0 st st' p r.
Proof.
  intros Hcf. induction fuel as [|fuel IH]; intros st st' HI HK HM HJ H; cbn [resolve_loop] in H; [discriminate|].
  destruct (order (reg_unresolved (st_reg st))) as [|p0 ps] eqn:Eo.
  - inversion H; subst. split; [exact HJ|]. split; [apply ext_refl|]. intros; now left.
  - destruct (resolve_pass st (p0 :: ps)) as [st1|res] eqn:Ep; [|subst; exfalso; eapply resolve_pass_abort_not_ok; eauto].
    destruct (Nat.eqb _ _); [discriminate|].
    destruct (resolve_pass_built2 R0 ms0 Hcf _ _ _ HI HK HM HJ Ep) as (HI1 & HK1 & HM1 & HJ1 & Hext1 & Hall1).
    destruct (IH _ _ HI1 HK1 HM1 HJ1 H) as (HJ' & Hext' & Hall').
    split; [exact HJ'|]. split; [eauto using ext_trans|].
    intros q r Hq Hres. destruct (Hall' _ _ Hq Hres) as [Hr1|Hb].
    + destruct (Hall1 _ _ Hq Hr1) as [Hr0|Hb1]; [left; exact Hr0|].
      right. eapply built2_weaken; [apply ext_refl | exact Hext' | exact Hb1].
    + right. eapply built2_weaken; [exact Hext1 | apply ext_refl | exact Hb].
Qed.

(** every type item of the final registry that the input declared was produced by one attempt
    [type_build st_mid p _ td0 = (st_mid', Ok r)]; everything resolved in [st_mid'] is unchanged in
    the final registry ([ext]); generated items are plain structs then and at the end *)
Theorem whole_build_type2 order ptr mods st0 st p it0 gd td0 it r :
  input_state ptr mods = Ok st0 -> collision_free (st_reg st0) ->
  pyxis_resolve order ptr mods = BOk st ->
  reg_get (st_reg st0) p = Some it0 -> it_state it0 = Unresolved gd -> gi_inner gd = GIType td0 ->
  reg_get (st_reg st) p = Some it -> it_state it = Resolved r ->
  let R0 := st_reg st0 in
  exists st_mid st_mid',
    ext R0 R0 (st_reg st_mid) /\
    type_build st_mid p (gi_vis gd) td0 = (st_mid', Ok r) /\
    ext R0 (st_reg st_mid) (st_reg st_mid') /\ ext R0 (st_reg st_mid') (st_reg st) /\
    gen_plain R0 (st_reg st_mid') /\ gen_plain R0 (st_reg st) /\
    mods_rel (st_modules st_mid) (st_modules st0).
Proof.
  intros Hin Hcf Hres Hg0 Hs0 Hty Hg Hs R0.
  destruct (pyxis_resolve_input _ _ _ _ Hres) as (st0' & Hin' & Hb).
  rewrite Hin in Hin'. inversion Hin'; subst st0'. clear Hin'.
  pose proof (input_state_keyed _ _ _ Hin) as HK0.
  unfold sem_build in Hb.
  destruct (resolve_loop order _ st0) as [st1| | | |] eqn:El; try discriminate.
  rewrite (finish_build_reg _ _ Hb) in *.
  destruct (resolve_loop_built2 R0 (st_modules st0) order Hcf _ _ _ (Inv_init _) HK0 (mods_rel_refl _)
                                (gen_plain_init _) El) as (HJ1 & Hext & Hall).
  destruct (Hall p r) as [(it0' & Hg0' & Hs0')|(m & m' & itm & gdm & H1 & H2 & H3 & H4 & H5 & H6)].
  - unfold R0. rewrite Hg0; discriminate.
  - exists it; auto.
  - unfold R0 in Hg0'. rewrite Hg0 in Hg0'. inversion Hg0'; subst. congruence.
  - destruct H2 as (H2 & H2k & H2m & H2j).
    destruct (Inv_unresolved _ _ _ _ _ H2 H3 H4) as (it0' & Hg0' & Hs0').
    unfold R0 in Hg0'. rewrite Hg0 in Hg0'. inversion Hg0'; subst it0'. rewrite Hs0 in Hs0'. inversion Hs0'; subst gdm.
    destruct (attempt_inv _ _ _ _ _ _ _ Hcf H2 H2k H3 H4 H5) as (_ & _ & Hmm & _).
    pose proof (attempt_gen_plain _ _ _ _ _ _ H2j H5) as HJm'.
    unfold attempt in H5. rewrite Hty in H5.
    exists m, m'. split; [exact H1|]. split; [exact H5|]. split; [exact Hmm|]. split; [exact H6|].
    split; [exact HJm'|]. split; [exact HJ1 | exact H2m].
Qed.

(** ** which regions of an accepted type are base regions: the declared [#[base]] fields that are
    named and kept (a zero-sized array is dropped; [_] loses its marker in the naming pass) *)
Definition named_base (r : region) : bool :=
  r_is_base r && match r_name r with Some _ => true | None => false end.
Definition kept_base (R : registry) (r : region) : bool := named_base r && negb (ignored R r).

Lemma name_regions_bases R : forall rs s0 rs' s,
  name_regions R rs s0 = Ok (rs', s) -> filter r_is_base rs' = filter named_base rs.
Proof.
  induction rs as [|r rs IH]; intros s0 rs' s H; cbn [name_regions] in H.
  - inversion H; reflexivity.
  - destruct (size_of R (r_type r)) as [rsz|]; [|discriminate].
    inv_bind H. destruct a as [rest s1]. inversion H; subst rs' s. clear H. cbn [fst snd] in *.
    cbn [filter]. rewrite (IH _ _ _ Ha).
    destruct (r_name r) as [nm|] eqn:En; cbn [r_is_base].
    + assert (named_base r = r_is_base r) as -> by (unfold named_base; rewrite En; apply andb_true_r).
      reflexivity.
    + assert (named_base r = false) as -> by (unfold named_base; rewrite En; apply andb_false_r).
      reflexivity.
Qed.

Lemma regions_push_bases R rs last r rs' last' :
  regions_push R (rs, last) r = Some (rs', last') ->
  filter named_base rs' = filter named_base rs ++ filter (kept_base R) [r].
Proof.
  intros H. destruct (regions_push_spec _ _ _ _ _ _ H) as (s & _ & Hr).
  unfold kept_base. cbn [filter]. destruct (ignored R r); cbn [negb].
  - destruct Hr as (-> & _). rewrite andb_false_r. now rewrite app_nil_r.
  - destruct Hr as (-> & _). rewrite filter_app. cbn [filter]. rewrite andb_true_r. reflexivity.
Qed.

Lemma kept_base_unnamed R t : filter (kept_base R) [unnamed_region t] = [].
Proof. unfold kept_base, named_base. cbn [filter unnamed_region r_is_base andb]. reflexivity. Qed.

Lemma push_pending_bases R rs last p rs' last' :
  push_pending R (rs, last) p = Ok (rs', last') ->
  filter named_base rs' = filter named_base rs ++ filter (kept_base R) [snd p].
Proof.
  unfold push_pending. intros H. inv_bind H. destruct a as [rs1 last1]. apply defer_opt_ok in H.
  rewrite (regions_push_bases _ _ _ _ _ _ H). f_equal. cbn [fst snd] in Ha.
  destruct (fst p) as [offset|].
  - destruct (offset <? last)%N; [discriminate|]. apply defer_opt_ok in Ha.
    rewrite (regions_push_bases _ _ _ _ _ _ Ha), kept_base_unnamed. now rewrite app_nil_r.
  - inversion Ha; reflexivity.
Qed.

Lemma push_all_bases R : forall pending rs last rs' last',
  foldM (push_pending R) pending (rs, last) = Ok (rs', last') ->
  filter named_base rs' = filter named_base rs ++ filter (kept_base R) (map snd pending).
Proof.
  induction pending as [|p pending IH]; intros rs last rs' last' H; cbn [foldM] in H.
  - inversion H; subst. cbn [map filter]. now rewrite app_nil_r.
  - inv_bind H. destruct a as [rs1 last1].
    rewrite (IH _ _ _ _ H), (push_pending_bases _ _ _ _ _ _ Ha).
    cbn [map]. rewrite <- app_assoc. f_equal. cbn [filter]. destruct (kept_base R (snd p)); reflexivity.
Qed.

Lemma resolve_regions_bases st owner v ts pending vfs st' regions vt size :
  resolve_regions st owner v ts pending vfs = Ok (st', regions, vt, size) ->
  filter r_is_base regions = filter (kept_base (st_reg st')) (map snd pending).
Proof.
  unfold resolve_regions. intros H. destruct (first_base_unresolved _ _); [discriminate|].
  inv_bind H. destruct a as [[st1 vt1] vr1].
  inv_bind H. destruct a as [rs0 last0]. inv_bind H. destruct a as [rs1 last1].
  inv_bind H. destruct a as [rs2 last2]. inv_bind H. destruct a as [named sz]. cbn [fst snd] in *.
  assert (st' = st1 /\ regions = named) as (-> & ->).
  { destruct ts as [t|]; [destruct (negb (sz =? t)%N); [discriminate|]|]; inversion H; auto. }
  clear H. rewrite (name_regions_bases _ _ _ _ _ Ha3).
  assert (filter named_base rs2 = filter named_base rs1) as ->.
  { destruct ts as [t|]; [|inversion Ha2; reflexivity].
    destruct (last1 <? t)%N; [|inversion Ha2; reflexivity].
    apply defer_opt_ok in Ha2. rewrite (regions_push_bases _ _ _ _ _ _ Ha2), kept_base_unnamed.
    now rewrite app_nil_r. }
  rewrite (push_all_bases _ _ _ _ _ _ Ha1).
  assert (filter named_base rs0 = []) as ->; [|reflexivity].
  destruct vr1 as [vr|].
  - destruct (vftable_build_region _ _ _ _ _ _ _ _ Ha) as (ty & -> & _). apply defer_opt_ok in Ha0.
    rewrite (regions_push_bases _ _ _ _ _ _ Ha0). reflexivity.
  - inversion Ha0; reflexivity.
Qed.

Lemma find_hd_filter {A} (f : A -> bool) l : find f l = hd_error (filter f l).
Proof. induction l as [|a l IH]; cbn [find filter]; [reflexivity|]. destruct (f a); [reflexivity | exact IH]. Qed.

Lemma hd_filter_sub {A} (f g : A -> bool) : (forall y, g y = true -> f y = true) -> forall l,
  match find f l with Some x => g x = true | None => True end -> hd_error (filter g l) = find f l.
Proof.
  intros Hsub. induction l as [|a l IH]; cbn [find filter]; [reflexivity|].
  destruct (f a) eqn:Ef.
  - intros Hg. rewrite Hg. reflexivity.
  - destruct (g a) eqn:Eg; [rewrite (Hsub _ Eg) in Ef; discriminate|]. exact IH.
Qed.

(** what the vftable step looked up about the first base *)
Lemma vftable_build_lookup st owner v fb vfs st' vt vr vp :
  vftable_path owner = Some vp -> vftable_build st owner v fb vfs = Ok (st', vt, vr) ->
  exists base, opt_region_name_and_vftable (st_reg st') fb = Ok base /\
    (base = None ->
       match vfs with
       | Some fs => vt = Some {| vt_functions := fs; vt_base_field := None; vt_type := TConstPtr (TRaw vp) |} /\
                    vr = Some (vftable_region_of (TConstPtr (TRaw vp)))
       | None => vt = None /\ vr = None
       end).
Proof.
  intros Hvp. unfold vftable_build. destruct vfs as [fs|].
  - unfold vftable_item. rewrite Hvp. cbn [it_path]. intros H. inv_bind H. rename a into st1. inv_bind H.
    destruct a as [[bn bv]|].
    + destruct (_ <? _)%nat; [discriminate|]. destruct (negb _); [discriminate|]. inversion H; subst.
      eexists. split; [exact Ha0|]. discriminate.
    + inversion H; subst. eexists. split; [exact Ha0|]. intros _. split; reflexivity.
  - intros H. inv_bind H. destruct a as [[bn bv]|]; inversion H; subst.
    + eexists. split; [exact Ha|]. discriminate.
    + eexists. split; [exact Ha|]. auto.
Qed.

Lemma typedef_lookup_shape R b x :
  region_name_and_typedef R b = Ok x ->
  exists name bp it, r_name b = Some name /\ r_type b = TRaw bp /\ reg_get R bp = Some it /\
    match x with
    | Some (n, td) => n = name /\ exists rs, item_resolved it = Some rs /\ rs_inner rs = IType td
    | None => item_resolved it = None
    end.
Proof.
  unfold region_name_and_typedef. destruct (r_name b) as [name|]; [|discriminate].
  destruct (r_type b) as [bp| | | |]; try discriminate.
  destruct (reg_get R bp) as [it|] eqn:Eg; [|discriminate].
  destruct (item_resolved it) as [rs|] eqn:Er.
  - destruct (rs_inner rs) as [td|ed] eqn:Ei; [|discriminate]. intros H; inversion H; subst x.
    exists name, bp, it. split; [reflexivity|]. split; [reflexivity|]. split; [exact Eg|].
    split; [reflexivity|]. exists rs. split; [exact Er | exact Ei].
  - intros H; inversion H; subst x. exists name, bp, it. auto.
Qed.

(** the first base of the resolved item is the first declared [#[base]] field *)
Lemma resolve_regions_first_base st owner v ts pending vfs st' regions vt size vp :
  vftable_path owner = Some vp ->
  resolve_regions st owner v ts pending vfs = Ok (st', regions, vt, size) ->
  find r_is_base regions = find r_is_base (map snd pending).
Proof.
  intros Hvp Hrr. rewrite (find_hd_filter r_is_base regions), (resolve_regions_bases _ _ _ _ _ _ _ _ _ _ Hrr).
  apply hd_filter_sub.
  - unfold kept_base, named_base. intros y Hy. apply andb_prop in Hy as [Hy _]. apply andb_prop in Hy as [Hy _]. exact Hy.
  - destruct (find r_is_base (map snd pending)) as [fb|] eqn:Ef; [|exact I].
    destruct (resolve_regions_vfb _ _ _ _ _ _ _ _ _ _ Hrr) as (vr & Hvb). rewrite Ef in Hvb.
    destruct (vftable_build_lookup _ _ _ _ _ _ _ _ _ Hvp Hvb) as (base & Hb & _).
    unfold opt_region_name_and_vftable in Hb. inv_bind Hb.
    destruct (typedef_lookup_shape _ _ _ Ha) as (name & bp & itb & Hn & Ht & _).
    apply find_some in Ef as [_ Hisb].
    unfold kept_base, named_base, ignored. rewrite Hisb, Hn, Ht. cbn [stype_is_array andb].
    destruct (size_of _ _); [rewrite andb_false_r|]; reflexivity.
Qed.

(** ** the contents of a base item, from the registry of the attempt to the final registry *)
Lemma typedef_lookup_ext R0 R R' b name td :
  ext R0 R R' -> gen_plain R0 R -> gen_plain R0 R' ->
  region_name_and_typedef R b = Ok (Some (name, td)) ->
  exists td', region_name_and_typedef R' b = Ok (Some (name, td')) /\
    td_assoc td' = td_assoc td /\ td_vftable td' = td_vftable td /\
    (forall bp, r_type b = TRaw bp -> reg_get R0 bp <> None -> td' = td).
Proof.
  intros (_ & He & _) HJ HJ' H.
  destruct (typedef_lookup_shape _ _ _ H) as (name' & bp & it & Hn & Ht & Hg & Hnn & rs & Hr & Hi).
  subst name'.
  destruct (He _ _ _ Hg Hr) as (it' & rs' & Hg' & Hr' & _ & _ & Heq).
  unfold region_name_and_typedef. rewrite Hn, Ht, Hg', Hr'.
  destruct (reg_get R0 bp) as [it0|] eqn:E0.
  - assert (it' = it) as -> by (apply Heq; discriminate). rewrite Hr in Hr'. inversion Hr'; subst rs'.
    rewrite Hi. exists td. repeat split; auto.
  - destruct (HJ _ _ Hg E0) as (rs1 & td1 & Hr1 & Hi1 & Ha1 & Hv1).
    destruct (HJ' _ _ Hg' E0) as (rs2 & td2 & Hr2 & Hi2 & Ha2 & Hv2).
    rewrite Hr in Hr1. inversion Hr1; subst rs1. rewrite Hi in Hi1. inversion Hi1; subst td1.
    rewrite Hr' in Hr2. inversion Hr2; subst rs2. rewrite Hi2. exists td2.
    split; [reflexivity|]. split; [congruence|]. split; [congruence|].
    intros bp' Hb Hin. inversion Hb; subst bp'. congruence.
Qed.

Lemma typedef_lookup_sized R b x :
  size_of R (r_type b) <> None -> region_name_and_typedef R b = Ok x -> x <> None.
Proof.
  intros Hs H. destruct (typedef_lookup_shape _ _ _ H) as (name & bp & it & _ & Ht & Hg & Hx).
  destruct x as [x|]; [discriminate|]. exfalso. apply Hs. rewrite Ht. cbn [size_of]. rewrite Hg.
  unfold item_size. rewrite Hx. reflexivity.
Qed.

(** the lookup in the final registry, from its ingredients *)
Lemma typedef_lookup_final R b name bp itb rsb tdb :
  r_name b = Some name -> r_type b = TRaw bp -> reg_get R bp = Some itb ->
  item_resolved itb = Some rsb -> rs_inner rsb = IType tdb ->
  region_name_and_typedef R b = Ok (Some (name, tdb)).
Proof. intros Hn Ht Hg Hr Hi. unfold region_name_and_typedef. now rewrite Hn, Ht, Hg, Hr, Hi. Qed.

Lemma offsets_of_ext R0 R R' start rs :
  ext R0 R R' -> Forall (sized R) rs -> offsets_of R' start rs = offsets_of R start rs.
Proof. intros He Hs. unfold offsets_of. now rewrite (map_region_sa_ext _ _ _ _ He Hs). Qed.

(** ** the common part of the two C06 theorems: the accepted attempt behind a type of the final
    registry, its first base and what the vftable step saw of it, transported to the final registry *)
Lemma whole_build_first_base order ptr mods st0 st p it0 gd td0 it r td :
  input_state ptr mods = Ok st0 -> collision_free (st_reg st0) ->
  pyxis_resolve order ptr mods = BOk st ->
  reg_get (st_reg st0) p = Some it0 -> it_state it0 = Unresolved gd -> gi_inner gd = GIType td0 ->
  reg_get (st_reg st) p = Some it -> it_state it = Resolved r -> rs_inner r = IType td ->
  exists st_mid st_mid' module ta n pending vfs size vr vp,
    ext (st_reg st0) (st_reg st0) (st_reg st_mid) /\ ext (st_reg st0) (st_reg st_mid) (st_reg st_mid') /\
    ext (st_reg st0) (st_reg st_mid') (st_reg st) /\
    gen_plain (st_reg st0) (st_reg st_mid') /\ gen_plain (st_reg st0) (st_reg st) /\
    foldM (process_statement (st_reg st_mid) (module_scope module)) (gt_stmts td0) (O, ([], None))
      = Ok (n, (pending, vfs)) /\
    resolve_regions st_mid p (gi_vis gd) (ta_size ta) pending vfs = Ok (st_mid', td_regions td, td_vftable td, size) /\
    vftable_path p = Some vp /\
    vftable_build st_mid p (gi_vis gd) (find r_is_base (td_regions td)) vfs = Ok (st_mid', td_vftable td, vr) /\
    reg_u8 (st_reg st_mid').
Proof.
  intros Hin Hcf Hres Hg0 Hs0 Hty Hg Hs Htd.
  destruct (whole_build_type2 _ _ _ _ _ _ _ _ _ _ _ Hin Hcf Hres Hg0 Hs0 Hty Hg Hs)
    as (m & m' & Hext0 & Hat & Hmm' & Hext & HJm & HJ & _).
  destruct (type_build_inv _ _ _ _ _ _ Hat) as
      (parent & module & doc & ta & n & pending & vfs & regions & vt & size & funcs & A &
       Hpar & Hmod & Hta & Hstm & Hrr & Hca & Hr).
  subst r. cbn [rs_inner] in Htd. inversion Htd; subst td. clear Htd. cbn [td_regions td_vftable].
  destruct (vftable_path_total _ _ Hpar) as (vp & Hvp).
  destruct (resolve_regions_vfb _ _ _ _ _ _ _ _ _ _ Hrr) as (vr & Hvb).
  rewrite <- (resolve_regions_first_base _ _ _ _ _ _ _ _ _ _ _ Hvp Hrr) in Hvb.
  exists m, m', module, ta, n, pending, vfs, size, vr, vp.
  repeat (split; [assumption|]).
  eapply reg_u8_ext; [exact Hmm'|]. eapply reg_u8_ext; [exact Hext0|]. eapply input_state_u8; eauto.
Qed.

(** ** C06, end to end (a): the first base has a vftable *)
Theorem C06_whole_build_shared order ptr mods st0 st p it0 gd td0 it r td fb bp itb rsb tdb bvt :
  input_state ptr mods = Ok st0 -> collision_free (st_reg st0) ->
  pyxis_resolve order ptr mods = BOk st ->
  reg_get (st_reg st0) p = Some it0 -> it_state it0 = Unresolved gd -> gi_inner gd = GIType td0 ->
  reg_get (st_reg st) p = Some it -> it_state it = Resolved r -> rs_inner r = IType td ->
  (* the first [#[base]] field of the item, and the item of its type, in the final registry *)
  find r_is_base (td_regions td) = Some fb -> r_type fb = TRaw bp ->
  reg_get (st_reg st) bp = Some itb -> item_resolved itb = Some rsb -> rs_inner rsb = IType tdb ->
  td_vftable tdb = Some bvt ->
  exists base_name vt R_mid module n pending vfs,
    r_name fb = Some base_name /\
    (* the vftable descriptor of the derived type goes through the base field *)
    td_vftable td = Some vt /\ vt_base_field vt = Some base_name /\
    (* [vfs]: the type's own vftable block, converted in the registry [R_mid] of the accepted
       attempt (everything resolved there is unchanged in the final registry) *)
    ext (st_reg st0) R_mid (st_reg st) /\
    foldM (process_statement R_mid (module_scope module)) (gt_stmts td0) (O, ([], None))
      = Ok (n, (pending, vfs)) /\
    match vfs with
    | Some fs =>
      vt_functions vt = fs /\
      (exists vp, vftable_path p = Some vp /\ vt_type vt = TConstPtr (TRaw vp)) /\
      prefix_equal (vt_functions bvt) fs = true /\
      (List.length (vt_functions bvt) <= List.length fs)%nat /\
      forall k b, nth_error (vt_functions bvt) k = Some b ->
        exists d, nth_error fs k = Some d /\
          sf_name b = sf_name d /\ sf_cc b = sf_cc d /\ sf_vis b = sf_vis d /\
          list_eqb sarg_eqb (sf_args b) (sf_args d) = true /\
          opt_eqb stype_eqb (sf_ret b) (sf_ret d) = true
    | None => vt_functions vt = vt_functions bvt /\ vt_type vt = vt_type bvt
    end /\
    (* no vftable pointer of its own: the declared fields are laid out from offset 0 *)
    Forall (fun x => r_name (snd x) <> None -> In x (offsets_of (st_reg st) 0%N (td_regions td)))
           (declared_offsets (st_reg st) 0%N pending).
Proof.
  intros Hin Hcf Hres Hg0 Hs0 Hty Hg Hs Htd Hfb Hbt Hgb Hrb Hib Hbv.
  destruct (whole_build_first_base _ _ _ _ _ _ _ _ _ _ _ _ Hin Hcf Hres Hg0 Hs0 Hty Hg Hs Htd)
    as (m & m' & module & ta & n & pending & vfs & size & vr & vp &
        Hext0 & Hmm' & Hext & HJm & HJ & Hstm & Hrr & Hvp & Hvb & Hu8).
  rewrite Hfb in Hvb.
  pose proof (resolve_regions_sizes _ _ _ _ _ _ _ _ _ _ Hrr) as Hsized.
  pose proof (resolve_regions_pending_sized _ _ _ _ _ _ _ _ _ _ Hrr) as Hpsized.
  (* the lookup of the attempt *)
  destruct (vftable_build_lookup _ _ _ _ _ _ _ _ _ Hvp Hvb) as (base & Hb & _).
  pose proof Hb as Hb0. unfold opt_region_name_and_vftable in Hb0. inv_bind Hb0. rename a into x.
  assert (size_of (st_reg m') (r_type fb) <> None) as Hfbs.
  { rewrite Forall_forall in Hsized. apply Hsized. apply find_some in Hfb. tauto. }
  pose proof (typedef_lookup_sized _ _ _ Hfbs Ha) as Hx. destruct x as [[base_name tdm]|]; [|congruence].
  destruct (typedef_lookup_ext _ _ _ _ _ _ Hext HJm HJ Ha) as (td' & Hl' & _ & Hv' & _).
  destruct (typedef_lookup_shape _ _ _ Ha) as (nm & bp' & itm & Hn & _).
  rewrite (typedef_lookup_final _ _ _ _ _ _ _ Hn Hbt Hgb Hrb Hib) in Hl'.
  inversion Hl' as [[Hnm Htd']]. subst td' nm. clear Hl'.
  assert (opt_region_name_and_vftable (st_reg m') (Some fb) = Ok (Some (base_name, bvt))) as Hlook.
  { unfold opt_region_name_and_vftable. rewrite Ha. cbn [bind]. rewrite <- Hv', Hbv. reflexivity. }
  assert (p <> []) as Hne by (apply vftable_path_some in Hvp; tauto).
  destruct (vftable_build_with_base _ _ _ _ _ _ _ _ _ _ Hne Hvb Hlook) as (Hvr & Hcase).
  (* offsets: start = 0 *)
  destruct (resolve_regions_offsets _ _ _ _ _ _ _ _ _ _ Hrr Hu8) as (start & Hstart & Hall).
  assert (exists vt, td_vftable td = Some vt /\ vt_base_field vt = Some base_name /\
          match vfs with
          | Some fs => vt_functions vt = fs /\
                       (exists vp, vftable_path p = Some vp /\ vt_type vt = TConstPtr (TRaw vp)) /\
                       prefix_equal (vt_functions bvt) fs = true /\
                       (List.length (vt_functions bvt) <= List.length fs)%nat
          | None => vt_functions vt = vt_functions bvt /\ vt_type vt = vt_type bvt
          end) as (vt & Hvt & Hbf & Hshape).
  { destruct vfs as [fs|].
    - destruct Hcase as (Hpe & Hlen & vp' & Hvp' & ->). eexists. split; [reflexivity|].
      cbn [vt_base_field vt_functions vt_type]. split; [reflexivity|]. split; [reflexivity|].
      split; [exists vp'; auto | auto].
    - destruct Hcase as (_ & ->). eexists. split; [reflexivity|]. cbn. auto. }
  exists base_name, vt, (st_reg m), module, n, pending, vfs.
  split; [exact Hn|]. split; [exact Hvt|]. split; [exact Hbf|].
  split; [eapply ext_trans; eauto|]. split; [exact Hstm|]. split.
  - destruct vfs as [fs|]; [|exact Hshape].
    destruct Hshape as (Hf & Hty' & Hpe & Hlen). repeat (split; [assumption|]).
    intros k b Hk. exact (prefix_positionwise _ _ Hpe Hlen k b Hk).
  - rewrite (offsets_of_ext _ _ _ _ _ Hext Hsized), (declared_offsets_ext _ _ _ Hext _ _ Hpsized).
    destruct Hstart as [[-> _]|(_ & ty & fs & _ & Hvt')]; [exact Hall|].
    rewrite Hvt in Hvt'. inversion Hvt'; subst vt. cbn in Hbf. discriminate.
Qed.

Lemma offsets_of_hd R rs r : hd_error rs = Some r -> hd_error (offsets_of R 0%N rs) = Some (0%N, r).
Proof.
  destruct rs as [|r0 rs]; [discriminate|]. cbn [hd_error]. intros H; inversion H; subst r0.
  unfold offsets_of. cbn [map prefix_sums]. destruct (region_sa R r) as [sz al]. reflexivity.
Qed.

(** ** C06, end to end (b): an own vftable block and no first base that carries a vftable *)
Theorem C06_whole_build_own_pointer order ptr mods st0 st p it0 gd td0 it r td s rest gfs :
  input_state ptr mods = Ok st0 -> collision_free (st_reg st0) ->
  pyxis_resolve order ptr mods = BOk st ->
  reg_get (st_reg st0) p = Some it0 -> it_state it0 = Unresolved gd -> gi_inner gd = GIType td0 ->
  reg_get (st_reg st) p = Some it -> it_state it = Resolved r -> rs_inner r = IType td ->
  (* the description starts with a vftable block *)
  gt_stmts td0 = s :: rest -> gs_field s = GVftable gfs ->
  (* there is no first [#[base]] field, or its type has no vftable in the final registry *)
  (forall fb bp itb rsb tdb,
     find r_is_base (td_regions td) = Some fb -> r_type fb = TRaw bp ->
     reg_get (st_reg st) bp = Some itb -> item_resolved itb = Some rsb -> rs_inner rsb = IType tdb ->
     td_vftable tdb = None) ->
  exists vp fs R_mid module n pending,
    vftable_path p = Some vp /\
    td_vftable td = Some {| vt_functions := fs; vt_base_field := None; vt_type := TConstPtr (TRaw vp) |} /\
    (* the pointer is region 0, at offset 0, one pointer long *)
    hd_error (td_regions td) = Some (vftable_region_of (TConstPtr (TRaw vp))) /\
    hd_error (offsets_of (st_reg st) 0%N (td_regions td)) = Some (0%N, vftable_region_of (TConstPtr (TRaw vp))) /\
    region_sa (st_reg st) (vftable_region_of (TConstPtr (TRaw vp))) = (reg_ptr (st_reg st), reg_ptr (st_reg st)) /\
    (* every declared field comes after it *)
    ext (st_reg st0) R_mid (st_reg st) /\
    foldM (process_statement R_mid (module_scope module)) (gt_stmts td0) (O, ([], None))
      = Ok (n, (pending, Some fs)) /\
    Forall (fun x => r_name (snd x) <> None -> In x (offsets_of (st_reg st) 0%N (td_regions td)))
           (declared_offsets (st_reg st) (reg_ptr (st_reg st)) pending).
Proof.
  intros Hin Hcf Hres Hg0 Hs0 Hty Hg Hs Htd Hst Hf Hnob.
  destruct (whole_build_first_base _ _ _ _ _ _ _ _ _ _ _ _ Hin Hcf Hres Hg0 Hs0 Hty Hg Hs Htd)
    as (m & m' & module & ta & n & pending & vfs & size & vr & vp &
        Hext0 & Hmm' & Hext & HJm & HJ & Hstm & Hrr & Hvp & Hvb & Hu8).
  pose proof (resolve_regions_sizes _ _ _ _ _ _ _ _ _ _ Hrr) as Hsized.
  pose proof (resolve_regions_pending_sized _ _ _ _ _ _ _ _ _ _ Hrr) as Hpsized.
  pose proof Hstm as Hstm'. rewrite Hst in Hstm'.
  destruct (process_statements_vfs_first _ _ _ _ _ _ _ _ Hf Hstm') as (sz & fs & -> & _ & _). clear Hstm'.
  destruct (vftable_build_lookup _ _ _ _ _ _ _ _ _ Hvp Hvb) as (base & Hb & Hnone).
  assert (base = None) as ->.
  { destruct (find r_is_base (td_regions td)) as [fb|] eqn:Hfb; [|cbn in Hb; inversion Hb; reflexivity].
    unfold opt_region_name_and_vftable in Hb. inv_bind Hb. rename a into x.
    assert (size_of (st_reg m') (r_type fb) <> None) as Hfbs.
    { rewrite Forall_forall in Hsized. apply Hsized. apply find_some in Hfb. tauto. }
    pose proof (typedef_lookup_sized _ _ _ Hfbs Ha) as Hx. destruct x as [[base_name tdm]|]; [|congruence].
    destruct (typedef_lookup_ext _ _ _ _ _ _ Hext HJm HJ Ha) as (td' & Hl' & _ & Hv' & _).
    destruct (typedef_lookup_shape _ _ _ Hl') as (nm & bp & itb & _ & Hbt & Hgb & _ & rsb & Hrb & Hib).
    rewrite <- Hv', (Hnob _ _ _ _ _ eq_refl Hbt Hgb Hrb Hib) in Hb. inversion Hb; reflexivity. }
  destruct (Hnone eq_refl) as (Hvt & _).
  destruct (own_pointer_first _ _ _ _ _ _ _ _ _ _ Hrr Hu8) as (ty & fs' & Hhd & Hvt' & Hall).
  { intros x Hx. rewrite Hvt in Hx. inversion Hx; reflexivity. }
  { rewrite Hvt. discriminate. }
  rewrite Hvt in Hvt'. inversion Hvt'; subst fs' ty. clear Hvt'.
  exists vp, fs, (st_reg m), module, n, pending.
  split; [exact Hvp|]. split; [exact Hvt|]. split; [exact Hhd|].
  split; [apply offsets_of_hd; exact Hhd|]. split; [reflexivity|].
  split; [eapply ext_trans; eauto|]. split; [exact Hstm|].
  rewrite (offsets_of_ext _ _ _ _ _ Hext Hsized), (declared_offsets_ext _ _ _ Hext _ _ Hpsized).
  destruct Hext as (Hptr & _). rewrite <- Hptr. exact Hall.
Qed.

(** ** C07: the injection of base functions as one fold over the bases' contributions *)
Lemma add_functions_public base : forall fs acc,
  add_functions base (filter sf_is_public fs) acc = add_functions base fs acc.
Proof.
  unfold add_functions. induction fs as [|f fs IH]; intros acc; cbn [filter fold_left]; [reflexivity|].
  destruct (sf_is_public f) eqn:Ep; cbn [fold_left]; [rewrite Ep|]; apply IH.
Qed.

Lemma add_functions_app base a b acc :
  add_functions base (a ++ b) acc = add_functions base b (add_functions base a acc).
Proof. unfold add_functions. apply fold_left_app. Qed.

Definition forward_all (contribs : list (string * list sfunction)) (acc : list sfunction * list string)
  : list sfunction * list string :=
  fold_left (fun a c => add_functions (fst c) (snd c) a) contribs acc.

Lemma forward_all_cons c cs acc :
  forward_all (c :: cs) acc = forward_all cs (add_functions (fst c) (snd c) acc).
Proof. reflexivity. Qed.

Lemma inject_bases_fold R : forall bases i acc acc',
  inject_bases R bases i acc = Ok acc' ->
  exists contribs, base_contributions R bases i = Ok contribs /\ acc' = forward_all contribs acc.
Proof.
  induction bases as [|b bases IH]; intros i acc acc' H; cbn [inject_bases base_contributions] in *.
  - inversion H; subst. exists []. split; reflexivity.
  - inv_bind H. rewrite Ha. cbn [bind]. destruct a as [[name td]|].
    + destruct (IH _ _ _ H) as (contribs & Hc & Hout). rewrite Hc. cbn [bind].
      eexists. split; [reflexivity|]. rewrite forward_all_cons. cbn [fst snd].
      rewrite Hout. f_equal. rewrite add_functions_app, add_functions_public.
      destruct i as [|i']; [reflexivity|]. destruct (td_vftable td) as [vt|]; [|reflexivity].
      symmetry. apply add_functions_public.
    + destruct (IH _ _ _ H) as (contribs & Hc & Hout). rewrite Hc. cbn [bind]. eauto.
Qed.

Lemma base_contributions_ext R0 R R' :
  ext R0 R R' -> gen_plain R0 R -> gen_plain R0 R' -> forall bases i c,
  Forall (sized R) bases -> base_contributions R bases i = Ok c -> base_contributions R' bases i = Ok c.
Proof.
  intros He HJ HJ'. induction bases as [|b bases IH]; intros i c Hs H; cbn [base_contributions] in *; [exact H|].
  inversion Hs as [|? ? Hb Hrest]; subst. inv_bind H. rename a into x. inv_bind H. rename a into tl.
  pose proof (typedef_lookup_sized _ _ _ Hb Ha) as Hx. destruct x as [[name td]|]; [|congruence].
  destruct (typedef_lookup_ext _ _ _ _ _ _ He HJ HJ' Ha) as (td' & Hl' & Hassoc & Hvft & _).
  rewrite Hl', (IH _ _ Hrest Ha0). cbn [bind]. rewrite Hassoc, Hvft. exact H.
Qed.

(** ** C07, end to end: the associated functions of every type of an accepted build are the
    functions forwarded from its bases -- base regions in order, each contributing the public
    associated functions of its type's item IN THE FINAL REGISTRY and, except the first, that
    item's public virtual functions -- followed by the functions of its own impl block.
    [forward_all] is the exact list with the clash renaming ([add_functions]: a name already used
    by the type's own virtual functions or by an earlier forwarded function becomes
    [<field>_<name>], see [C07_naming]); the [Forall2 forwards] clause is [C07_functions]. *)
Theorem C07_whole_build order ptr mods st0 st p it0 gd td0 it r td :
  input_state ptr mods = Ok st0 -> collision_free (st_reg st0) ->
  pyxis_resolve order ptr mods = BOk st ->
  reg_get (st_reg st0) p = Some it0 -> it_state it0 = Unresolved gd -> gi_inner gd = GIType td0 ->
  reg_get (st_reg st) p = Some it -> it_state it = Resolved r -> rs_inner r = IType td ->
  let used0 := match td_vftable td with Some vt => map sf_name (vt_functions vt) | None => [] end in
  exists contribs news own parent module0 R_mid,
    base_contributions (st_reg st) (filter r_is_base (td_regions td)) O = Ok contribs /\
    td_assoc td = fst (forward_all contribs ([], used0)) ++ own /\
    fst (forward_all contribs ([], used0)) = List.concat news /\
    Forall2 (fun c new => Forall2 (forwards (fst c)) (snd c) new) contribs news /\
    (* the rest: the type's own impl block *)
    path_parent p = Some parent /\ alookup parent (st_modules st0) = Some module0 /\
    ext (st_reg st0) R_mid (st_reg st) /\
    match alookup p (m_impls module0) with
    | Some blk => Forall2 (fun f sf => function_build R_mid (module_scope module0) false f = Ok sf) (gb_fns blk) own
    | None => own = []
    end.
Proof.
  intros Hin Hcf Hres Hg0 Hs0 Hty Hg Hs Htd used0.
  destruct (whole_build_type2 _ _ _ _ _ _ _ _ _ _ _ Hin Hcf Hres Hg0 Hs0 Hty Hg Hs)
    as (m & m' & Hext0 & Hat & Hmm' & Hext & HJm & HJ & HM).
  destruct (type_build_inv _ _ _ _ _ _ Hat) as
      (parent & module & doc & ta & n & pending & vfs & regions & vt & size & funcs & A &
       Hpar & Hmod & _ & _ & Hrr & _ & Hr).
  destruct (type_build_inv_assoc _ _ _ _ _ _ Hat) as
      (parent' & module' & td' & regions' & acc1 & acc2 & Hpar' & Hmod' & Hi & Hregs & Hinj & Himpl & Hassoc).
  rewrite Htd in Hi. inversion Hi; subst td'. clear Hi.
  rewrite Hpar in Hpar'. inversion Hpar'; subst parent'. rewrite Hmod in Hmod'. inversion Hmod'; subst module'.
  assert (td_regions td = regions) as Hregs2 by (subst r; cbn [rs_inner] in Htd; inversion Htd; reflexivity).
  subst regions'. fold used0 in Hinj.
  pose proof (resolve_regions_sizes _ _ _ _ _ _ _ _ _ _ Hrr) as Hsized. rewrite <- Hregs2 in Hsized.
  assert (Forall (sized (st_reg m')) (filter r_is_base (td_regions td))) as Hbsized.
  { rewrite Forall_forall in *. intros b Hb. apply filter_In in Hb as [Hb _]. apply Hsized. exact Hb. }
  destruct (inject_bases_spec _ _ _ _ _ Hinj) as (contribs & news & Hc & Hnews & Hfw).
  destruct (inject_bases_fold _ _ _ _ _ Hinj) as (contribs' & Hc' & Hacc1).
  rewrite Hc in Hc'. inversion Hc'; subst contribs'. clear Hc'.
  destruct (mods_rel_lookup _ _ _ _ HM Hmod) as (module0 & Hm0 & (Hmpath & Hast & Himpls & _)).
  assert (module_scope module = module_scope module0) as Hscope by (unfold module_scope; congruence).
  assert (exists own, fst acc2 = fst acc1 ++ own /\
            match alookup p (m_impls module0) with
            | Some blk => Forall2 (fun f sf => function_build (st_reg m') (module_scope module0) false f = Ok sf) (gb_fns blk) own
            | None => own = []
            end) as (own & Hown & Hownspec).
  { rewrite Himpls, Hscope in Himpl. destruct (alookup p (m_impls module0)) as [blk|].
    - destruct (FunctionLemmas_impl_kept _ _ _ _ _ Himpl) as (new & Hnew & Hall). eauto.
    - inversion Himpl; subst. exists []. split; [now rewrite app_nil_r | reflexivity]. }
  exists contribs, news, own, parent, module0, (st_reg m').
  split; [eapply base_contributions_ext; eauto|].
  split; [rewrite Hassoc, Hown, Hacc1; reflexivity|].
  split; [rewrite <- Hacc1, Hnews; reflexivity|].
  split; [exact Hfw|]. split; [exact Hpar|]. split; [exact Hm0|]. split; [exact Hext | exact Hownspec].
Qed.

(** ** C17, end to end: the marker flags of every type item of the final registry are the
    attribute scan of its description ([C17_markers]); a packed type has alignment 1 *)
Theorem C17_whole_build_markers order ptr mods st0 st p it0 gd td0 it r :
  input_state ptr mods = Ok st0 -> collision_free (st_reg st0) ->
  pyxis_resolve order ptr mods = BOk st ->
  reg_get (st_reg st0) p = Some it0 -> it_state it0 = Unresolved gd -> gi_inner gd = GIType td0 ->
  reg_get (st_reg st) p = Some it -> it_state it = Resolved r ->
  exists td, rs_inner r = IType td /\
    td_copyable td = has_marker "copyable" (gt_attrs td0) /\
    td_cloneable td = has_marker "copyable" (gt_attrs td0) || has_marker "cloneable" (gt_attrs td0) /\
    td_defaultable td = has_marker "defaultable" (gt_attrs td0) /\
    td_packed td = has_marker "packed" (gt_attrs td0) /\
    (td_packed td = true -> rs_align r = 1%N).
Proof.
  intros Hin Hcf Hres Hg0 Hs0 Hty Hg Hs.
  destruct (whole_build_type _ _ _ _ _ _ _ _ _ _ _ Hin Hcf Hres Hg0 Hs0 Hty Hg Hs)
    as (m & m' & _ & Hat & _ & _).
  destruct (whole_build_layout _ _ _ _ _ _ _ _ _ _ _ Hin Hcf Hres Hg0 Hs0 Hty Hg Hs)
    as (tdl & Htdl & _ & _ & _ & Hpacked).
  destruct (type_build_inv _ _ _ _ _ _ Hat) as
      (parent & module & doc & ta & n & pending & vfs & regions & vt & size & funcs & A &
       _ & _ & Hta & _ & _ & _ & Hr).
  destruct (scan_type_attrs_flags _ ta_init _ Hta) as (H1 & H2 & H3 & H4).
  subst r. cbn [rs_inner rs_align] in *. inversion Htdl; subst tdl. cbn [td_packed] in Hpacked.
  eexists. split; [reflexivity|]. cbn [td_copyable td_cloneable td_defaultable td_packed].
  repeat (split; [assumption|]). intros E. apply Hpacked. exact E.
Qed.

(** the same for enums ([scan_enum_attr] has no packed marker) *)
Lemma scan_enum_attrs_flags : forall attrs ea ea',
  foldM scan_enum_attr attrs ea = Ok ea' ->
  ea_copyable ea' = ea_copyable ea || has_marker "copyable" attrs /\
  ea_cloneable ea' = ea_cloneable ea || has_marker "copyable" attrs || has_marker "cloneable" attrs /\
  ea_defaultable ea' = ea_defaultable ea || has_marker "defaultable" attrs.
Proof.
  induction attrs as [|a attrs IH]; intros ea ea' H; cbn [foldM] in H.
  - inversion H; subst. unfold has_marker. cbn [existsb]. rewrite !orb_false_r. auto.
  - inv_bind H. rename a0 into ea1. destruct (IH _ _ H) as (B1 & B2 & B3).
    assert (forall name, has_marker name (a :: attrs) =
              (match a with AIdent n => String.eqb n name | _ => false end) || has_marker name attrs) as Hc.
    { intros name. reflexivity. }
    rewrite !Hc, B1, B2, B3. clear B1 B2 B3 H IH Hc.
    unfold scan_enum_attr in Ha. destruct a as [nm|nm args|k e].
    + inversion Ha; subst ea1. cbn [ea_copyable ea_cloneable ea_defaultable].
      repeat split; rewrite <- ?orb_assoc; try reflexivity.
      destruct (ea_cloneable ea), (String.eqb nm "copyable"), (String.eqb nm "cloneable"),
        (has_marker "copyable" attrs), (has_marker "cloneable" attrs); reflexivity.
    + assert (ea_copyable ea1 = ea_copyable ea /\ ea_cloneable ea1 = ea_cloneable ea /\
              ea_defaultable ea1 = ea_defaultable ea) as (-> & -> & ->).
      { destruct args as [|[v| |] [|? ?]]; try (inversion Ha; subst; auto; fail).
        destruct (String.eqb nm "singleton"); [|inversion Ha; subst; auto].
        destruct (z_to_usize v); [|discriminate]. inversion Ha; subst. auto. }
      cbn [orb]. auto.
    + inversion Ha; subst ea1. cbn [orb]. auto.
Qed.

Theorem C17_whole_build_enum_markers order ptr mods st0 st p it0 gd ed0 it r :
  input_state ptr mods = Ok st0 -> collision_free (st_reg st0) ->
  pyxis_resolve order ptr mods = BOk st ->
  reg_get (st_reg st0) p = Some it0 -> it_state it0 = Unresolved gd -> gi_inner gd = GIEnum ed0 ->
  reg_get (st_reg st) p = Some it -> it_state it = Resolved r ->
  exists ed, rs_inner r = IEnum ed /\
    ed_copyable ed = has_marker "copyable" (ged_attrs ed0) /\
    ed_cloneable ed = has_marker "copyable" (ged_attrs ed0) || has_marker "cloneable" (ged_attrs ed0) /\
    ed_defaultable ed = has_marker "defaultable" (ged_attrs ed0).
Proof.
  intros Hin Hcf Hres Hg0 Hs0 Hty Hg Hs.
  destruct (whole_build_enum _ _ _ _ _ _ _ _ _ _ _ Hin Hcf Hres Hg0 Hs0 Hty Hg Hs) as (m & _ & _ & Hb).
  unfold enum_build in Hb.
  destruct (path_parent p) as [parent|]; [|discriminate].
  destruct (alookup parent (st_modules m)) as [module|]; [|discriminate].
  destruct (resolve_gtype _ _ _) as [ty|]; [|discriminate].
  destruct (size_of _ ty) as [size|]; [|discriminate].
  inv_bind Hb. rename a into cases. inv_bind Hb. rename a into doc. inv_bind Hb. rename a into ea.
  destruct (scan_enum_attrs_flags _ _ _ Ha1) as (H1 & H2 & H3). cbn [ea_copyable ea_cloneable ea_defaultable orb] in *.
  assert (exists al, Ok {| rs_size := size; rs_align := al;
                           rs_inner := IEnum {| ed_type := ty; ed_doc := doc; ed_fields := fst cases;
                                                ed_singleton := ea_singleton ea; ed_copyable := ea_copyable ea;
                                                ed_cloneable := ea_cloneable ea; ed_defaultable := ea_defaultable ea;
                                                ed_default_index := snd cases |} |} = Ok r) as (al & Hr).
  { destruct (ea_defaultable ea); destruct (snd cases); try discriminate;
      (destruct (align_of _ ty) as [al|]; [|discriminate]; eauto). }
  inversion Hr; subst r. eexists. split; [reflexivity|].
  cbn [ed_copyable ed_cloneable ed_defaultable]. auto.
Qed.

(** ** Non-vacuity.  One input on which every hypothesis of the theorems above is met.

<<
type Base   { vftable { pub fn f(&self, x: u32) -> u32; }, pub x: u32 }
type Other  { vftable { pub fn h(&mut self); }, pub o: u32 }
#[copyable, defaultable] type Plain  { pub a: u32, pub b: u32 }
#[packed, cloneable]     type Packed { pub a: u8, pub b: u32 }
type Derived { vftable { pub fn f(&self, x: u32) -> u32; pub fn g(&mut self); },
               #[base] pub base: Base, #[base] pub other: Other, pub y: u32 }
type Own     { vftable { pub fn k(&mut self); }, #[base] pub plain: Plain, pub z: u32 }
#[cloneable] enum K: i16 { A = 0 }
impl Base  { #[address(16)] pub fn meth(&mut self); }
impl Other { #[address(32)] pub fn meth(&mut self); #[address(48)] fn hidden(&mut self); }
>>
    (all types [pub]).  [Derived] shares [base]'s vftable pointer and extends its table; it forwards
    [meth] of [base], [meth] of [other] under the name [other_meth] (clash) and the virtual [h] of
    [other] (not the first base); [hidden] is private and not forwarded.  [Own] has an own vftable
    block and a first base without vftable. *)
Definition more_text : string := "(module (attrs) (uses) (extern_types) (extern_values) (defs (def pub ""Base"" (type (attrs) (vftable (attrs) (func (attrs) pub ""f"" (args cself (named ""x"" (tid ""u32""))) (some (tid ""u32"")))) (field (attrs) pub ""x"" (tid ""u32"")))) (def pub ""Other"" (type (attrs) (vftable (attrs) (func (attrs) pub ""h"" (args mself) none)) (field (attrs) pub ""o"" (tid ""u32"")))) (def pub ""Plain"" (type (attrs (ident ""copyable"") (ident ""defaultable"")) (field (attrs) pub ""a"" (tid ""u32"")) (field (attrs) pub ""b"" (tid ""u32"")))) (def pub ""Packed"" (type (attrs (ident ""packed"") (ident ""cloneable"")) (field (attrs) pub ""a"" (tid ""u8"")) (field (attrs) pub ""b"" (tid ""u32"")))) (def pub ""Derived"" (type (attrs) (vftable (attrs) (func (attrs) pub ""f"" (args cself (named ""x"" (tid ""u32""))) (some (tid ""u32""))) (func (attrs) pub ""g"" (args mself) none)) (field (attrs (ident ""base"")) pub ""base"" (tid ""Base"")) (field (attrs (ident ""base"")) pub ""other"" (tid ""Other"")) (field (attrs) pub ""y"" (tid ""u32"")))) (def pub ""Own"" (type (attrs) (vftable (attrs) (func (attrs) pub ""k"" (args mself) none)) (field (attrs (ident ""base"")) pub ""plain"" (tid ""Plain"")) (field (attrs) pub ""z"" (tid ""u32"")))) (def pub ""K"" (enum (tid ""i16"") (attrs (ident ""cloneable"")) (case (attrs) ""A"" (some (int 0)))))) (impls (impl ""Base"" (attrs) (func (attrs (fn ""address"" (int 16))) pub ""meth"" (args mself) none)) (impl ""Other"" (attrs) (func (attrs (fn ""address"" (int 32))) pub ""meth"" (args mself) none) (func (attrs (fn ""address"" (int 48))) priv ""hidden"" (args mself) none))) (backends))".
Definition more_mods : list (path * gmodule) := [(["m"], Examples.module_of_text more_text)].

(** [C06_whole_build_shared], own vftable block ([vfs = Some _]) *)
Example C06_whole_build_shared_example :
  exists st0 st it0 gd td0 it r td fb itb rsb tdb bvt s rest gfs,
    input_state 4 more_mods = Ok st0 /\ collision_freeb (st_reg st0) = true /\
    pyxis_resolve (hook_schedule []) 4 more_mods = BOk st /\
    reg_get (st_reg st0) ["m"; "Derived"] = Some it0 /\ it_state it0 = Unresolved gd /\ gi_inner gd = GIType td0 /\
    reg_get (st_reg st) ["m"; "Derived"] = Some it /\ it_state it = Resolved r /\ rs_inner r = IType td /\
    find r_is_base (td_regions td) = Some fb /\ r_type fb = TRaw ["m"; "Base"] /\
    reg_get (st_reg st) ["m"; "Base"] = Some itb /\ item_resolved itb = Some rsb /\ rs_inner rsb = IType tdb /\
    td_vftable tdb = Some bvt /\ List.length (vt_functions bvt) = 1%nat /\
    gt_stmts td0 = s :: rest /\ gs_field s = GVftable gfs /\ List.length gfs = 2%nat.
Proof. vm_compute. do 16 eexists. repeat split; reflexivity. Qed.

(** [C06_whole_build_shared], no own block ([vfs = None]): [T] of Examples.v, whose base [Base] has a vftable *)
Example C06_whole_build_shared_example_inherited :
  exists st0 st it0 gd td0 it r td fb itb rsb tdb bvt,
    input_state 4 Examples.ex_mods = Ok st0 /\ collision_freeb (st_reg st0) = true /\
    pyxis_resolve (hook_schedule []) 4 Examples.ex_mods = BOk st /\
    reg_get (st_reg st0) ["m"; "T"] = Some it0 /\ it_state it0 = Unresolved gd /\ gi_inner gd = GIType td0 /\
    reg_get (st_reg st) ["m"; "T"] = Some it /\ it_state it = Resolved r /\ rs_inner r = IType td /\
    find r_is_base (td_regions td) = Some fb /\ r_type fb = TRaw ["m"; "Base"] /\
    reg_get (st_reg st) ["m"; "Base"] = Some itb /\ item_resolved itb = Some rsb /\ rs_inner rsb = IType tdb /\
    td_vftable tdb = Some bvt /\ List.length (vt_functions bvt) = 4%nat.
Proof. vm_compute. do 13 eexists. repeat split; reflexivity. Qed.

(** the hypothesis "no first base, or one whose type has no vftable" of
    [C06_whole_build_own_pointer], from closed equations *)
Lemma no_vftable_base_from_equations R td :
  (find r_is_base (td_regions td) = None \/
   exists fb bp itb rsb tdb,
     find r_is_base (td_regions td) = Some fb /\ r_type fb = TRaw bp /\ reg_get R bp = Some itb /\
     item_resolved itb = Some rsb /\ rs_inner rsb = IType tdb /\ td_vftable tdb = None) ->
  forall fb bp itb rsb tdb,
    find r_is_base (td_regions td) = Some fb -> r_type fb = TRaw bp ->
    reg_get R bp = Some itb -> item_resolved itb = Some rsb -> rs_inner rsb = IType tdb ->
    td_vftable tdb = None.
Proof.
  intros [Hn|(fb0 & bp0 & itb0 & rsb0 & tdb0 & Hf & Ht & Hg & Hr & Hi & Hv)] fb bp itb rsb tdb Hf' Ht' Hg' Hr' Hi'.
  - congruence.
  - rewrite Hf in Hf'. inversion Hf'; subst fb0. rewrite Ht in Ht'. inversion Ht'; subst bp0.
    rewrite Hg in Hg'. inversion Hg'; subst itb0. rewrite Hr in Hr'. inversion Hr'; subst rsb0.
    rewrite Hi in Hi'. inversion Hi'; subst tdb0. exact Hv.
Qed.

(** [C06_whole_build_own_pointer]: [Own] (first base [plain : Plain] without vftable) *)
Example C06_whole_build_own_pointer_example :
  exists st0 st it0 gd td0 it r td s rest gfs fb itb rsb tdb,
    input_state 4 more_mods = Ok st0 /\ collision_freeb (st_reg st0) = true /\
    pyxis_resolve (hook_schedule []) 4 more_mods = BOk st /\
    reg_get (st_reg st0) ["m"; "Own"] = Some it0 /\ it_state it0 = Unresolved gd /\ gi_inner gd = GIType td0 /\
    reg_get (st_reg st) ["m"; "Own"] = Some it /\ it_state it = Resolved r /\ rs_inner r = IType td /\
    gt_stmts td0 = s :: rest /\ gs_field s = GVftable gfs /\
    find r_is_base (td_regions td) = Some fb /\ r_type fb = TRaw ["m"; "Plain"] /\
    reg_get (st_reg st) ["m"; "Plain"] = Some itb /\ item_resolved itb = Some rsb /\ rs_inner rsb = IType tdb /\
    td_vftable tdb = None.
Proof. vm_compute. do 15 eexists. repeat split; reflexivity. Qed.

(** ... and [Base] (no base at all) *)
Example C06_whole_build_own_pointer_example_no_base :
  exists st0 st it0 gd td0 it r td s rest gfs,
    input_state 4 more_mods = Ok st0 /\ collision_freeb (st_reg st0) = true /\
    pyxis_resolve (hook_schedule []) 4 more_mods = BOk st /\
    reg_get (st_reg st0) ["m"; "Base"] = Some it0 /\ it_state it0 = Unresolved gd /\ gi_inner gd = GIType td0 /\
    reg_get (st_reg st) ["m"; "Base"] = Some it /\ it_state it = Resolved r /\ rs_inner r = IType td /\
    gt_stmts td0 = s :: rest /\ gs_field s = GVftable gfs /\
    find r_is_base (td_regions td) = None.
Proof. vm_compute. do 11 eexists. repeat split; reflexivity. Qed.

(** [C07_whole_build]: [Derived]; its two bases contribute, the clash is renamed *)
Example C07_whole_build_example :
  exists st0 st it0 gd td0 it r td contribs,
    input_state 4 more_mods = Ok st0 /\ collision_freeb (st_reg st0) = true /\
    pyxis_resolve (hook_schedule []) 4 more_mods = BOk st /\
    reg_get (st_reg st0) ["m"; "Derived"] = Some it0 /\ it_state it0 = Unresolved gd /\ gi_inner gd = GIType td0 /\
    reg_get (st_reg st) ["m"; "Derived"] = Some it /\ it_state it = Resolved r /\ rs_inner r = IType td /\
    base_contributions (st_reg st) (filter r_is_base (td_regions td)) O = Ok contribs /\
    map (fun c => (fst c, map sf_name (snd c))) contribs = [("base", ["meth"]); ("other", ["meth"; "h"])] /\
    map sf_name (td_assoc td) = ["meth"; "other_meth"; "h"].
Proof. vm_compute. do 9 eexists. repeat split; reflexivity. Qed.

(** [C17_whole_build_markers]: [Plain] (copyable, defaultable) and [Packed] (packed, cloneable) *)
Example C17_whole_build_markers_example :
  exists st0 st it0 gd td0 it r it0' gd' td0' it' r',
    input_state 4 more_mods = Ok st0 /\ collision_freeb (st_reg st0) = true /\
    pyxis_resolve (hook_schedule []) 4 more_mods = BOk st /\
    reg_get (st_reg st0) ["m"; "Plain"] = Some it0 /\ it_state it0 = Unresolved gd /\ gi_inner gd = GIType td0 /\
    reg_get (st_reg st) ["m"; "Plain"] = Some it /\ it_state it = Resolved r /\
    has_marker "copyable" (gt_attrs td0) = true /\ has_marker "defaultable" (gt_attrs td0) = true /\
    has_marker "packed" (gt_attrs td0) = false /\
    reg_get (st_reg st0) ["m"; "Packed"] = Some it0' /\ it_state it0' = Unresolved gd' /\ gi_inner gd' = GIType td0' /\
    reg_get (st_reg st) ["m"; "Packed"] = Some it' /\ it_state it' = Resolved r' /\
    has_marker "packed" (gt_attrs td0') = true /\ has_marker "cloneable" (gt_attrs td0') = true /\
    has_marker "copyable" (gt_attrs td0') = false.
Proof. vm_compute. do 12 eexists. repeat split; reflexivity. Qed.

(** [C17_whole_build_enum_markers]: [K] (cloneable) *)
Example C17_whole_build_enum_markers_example :
  exists st0 st it0 gd ed0 it r,
    input_state 4 more_mods = Ok st0 /\ collision_freeb (st_reg st0) = true /\
    pyxis_resolve (hook_schedule []) 4 more_mods = BOk st /\
    reg_get (st_reg st0) ["m"; "K"] = Some it0 /\ it_state it0 = Unresolved gd /\ gi_inner gd = GIEnum ed0 /\
    reg_get (st_reg st) ["m"; "K"] = Some it /\ it_state it = Resolved r /\
    has_marker "cloneable" (ged_attrs ed0) = true /\ has_marker "copyable" (ged_attrs ed0) = false.
Proof. vm_compute. do 7 eexists. repeat split; reflexivity. Qed.

Print Assumptions whole_build_type2.
Print Assumptions C06_whole_build_shared.
Print Assumptions C06_whole_build_own_pointer.
Print Assumptions C07_whole_build.
Print Assumptions C17_whole_build_markers.
Print Assumptions C17_whole_build_enum_markers.
