(** * Parsing inverts printing (C18) for the whole module grammar *)
From Coq Require Import List NArith ZArith Bool String Ascii Lia.
From PyxisModel Require Import Base Grammar Syntax SyntaxLemmas.
From PyxisModel Require Import SyntaxItems ModuleEq.
Import ListNotations.
Local Open Scope string_scope.
Local Open Scope list_scope.

(** ** well-formedness of abstract syntax: what a tree must satisfy for its canonical printing to
    be read back.  Identifiers must be identifiers ([syn_ident]: not a keyword, not [_];
    [pyxis_ident]: [_] allowed as well), integer literals must be in range, types at most 64 deep
    (the parser's [MAX_TYPE_NESTING]), backend strings already trimmed. *)
Definition wf_ty (t : gtype) : Prop := wf_type t /\ (type_depth t <= type_fuel)%nat.
Definition wf_arg (a : garg) : Prop :=
  match a with GNamed n t => syn_ident n = true /\ wf_ty t | _ => True end.
Definition wf_ret (r : option gtype) : Prop := match r with Some t => wf_ty t | None => True end.
Definition wf_function (f : gfunction) : Prop :=
  Forall wf_attr (gf_attrs f) /\ pyxis_ident (gf_name f) = true /\
  Forall wf_arg (gf_args f) /\ wf_ret (gf_ret f).
(** a private field cannot be called [vftable]: the parser would take it for a vftable block *)
Definition wf_field (f : gtypefield) : Prop :=
  match f with
  | GField v n t => pyxis_ident n = true /\ (v = Private -> n <> "vftable") /\ wf_ty t
  | GVftable fs => Forall wf_function fs
  end.
Definition wf_statement (s : gstatement) : Prop := Forall wf_attr (gs_attrs s) /\ wf_field (gs_field s).
Definition wf_typedef (td : gtypedef) : Prop :=
  Forall wf_attr (gt_attrs td) /\ Forall wf_statement (gt_stmts td).
Definition wf_enumstmt (s : genumstmt) : Prop :=
  Forall wf_attr (ge_attrs s) /\ pyxis_ident (ge_name s) = true /\
  match ge_expr s with Some e => wf_expr e | None => True end.
Definition wf_enumdef (ed : genumdef) : Prop :=
  Forall wf_attr (ged_attrs ed) /\ wf_ty (ged_type ed) /\ Forall wf_enumstmt (ged_stmts ed).
Definition wf_itemdef (d : gitemdef) : Prop :=
  pyxis_ident (gi_name d) = true /\
  match gi_inner d with GIType td => wf_typedef td | GIEnum ed => wf_enumdef ed end.
Definition wf_impl (b : gfnblock) : Prop :=
  Forall wf_attr (gb_attrs b) /\ pyxis_ident (gb_name b) = true /\ Forall wf_function (gb_fns b).
Definition wf_extern_type (e : string * list gattr) : Prop :=
  syn_ident (fst e) = true /\ Forall wf_attr (snd e).
Definition wf_extern_value (e : gexternvalue) : Prop :=
  Forall wf_attr (gev_attrs e) /\ pyxis_ident (gev_name e) = true /\ wf_ty (gev_type e).
Definition wf_path (p : path) : Prop := Forall (fun s => syn_ident s = true) p.
Definition trimmed (s : option string) : Prop :=
  match s with Some x => str_trim x = x | None => True end.
Definition wf_backend (b : gbackend) : Prop :=
  pyxis_ident (gbk_name b) = true /\ trimmed (gbk_pro b) /\ trimmed (gbk_epi b).
Definition wf_module (m : gmodule) : Prop :=
  Forall wf_attr (gm_attrs m) /\
  Forall wf_path (gm_uses m) /\
  Forall wf_extern_type (gm_extern_types m) /\
  Forall wf_extern_value (gm_extern_values m) /\
  Forall wf_itemdef (gm_defs m) /\
  Forall wf_impl (gm_impls m) /\
  Forall wf_backend (gm_backends m).

(** what may follow an element of a separated list: the end of the group, [,] or [;] *)
Definition item_follow (rest : list tok) : Prop :=
  match rest with [] => True | KPunct p :: _ => p = "," \/ p = ";" | _ => False end.

(** ** token primitives *)
Lemma eat_kw_same s r : eat_kw s (KId s :: r) = Some r.
Proof. unfold eat_kw. now rewrite String.eqb_refl. Qed.
Lemma eat_punct_same s r : eat_punct s (KPunct s :: r) = Some r.
Proof. unfold eat_punct. now rewrite String.eqb_refl. Qed.
Lemma parse_ident_ok s r : pyxis_ident s = true -> parse_ident (KId s :: r) = Some (s, r).
Proof. intros H. unfold parse_ident. now rewrite H. Qed.

Lemma parse_vis_print v rest :
  peek_kw "pub" rest = false -> parse_vis (print_vis v ++ rest) = (v, rest).
Proof.
  intros H. destruct v; [reflexivity|]. cbn [print_vis app].
  destruct rest as [|[s|z|s|s|d ts] r]; try reflexivity. cbn [peek_kw] in H. unfold parse_vis. now rewrite H.
Qed.

(** a keyword is not an identifier *)
Ltac kw_neq H :=
  match goal with
  | |- String.eqb ?n ?k = false =>
    let E := fresh "E" in
    destruct (String.eqb_spec n k) as [E|]; [rewrite E in H; vm_compute in H; discriminate H | reflexivity]
  end.

Lemma print_attrs_length l : List.length (print_attrs l) = (2 * List.length l)%nat.
Proof.
  induction l as [|a l IH]; [reflexivity|]. unfold print_attrs in *.
  cbn [flat_map app List.length]. rewrite IH. lia.
Qed.

Lemma attrs_of_print l rest :
  Forall wf_attr l -> peek_punct "#" rest = false -> attrs_of (print_attrs l ++ rest) = Some (l, rest).
Proof.
  intros Hwf Hrest. unfold attrs_of. apply parse_print_attrs; [exact Hwf | |].
  - destruct rest as [|[s|z|s|s|d ts] r]; try exact I. cbn [peek_punct] in Hrest. now apply String.eqb_neq.
  - rewrite app_length, print_attrs_length. lia.
Qed.

Lemma parse_ty_print t rest :
  wf_ty t -> stops_type_ident rest -> parse_ty (print_type t ++ rest) = Some (t, rest).
Proof. intros [Hwf Hd] Hs. unfold parse_ty. now apply parse_print_type. Qed.

Lemma item_follow_stops rest : item_follow rest -> stops_type_ident rest.
Proof.
  destruct rest as [|[s|z|s|s|d ts] r]; cbn; try tauto.
  intros [->| ->]; split; discriminate.
Qed.

(** tokens that attribute lists and visibilities put in front *)
Lemma peek_punct_vis_id s v k r : peek_punct s (print_vis v ++ KId k :: r) = false.
Proof. now destruct v. Qed.
Lemma peek_kw_attrs s l r : peek_kw s r = false -> peek_kw s (print_attrs l ++ r) = false.
Proof. destruct l; [trivial | reflexivity]. Qed.
Lemma peek_kw_vis_id s v k r :
  String.eqb "pub" s = false -> String.eqb k s = false -> peek_kw s (print_vis v ++ KId k :: r) = false.
Proof. intros H1 H2. destruct v; cbn [print_vis app peek_kw]; assumption. Qed.

(** ** [parse_terminated] reads back both separator styles *)
Section Terminated.
  Context {A : Type} (p : list tok -> option (A * list tok)) (pr : A -> list tok)
          (sep : string) (wf : A -> Prop).
  Definition sep_follow (rest : list tok) : Prop := rest = [] \/ exists r, rest = KPunct sep :: r.
  Hypothesis Hp : forall a rest, wf a -> sep_follow rest -> p (pr a ++ rest) = Some (a, rest).
  Hypothesis Hne : forall a, pr a <> [].

  Lemma parse_terminated_term_by : forall l fuel,
    Forall wf l -> (List.length l < fuel)%nat ->
    parse_terminated p sep fuel (term_by (KPunct sep) (map pr l)) = Some l.
  Proof.
    induction l as [|a l IH]; intros fuel Hwf Hf; (destruct fuel as [|f]; [cbn in Hf; lia|]);
      cbn [map term_by parse_terminated]; [reflexivity|].
    apply Forall_cons_iff in Hwf as [Ha Hl].
    destruct (pr a ++ KPunct sep :: term_by (KPunct sep) (map pr l)) eqn:E.
    - apply app_eq_nil in E as [E _]. now apply Hne in E.
    - rewrite <- E, Hp; [| exact Ha | right; eauto]. cbn [is_punct]. rewrite String.eqb_refl.
      rewrite IH; [reflexivity | exact Hl | cbn in Hf; lia].
  Qed.

  Lemma parse_terminated_sep_by : forall l fuel,
    Forall wf l -> (List.length l < fuel)%nat ->
    parse_terminated p sep fuel (sep_by (KPunct sep) (map pr l)) = Some l.
  Proof.
    induction l as [|a l IH]; intros fuel Hwf Hf; (destruct fuel as [|f]; [cbn in Hf; lia|]);
      cbn [map sep_by parse_terminated]; [reflexivity|].
    apply Forall_cons_iff in Hwf as [Ha Hl]. destruct l as [|a2 l'].
    - cbn [map]. pose proof (Hp a [] Ha (or_introl eq_refl)) as Hpa. rewrite app_nil_r in Hpa.
      destruct (pr a) eqn:E; [now apply Hne in E|]. now rewrite Hpa.
    - cbn [map] in *. set (tl_ := sep_by (KPunct sep) (pr a2 :: map pr l')) in *.
      destruct (pr a ++ KPunct sep :: tl_) eqn:E.
      + apply app_eq_nil in E as [E _]. now apply Hne in E.
      + rewrite <- E, Hp; [| exact Ha | right; eauto]. cbn [is_punct]. rewrite String.eqb_refl.
        rewrite IH; [reflexivity | exact Hl | cbn in Hf |- *; lia].
  Qed.

  Lemma term_by_length l : (List.length l <= List.length (term_by (KPunct sep) (map pr l)))%nat.
  Proof.
    induction l as [|a l IH]; cbn [map term_by List.length]; [lia|].
    rewrite app_length. cbn [List.length]. lia.
  Qed.
  Lemma sep_by_length l : (List.length l <= List.length (sep_by (KPunct sep) (map pr l)))%nat.
  Proof.
    induction l as [|a [|a2 l'] IH]; cbn [map sep_by List.length] in *; [lia | |].
    - specialize (Hne a). destruct (pr a); [congruence | cbn; lia].
    - rewrite app_length. cbn [List.length]. lia.
  Qed.

  Lemma parse_group_term_by l :
    Forall wf l -> parse_group p sep (term_by (KPunct sep) (map pr l)) = Some l.
  Proof. intros H. apply parse_terminated_term_by; [exact H|]. pose proof (term_by_length l). lia. Qed.
  Lemma parse_group_sep_by l :
    Forall wf l -> parse_group p sep (sep_by (KPunct sep) (map pr l)) = Some l.
  Proof. intros H. apply parse_terminated_sep_by; [exact H|]. pose proof (sep_by_length l). lia. Qed.
End Terminated.

Lemma sep_follow_item_follow sep rest :
  sep = "," \/ sep = ";" -> sep_follow sep rest -> item_follow rest.
Proof. intros Hs [->|[r ->]]; cbn; [exact I | exact Hs]. Qed.

(** ** arguments and functions *)
Lemma print_arg_nonempty a : print_arg a <> [].
Proof. destruct a; discriminate. Qed.

Lemma parse_print_arg a rest :
  wf_arg a -> item_follow rest -> parse_arg (print_arg a ++ rest) = Some (a, rest).
Proof.
  intros Hwf Hrest. destruct a as [| |n t]; [reflexivity | reflexivity |].
  destruct Hwf as [Hn Ht]. cbn [print_arg app parse_arg]. rewrite Hn, eat_punct_same.
  cbn [obind]. rewrite parse_ty_print by (auto using item_follow_stops). reflexivity.
Qed.

Lemma parse_print_ret r rest :
  wf_ret r -> item_follow rest -> parse_ret (print_ret r ++ rest) = Some (r, rest).
Proof.
  intros Hwf Hrest. destruct r as [t|]; cbn [print_ret app].
  - unfold parse_ret. cbn [String.eqb Ascii.eqb Bool.eqb].
    rewrite parse_ty_print by (auto using item_follow_stops). reflexivity.
  - destruct rest as [|[s|z|s|s|d ts] r]; try reflexivity. cbn in Hrest.
    unfold parse_ret. destruct Hrest as [-> | ->]; reflexivity.
Qed.

Lemma print_function_nonempty f : print_function f <> [].
Proof.
  unfold print_function. destruct (print_attrs (gf_attrs f)); [|discriminate].
  destruct (gf_vis f); discriminate.
Qed.

Theorem parse_print_function f rest :
  wf_function f -> item_follow rest -> parse_function (print_function f ++ rest) = Some (f, rest).
Proof.
  intros (Ha & Hn & Hargs & Hr) Hrest. unfold print_function, parse_function.
  repeat rewrite <- app_assoc. cbn [app].
  rewrite attrs_of_print by (auto using peek_punct_vis_id). cbn [obind fst snd].
  rewrite parse_vis_print by reflexivity. cbn [fst snd].
  rewrite eat_kw_same. cbn [obind]. rewrite parse_ident_ok by exact Hn. cbn [obind fst snd].
  assert (Hg : parse_group parse_arg "," (sep_by (KPunct ",") (map print_arg (gf_args f))) = Some (gf_args f)).
  { apply (parse_group_sep_by parse_arg print_arg "," wf_arg); [| exact print_arg_nonempty | exact Hargs].
    intros a r Hwa Hf. apply parse_print_arg; [exact Hwa|].
    apply (sep_follow_item_follow "," r); [left; reflexivity | exact Hf]. }
  rewrite Hg.
  cbn [obind]. rewrite parse_print_ret by assumption. cbn [obind fst snd].
  destruct f; reflexivity.
Qed.

Lemma parse_group_functions fs :
  Forall wf_function fs ->
  parse_group parse_function ";" (term_by (KPunct ";") (map print_function fs)) = Some fs.
Proof.
  intros H. apply (parse_group_term_by parse_function print_function ";" wf_function);
    [| exact print_function_nonempty | exact H].
  intros f r Hwf Hf. apply parse_print_function; [exact Hwf|].
  apply (sep_follow_item_follow ";" r); [right; reflexivity | exact Hf].
Qed.

(** ** type statements *)
Lemma parse_print_field fd rest :
  wf_field fd -> item_follow rest -> parse_field (print_field fd ++ rest) = Some (fd, rest).
Proof.
  intros Hwf Hrest. destruct fd as [v n t|fs]; cbn [print_field wf_field] in *.
  - destruct Hwf as (Hn & Hv & Ht). unfold parse_field. rewrite <- app_assoc. cbn [app].
    assert (peek_kw "vftable" (print_vis v ++ KId n :: KPunct ":" :: print_type t ++ rest) = false) as ->.
    { destruct v; [reflexivity|]. cbn [print_vis app peek_kw]. apply String.eqb_neq. now apply Hv. }
    rewrite parse_vis_print.
    2:{ cbn [peek_kw]. kw_neq Hn. }
    cbn [fst snd]. rewrite parse_ident_ok by exact Hn. cbn [obind fst snd]. rewrite eat_punct_same.
    cbn [obind]. rewrite parse_ty_print by (auto using item_follow_stops). reflexivity.
  - unfold parse_field. cbn [app peek_kw String.eqb Ascii.eqb Bool.eqb].
    rewrite parse_group_functions by exact Hwf. reflexivity.
Qed.

Lemma print_field_head fd rest : peek_punct "#" (print_field fd ++ rest) = false.
Proof. destruct fd as [v n t|fs]; [|reflexivity]. cbn [print_field]. rewrite <- app_assoc. now destruct v. Qed.

Lemma print_statement_nonempty s : print_statement s <> [].
Proof.
  unfold print_statement. destruct (print_attrs (gs_attrs s)); [|discriminate].
  destruct (gs_field s) as [[|] n t|fs]; discriminate.
Qed.

Theorem parse_print_statement s rest :
  wf_statement s -> item_follow rest -> parse_statement (print_statement s ++ rest) = Some (s, rest).
Proof.
  intros [Ha Hf] Hrest. unfold print_statement, parse_statement. rewrite <- app_assoc.
  rewrite attrs_of_print by (auto using print_field_head). cbn [obind fst snd].
  rewrite parse_print_field by assumption. cbn [obind fst snd]. destruct s; reflexivity.
Qed.

(** ** type definitions (the part after the name) *)
Theorem parse_print_typedef_body td attrs rest :
  Forall wf_statement (gt_stmts td) ->
  parse_typedef_body attrs (print_typedef_body td ++ rest)
  = Some ({| gt_stmts := gt_stmts td; gt_attrs := attrs |}, rest).
Proof.
  intros Hs. unfold print_typedef_body. destruct (gt_stmts td) as [|s l] eqn:E; [reflexivity|].
  cbn [app parse_typedef_body].
  rewrite (parse_group_term_by parse_statement print_statement "," wf_statement);
    [reflexivity | | exact print_statement_nonempty | exact Hs].
  intros a r Hwa Hf. apply parse_print_statement; [exact Hwa|].
  apply (sep_follow_item_follow "," r); [left; reflexivity | exact Hf].
Qed.

(** ** enum definitions *)
Lemma print_enumstmt_nonempty s : print_enumstmt s <> [].
Proof. unfold print_enumstmt. destruct (print_attrs (ge_attrs s)); discriminate. Qed.

Theorem parse_print_enumstmt s rest :
  wf_enumstmt s -> item_follow rest -> parse_enumstmt (print_enumstmt s ++ rest) = Some (s, rest).
Proof.
  intros (Ha & Hn & He) Hrest. unfold print_enumstmt, parse_enumstmt. rewrite <- app_assoc. cbn [app].
  rewrite attrs_of_print by (exact Ha || reflexivity). cbn [obind fst snd].
  rewrite parse_ident_ok by exact Hn. cbn [obind fst snd].
  destruct s as [n [e|] a]; cbn [ge_expr ge_name ge_attrs app] in *.
  - cbn [peek_punct String.eqb Ascii.eqb Bool.eqb tl]. rewrite parse_print_expr by exact He. reflexivity.
  - assert (peek_punct "=" rest = false) as ->; [|reflexivity].
    destruct rest as [|[s|z|s|s|d ts] r]; try reflexivity. cbn in Hrest. destruct Hrest as [-> | ->]; reflexivity.
Qed.

Theorem parse_print_enumdef_body ed attrs rest :
  wf_ty (ged_type ed) -> Forall wf_enumstmt (ged_stmts ed) ->
  parse_enumdef_body attrs (print_enumdef_body ed ++ rest)
  = Some ({| ged_type := ged_type ed; ged_stmts := ged_stmts ed; ged_attrs := attrs |}, rest).
Proof.
  intros Ht Hs. unfold print_enumdef_body, parse_enumdef_body. cbn [app]. rewrite eat_punct_same.
  cbn [obind]. rewrite <- app_assoc. rewrite parse_ty_print by (exact Ht || exact I).
  cbn [obind fst snd app].
  rewrite (parse_group_term_by parse_enumstmt print_enumstmt "," wf_enumstmt);
    [reflexivity | | exact print_enumstmt_nonempty | exact Hs].
  intros a r Hwa Hf. apply parse_print_enumstmt; [exact Hwa|].
  apply (sep_follow_item_follow "," r); [left; reflexivity | exact Hf].
Qed.

(** ** item definitions: [parse_item_definition], given the attributes and visibility read before *)
Theorem parse_print_itemdef_body d rest :
  wf_itemdef d ->
  parse_itemdef (gi_vis d) (inner_attrs (gi_inner d))
    (match gi_inner d with
     | GIType td => KId "type" :: KId (gi_name d) :: print_typedef_body td
     | GIEnum ed => KId "enum" :: KId (gi_name d) :: print_enumdef_body ed
     end ++ rest) = Some (d, rest).
Proof.
  intros [Hn Hi]. destruct d as [v n [td|ed]]; cbn [gi_inner gi_name gi_vis inner_attrs app] in *.
  - destruct Hi as [Ha Hs]. unfold parse_itemdef. cbn [String.eqb Ascii.eqb Bool.eqb].
    rewrite parse_ident_ok by exact Hn. cbn [obind fst snd].
    rewrite parse_print_typedef_body by exact Hs. cbn [obind fst snd]. destruct td; reflexivity.
  - destruct Hi as (Ha & Ht & Hs). unfold parse_itemdef. cbn [String.eqb Ascii.eqb Bool.eqb].
    rewrite parse_ident_ok by exact Hn. cbn [obind fst snd].
    rewrite parse_print_enumdef_body by assumption. cbn [obind fst snd]. destruct ed; reflexivity.
Qed.

(** ** the module loop: one item at a time.  No condition on what follows: every item ends with
    [;] or a brace group *)
Lemma head_attrs_vis_kw s l v k r :
  String.eqb "pub" s = false -> String.eqb k s = false ->
  peek_kw s (print_attrs l ++ print_vis v ++ KId k :: r) = false.
Proof. intros H1 H2. apply peek_kw_attrs. now apply peek_kw_vis_id. Qed.

Theorem parse_item_def d rest :
  wf_itemdef d -> parse_item (print_itemdef d ++ rest) = Some (IDef d, rest).
Proof.
  intros Hwf. pose proof (parse_print_itemdef_body d rest Hwf) as Hbody.
  assert (Ha : Forall wf_attr (inner_attrs (gi_inner d))).
  { destruct Hwf as [_ Hi]. destruct (gi_inner d); [apply Hi | apply Hi]. }
  unfold print_itemdef. repeat rewrite <- app_assoc.
  set (body := match gi_inner d with
               | GIType td => KId "type" :: KId (gi_name d) :: print_typedef_body td
               | GIEnum ed => KId "enum" :: KId (gi_name d) :: print_enumdef_body ed
               end) in *.
  assert (Hk : exists k r, body ++ rest = KId k :: r /\ (k = "type" \/ k = "enum")).
  { subst body. destruct (gi_inner d); cbn [app]; eauto. }
  destruct Hk as (k & r & Ek & Hk). rewrite Ek in *.
  unfold parse_item.
  rewrite head_attrs_vis_kw by (destruct Hk as [-> | ->]; reflexivity).
  rewrite head_attrs_vis_kw by (destruct Hk as [-> | ->]; reflexivity).
  rewrite attrs_of_print by (auto using peek_punct_vis_id). cbn [obind fst snd].
  rewrite peek_kw_vis_id by (destruct Hk as [-> | ->]; reflexivity). cbn [andb].
  rewrite peek_kw_vis_id by (destruct Hk as [-> | ->]; reflexivity).
  rewrite parse_vis_print by (destruct Hk as [-> | ->]; reflexivity). cbn [fst snd].
  assert (peek_kw "extern" (KId k :: r) = false) as -> by (destruct Hk as [-> | ->]; reflexivity).
  assert (peek_kw "type" (KId k :: r) || peek_kw "enum" (KId k :: r) = true) as ->
    by (destruct Hk as [-> | ->]; reflexivity).
  rewrite Hbody. reflexivity.
Qed.

Theorem parse_item_impl b rest :
  wf_impl b -> parse_item (print_impl b ++ rest) = Some (IImpl b, rest).
Proof.
  intros (Ha & Hn & Hf). unfold print_impl, parse_item. rewrite <- app_assoc. cbn [app].
  rewrite !peek_kw_attrs by reflexivity.
  rewrite attrs_of_print by (exact Ha || reflexivity). cbn [obind fst snd].
  cbn [peek_kw String.eqb Ascii.eqb Bool.eqb andb tl].
  rewrite parse_ident_ok by exact Hn. cbn [obind fst snd].
  rewrite parse_group_functions by exact Hf. cbn [obind]. destruct b; reflexivity.
Qed.

Theorem parse_item_extern_type e rest :
  wf_extern_type e -> parse_item (print_extern_type e ++ rest) = Some (IExternType e, rest).
Proof.
  intros [Hn Ha]. unfold print_extern_type, parse_item. rewrite <- app_assoc. cbn [app].
  rewrite !peek_kw_attrs by reflexivity.
  rewrite attrs_of_print by (exact Ha || reflexivity). cbn [obind fst snd].
  cbn [peek_kw String.eqb Ascii.eqb Bool.eqb andb tl]. rewrite Hn.
  rewrite type_ident_tail_stops by (cbn; split; discriminate). cbn [fst snd].
  rewrite eat_punct_same. cbn [obind]. destruct e; reflexivity.
Qed.

Theorem parse_item_extern_value e rest :
  wf_extern_value e -> parse_item (print_extern_value e ++ rest) = Some (IExternValue e, rest).
Proof.
  intros (Ha & Hn & Ht). unfold print_extern_value, parse_item.
  repeat first [rewrite <- app_assoc | progress cbn [app]].
  rewrite !head_attrs_vis_kw by reflexivity.
  rewrite attrs_of_print by (auto using peek_punct_vis_id). cbn [obind fst snd].
  assert (peek_kw "extern" (print_vis (gev_vis e) ++ KId "extern" :: KId (gev_name e) :: KPunct ":" ::
                            print_type (gev_type e) ++ KPunct ";" :: rest)
          && peek_kw "type" (tl (print_vis (gev_vis e) ++ KId "extern" :: KId (gev_name e) :: KPunct ":" ::
                            print_type (gev_type e) ++ KPunct ";" :: rest)) = false) as ->.
  { destruct (gev_vis e); [reflexivity|]. cbn [print_vis app peek_kw tl String.eqb Ascii.eqb Bool.eqb andb].
    kw_neq Hn. }
  rewrite peek_kw_vis_id by reflexivity.
  rewrite parse_vis_print by reflexivity. cbn [fst snd].
  cbn [peek_kw String.eqb Ascii.eqb Bool.eqb tl].
  rewrite parse_ident_ok by exact Hn. cbn [obind fst snd]. rewrite eat_punct_same. cbn [obind].
  rewrite parse_ty_print by (exact Ht || (cbn; split; discriminate)). cbn [obind fst snd].
  rewrite eat_punct_same. cbn [obind]. destruct e; reflexivity.
Qed.

(** *** use paths *)
Lemma parse_print_path : forall p fuel rest,
  wf_path p -> (List.length (print_path p) < fuel)%nat ->
  parse_path fuel (print_path p ++ KPunct ";" :: rest) = Some (p, KPunct ";" :: rest).
Proof.
  induction p as [|s p IH]; intros fuel rest Hwf Hf; (destruct fuel as [|f]; [cbn in Hf; lia|]).
  - reflexivity.
  - apply Forall_cons_iff in Hwf as [Hs Hp]. destruct p as [|s2 p'].
    + cbn [print_path app parse_path]. rewrite Hs.
      rewrite type_ident_tail_stops by (cbn; split; discriminate). cbn [fst snd].
      assert (IH' := IH f rest Hp). cbn [print_path app List.length] in IH', Hf.
      rewrite IH' by lia. reflexivity.
    + change (print_path (s :: s2 :: p')) with (KId s :: KPunct "::" :: print_path (s2 :: p')) in *.
      cbn [app parse_path]. rewrite Hs.
      rewrite type_ident_tail_stops by (cbn; split; discriminate). cbn [fst snd].
      cbn [List.length] in Hf. destruct f as [|f']; [lia|].
      cbn [parse_path String.eqb Ascii.eqb Bool.eqb].
      rewrite (IH f' rest Hp) by lia. reflexivity.
Qed.

Theorem parse_item_use p rest :
  wf_path p -> parse_item (print_use p ++ rest) = Some (IUse p, rest).
Proof.
  intros Hp. unfold print_use, parse_item. cbn [app peek_kw String.eqb Ascii.eqb Bool.eqb tl].
  rewrite <- app_assoc. cbn [app]. rewrite parse_print_path; [| exact Hp |].
  - cbn [obind fst snd]. rewrite eat_punct_same. reflexivity.
  - cbn [List.length]. rewrite app_length. lia.
Qed.

(** *** backends *)
Lemma parse_block_hit kw s r :
  parse_block kw (KId kw :: KStr s :: KPunct ";" :: r) = Some (Some (str_trim s, r)).
Proof. unfold parse_block. cbn [peek_kw]. now rewrite String.eqb_refl. Qed.

Lemma parse_backend_body_print pro epi :
  trimmed pro -> trimmed epi ->
  parse_backend_body (S (List.length (print_block "prologue" pro ++ print_block "epilogue" epi)))
    (print_block "prologue" pro ++ print_block "epilogue" epi) None None = Some (pro, epi).
Proof.
  intros Hp He. destruct pro as [p|], epi as [e|]; cbn [print_block app List.length trimmed] in *.
  - cbn [parse_backend_body]. rewrite parse_block_hit. cbn [parse_backend_body].
    change (parse_block "prologue" (KId "epilogue" :: KStr e :: KPunct ";" :: [])) with (@Some (option (string * list tok)) None).
    cbn iota. rewrite parse_block_hit. cbn [join_block]. now rewrite Hp, He.
  - cbn [parse_backend_body]. rewrite parse_block_hit. cbn [join_block]. now rewrite Hp.
  - cbn [parse_backend_body].
    change (parse_block "prologue" (KId "epilogue" :: KStr e :: KPunct ";" :: [])) with (@Some (option (string * list tok)) None).
    cbn iota. rewrite parse_block_hit. cbn [join_block]. now rewrite He.
  - reflexivity.
Qed.

Theorem parse_print_backend b rest :
  wf_backend b -> parse_backend (print_backend b ++ rest) = Some (b, rest).
Proof.
  intros (Hn & Hp & He). unfold print_backend, parse_backend. cbn [app]. rewrite eat_kw_same.
  cbn [obind]. rewrite parse_ident_ok by exact Hn. cbn [obind fst snd].
  change (parse_block "prologue" (KGroup Brace (print_block "prologue" (gbk_pro b) ++ print_block "epilogue" (gbk_epi b)) :: rest))
    with (@Some (option (string * list tok)) None).
  change (parse_block "epilogue" (KGroup Brace (print_block "prologue" (gbk_pro b) ++ print_block "epilogue" (gbk_epi b)) :: rest))
    with (@Some (option (string * list tok)) None).
  cbn iota. rewrite parse_backend_body_print by assumption. cbn [obind fst snd]. destruct b; reflexivity.
Qed.

Theorem parse_item_backend b rest :
  wf_backend b -> parse_item (print_backend b ++ rest) = Some (IBackend b, rest).
Proof.
  intros Hb. unfold parse_item. rewrite parse_print_backend by exact Hb.
  unfold print_backend. cbn [app peek_kw String.eqb Ascii.eqb Bool.eqb obind fst snd]. reflexivity.
Qed.

(** ** module attributes *)
Definition starts_bang (ts : list tok) : bool :=
  match ts with KPunct p :: KPunct q :: _ => String.eqb p "#" && String.eqb q "!" | _ => false end.

Lemma print_mod_attrs_length l : List.length (print_mod_attrs l) = (3 * List.length l)%nat.
Proof.
  induction l as [|a l IH]; [reflexivity|]. unfold print_mod_attrs in *.
  cbn [flat_map app List.length]. rewrite IH. lia.
Qed.

Theorem parse_print_mod_attrs : forall l fuel rest,
  Forall wf_attr l -> starts_bang rest = false -> (List.length l < fuel)%nat ->
  parse_mod_attrs fuel (print_mod_attrs l ++ rest) = Some (l, rest).
Proof.
  induction l as [|a l IH]; intros fuel rest Hwf Hrest Hf; (destruct fuel as [|f]; [cbn in Hf; lia|]).
  - cbn [print_mod_attrs flat_map app parse_mod_attrs].
    destruct rest as [|[s|z|s|p|d ts] r]; try reflexivity.
    destruct r as [|[s|z|s|q|d ts] r]; try reflexivity. cbn [starts_bang] in Hrest. now rewrite Hrest.
  - apply Forall_cons_iff in Hwf as [Ha Hl]. unfold print_mod_attrs. cbn [flat_map app]. fold (print_mod_attrs l).
    cbn [parse_mod_attrs String.eqb Ascii.eqb Bool.eqb andb].
    assert (parse_attr_parts (S (List.length (print_attr_part a))) (print_attr_part a) = Some [a]) as ->.
    { cbn [parse_attr_parts]. pose proof (parse_print_attr_part a [] Ha I) as Hp. rewrite app_nil_r in Hp.
      destruct (print_attr_part a) eqn:E; [destruct a; discriminate|]. rewrite Hp. reflexivity. }
    cbn [obind]. rewrite IH by (auto; cbn in Hf; lia). reflexivity.
Qed.

(** no item starts with [#!] *)
Lemma starts_bang_attrs l r : starts_bang r = false -> starts_bang (print_attrs l ++ r) = false.
Proof. destruct l; [trivial | reflexivity]. Qed.
Lemma starts_bang_vis_id v k r : starts_bang (print_vis v ++ KId k :: r) = false.
Proof. now destruct v. Qed.
Lemma starts_bang_flat {A} (pr : A -> list tok) l rest :
  (forall a r, starts_bang (pr a ++ r) = false) -> starts_bang rest = false ->
  starts_bang (flat_map pr l ++ rest) = false.
Proof. intros H Hr. destruct l as [|a l]; [exact Hr|]. cbn [flat_map]. rewrite <- app_assoc. apply H. Qed.

Lemma starts_bang_use p r : starts_bang (print_use p ++ r) = false.
Proof. reflexivity. Qed.
Lemma starts_bang_extern_type e r : starts_bang (print_extern_type e ++ r) = false.
Proof. unfold print_extern_type. rewrite <- app_assoc. now apply starts_bang_attrs. Qed.
Lemma starts_bang_extern_value e r : starts_bang (print_extern_value e ++ r) = false.
Proof.
  unfold print_extern_value. repeat rewrite <- app_assoc. apply starts_bang_attrs.
  cbn [app]. apply starts_bang_vis_id.
Qed.
Lemma starts_bang_itemdef d r : starts_bang (print_itemdef d ++ r) = false.
Proof.
  unfold print_itemdef. repeat rewrite <- app_assoc. apply starts_bang_attrs.
  destruct (gi_inner d); cbn [app]; apply starts_bang_vis_id.
Qed.
Lemma starts_bang_impl b r : starts_bang (print_impl b ++ r) = false.
Proof. unfold print_impl. rewrite <- app_assoc. now apply starts_bang_attrs. Qed.
Lemma starts_bang_backend b r : starts_bang (print_backend b ++ r) = false.
Proof. reflexivity. Qed.

(** ** the item loop *)
Lemma parse_items_mono : forall f ts m,
  parse_items f ts = Some m -> forall f', (f <= f')%nat -> parse_items f' ts = Some m.
Proof.
  induction f as [|f IH]; intros ts m H f' Hle; [discriminate|]. destruct f' as [|f']; [lia|].
  cbn [parse_items] in *. destruct ts as [|t ts]; [exact H|].
  destruct (parse_item (t :: ts)) as [[i r]|]; cbn [obind fst snd] in *; [|discriminate].
  destruct (parse_items f r) as [m'|] eqn:E; cbn [obind] in *; [|discriminate].
  rewrite (IH _ _ E f') by lia. exact H.
Qed.

Section ItemList.
  Context {A : Type} (pr : A -> list tok) (mk : A -> item) (wf : A -> Prop).
  Hypothesis Hp : forall a rest, wf a -> parse_item (pr a ++ rest) = Some (mk a, rest).
  Hypothesis Hne : forall a, pr a <> [].

  Lemma parse_items_flat : forall l fuel rest,
    Forall wf l ->
    parse_items (List.length l + fuel) (flat_map pr l ++ rest)
    = option_map (fun m => fold_right (fun a => add_item (mk a)) m l) (parse_items fuel rest).
  Proof.
    induction l as [|a l IH]; intros fuel rest Hwf.
    - cbn [List.length flat_map app fold_right plus]. now destruct (parse_items fuel rest).
    - apply Forall_cons_iff in Hwf as [Ha Hl]. cbn [List.length flat_map plus parse_items].
      rewrite <- app_assoc. destruct (pr a ++ flat_map pr l ++ rest) eqn:E.
      + apply app_eq_nil in E as [E _]. now apply Hne in E.
      + rewrite <- E, Hp by exact Ha. cbn [obind fst snd]. rewrite IH by exact Hl.
        now destruct (parse_items fuel rest).
  Qed.

  Lemma flat_map_length_ge l : (List.length l <= List.length (flat_map pr l))%nat.
  Proof.
    induction l as [|a l IH]; [reflexivity|]. cbn [flat_map List.length]. rewrite app_length.
    specialize (Hne a). destruct (pr a); [congruence | cbn [List.length]; lia].
  Qed.
End ItemList.

Lemma print_use_nonempty p : print_use p <> [].
Proof. discriminate. Qed.
Lemma print_backend_nonempty b : print_backend b <> [].
Proof. discriminate. Qed.
Lemma print_extern_type_nonempty e : print_extern_type e <> [].
Proof. unfold print_extern_type. destruct (print_attrs (snd e)); discriminate. Qed.
Lemma print_extern_value_nonempty e : print_extern_value e <> [].
Proof.
  unfold print_extern_value. destruct (print_attrs (gev_attrs e)); [|discriminate].
  destruct (gev_vis e); discriminate.
Qed.
Lemma print_itemdef_nonempty d : print_itemdef d <> [].
Proof.
  unfold print_itemdef. destruct (print_attrs _); [|discriminate].
  destruct (gi_vis d), (gi_inner d); discriminate.
Qed.
Lemma print_impl_nonempty b : print_impl b <> [].
Proof. unfold print_impl. destruct (print_attrs (gb_attrs b)); discriminate. Qed.

(** filing items of one kind touches one list only *)
Lemma fold_uses l m :
  fold_right (fun a => add_item (IUse a)) m l =
  {| gm_uses := l ++ gm_uses m; gm_extern_types := gm_extern_types m;
     gm_extern_values := gm_extern_values m; gm_defs := gm_defs m; gm_impls := gm_impls m;
     gm_backends := gm_backends m; gm_attrs := gm_attrs m |}.
Proof. induction l as [|a l IH]; [now destruct m|]. cbn [fold_right]. rewrite IH. reflexivity. Qed.
Lemma fold_extern_types l m :
  fold_right (fun a => add_item (IExternType a)) m l =
  {| gm_uses := gm_uses m; gm_extern_types := l ++ gm_extern_types m;
     gm_extern_values := gm_extern_values m; gm_defs := gm_defs m; gm_impls := gm_impls m;
     gm_backends := gm_backends m; gm_attrs := gm_attrs m |}.
Proof. induction l as [|a l IH]; [now destruct m|]. cbn [fold_right]. rewrite IH. reflexivity. Qed.
Lemma fold_extern_values l m :
  fold_right (fun a => add_item (IExternValue a)) m l =
  {| gm_uses := gm_uses m; gm_extern_types := gm_extern_types m;
     gm_extern_values := l ++ gm_extern_values m; gm_defs := gm_defs m; gm_impls := gm_impls m;
     gm_backends := gm_backends m; gm_attrs := gm_attrs m |}.
Proof. induction l as [|a l IH]; [now destruct m|]. cbn [fold_right]. rewrite IH. reflexivity. Qed.
Lemma fold_defs l m :
  fold_right (fun a => add_item (IDef a)) m l =
  {| gm_uses := gm_uses m; gm_extern_types := gm_extern_types m;
     gm_extern_values := gm_extern_values m; gm_defs := l ++ gm_defs m; gm_impls := gm_impls m;
     gm_backends := gm_backends m; gm_attrs := gm_attrs m |}.
Proof. induction l as [|a l IH]; [now destruct m|]. cbn [fold_right]. rewrite IH. reflexivity. Qed.
Lemma fold_impls l m :
  fold_right (fun a => add_item (IImpl a)) m l =
  {| gm_uses := gm_uses m; gm_extern_types := gm_extern_types m;
     gm_extern_values := gm_extern_values m; gm_defs := gm_defs m; gm_impls := l ++ gm_impls m;
     gm_backends := gm_backends m; gm_attrs := gm_attrs m |}.
Proof. induction l as [|a l IH]; [now destruct m|]. cbn [fold_right]. rewrite IH. reflexivity. Qed.
Lemma fold_backends l m :
  fold_right (fun a => add_item (IBackend a)) m l =
  {| gm_uses := gm_uses m; gm_extern_types := gm_extern_types m;
     gm_extern_values := gm_extern_values m; gm_defs := gm_defs m; gm_impls := gm_impls m;
     gm_backends := l ++ gm_backends m; gm_attrs := gm_attrs m |}.
Proof. induction l as [|a l IH]; [now destruct m|]. cbn [fold_right]. rewrite IH. reflexivity. Qed.

Definition print_items (m : gmodule) : list tok :=
  flat_map print_use (gm_uses m) ++
  flat_map print_extern_type (gm_extern_types m) ++
  flat_map print_extern_value (gm_extern_values m) ++
  flat_map print_itemdef (gm_defs m) ++
  flat_map print_impl (gm_impls m) ++
  flat_map print_backend (gm_backends m).

Definition n_items (m : gmodule) : nat :=
  List.length (gm_uses m) + (List.length (gm_extern_types m) + (List.length (gm_extern_values m) +
  (List.length (gm_defs m) + (List.length (gm_impls m) + (List.length (gm_backends m) + 1))))).

Lemma n_items_le m : (n_items m <= S (List.length (print_items m)))%nat.
Proof.
  unfold n_items, print_items. rewrite !app_length.
  pose proof (flat_map_length_ge print_use print_use_nonempty (gm_uses m)).
  pose proof (flat_map_length_ge print_extern_type print_extern_type_nonempty (gm_extern_types m)).
  pose proof (flat_map_length_ge print_extern_value print_extern_value_nonempty (gm_extern_values m)).
  pose proof (flat_map_length_ge print_itemdef print_itemdef_nonempty (gm_defs m)).
  pose proof (flat_map_length_ge print_impl print_impl_nonempty (gm_impls m)).
  pose proof (flat_map_length_ge print_backend print_backend_nonempty (gm_backends m)).
  lia.
Qed.

Theorem parse_print_items m :
  wf_module m -> parse_items (n_items m) (print_items m) = Some (set_attrs [] m).
Proof.
  intros (_ & Hu & Het & Hev & Hd & Hi & Hb). unfold n_items, print_items.
  rewrite (parse_items_flat print_use IUse wf_path parse_item_use print_use_nonempty) by exact Hu.
  rewrite (parse_items_flat print_extern_type IExternType wf_extern_type parse_item_extern_type
             print_extern_type_nonempty) by exact Het.
  rewrite (parse_items_flat print_extern_value IExternValue wf_extern_value parse_item_extern_value
             print_extern_value_nonempty) by exact Hev.
  rewrite (parse_items_flat print_itemdef IDef wf_itemdef parse_item_def print_itemdef_nonempty) by exact Hd.
  rewrite (parse_items_flat print_impl IImpl wf_impl parse_item_impl print_impl_nonempty) by exact Hi.
  rewrite <- (app_nil_r (flat_map print_backend (gm_backends m))).
  rewrite (parse_items_flat print_backend IBackend wf_backend parse_item_backend print_backend_nonempty) by exact Hb.
  cbn [parse_items option_map].
  rewrite fold_backends, fold_impls, fold_defs, fold_extern_values, fold_extern_types, fold_uses.
  destruct m; cbn. rewrite !app_nil_r. reflexivity.
Qed.

Lemma starts_bang_items m : starts_bang (print_items m) = false.
Proof.
  unfold print_items.
  apply starts_bang_flat; [exact starts_bang_use|].
  apply starts_bang_flat; [exact starts_bang_extern_type|].
  apply starts_bang_flat; [exact starts_bang_extern_value|].
  apply starts_bang_flat; [exact starts_bang_itemdef|].
  apply starts_bang_flat; [exact starts_bang_impl|].
  rewrite <- (app_nil_r (flat_map print_backend (gm_backends m))).
  apply starts_bang_flat; [exact starts_bang_backend | reflexivity].
Qed.

(** ** the whole module *)
Theorem parse_print_module : forall m, wf_module m -> parse_module (print_module m) = Some m.
Proof.
  intros m Hwf. change (print_module m) with (print_mod_attrs (gm_attrs m) ++ print_items m).
  unfold parse_module.
  rewrite parse_print_mod_attrs;
    [| apply Hwf | apply starts_bang_items | rewrite app_length, print_mod_attrs_length; lia].
  cbn [obind fst snd].
  rewrite (parse_items_mono _ _ _ (parse_print_items m Hwf)) by apply n_items_le.
  cbn [obind]. destruct m; reflexivity.
Qed.

(** ** items in any order.  [parse_print_module] prints the six lists one after the other; the
    parser itself accepts the items in any order and files each into its list.  For any sequence
    of well-formed items, parsing their printing files them in that order. *)
Definition wf_item (i : item) : Prop :=
  match i with
  | IUse p => wf_path p
  | IBackend b => wf_backend b
  | IExternType e => wf_extern_type e
  | IImpl b => wf_impl b
  | IExternValue e => wf_extern_value e
  | IDef d => wf_itemdef d
  end.

Theorem parse_print_item i rest : wf_item i -> parse_item (print_item i ++ rest) = Some (i, rest).
Proof.
  destruct i; cbn [wf_item print_item]; intros H;
    auto using parse_item_use, parse_item_backend, parse_item_extern_type, parse_item_impl,
               parse_item_extern_value, parse_item_def.
Qed.

Lemma print_item_nonempty i : print_item i <> [].
Proof.
  destruct i; cbn [print_item];
    auto using print_use_nonempty, print_backend_nonempty, print_extern_type_nonempty,
               print_impl_nonempty, print_extern_value_nonempty, print_itemdef_nonempty.
Qed.

Lemma starts_bang_item i r : starts_bang (print_item i ++ r) = false.
Proof.
  destruct i; cbn [print_item];
    auto using starts_bang_use, starts_bang_backend, starts_bang_extern_type, starts_bang_impl,
               starts_bang_extern_value, starts_bang_itemdef.
Qed.

Theorem parse_print_module_any_order attrs (items : list item) :
  Forall wf_attr attrs -> Forall wf_item items ->
  parse_module (print_mod_attrs attrs ++ flat_map print_item items)
  = Some (set_attrs attrs (fold_right add_item empty_module items)).
Proof.
  intros Ha Hi. unfold parse_module.
  rewrite parse_print_mod_attrs; [| exact Ha | | rewrite app_length, print_mod_attrs_length; lia].
  2:{ rewrite <- (app_nil_r (flat_map print_item items)).
      apply starts_bang_flat; [exact starts_bang_item | reflexivity]. }
  cbn [obind fst snd].
  assert (H : parse_items (List.length items + 1) (flat_map print_item items)
              = Some (fold_right add_item empty_module items)).
  { rewrite <- (app_nil_r (flat_map print_item items)).
    rewrite (parse_items_flat print_item (fun i => i) wf_item parse_print_item print_item_nonempty) by exact Hi.
    reflexivity. }
  rewrite (parse_items_mono _ _ _ H).
  - reflexivity.
  - pose proof (flat_map_length_ge print_item print_item_nonempty items). lia.
Qed.

(** ** the executable precondition implies the declarative one *)
Lemma forallb_Forall {A} (f : A -> bool) (P : A -> Prop) l :
  (forall a, f a = true -> P a) -> forallb f l = true -> Forall P l.
Proof.
  intros H. induction l as [|a l IH]; cbn [forallb]; intros E; constructor;
    apply andb_true_iff in E as [E1 E2]; auto.
Qed.

Lemma wf_type_b_sound t : wf_type_b t = true -> wf_type t.
Proof.
  induction t as [t IH|t IH|t IH n|s|n]; cbn [wf_type_b wf_type]; intros H; auto.
  - apply andb_true_iff in H as [H1 H2]. split; [auto | now apply N.leb_le].
  - apply andb_true_iff in H as [H1 H2]. split; [exact H1|].
    apply negb_true_iff in H2. now apply String.eqb_neq.
  - now apply N.leb_le.
Qed.
Lemma wf_ty_b_sound t : wf_ty_b t = true -> wf_ty t.
Proof.
  unfold wf_ty_b, wf_ty. intros H. apply andb_true_iff in H as [H1 H2].
  split; [now apply wf_type_b_sound | now apply Nat.leb_le].
Qed.
Lemma wf_expr_b_sound e : wf_expr_b e = true -> wf_expr e.
Proof. destruct e; cbn; auto. Qed.
Lemma wf_attr_b_sound a : wf_attr_b a = true -> wf_attr a.
Proof.
  destruct a as [n|n args|n e]; cbn [wf_attr_b wf_attr]; intros H; [exact H | |];
    apply andb_true_iff in H as [H1 H2]; split; auto using wf_expr_b_sound.
  now apply (forallb_Forall wf_expr_b); [exact wf_expr_b_sound|].
Qed.
Lemma wf_attrs_b_sound l : wf_attrs_b l = true -> Forall wf_attr l.
Proof. apply forallb_Forall. exact wf_attr_b_sound. Qed.
Lemma wf_arg_b_sound a : wf_arg_b a = true -> wf_arg a.
Proof.
  destruct a as [| |n t]; cbn [wf_arg_b wf_arg]; auto. intros H.
  apply andb_true_iff in H as [H1 H2]. auto using wf_ty_b_sound.
Qed.
Lemma wf_function_b_sound f : wf_function_b f = true -> wf_function f.
Proof.
  unfold wf_function_b, wf_function. intros H.
  apply andb_true_iff in H as [H H4]. apply andb_true_iff in H as [H H3]. apply andb_true_iff in H as [H1 H2].
  split; [now apply wf_attrs_b_sound|]. split; [exact H2|]. split.
  - now apply (forallb_Forall wf_arg_b); [exact wf_arg_b_sound|].
  - unfold wf_ret. destruct (gf_ret f); auto using wf_ty_b_sound.
Qed.
Lemma wf_field_b_sound f : wf_field_b f = true -> wf_field f.
Proof.
  destruct f as [v n t|fs]; cbn [wf_field_b wf_field]; intros H.
  - apply andb_true_iff in H as [H H3]. apply andb_true_iff in H as [H1 H2].
    split; [exact H1|]. split; [|now apply wf_ty_b_sound].
    intros ->. apply negb_true_iff in H3. now apply String.eqb_neq.
  - now apply (forallb_Forall wf_function_b); [exact wf_function_b_sound|].
Qed.
Lemma wf_statement_b_sound s : wf_statement_b s = true -> wf_statement s.
Proof.
  unfold wf_statement_b, wf_statement. intros H. apply andb_true_iff in H as [H1 H2].
  auto using wf_attrs_b_sound, wf_field_b_sound.
Qed.
Lemma wf_enumstmt_b_sound s : wf_enumstmt_b s = true -> wf_enumstmt s.
Proof.
  unfold wf_enumstmt_b, wf_enumstmt. intros H.
  apply andb_true_iff in H as [H H3]. apply andb_true_iff in H as [H1 H2].
  split; [now apply wf_attrs_b_sound|]. split; [exact H2|].
  destruct (ge_expr s); auto using wf_expr_b_sound.
Qed.
Lemma wf_itemdef_b_sound d : wf_itemdef_b d = true -> wf_itemdef d.
Proof.
  unfold wf_itemdef_b, wf_itemdef. intros H. apply andb_true_iff in H as [H1 H2]. split; [exact H1|].
  destruct (gi_inner d) as [td|ed].
  - apply andb_true_iff in H2 as [H2 H3]. split; [now apply wf_attrs_b_sound|].
    now apply (forallb_Forall wf_statement_b); [exact wf_statement_b_sound|].
  - apply andb_true_iff in H2 as [H2 H4]. apply andb_true_iff in H2 as [H2 H3].
    split; [now apply wf_attrs_b_sound|]. split; [now apply wf_ty_b_sound|].
    now apply (forallb_Forall wf_enumstmt_b); [exact wf_enumstmt_b_sound|].
Qed.
Lemma wf_impl_b_sound b : wf_impl_b b = true -> wf_impl b.
Proof.
  unfold wf_impl_b, wf_impl. intros H.
  apply andb_true_iff in H as [H H3]. apply andb_true_iff in H as [H1 H2].
  split; [now apply wf_attrs_b_sound|]. split; [exact H2|].
  now apply (forallb_Forall wf_function_b); [exact wf_function_b_sound|].
Qed.
Lemma wf_extern_type_b_sound e : wf_extern_type_b e = true -> wf_extern_type e.
Proof.
  unfold wf_extern_type_b, wf_extern_type. intros H. apply andb_true_iff in H as [H1 H2].
  auto using wf_attrs_b_sound.
Qed.
Lemma wf_extern_value_b_sound e : wf_extern_value_b e = true -> wf_extern_value e.
Proof.
  unfold wf_extern_value_b, wf_extern_value. intros H.
  apply andb_true_iff in H as [H H3]. apply andb_true_iff in H as [H1 H2].
  auto using wf_attrs_b_sound, wf_ty_b_sound.
Qed.
Lemma trimmed_b_sound s : trimmed_b s = true -> trimmed s.
Proof. destruct s; cbn [trimmed_b trimmed]; [apply String.eqb_eq | trivial]. Qed.
Lemma wf_backend_b_sound b : wf_backend_b b = true -> wf_backend b.
Proof.
  unfold wf_backend_b, wf_backend. intros H.
  apply andb_true_iff in H as [H H3]. apply andb_true_iff in H as [H1 H2].
  auto using trimmed_b_sound.
Qed.

Theorem wf_module_b_sound m : wf_module_b m = true -> wf_module m.
Proof.
  unfold wf_module_b, wf_module. intros H.
  apply andb_true_iff in H as [H H7]. apply andb_true_iff in H as [H H6].
  apply andb_true_iff in H as [H H5]. apply andb_true_iff in H as [H H4].
  apply andb_true_iff in H as [H H3]. apply andb_true_iff in H as [H1 H2].
  split; [now apply wf_attrs_b_sound|].
  split. { apply (forallb_Forall (forallb syn_ident)); [|exact H2]. intros p Hp. unfold wf_path.
           now apply (forallb_Forall syn_ident). }
  split; [now apply (forallb_Forall wf_extern_type_b); [exact wf_extern_type_b_sound|]|].
  split; [now apply (forallb_Forall wf_extern_value_b); [exact wf_extern_value_b_sound|]|].
  split; [now apply (forallb_Forall wf_itemdef_b); [exact wf_itemdef_b_sound|]|].
  split; [now apply (forallb_Forall wf_impl_b); [exact wf_impl_b_sound|]|].
  now apply (forallb_Forall wf_backend_b); [exact wf_backend_b_sound|].
Qed.

Corollary parse_print_module_b m : wf_module_b m = true -> parse_module (print_module m) = Some m.
Proof. intros H. apply parse_print_module. now apply wf_module_b_sound. Qed.

(** the fully executable form (what a test oracle evaluates), with ModuleEq's boolean equality *)
Corollary parse_print_module_eqb m :
  wf_module_b m = true -> option_gmodule_eqb (parse_module (print_module m)) (Some m) = true.
Proof. intros H. apply option_gmodule_eqb_spec. now apply parse_print_module_b. Qed.

(** ** a concrete module *)
Module Example.
  Definition fn_get : gfunction :=
    {| gf_vis := Public; gf_name := "get"; gf_attrs := [AFn "index" [EInt 0]; AAssign "doc" (EStr " first slot")];
       gf_args := [GConstSelf; GNamed "index" (GIdent "u32")];
       gf_ret := Some (GConstPtr (GIdent "Entry")) |}.
  Definition fn_reset : gfunction :=
    {| gf_vis := Private; gf_name := "reset"; gf_attrs := [];
       gf_args := [GMutSelf; GNamed "to" (GArray (GMutPtr (GIdent "u8")) 4); GNamed "_flags" (GUnknown 2)];
       gf_ret := None |}.
  Definition m : gmodule :=
    {| gm_uses := [["game"; "math"; "Vector3"]; ["Entry"]];
       gm_extern_types := [("Handle", [AFn "size" [EInt 4]; AFn "align" [EInt 4]])];
       gm_extern_values :=
         [{| gev_vis := Public; gev_name := "g_table"; gev_type := GMutPtr (GIdent "Table");
             gev_attrs := [AFn "address" [EInt 4198400]] |}];
       gm_defs :=
         [{| gi_vis := Public; gi_name := "Table";
             gi_inner := GIType
               {| gt_stmts :=
                    [{| gs_field := GVftable [fn_get; fn_reset]; gs_attrs := [AFn "size" [EInt 4]] |};
                     {| gs_field := GField Public "position" (GIdent "Vector3");
                        gs_attrs := [AFn "address" [EInt 16]] |};
                     {| gs_field := GField Private "_" (GUnknown 8); gs_attrs := [] |};
                     {| gs_field := GField Public "vftable" (GConstPtr (GConstPtr (GIdent "void")));
                        gs_attrs := [AAssign "doc" (EStr " a public field may be called vftable")] |}];
                  gt_attrs := [AAssign "doc" (EStr " The table."); AFn "size" [EInt 64]; AIdent "copyable"] |} |};
          {| gi_vis := Private; gi_name := "Opaque";
             gi_inner := GIType {| gt_stmts := []; gt_attrs := [] |} |};
          {| gi_vis := Public; gi_name := "Mode";
             gi_inner := GIEnum
               {| ged_type := GIdent "u32";
                  ged_stmts :=
                    [{| ge_name := "Off"; ge_expr := Some (EInt (-1)); ge_attrs := [] |};
                     {| ge_name := "On"; ge_expr := None; ge_attrs := [AIdent "default"] |};
                     {| ge_name := "Auto"; ge_expr := Some (EIdent "AUTO_VALUE"); ge_attrs := [] |}];
                  ged_attrs := [AIdent "singleton"] |} |}];
       gm_impls := [{| gb_name := "Table"; gb_fns := [fn_get; fn_reset]; gb_attrs := [AIdent "inline"] |}];
       gm_backends :=
         [{| gbk_name := "rust"; gbk_pro := Some "use std::ffi::c_void;"; gbk_epi := None |};
          {| gbk_name := "cpp"; gbk_pro := Some "#pragma once"; gbk_epi := Some "// end" |};
          {| gbk_name := "none"; gbk_pro := None; gbk_epi := None |}];
       gm_attrs := [AAssign "doc" (EStr " Example module")] |}.

  Ltac wf_leaf :=
    first [ exact I | reflexivity | discriminate | (cbn; lia)
          | (intros _; discriminate) ].
  Ltac wf_solve := repeat first [ wf_leaf | split | constructor ].

  Example m_wf : wf_module m.
  Proof. unfold wf_module, m. cbn -[str_trim syn_ident pyxis_ident isize_ok N.le]. wf_solve. Qed.

  Example m_roundtrip : parse_module (print_module m) = Some m.
  Proof. vm_compute. reflexivity. Qed.

  (** the same fact from the theorem *)
  Example m_roundtrip' : parse_module (print_module m) = Some m.
  Proof. exact (parse_print_module m m_wf). Qed.

  Example m_wf_b : wf_module_b m = true.
  Proof. vm_compute. reflexivity. Qed.

  (** the boolean equality of ModuleEq computes: equal to itself, different from a variant *)
  Example m_eqb : option_gmodule_eqb (parse_module (print_module m)) (Some m) = true.
  Proof. vm_compute. reflexivity. Qed.
  Example m_eqb_diff : gmodule_eqb m (add_item (IUse ["x"]) m) = false.
  Proof. vm_compute. reflexivity. Qed.
  Example m_eq_dec : (if gmodule_eq_dec m m then true else false) = true.
  Proof. vm_compute. reflexivity. Qed.

  (** *** other spellings the parser accepts (not produced by the printer) *)
  (** [backend rust prologue "  a  ";] - short form, string trimmed *)
  Example short_backend :
    parse_module [KId "backend"; KId "rust"; KId "prologue"; KStr "  a  "; KPunct ";";
                  KId "backend"; KId "rust"; KId "epilogue"; KStr "b"; KPunct ";"]
    = Some (set_attrs [] (fold_right add_item empty_module
              [IBackend {| gbk_name := "rust"; gbk_pro := Some "a"; gbk_epi := None |};
               IBackend {| gbk_name := "rust"; gbk_pro := None; gbk_epi := Some "b" |}])).
  Proof. vm_compute. reflexivity. Qed.
  (** several prologues in one braced block are joined by a newline *)
  Example joined_prologues :
    parse_backend [KId "backend"; KId "rust";
                   KGroup Brace [KId "prologue"; KStr "a"; KPunct ";"; KId "epilogue"; KStr "e"; KPunct ";";
                                 KId "prologue"; KStr "c"; KPunct ";"]]
    = Some ({| gbk_name := "rust"; gbk_pro := Some ("a" +++ String newline "c"); gbk_epi := Some "e" |}, []).
  Proof. vm_compute. reflexivity. Qed.
  (** no trailing separators, [type T {}], several attributes in one bracket, items in a mixed order *)
  Example other_spelling :
    parse_module
      [KId "impl"; KId "T"; KGroup Brace [KId "fn"; KId "f"; KGroup Paren []];
       KPunct "#"; KGroup Bracket [KId "size"; KGroup Paren [KInt 4]; KPunct ","; KId "copyable"; KPunct ","];
       KId "type"; KId "T"; KGroup Brace [KId "a"; KPunct ":"; KId "u32"];
       KId "use"; KId "x"; KPunct "::"; KId "Y"; KPunct "<"; KId "Z"; KPunct ">"; KPunct ";";
       KId "type"; KId "U"; KGroup Brace []]
    = Some {| gm_uses := [["x"; "Y<Z>"]]; gm_extern_types := []; gm_extern_values := [];
              gm_defs := [{| gi_vis := Private; gi_name := "T";
                             gi_inner := GIType {| gt_stmts := [{| gs_field := GField Private "a" (GIdent "u32");
                                                                   gs_attrs := [] |}];
                                                   gt_attrs := [AFn "size" [EInt 4]; AIdent "copyable"] |} |};
                          {| gi_vis := Private; gi_name := "U";
                             gi_inner := GIType {| gt_stmts := []; gt_attrs := [] |} |}];
              gm_impls := [{| gb_name := "T";
                              gb_fns := [{| gf_vis := Private; gf_name := "f"; gf_attrs := []; gf_args := [];
                                            gf_ret := None |}];
                              gb_attrs := [] |}];
              gm_backends := []; gm_attrs := [] |}.
  Proof. vm_compute. reflexivity. Qed.

  (** *** inputs the parser refuses *)
  (** a private field called [vftable] (the reason for the side condition in [wf_field]) *)
  Example private_vftable_field :
    parse_module [KId "type"; KId "T"; KGroup Brace [KId "vftable"; KPunct ":"; KId "u32"]] = None.
  Proof. vm_compute. reflexivity. Qed.
  (** [pub extern type T;], attributes on [use], [_] as an argument name, a stray [;] after a block *)
  Example pub_extern_type :
    parse_module [KId "pub"; KId "extern"; KId "type"; KId "T"; KPunct ";"] = None.
  Proof. vm_compute. reflexivity. Qed.
  Example attributed_use :
    parse_module [KPunct "#"; KGroup Bracket [KId "a"]; KId "use"; KId "x"; KPunct ";"] = None.
  Proof. vm_compute. reflexivity. Qed.
  Example underscore_argument :
    parse_module [KId "impl"; KId "T";
                  KGroup Brace [KId "fn"; KId "f"; KGroup Paren [KId "_"; KPunct ":"; KId "u32"]; KPunct ";"]] = None.
  Proof. vm_compute. reflexivity. Qed.
  (** [::] and [->] must be the joint tokens: [use a: :b;] and [fn f() - > u32] are refused *)
  Example spaced_path_separator :
    parse_module [KId "use"; KId "a"; KPunct ":"; KPunct ":"; KId "b"; KPunct ";"] = None.
  Proof. vm_compute. reflexivity. Qed.
  Example joint_path_separator :
    parse_module [KId "use"; KId "a"; KPunct "::"; KId "b"; KPunct ";"]
    = Some (add_item (IUse ["a"; "b"]) empty_module).
  Proof. vm_compute. reflexivity. Qed.
  Example spaced_arrow :
    parse_module [KId "impl"; KId "T";
                  KGroup Brace [KId "fn"; KId "f"; KGroup Paren []; KPunct "-"; KPunct ">"; KId "u32"; KPunct ";"]] = None.
  Proof. vm_compute. reflexivity. Qed.
  Example semicolon_after_block :
    parse_module [KId "type"; KId "T"; KGroup Brace []; KPunct ";"] = None.
  Proof. vm_compute. reflexivity. Qed.
End Example.

(* Print Assumptions parse_print_module.  -- "Closed under the global context" *)
