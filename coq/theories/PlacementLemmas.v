(** * Placement: where resolve_regions puts each declared field (C01, C20). *)
From Coq Require Import List NArith ZArith Bool Lia ZifyBool ZifyN String.
From PyxisModel Require Import Base Grammar SemTypes Registry Sem RustLayout LayoutLemmas SemLemmas.
Import ListNotations.
Local Open Scope N_scope.
Arguments N.add : simpl never. Arguments N.mul : simpl never. Arguments N.sub : simpl never.

(** regions paired with the offsets repr(C) gives them when nothing is padded *)
Definition offsets_of (R : registry) (start : N) (rs : list region) : list (N * region) :=
  combine (prefix_sums start (map (region_sa R) rs)) rs.

Lemma offsets_of_app R a b start :
  offsets_of R start (a ++ b) = offsets_of R start a ++ offsets_of R (total start (map (region_sa R) a)) b.
Proof.
  unfold offsets_of. revert start. induction a as [|r a IH]; intros start; cbn [app map prefix_sums total combine].
  - reflexivity.
  - destruct (region_sa R r) as [s al] eqn:E. cbn [combine]. rewrite IH. reflexivity.
Qed.

(** a declared region is ignored when it is a zero-sized array (the repository documents this) *)
Definition ignored (R : registry) (r : region) : bool :=
  match size_of R (r_type r) with
  | Some s => (s =? 0) && stype_is_array (r_type r)
  | None => false
  end.

(** SPEC: the offset every kept declared field must get: its address if it has one, else the end
    of the previous declared field *)
Fixpoint declared_offsets (R : registry) (last : N) (pending : list (option N * region)) : list (N * region) :=
  match pending with
  | [] => []
  | (addr, r) :: rest =>
    let off := match addr with Some a => a | None => last end in
    (if ignored R r then [] else [(off, r)]) ++
    declared_offsets R (off + fst (region_sa R r)) rest
  end.

Lemma regions_push_spec R rs last r rs' last' :
  regions_push R (rs, last) r = Some (rs', last') ->
  exists s, size_of R (r_type r) = Some s /\
    if ignored R r then rs' = rs /\ last' = last /\ s = 0
    else rs' = rs ++ [r] /\ last' = last + s.
Proof.
  unfold regions_push, ignored. destruct (size_of R (r_type r)) as [s|]; [|discriminate].
  cbn [fst snd]. intros H. exists s. split; [reflexivity|].
  destruct ((s =? 0) && stype_is_array (r_type r)) eqn:E.
  - inversion H; subst. apply andb_prop in E as [E _]. repeat split. lia.
  - destruct (checked_add last s) as [la|] eqn:Ea; [|discriminate].
    apply checked_add_some in Ea. inversion H; subst. split; reflexivity.
Qed.

Lemma defer_opt_ok {A} (o : option A) a : defer_opt o = Ok a -> o = Some a.
Proof. destruct o; cbn; congruence. Qed.

Lemma region_sa_size R r s : size_of R (r_type r) = Some s -> fst (region_sa R r) = s.
Proof. unfold region_sa. intros ->. reflexivity. Qed.

Lemma total_snoc R rs r start :
  total start (map (region_sa R) (rs ++ [r])) = total start (map (region_sa R) rs) + fst (region_sa R r).
Proof.
  rewrite map_app, total_app. cbn [map total]. destruct (region_sa R r). reflexivity.
Qed.

(** the registry created by [sem_new] always holds the predefined [u8]; padding regions are arrays of it *)
Definition reg_u8 (R : registry) : Prop := size_of R (TRaw ["u8"%string]) = Some 1.

Lemma size_of_array R t n :
  size_of R (TArray t n) = match size_of R t with Some s => checked_mul s n | None => None end.
Proof. reflexivity. Qed.

Lemma padding_size_eq R n : reg_u8 R -> size_of R (padding_type n) = checked_mul 1 n.
Proof. unfold reg_u8, padding_type. intros Hu. rewrite size_of_array, Hu. reflexivity. Qed.

Lemma padding_size R n s : reg_u8 R -> size_of R (padding_type n) = Some s -> s = n.
Proof.
  intros Hu H. rewrite (padding_size_eq _ _ Hu) in H. apply checked_mul_some in H. lia.
Qed.

(** one pending entry: the declared region lands at its declared offset *)
Lemma push_pending_spec R rs last p rs' last' :
  reg_u8 R ->
  push_pending R (rs, last) p = Ok (rs', last') ->
  last = total 0 (map (region_sa R) rs) ->
  let off := match fst p with Some a => a | None => last end in
  last <= off /\
  last' = total 0 (map (region_sa R) rs') /\
  last' = off + fst (region_sa R (snd p)) /\
  (exists mid, rs' = rs ++ mid) /\
  (ignored R (snd p) = false -> In (off, snd p) (offsets_of R 0 rs')).
Proof.
  intros Hu8. unfold push_pending. destruct p as [addr r]. cbn [fst snd]. intros H Hinv.
  inv_bind H. destruct a as [rs1 last1].
  apply defer_opt_ok in H.
  destruct (regions_push_spec _ _ _ _ _ _ H) as (s & Hs & Hr).
  rewrite (region_sa_size _ _ _ Hs).
  assert (exists pad, rs1 = rs ++ pad /\ last1 = total 0 (map (region_sa R) rs1) /\
          last1 = match addr with Some a => a | None => last end /\ last <= last1) as (pad & -> & Hl1 & Hoff & Hle).
  { destruct addr as [a|].
    - destruct (a <? last) eqn:Elt; [discriminate|].
      apply defer_opt_ok in Ha.
      destruct (regions_push_spec _ _ _ _ _ _ Ha) as (sp & Hsp & Hrp).
      cbn [unnamed_region r_type] in Hsp. pose proof Hsp as Hsp0.
      apply (padding_size _ _ _ Hu8) in Hsp. subst sp.
      destruct (ignored R (unnamed_region (padding_type (a - last)))).
      + destruct Hrp as (-> & -> & Hz). exists []. rewrite app_nil_r. repeat split; auto; lia.
      + destruct Hrp as (-> & ->). eexists. split; [reflexivity|].
        rewrite total_snoc. rewrite <- Hinv.
        assert (fst (region_sa R (unnamed_region (padding_type (a - last)))) = a - last) as ->.
        { apply region_sa_size. cbn [unnamed_region r_type]. exact Hsp0. }
        repeat split; lia.
    - inversion Ha; subst. exists []. rewrite app_nil_r. repeat split; auto; lia. }
  rewrite <- Hoff.
  destruct (ignored R r) eqn:Eig.
  - destruct Hr as (-> & -> & ->). repeat split; try lia; auto;
      try (eexists; reflexivity); try discriminate.
  - destruct Hr as (-> & ->). repeat split; try lia.
    + rewrite total_snoc, <- Hl1. rewrite (region_sa_size _ _ _ Hs). reflexivity.
    + exists (pad ++ [r]). now rewrite app_assoc.
    + intros _. rewrite offsets_of_app. apply in_or_app. right.
      unfold offsets_of. cbn [map prefix_sums combine]. destruct (region_sa R r). cbn [combine].
      left. rewrite <- Hl1. reflexivity.
Qed.

Lemma in_offsets_app_l R x a b : In x (offsets_of R 0 a) -> In x (offsets_of R 0 (a ++ b)).
Proof. intros H. rewrite offsets_of_app. apply in_or_app. now left. Qed.

Lemma push_all_spec R : reg_u8 R -> forall pending rs last rs' last',
  foldM (push_pending R) pending (rs, last) = Ok (rs', last') ->
  last = total 0 (map (region_sa R) rs) ->
  last' = total 0 (map (region_sa R) rs') /\ (exists mid, rs' = rs ++ mid) /\
  Forall (fun x => In x (offsets_of R 0 rs')) (declared_offsets R last pending).
Proof.
  intros Hu8. induction pending as [|p pending IH]; intros rs last rs' last' H Hinv; cbn [foldM] in H.
  - inversion H; subst. repeat split; [exists []; now rewrite app_nil_r | constructor].
  - inv_bind H. destruct a as [rs1 last1].
    destruct (push_pending_spec _ _ _ _ _ _ Hu8 Ha Hinv) as (Hle & Hl1 & Hoff & (mid1 & Hmid1) & Hin).
    destruct (IH _ _ _ _ H Hl1) as (Hl' & (mid2 & Hmid2) & Hall).
    repeat split; [exact Hl' | exists (mid1 ++ mid2); subst; now rewrite app_assoc |].
    destruct p as [addr r]. cbn [declared_offsets fst snd] in *.
    apply Forall_app. split.
    + destruct (ignored R r); constructor; [|constructor].
      subst rs'. apply in_offsets_app_l. apply Hin. reflexivity.
    + rewrite <- Hoff. exact Hall.
Qed.

(** naming keeps every named region and every offset *)
Lemma offsets_named R : forall before after start,
  map r_type after = map r_type before ->
  Forall2 (fun r r' => r_name r <> None -> r' = r) before after ->
  forall off r, r_name r <> None -> In (off, r) (offsets_of R start before) ->
  In (off, r) (offsets_of R start after).
Proof.
  unfold offsets_of. induction before as [|b before IH]; intros after start Ht H2 off r Hn Hin.
  - destruct Hin.
  - destruct after as [|a after]; [inversion H2|].
    inversion H2 as [|? ? ? ? Hab Hrest]; subst. cbn [map] in Ht. inversion Ht as [[Hta Htr]].
    cbn [map prefix_sums combine] in *.
    rewrite (region_sa_type R a b Hta).
    destruct (region_sa R b) as [s al]. cbn [combine] in *.
    destruct Hin as [E|Hin].
    + inversion E; subst. left. f_equal. apply Hab. exact Hn.
    + right. eapply IH; eauto.
Qed.

Definition vftable_region_of (ty : stype) : region :=
  {| r_vis := Private; r_name := Some "vftable"%string; r_doc := None; r_type := ty; r_is_base := false |}.

Lemma vftable_build_region st owner v fb vfs st' vt vr :
  vftable_build st owner v fb vfs = Ok (st', vt, Some vr) ->
  exists ty, vr = vftable_region_of (TConstPtr ty) /\
             exists fs, vt = Some {| vt_functions := fs; vt_base_field := None; vt_type := TConstPtr ty |}.
Proof.
  unfold vftable_build. destruct vfs as [fs|].
  - destruct (vftable_item (st_reg st) owner v fs) as [vit|]; [|intros H; inversion H].
    intros H. inv_bind H. inv_bind H. destruct a0 as [[bn bvt]|].
    + destruct (_ <? _)%nat; [discriminate|]. destruct (negb _); [discriminate|]. inversion H.
    + inversion H; subst. eexists. split; [reflexivity|]. eexists. reflexivity.
  - intros H. inv_bind H. destruct a as [[bn bvt]|]; inversion H.
Qed.

(** ** every declared (named, kept) field sits at its declared address, or directly after its
    predecessor; an own vftable pointer is the first region, at offset 0, [ptr] bytes long *)
Theorem resolve_regions_offsets st owner v ts pending vfs st' regions vt size :
  resolve_regions st owner v ts pending vfs = Ok (st', regions, vt, size) ->
  reg_u8 (st_reg st') ->
  let R := st_reg st' in
  exists start,
    ((start = 0 /\ forall x, vt = Some x -> vt_base_field x <> None) \/
     (start = reg_ptr R /\ exists ty fs, hd_error regions = Some (vftable_region_of (TConstPtr ty)) /\
        vt = Some {| vt_functions := fs; vt_base_field := None; vt_type := TConstPtr ty |})) /\
    Forall (fun x => r_name (snd x) <> None -> In x (offsets_of R 0 regions))
           (declared_offsets R start pending).
Proof.
  unfold resolve_regions. intros H Hu8. cbn zeta.
  destruct (first_base_unresolved _ _); [discriminate|].
  inv_bind H. destruct a as [[st1 vt1] vr1].
  inv_bind H. destruct a as [rs0 last0]. inv_bind H. destruct a as [rs1 last1].
  inv_bind H. destruct a as [rs2 last2]. inv_bind H. destruct a as [named sz].
  cbn [fst snd] in *.
  assert (st' = st1 /\ regions = named /\ vt = vt1) as (-> & -> & ->).
  { destruct ts as [t|]; [destruct (negb (sz =? t)); [discriminate|]|]; inversion H; auto. }
  clear H.
  destruct (name_regions_spec _ _ _ _ _ Ha3) as (Ht & _ & _ & Hf2).
  (* the state before the declared fields *)
  assert (last0 = total 0 (map (region_sa (st_reg st1)) rs0) /\
          ((rs0 = [] /\ last0 = 0 /\ vr1 = None) \/
           (exists ty fs, rs0 = [vftable_region_of (TConstPtr ty)] /\ last0 = reg_ptr (st_reg st1) /\
              vt1 = Some {| vt_functions := fs; vt_base_field := None; vt_type := TConstPtr ty |})))
    as (Hinv0 & Hstart).
  { destruct vr1 as [vr|].
    - destruct (vftable_build_region _ _ _ _ _ _ _ _ Ha) as (ty & -> & fs & ->).
      apply defer_opt_ok in Ha0. unfold regions_push in Ha0.
      cbn [vftable_region_of r_type size_of stype_is_array andb fst snd] in Ha0.
      rewrite andb_false_r in Ha0.
      destruct (checked_add 0 (reg_ptr (st_reg st1))) as [la|] eqn:Eadd; [|discriminate].
      apply checked_add_some in Eadd. inversion Ha0; subst. cbn [app].
      split; [cbn; unfold region_sa; cbn; lia|]. right. exists ty, fs. repeat split; lia.
    - inversion Ha0; subst. split; [reflexivity|]. left. auto. }
  destruct (push_all_spec _ Hu8 _ _ _ _ _ Ha1 Hinv0) as (Hl1 & (mid1 & Hmid1) & Hall).
  (* the tail padding only appends *)
  assert (exists mid2, rs2 = rs1 ++ mid2) as (mid2 & Hmid2).
  { destruct ts as [t|]; [|inversion Ha2; exists []; now rewrite app_nil_r].
    destruct (last1 <? t); [|inversion Ha2; exists []; now rewrite app_nil_r].
    apply defer_opt_ok in Ha2. destruct (regions_push_spec _ _ _ _ _ _ Ha2) as (s & _ & Hr).
    destruct (ignored _ _); [destruct Hr as (-> & _); exists []; now rewrite app_nil_r|].
    destruct Hr as (-> & _). eexists; reflexivity. }
  exists last0. split.
  - destruct Hstart as [(-> & -> & ->)|(ty & fs & -> & -> & ->)].
    + left. split; [reflexivity|]. intros x Hx. subst vt1.
      (* no own region: the table, if any, comes from a base *)
      unfold vftable_build in Ha. destruct vfs as [fs|].
      * destruct (vftable_item (st_reg st) owner v fs); [|inversion Ha].
        inv_bind Ha. inv_bind Ha. destruct a0 as [[bn bvt]|]; [|inversion Ha].
        destruct (_ <? _)%nat; [discriminate|]. destruct (negb _); [discriminate|].
        inversion Ha; subst. cbn. discriminate.
      * inv_bind Ha. destruct a as [[bn bvt]|]; inversion Ha; subst. cbn. discriminate.
    + right. split; [reflexivity|]. exists ty, fs. split; [|reflexivity].
      subst rs1 rs2. cbn [app] in *.
      destruct named as [|n0 named']; [inversion Hf2|].
      inversion Hf2 as [|? ? ? ? Hn0 _]; subst. cbn [hd_error]. f_equal. apply Hn0. cbn. discriminate.
  - eapply Forall_impl; [|exact Hall]. intros [off r] Hin Hn. cbn [snd] in Hn.
    eapply offsets_named; [exact Ht | exact Hf2 | exact Hn |].
    subst rs2. apply in_offsets_app_l. exact Hin.
Qed.

(** ** inversion of an accepted type attempt *)
Lemma type_build_inv st p v d st' rs :
  type_build st p v d = (st', Ok rs) ->
  exists parent module doc ta n pending vfs regions vt size funcs A,
    path_parent p = Some parent /\ alookup parent (st_modules st) = Some module /\
    foldM scan_type_attr (gt_attrs d) ta_init = Ok ta /\
    foldM (process_statement (st_reg st) (module_scope module)) (gt_stmts d) (O, ([], None))
      = Ok (n, (pending, vfs)) /\
    resolve_regions st p v (ta_size ta) pending vfs = Ok (st', regions, vt, size) /\
    compute_alignment (st_reg st') ta regions size = Ok A /\
    rs = {| rs_size := size; rs_align := A;
            rs_inner := IType {| td_regions := regions; td_doc := doc; td_assoc := funcs;
                                 td_vftable := vt; td_singleton := ta_singleton ta;
                                 td_copyable := ta_copyable ta; td_cloneable := ta_cloneable ta;
                                 td_defaultable := ta_defaultable ta; td_packed := ta_packed ta |} |}.
Proof.
  unfold type_build. intros H.
  destruct (path_parent p) as [parent|] eqn:Epar; [|inversion H].
  destruct (alookup parent (st_modules st)) as [module|] eqn:Emod; [|inversion H].
  match type of H with context [match ?pre with Ok _ => _ | Defer => _ | Err _ => _ | Panic _ => _ end] =>
    destruct pre as [[[doc ta] [pending vfs]]| | |] eqn:Epre end; try (inversion H; fail).
  destruct (resolve_regions st p v (ta_size ta) pending vfs) as [[[[st1 regions] vt] size]| | |] eqn:Err;
    try (inversion H; fail).
  inversion H as [[Hst Hpost]]. subst st'. clear H.
  inv_bind Epre. inv_bind Epre. inv_bind Epre. destruct a1 as [n [pending' vfs']].
  inversion Epre; subst. clear Epre.
  inv_bind Hpost. inv_bind Hpost. inv_bind Hpost. inv_bind Hpost.
  inversion Hpost; subst. clear Hpost.
  do 12 eexists. repeat split; eauto.
Qed.

(** ** C01, assembled: for every accepted description, under the Reference's repr(C) algorithm,
    each declared named field that is kept sits at its declared address (or right after its
    predecessor), for non-packed and packed types alike. *)
Definition field_offsets (packed : bool) (A : N) (fs : list sa) : list N :=
  fst (fst (if packed then packed_layout fs else struct_layout A fs)).

Theorem type_build_offsets st p v d st' rs :
  type_build st p v d = (st', Ok rs) -> reg_u8 (st_reg st') ->
  exists td module n pending vfs start,
    rs_inner rs = IType td /\
    foldM (process_statement (st_reg st) (module_scope module)) (gt_stmts d) (O, ([], None))
      = Ok (n, (pending, vfs)) /\
    let R := st_reg st' in
    let fs := map (region_sa R) (td_regions td) in
    (start = 0 \/ (start = reg_ptr R /\ exists ty, hd_error (td_regions td) = Some (vftable_region_of (TConstPtr ty)))) /\
    Forall (fun x => r_name (snd x) <> None ->
                     In x (combine (field_offsets (td_packed td) (rs_align rs) fs) (td_regions td)))
           (declared_offsets R start pending).
Proof.
  intros H Hu8.
  destruct (type_build_inv _ _ _ _ _ _ H) as
      (parent & module & doc & ta & n & pending & vfs & regions & vt & size & funcs & A &
       Hp & Hm & Hta & Hst & Hrr & Hca & ->).
  destruct (resolve_regions_offsets _ _ _ _ _ _ _ _ _ _ Hrr Hu8) as (start & Hstart & Hall).
  destruct (resolve_regions_size _ _ _ _ _ _ _ _ _ _ Hrr) as (Hsz & _ & _).
  exists {| td_regions := regions; td_doc := doc; td_assoc := funcs; td_vftable := vt;
            td_singleton := ta_singleton ta; td_copyable := ta_copyable ta;
            td_cloneable := ta_cloneable ta; td_defaultable := ta_defaultable ta;
            td_packed := ta_packed ta |}, module, n, pending, vfs, start.
  cbn [rs_inner rs_align td_regions td_packed]. split; [reflexivity|]. split; [exact Hst|].
  split.
  { destruct Hstart as [[-> _]|(-> & ty & fs & Hhd & _)]; [left; reflexivity | right; split; [reflexivity | eauto]]. }
  assert (field_offsets (ta_packed ta) A (map (region_sa (st_reg st')) regions)
          = prefix_sums 0 (map (region_sa (st_reg st')) regions)) as ->.
  { unfold field_offsets. destruct (ta_packed ta) eqn:Ep.
    - rewrite packed_layout_sums. reflexivity.
    - destruct (compute_alignment_layout _ _ _ _ _ Hca Ep Hsz) as (-> & _). reflexivity. }
  exact Hall.
Qed.
