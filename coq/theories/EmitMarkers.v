(** * EmitMarkers: C17 on the EMITTED text, in terms of the DECLARATION (types, fields, enums).

    Properties/C17.v and WholeBuildMore.v prove C17 about the REGISTRY (marker flags, docs carried
    into [type_def] / regions / functions); EmitShape.v says what is printed from a registry record.
    This file composes the two: for every type / enum the input declares, in every accepted,
    [collision_free] build whose files are written, the item FOUND in the file of the declaring
    module has, read back with the readers of EmitReaders.v,
    - the declared visibility ([gi_vis]);
    - the derive list [Copy, Clone] / [Clone] / + [Default] given by the declared markers
      ([has_marker] on the declaration's attribute list), for enums after the fixed five;
    - [repr(C, packed)] (nothing else in the parentheses: no alignment) iff [packed] is written,
      otherwise [repr(C, align(A))] with the resolved alignment;
    - the doc lines written on the declaration, in order, and no other attribute;
    and every field of the emitted struct is either the counterpart of one declared named field, in
    declaration order, with the declared visibility and doc lines, or a generated field (padding
    [_field_<hex>], the own [vftable] pointer), private and without attribute. *)
From Coq Require Import List NArith ZArith Bool Lia String Permutation.
From PyxisModel Require Import Base Sexp Grammar SemTypes Registry Sem SemLemmas FunctionLemmas
     ScopeLemmas PlacementLemmas TotalityLemmas Emit EmitLemmas WholeBuild WholeBuildMore FinalState
     EmitReaders EmitShape EmitFinal EmitFind.
Import ListNotations.
Local Open Scope string_scope.
Local Open Scope list_scope.

(** * 0. Tools *)

(** ** the visibility of an input item is the declared one *)
Definition unres_vis (R : registry) : Prop :=
  forall p it gd, reg_get R p = Some it -> it_state it = Unresolved gd -> it_vis it = gi_vis gd.

Lemma add_item_unres_vis st it st' :
  unres_vis (st_reg st) -> (forall gd, it_state it = Unresolved gd -> it_vis it = gi_vis gd) ->
  add_item st it = Ok st' -> unres_vis (st_reg st').
Proof.
  intros HU Hit H. rewrite (add_item_reg _ _ _ H). intros p it' gd Hg Hs.
  destruct (path_eqb_spec (it_path it) p) as [<-|Hne].
  - rewrite reg_get_add_same in Hg. inversion Hg; subst it'. eauto.
  - rewrite reg_get_add_other in Hg by exact Hne. eauto.
Qed.

Lemma sem_new_unres_vis ptr st : sem_new ptr = Ok st -> unres_vis (st_reg st).
Proof.
  unfold sem_new. apply (foldM_preserves (fun s => unres_vis (st_reg s))).
  - intros s ns s' Hs H. eapply add_item_unres_vis; [exact Hs | | exact H]. cbn. discriminate.
  - intros p it gd H. discriminate.
Qed.

Lemma add_module_unres_vis st mp ast st' :
  unres_vis (st_reg st) -> add_module st mp ast = Ok st' -> unres_vis (st_reg st').
Proof.
  unfold add_module. intros HU H. inv_bind H. inv_bind H. inv_bind H.
  eapply (foldM_preserves (fun s => unres_vis (st_reg s))); [| |exact H].
  - intros s e s' Hs He. unfold add_extern_type in He. inv_bind He.
    destruct a2 as [[size|] [al|]]; try discriminate.
    destruct (reg_has _ _); [discriminate|]. eapply add_item_unres_vis; [exact Hs | | exact He]. cbn. discriminate.
  - eapply (foldM_preserves (fun s => unres_vis (st_reg s))); [| |exact Ha1].
    + intros s d s' Hs Hd. unfold add_definition in Hd. destruct (reg_has _ _); [discriminate|].
      eapply add_item_unres_vis; [exact Hs | | exact Hd]. cbn [it_state it_vis]. intros gd E. now inversion E.
    + exact HU.
Qed.

Theorem input_state_vis ptr mods st0 p it0 gd :
  input_state ptr mods = Ok st0 -> reg_get (st_reg st0) p = Some it0 -> it_state it0 = Unresolved gd ->
  it_vis it0 = gi_vis gd.
Proof.
  unfold input_state. intros H. inv_bind H.
  assert (unres_vis (st_reg st0)) as HU; [|intros; eapply HU; eauto].
  eapply (foldM_preserves (fun s => unres_vis (st_reg s))); [| |exact H].
  - intros s pm s2 Hs Hpm. cbn beta in Hpm. eapply add_module_unres_vis; eauto.
  - eapply sem_new_unres_vis; eauto.
Qed.

(** ** doc lines as declared *)
(** [emitted] are the doc lines of an item whose declaration carries the attributes [attrs]: the
    values of the [doc] attributes, in order ([doc_values]), joined by line breaks and split again
    -- so exactly those values, line for line, when none of them contains a line break *)
Definition docs_as_declared (attrs : list gattr) (emitted : list string) : Prop :=
  exists ls, doc_values attrs = Ok ls /\
    emitted = doc_lines (match ls with [] => None | _ => Some (join_lines ls) end) /\
    (Forall no_newline ls -> emitted = ls).

Lemma docs_of_attrs_doc attrs d : attrs_doc attrs = Ok d -> docs_as_declared attrs (doc_lines d).
Proof.
  intros H. destruct (attrs_doc_spec _ _ H) as (ls & A & ->). exists ls. split; [exact A|].
  split; [reflexivity|]. intros Hall. destruct ls as [|l ls]; [reflexivity|].
  apply doc_lines_roundtrip; [discriminate | exact Hall].
Qed.

Lemma docs_as_declared_fun attrs a b : docs_as_declared attrs a -> docs_as_declared attrs b -> a = b.
Proof. intros (ls & A & -> & _) (ls' & A' & -> & _). rewrite A in A'. now inversion A'. Qed.

(** no doc attribute, no doc line *)
Lemma docs_as_declared_none attrs emitted :
  docs_as_declared attrs emitted -> doc_values attrs = Ok [] -> emitted = [].
Proof. intros (ls & A & -> & _) B. rewrite A in B. inversion B; subst. reflexivity. Qed.

(** the computable form, for the examples *)
Definition declared_doc_lines (attrs : list gattr) : list string :=
  match attrs_doc attrs with Ok d => doc_lines d | _ => [] end.

Lemma docs_as_declared_compute attrs emitted d :
  docs_as_declared attrs emitted -> attrs_doc attrs = Ok d -> emitted = declared_doc_lines attrs.
Proof.
  intros H Hd. unfold declared_doc_lines. rewrite Hd.
  eapply docs_as_declared_fun; [exact H | now apply docs_of_attrs_doc].
Qed.

(** ** the declared derive list *)
Definition declared_derives (attrs : list gattr) : list string :=
  derive_names (has_marker "copyable" attrs)
               (has_marker "copyable" attrs || has_marker "cloneable" attrs)
               (has_marker "defaultable" attrs).

(** copyable yields Copy and Clone, cloneable yields Clone only, defaultable yields Default, and
    nothing else is derived *)
Theorem declared_derives_spec attrs :
  (In "Copy" (declared_derives attrs) <-> has_marker "copyable" attrs = true) /\
  (In "Clone" (declared_derives attrs) <->
     has_marker "copyable" attrs = true \/ has_marker "cloneable" attrs = true) /\
  (In "Default" (declared_derives attrs) <-> has_marker "defaultable" attrs = true) /\
  (forall n, In n (declared_derives attrs) -> n = "Copy" \/ n = "Clone" \/ n = "Default") /\
  NoDup (declared_derives attrs).
Proof.
  unfold declared_derives.
  destruct (derive_names_spec (has_marker "copyable" attrs)
              (has_marker "copyable" attrs || has_marker "cloneable" attrs)
              (has_marker "defaultable" attrs)) as (A & B & C).
  split; [exact A|]. split; [rewrite B; apply orb_true_iff|]. split; [exact C|].
  unfold derive_names.
  destruct (has_marker "copyable" attrs), (has_marker "cloneable" attrs), (has_marker "defaultable" attrs);
    cbn [orb app]; (split; [intros n Hn; cbn [In] in Hn; intuition congruence|]);
    repeat constructor; cbn [In]; intuition discriminate.
Qed.

(** ** interleavings: a list [bs] made of generated elements and, in order, of the counterparts of
    those elements of [xs] that are not dropped *)
Section Interleave.
  Context {A B : Type}.
  Inductive interleave (gen : B -> Prop) (drop : A -> Prop) (decl : A -> B -> Prop)
    : list A -> list B -> Prop :=
  | il_nil : interleave gen drop decl [] []
  | il_gen b xs bs : gen b -> interleave gen drop decl xs bs -> interleave gen drop decl xs (b :: bs)
  | il_drop a xs bs : drop a -> interleave gen drop decl xs bs -> interleave gen drop decl (a :: xs) bs
  | il_decl a xs b bs : decl a b -> interleave gen drop decl xs bs ->
                        interleave gen drop decl (a :: xs) (b :: bs).

  Lemma interleave_app gen drop decl xs bs xs' bs' :
    interleave gen drop decl xs bs -> interleave gen drop decl xs' bs' ->
    interleave gen drop decl (xs ++ xs') (bs ++ bs').
  Proof.
    intros H H'. induction H; cbn [app]; [exact H' | | |]; constructor; assumption.
  Qed.

  Lemma interleave_impl (gen gen' : B -> Prop) (drop drop' : A -> Prop) (decl decl' : A -> B -> Prop) xs bs :
    (forall b, gen b -> gen' b) -> (forall a, drop a -> drop' a) ->
    (forall a b, decl a b -> decl' a b \/ (drop' a /\ gen' b)) ->
    interleave gen drop decl xs bs -> interleave gen' drop' decl' xs bs.
  Proof.
    intros Hg Hd Hc H. induction H.
    - constructor.
    - apply il_gen; auto.
    - apply il_drop; auto.
    - destruct (Hc _ _ H) as [X|[X Y]].
      + apply il_decl; auto.
      + apply il_drop; [exact X|]. apply il_gen; auto.
  Qed.

  (** every element on the right is generated or the counterpart of an element on the left *)
  Lemma interleave_right gen drop decl xs bs :
    interleave gen drop decl xs bs ->
    Forall (fun b => gen b \/ exists a, In a xs /\ decl a b) bs.
  Proof.
    induction 1 as [|b xs bs Hb _ IH|a xs bs _ _ IH|a xs b bs Hab _ IH].
    - constructor.
    - constructor; [now left | exact IH].
    - eapply Forall_impl; [|exact IH]. intros b [Hb|(a' & Ha' & Hd)]; [now left|].
      right. exists a'. split; [now right | exact Hd].
    - constructor; [right; exists a; split; [now left | exact Hab]|].
      eapply Forall_impl; [|exact IH]. intros b' [Hb|(a' & Ha' & Hd)]; [now left|].
      right. exists a'. split; [now right | exact Hd].
  Qed.

  (** every element on the left is dropped or has its counterpart on the right *)
  Lemma interleave_left gen drop decl xs bs :
    interleave gen drop decl xs bs ->
    Forall (fun a => drop a \/ exists b, In b bs /\ decl a b) xs.
  Proof.
    induction 1 as [|b xs bs Hb _ IH|a xs bs Ha _ IH|a xs b bs Hab _ IH].
    - constructor.
    - eapply Forall_impl; [|exact IH]. intros a [Ha|(b' & Hb' & Hd)]; [now left|].
      right. exists b'. split; [now right | exact Hd].
    - constructor; [now left | exact IH].
    - constructor; [right; exists b; split; [now left | exact Hab]|].
      eapply Forall_impl; [|exact IH]. intros a' [Ha|(b' & Hb' & Hd)]; [now left|].
      right. exists b'. split; [now right | exact Hd].
  Qed.

End Interleave.

(** transport of the right list along a pointwise relation *)
Lemma interleave_forall2 {A B C} (gen : B -> Prop) (gen' : C -> Prop) (drop : A -> Prop)
      (decl : A -> B -> Prop) (decl' : A -> C -> Prop) (Q : B -> C -> Prop) xs bs cs :
  (forall b c, gen b -> Q b c -> gen' c) -> (forall a b c, decl a b -> Q b c -> decl' a c) ->
  interleave gen drop decl xs bs -> Forall2 Q bs cs -> interleave gen' drop decl' xs cs.
Proof.
  intros Hg Hd H. revert cs. induction H; intros cs HQ.
  - inversion HQ. constructor.
  - inversion HQ; subst. apply il_gen; eauto.
  - apply il_drop; auto.
  - inversion HQ; subst. apply il_decl; eauto.
Qed.

(** composition, when the first interleaving generates nothing *)
Lemma interleave_nil_l {A B} (gen : B -> Prop) (drop : A -> Prop) (decl : A -> B -> Prop) bs :
  interleave gen drop decl [] bs -> Forall gen bs.
Proof.
  intros H. remember (@nil A) as xs eqn:E. induction H; try discriminate; constructor; auto.
Qed.

Lemma interleave_gens {A B} (gen : B -> Prop) (drop : A -> Prop) (decl : A -> B -> Prop) bs :
  Forall gen bs -> interleave gen drop decl [] bs.
Proof. induction 1; constructor; auto. Qed.

Lemma interleave_comp {A B C} (drop1 : A -> Prop) (decl1 : A -> B -> Prop)
      (gen2 : C -> Prop) (drop2 : B -> Prop) (decl2 : B -> C -> Prop) xs bs :
  interleave (fun _ => False) drop1 decl1 xs bs -> forall cs,
  interleave gen2 drop2 decl2 bs cs ->
  interleave gen2 (fun a => drop1 a \/ exists b, decl1 a b /\ drop2 b)
             (fun a c => exists b, decl1 a b /\ decl2 b c) xs cs.
Proof.
  induction 1 as [|b xs bs [] _ _|a xs bs Ha _ IH|a xs b bs Hab _ IH]; intros cs H2.
  - apply interleave_gens. eapply interleave_nil_l; eauto.
  - apply il_drop; [now left | now apply IH].
  - remember (b :: bs) as bbs eqn:E. induction H2 as [|c ys cs' Hc _ IH2|b' ys cs' Hb' H2' _|b' ys c cs' Hbc H2' _].
    + discriminate.
    + apply il_gen; [exact Hc | now apply IH2].
    + inversion E; subst. apply il_drop; [right; eauto | now apply IH].
    + inversion E; subst. apply il_decl; [eauto | now apply IH].
Qed.

(** * 1. From the declared statements to the regions of the resolved type *)

(** the region [process_statement] makes of the field statement [s] *)
Definition stmt_region (R : registry) (scope : list path) (s : gstatement) (r : region) : Prop :=
  exists v name t doc t',
    gs_field s = GField v name t /\ attrs_doc (gs_attrs s) = Ok doc /\ resolve_gtype R scope t = Some t' /\
    r_vis r = v /\ r_name r = (if String.eqb name "_" then None else Some name) /\ r_doc r = doc /\
    r_type r = t'.

Definition is_vftable_stmt (s : gstatement) : Prop := exists fs, gs_field s = GVftable fs.

Lemma process_statements_pending R scope : forall stmts idx pend vfs n pend' vfs',
  foldM (process_statement R scope) stmts (idx, (pend, vfs)) = Ok (n, (pend', vfs')) ->
  exists new, pend' = pend ++ new /\
    interleave (fun _ : option N * region => False) is_vftable_stmt
               (fun s p => stmt_region R scope s (snd p)) stmts new.
Proof.
  induction stmts as [|s stmts IH]; intros idx pend vfs n pend' vfs' H; cbn [foldM] in H.
  - inversion H; subst. exists []. split; [now rewrite app_nil_r | constructor].
  - inv_bind H. destruct a as [idx1 [pend1 vfs1]]. unfold process_statement in Ha.
    destruct (gs_field s) as [v name t|fs] eqn:Ef.
    + inv_bind Ha. rename a into doc. inv_bind Ha. rename a into ab.
      destruct (resolve_gtype R scope t) as [t'|] eqn:Et; [|discriminate].
      inversion Ha; subst idx1 pend1 vfs1. clear Ha.
      destruct (IH _ _ _ _ _ _ H) as (new & -> & Hil).
      eexists (_ :: new). split; [rewrite <- app_assoc; reflexivity|].
      apply il_decl; [|exact Hil]. cbn [snd]. exists v, name, t, doc, t'. cbn. repeat split; auto.
    + destruct (negb (Nat.eqb idx 0)); [discriminate|]. inv_bind Ha. inv_bind Ha.
      inversion Ha; subst idx1 pend1 vfs1. clear Ha.
      destruct (IH _ _ _ _ _ _ H) as (new & -> & Hil).
      exists new. split; [reflexivity|]. apply il_drop; [exists fs; exact Ef | exact Hil].
Qed.

(** the regions before the naming pass: generated are the own vftable pointer and the padding *)
Definition pre_gen (r : region) : Prop :=
  (exists ty, r = vftable_region_of ty) \/ (exists n, r = unnamed_region (padding_type n)).

Definition pend_dropped (R : registry) (p : option N * region) : Prop := ignored R (snd p) = true.

Lemma regions_push_il R rs last r rs' last' :
  regions_push R (rs, last) r = Some (rs', last') ->
  (ignored R r = true /\ rs' = rs) \/ (ignored R r = false /\ rs' = rs ++ [r]).
Proof.
  intros H. destruct (regions_push_spec _ _ _ _ _ _ H) as (s & _ & Hr).
  destruct (ignored R r); [left | right]; tauto.
Qed.

Lemma push_pending_il R rs last p rs' last' :
  push_pending R (rs, last) p = Ok (rs', last') ->
  exists new, rs' = rs ++ new /\
    interleave pre_gen (pend_dropped R) (fun p r => r = snd p) [p] new.
Proof.
  unfold push_pending. intros H. inv_bind H. destruct a as [rs1 last1]. apply defer_opt_ok in H.
  assert (exists pad, rs1 = rs ++ pad /\ Forall pre_gen pad) as (pad & -> & Hpad).
  { cbn [fst snd] in Ha. destruct (fst p) as [offset|].
    - destruct (offset <? last)%N; [discriminate|]. apply defer_opt_ok in Ha.
      destruct (regions_push_il _ _ _ _ _ _ Ha) as [(_ & ->)|(_ & ->)].
      + exists []. split; [now rewrite app_nil_r | constructor].
      + eexists [_]. split; [reflexivity|]. constructor; [|constructor]. right. eexists; reflexivity.
    - inversion Ha; subst. exists []. split; [now rewrite app_nil_r | constructor]. }
  destruct (regions_push_il _ _ _ _ _ _ H) as [(Hi & ->)|(Hi & ->)].
  - exists pad. split; [reflexivity|].
    replace pad with (pad ++ []) by apply app_nil_r.
    change [p] with ([] ++ [p]). apply interleave_app; [now apply interleave_gens|].
    apply il_drop; [exact Hi | constructor].
  - exists (pad ++ [snd p]). split; [now rewrite app_assoc|].
    change [p] with ([] ++ [p]). apply interleave_app; [now apply interleave_gens|].
    apply il_decl; [reflexivity | constructor].
Qed.

Lemma push_all_il R : forall pending rs last rs' last',
  foldM (push_pending R) pending (rs, last) = Ok (rs', last') ->
  exists new, rs' = rs ++ new /\
    interleave pre_gen (pend_dropped R) (fun p r => r = snd p) pending new.
Proof.
  induction pending as [|p pending IH]; intros rs last rs' last' H; cbn [foldM] in H.
  - inversion H; subst. exists []. split; [now rewrite app_nil_r | constructor].
  - inv_bind H. destruct a as [rs1 last1].
    destruct (push_pending_il _ _ _ _ _ _ Ha) as (new1 & -> & H1).
    destruct (IH _ _ _ _ H) as (new2 & -> & H2).
    exists (new1 ++ new2). split; [now rewrite app_assoc|].
    change (p :: pending) with ([p] ++ pending). now apply interleave_app.
Qed.

(** [resolve_regions]: the regions handed to the naming pass *)
Lemma resolve_regions_il st owner v ts pending vfs st' regions vt size :
  resolve_regions st owner v ts pending vfs = Ok (st', regions, vt, size) ->
  exists pre, name_regions (st_reg st') pre 0%N = Ok (regions, size) /\
    interleave pre_gen (pend_dropped (st_reg st')) (fun p r => r = snd p) pending pre.
Proof.
  unfold resolve_regions. intros H. destruct (first_base_unresolved _ _); [discriminate|].
  inv_bind H. destruct a as [[st1 vt1] vr1].
  inv_bind H. destruct a as [rs0 last0]. inv_bind H. destruct a as [rs1 last1].
  inv_bind H. destruct a as [rs2 last2]. inv_bind H. destruct a as [named sz]. cbn [fst snd] in *.
  assert (st' = st1 /\ regions = named /\ size = sz) as (-> & -> & ->).
  { destruct ts as [t|]; [destruct (negb (sz =? t)%N); [discriminate|]|]; inversion H; auto. }
  clear H. exists rs2. split; [exact Ha3|].
  assert (Forall pre_gen rs0) as H0.
  { destruct vr1 as [vr|].
    - destruct (vftable_build_region _ _ _ _ _ _ _ _ Ha) as (ty & -> & _). apply defer_opt_ok in Ha0.
      destruct (regions_push_il _ _ _ _ _ _ Ha0) as [(_ & ->)|(_ & ->)]; [constructor|].
      constructor; [|constructor]. left. eexists; reflexivity.
    - inversion Ha0; subst. constructor. }
  destruct (push_all_il _ _ _ _ _ _ Ha1) as (new & -> & Hil).
  assert (exists tail, rs2 = (rs0 ++ new) ++ tail /\ Forall pre_gen tail) as (tail & -> & Ht).
  { destruct ts as [t|]; [|inversion Ha2; subst; exists []; split; [now rewrite app_nil_r | constructor]].
    destruct (last1 <? t)%N; [|inversion Ha2; subst; exists []; split; [now rewrite app_nil_r | constructor]].
    apply defer_opt_ok in Ha2. destruct (regions_push_il _ _ _ _ _ _ Ha2) as [(_ & ->)|(_ & ->)].
    - exists []. split; [now rewrite app_nil_r | constructor].
    - eexists [_]. split; [reflexivity|]. constructor; [|constructor]. right. eexists; reflexivity. }
  replace pending with (([] ++ pending) ++ []) by (cbn [app]; apply app_nil_r).
  apply interleave_app; [apply interleave_app|]; [now apply interleave_gens | exact Hil | now apply interleave_gens].
Qed.

(** the naming pass: named regions are kept, unnamed ones become private, undocumented
    [_field_<offset in hex>] *)
Definition named_from (r r' : region) : Prop :=
  match r_name r with
  | Some _ => r' = r
  | None => r_vis r' = Private /\ r_doc r' = None /\ r_type r' = r_type r /\
            exists off, r_name r' = Some ("_field_" +++ hex_of_N off)
  end.

Lemma name_regions_named R : forall rs s0 rs' s,
  name_regions R rs s0 = Ok (rs', s) -> Forall2 named_from rs rs'.
Proof.
  induction rs as [|r rs IH]; intros s0 rs' s H; cbn [name_regions] in H.
  - inversion H. constructor.
  - destruct (size_of R (r_type r)); [|discriminate]. inv_bind H. destruct a as [rest s1].
    inversion H; subst. constructor; [|eapply IH; eauto].
    unfold named_from. destruct (r_name r); [reflexivity|]. cbn. repeat split. eauto.
Qed.

(** a generated region of the resolved type: private, undocumented, named [vftable] or
    [_field_<hex>] *)
Definition region_generated (r : region) : Prop :=
  r_vis r = Private /\ r_doc r = None /\
  (r_name r = Some "vftable" \/ exists off, r_name r = Some ("_field_" +++ hex_of_N off)).

(** the region [r] of the resolved type is the declared field of statement [s] *)
Definition region_declared (s : gstatement) (r : region) : Prop :=
  exists v name t, gs_field s = GField v name t /\ name <> "_" /\
    r_name r = Some name /\ r_vis r = v /\ attrs_doc (gs_attrs s) = Ok (r_doc r).

(** a statement without a counterpart of its own: the vftable block, a field named [_] (it becomes
    a generated [_field_<hex>]), a field whose type is a zero-sized array *)
Definition stmt_not_emitted (R_mid : registry) (scope : list path) (R : registry) (s : gstatement) : Prop :=
  is_vftable_stmt s \/
  exists v name t, gs_field s = GField v name t /\
    (name = "_" \/
     exists t', resolve_gtype R_mid scope t = Some t' /\ stype_is_array t' = true /\ size_of R t' = Some 0%N).

Lemma ignored_true R r : ignored R r = true -> stype_is_array (r_type r) = true /\ size_of R (r_type r) = Some 0%N.
Proof.
  unfold ignored. destruct (size_of R (r_type r)) as [s|]; [|discriminate]. intros H.
  apply andb_prop in H as [H1 H2]. apply N.eqb_eq in H1. subst. auto.
Qed.

(** the accepted attempt: statements against the regions of the resolved type *)
Theorem type_build_regions st p v d st' rs :
  type_build st p v d = (st', Ok rs) ->
  exists td module,
    rs_inner rs = IType td /\ attrs_doc (gt_attrs d) = Ok (td_doc td) /\
    interleave region_generated (stmt_not_emitted (st_reg st) (module_scope module) (st_reg st'))
               region_declared (gt_stmts d) (td_regions td).
Proof.
  intros H.
  assert (exists doc, attrs_doc (gt_attrs d) = Ok doc /\
            exists td, rs_inner rs = IType td /\ td_doc td = doc) as (doc & Hdoc & td0 & Htd0 & Hd0).
  { unfold type_build in H.
    destruct (path_parent p) as [parent|]; [|inversion H].
    destruct (alookup parent (st_modules st)) as [module|]; [|inversion H].
    match type of H with context [match ?pre with Ok _ => _ | Defer => _ | Err _ => _ | Panic _ => _ end] =>
      destruct pre as [[[doc ta] [pending vfs]]| | |] eqn:Epre end; try (inversion H; fail).
    destruct (resolve_regions st p v (ta_size ta) pending vfs) as [[[[st1 regions] vt] size]| | |];
      try (inversion H; fail).
    inversion H as [[Hst Hpost]]. clear H. inv_bind Epre. inv_bind Epre. inv_bind Epre.
    inversion Epre; subst. clear Epre.
    inv_bind Hpost. inv_bind Hpost. inv_bind Hpost. inv_bind Hpost. inversion Hpost; subst.
    eexists. split; [exact Ha|]. eexists. split; [reflexivity | reflexivity]. }
  destruct (type_build_inv _ _ _ _ _ _ H) as
      (parent & module & doc' & ta & n & pending & vfs & regions & vt & size & funcs & A &
       Hpar & Hmod & Hta & Hstm & Hrr & Hca & Hr).
  subst rs. cbn [rs_inner] in *. inversion Htd0; subst td0. cbn [td_doc] in Hd0. subst doc'.
  eexists. exists module. split; [reflexivity|]. cbn [td_doc td_regions]. split; [exact Hdoc|].
  destruct (process_statements_pending _ _ _ _ _ _ _ _ _ Hstm) as (new & Hnew & H1). cbn [app] in Hnew. subst new.
  destruct (resolve_regions_il _ _ _ _ _ _ _ _ _ _ Hrr) as (pre & Hname & H2).
  pose proof (interleave_comp _ _ _ _ _ _ _ H1 _ H2) as H3.
  pose proof (name_regions_named _ _ _ _ _ Hname) as H4.
  (* through the naming pass *)
  assert (interleave region_generated
            (fun a => is_vftable_stmt a \/ exists b, stmt_region (st_reg st) (module_scope module) a (snd b) /\
                                                     pend_dropped (st_reg st') b)
            (fun a c => region_declared a c \/
                        ((exists v0 t, gs_field a = GField v0 "_" t) /\ region_generated c))
            (gt_stmts d) regions) as H5.
  { eapply interleave_forall2; [| |exact H3|exact H4].
    - (* generated regions *)
      intros b c [(ty & ->)|(k & ->)] Hn; unfold named_from in Hn; cbn [vftable_region_of unnamed_region r_name] in Hn.
      + subst c. repeat split. now left.
      + destruct Hn as (Hv & Hd & _ & off & Ho). repeat split; auto. right. eauto.
    - (* declared regions *)
      intros a b c (b0 & (v0 & name & t & doc0 & t' & Hf & Hd & Ht & Hv & Hn & Hdc & Hty) & ->) Hnamed.
      unfold named_from in Hnamed. rewrite Hn in Hnamed.
      destruct (String.eqb_spec name "_") as [->|Hne].
      + destruct Hnamed as (Hv' & Hd' & _ & off & Ho). right. split; [eauto|].
        repeat split; auto. right. eauto.
      + subst c. left. exists v0, name, t. repeat split; auto. congruence. }
  eapply interleave_impl; [| | |exact H5].
  - intros b Hb. exact Hb.
  - intros a [Ha|(b & (v0 & name & t & doc0 & t' & Hf & Hd & Ht & Hv & Hn & Hdc & Hty) & Hdrop)]; [now left|].
    right. exists v0, name, t. split; [exact Hf|]. right. exists t'. split; [exact Ht|].
    apply ignored_true in Hdrop. rewrite Hty in Hdrop. exact Hdrop.
  - intros a b [Hab|((v0 & t & Hf) & Hg)]; [now left|]. right. split; [|exact Hg].
    right. exists v0, "_", t. split; [exact Hf | now left].
Qed.

(** * 2. The emitted struct of a declared type *)

(** all the attributes of an emitted struct / enum item *)
Definition struct_attrs (e : sexp) : option (list sexp) := option_map parts_attrs (item_parts "struct" e).
Definition enum_attrs (e : sexp) : option (list sexp) := option_map parts_attrs (item_parts "enum" e).

Lemma derive_attr_length base c cl d :
  List.length (derive_attr base c cl d) = match base ++ derive_names c cl d with [] => 0 | _ => 1 end%nat.
Proof. rewrite derive_attr_names. destruct (base ++ derive_names c cl d); reflexivity. Qed.

Lemma doc_attrs_length d : List.length (doc_attrs d) = List.length (doc_lines d).
Proof. unfold doc_attrs. apply map_length. Qed.

Lemma build_type_struct_attrs R fuel p size alignment v td s rest :
  build_type R fuel p size alignment v td = Ok (s :: rest) ->
  struct_attrs s = Some (derive_attr [] (td_copyable td) (td_cloneable td) (td_defaultable td) ++
                         [repr_attr (td_packed td) alignment] ++ doc_attrs (td_doc td)).
Proof.
  unfold build_type. intros H. destruct (path_last p) as [name|]; [|discriminate].
  destruct (negb (ident_ok name)); [discriminate|]. inv_bind H. destruct (negb (ident_ok _)); [discriminate|].
  inv_bind H. inv_bind H. inv_bind H. inv_bind H. inversion H; subst s. clear H.
  unfold struct_attrs. now rewrite item_parts_printed.
Qed.

(** what is known of a declared type in an accepted build whose files are written: the resolved
    item, the accepted attempt that produced it, the items the back end prints for it, and where
    they are in the file of the declaring module *)
Lemma emitted_type_master order ptr mods st0 st files p it0 gd td0 :
  input_state ptr mods = Ok st0 -> NoDup (map fst mods) -> collision_free (st_reg st0) ->
  keeps_work order ->
  pyxis_resolve order ptr mods = BOk st -> write_all st = Ok files ->
  reg_get (st_reg st0) p = Some it0 -> it_state it0 = Unresolved gd -> gi_inner gd = GIType td0 ->
  path_parent p <> Some [] ->
  exists parent name it r td f pre s rest post st_mid st_mid',
    path_parent p = Some parent /\ parent <> [] /\ path_last p = Some name /\
    reg_get (st_reg st) p = Some it /\ it_state it = Resolved r /\ rs_inner r = IType td /\
    build_type (st_reg st) (S (List.length (reg_types (st_reg st)))) p (rs_size r) (rs_align r) (gi_vis gd) td
      = Ok (s :: rest) /\
    In (out_path parent, f) files /\
    file_items f = Some (pre ++ (s :: rest) ++ post) /\
    find_struct name (pre ++ (s :: rest) ++ post) = Some s /\
    struct_shape name (rs_align r) (gi_vis gd) td s /\
    ext (st_reg st0) (st_reg st0) (st_reg st_mid) /\
    type_build st_mid p (gi_vis gd) td0 = (st_mid', Ok r) /\
    ext (st_reg st0) (st_reg st_mid) (st_reg st_mid') /\ ext (st_reg st0) (st_reg st_mid') (st_reg st) /\
    mods_rel (st_modules st_mid) (st_modules st0).
Proof.
  intros Hin HN Hcf Hord Hres Hw Hg0 Hs0 Hty Hroot.
  destruct (accepted_declared_item _ _ _ _ _ _ _ _ Hin HN Hcf Hord Hres Hg0 Hs0)
    as (it & r & parent & m & Hg & Hs & Hpath & Hvis & Hcat & Hpar & Hmod & Hdef & HK & Hnd & Hparents).
  destruct (whole_build_type2 _ _ _ _ _ _ _ _ _ _ _ Hin Hcf Hres Hg0 Hs0 Hty Hg Hs)
    as (sm & sm' & He0 & Hat & He1 & He2 & _ & _ & HM).
  destruct (type_build_regions _ _ _ _ _ _ Hat) as (td & _ & Hi & _).
  assert (parent <> []) as Hne by (intros ->; contradiction).
  destruct (write_all_in _ _ _ _ Hw Hmod Hne) as (f & Hf & Hfile).
  destruct (module_file_items _ _ _ _ _ Hf Hdef Hg) as (pre0 & its & post0 & Hb & _).
  assert (item_resolved it = Some r) as Hr by (unfold item_resolved; now rewrite Hs).
  destruct (build_item_struct_shape _ _ _ _ _ _ Hr Hcat Hi Hb)
    as (name & s & checks & rest & Hname & -> & Hshape & _ & _).
  rewrite Hpath in Hname. rewrite Hvis, (input_state_vis _ _ _ _ _ _ Hin Hg0 Hs0) in Hshape.
  destruct (module_file_find_struct _ _ _ _ _ _ _ _ _ Hf HK Hnd Hparents Hdef Hg Hname Hb
              (struct_shape_is_named _ _ _ _ _ Hshape)) as (pre & post & Hitems & _ & Hfind).
  unfold build_item in Hb. rewrite Hr, Hcat, Hi, Hpath, Hvis, (input_state_vis _ _ _ _ _ _ Hin Hg0 Hs0) in Hb.
  exists parent, name, it, r, td, f, pre, s, (checks ++ rest), post, sm, sm'.
  repeat (split; [assumption|]). exact HM.
Qed.

(** the doc of a declared type in the final registry is the doc of its declaration *)
Lemma declared_type_doc order ptr mods st0 st p it0 gd td0 it r td :
  input_state ptr mods = Ok st0 -> collision_free (st_reg st0) ->
  pyxis_resolve order ptr mods = BOk st ->
  reg_get (st_reg st0) p = Some it0 -> it_state it0 = Unresolved gd -> gi_inner gd = GIType td0 ->
  reg_get (st_reg st) p = Some it -> it_state it = Resolved r -> rs_inner r = IType td ->
  attrs_doc (gt_attrs td0) = Ok (td_doc td).
Proof.
  intros Hin Hcf Hres Hg0 Hs0 Hty Hg Hs Hi.
  destruct (whole_build_type2 _ _ _ _ _ _ _ _ _ _ _ Hin Hcf Hres Hg0 Hs0 Hty Hg Hs) as (sm & sm' & _ & Hat & _).
  destruct (type_build_regions _ _ _ _ _ _ Hat) as (td' & module & Hi' & Hdoc & _).
  rewrite Hi in Hi'. inversion Hi'; subst td'. exact Hdoc.
Qed.

(** ** Part 1 (TYPE): visibility, derives, repr, docs of the emitted struct, from the declaration *)
Theorem C17_emitted_type order ptr mods st0 st files p it0 gd td0 :
  input_state ptr mods = Ok st0 -> NoDup (map fst mods) -> collision_free (st_reg st0) ->
  keeps_work order ->
  pyxis_resolve order ptr mods = BOk st -> write_all st = Ok files ->
  reg_get (st_reg st0) p = Some it0 -> it_state it0 = Unresolved gd -> gi_inner gd = GIType td0 ->
  path_parent p <> Some [] ->
  exists parent name f items s it r al docs,
    (* THE struct of that name in the file of the declaring module *)
    path_parent p = Some parent /\ path_last p = Some name /\
    In (out_path parent, f) files /\ file_items f = Some items /\ find_struct name items = Some s /\
    reg_get (st_reg st) p = Some it /\ it_state it = Resolved r /\
    (* public exactly when declared pub *)
    struct_vis s = Some (gi_vis gd) /\
    (* copyable: Copy and Clone; cloneable: Clone only; defaultable: Default; nothing else *)
    struct_derives s = Some (declared_derives (gt_attrs td0)) /\
    (* packed: repr(C, packed), no alignment; otherwise repr(C, align(resolved alignment)) *)
    struct_repr s = Some (if has_marker "packed" (gt_attrs td0) then ReprPacked else ReprAlign (rs_align r)) /\
    (* the doc lines written on the type, in order *)
    struct_docs s = Some docs /\ docs_as_declared (gt_attrs td0) docs /\
    (* and no other attribute: at most one derive, one repr, the doc lines *)
    struct_attrs s = Some al /\
    List.length al = ((match declared_derives (gt_attrs td0) with [] => 0 | _ => 1 end) + 1
                      + List.length docs)%nat.
Proof.
  intros Hin HN Hcf Hord Hres Hw Hg0 Hs0 Hty Hroot.
  destruct (emitted_type_master _ _ _ _ _ _ _ _ _ _ Hin HN Hcf Hord Hres Hw Hg0 Hs0 Hty Hroot)
    as (parent & name & it & r & td & f & pre & s & rest & post & sm & sm' &
        Hpar & Hne & Hname & Hg & Hs & Hi & Hb & Hfile & Hitems & Hfind & Hsh & He0 & Hat & He1 & He2 & HM).
  destruct (C17_whole_build_markers _ _ _ _ _ _ _ _ _ _ _ Hin Hcf Hres Hg0 Hs0 Hty Hg Hs)
    as (td' & Hi' & Hc & Hcl & Hd & Hp & _).
  rewrite Hi in Hi'. inversion Hi'; subst td'. clear Hi'.
  destruct (type_build_regions _ _ _ _ _ _ Hat) as (td' & module & Hi' & Hdoc & _).
  rewrite Hi in Hi'. inversion Hi'; subst td'. clear Hi'.
  exists parent, name, f, (pre ++ (s :: rest) ++ post), s, it, r. eexists. exists (doc_lines (td_doc td)).
  repeat (split; [assumption|]).
  split; [apply Hsh|].
  split; [rewrite (ss_derives _ _ _ _ _ Hsh); unfold declared_derives; now rewrite Hc, Hcl, Hd|].
  split; [rewrite (ss_repr _ _ _ _ _ Hsh), Hp; reflexivity|].
  split; [apply Hsh|]. split; [now apply docs_of_attrs_doc|].
  split; [eapply build_type_struct_attrs; eauto|].
  rewrite !app_length, derive_attr_length, doc_attrs_length. cbn [List.length app].
  unfold declared_derives. rewrite Hc, Hcl, Hd. lia.
Qed.

(** ** Part 2 (FIELDS) *)
(** a generated field of the emitted struct: private, without any attribute, named [vftable] or
    [_field_<hex>] *)
Definition ef_generated (ef : efield) : Prop :=
  ef_vis ef = Private /\ ef_docs ef = [] /\
  (ef_name ef = "vftable" \/ exists off, ef_name ef = "_field_" +++ hex_of_N off).

(** the emitted field [ef] is the counterpart of the field statement [s]: its name, its visibility
    and its doc lines are the declared ones *)
Definition ef_declared (s : gstatement) (ef : efield) : Prop :=
  exists v t, gs_field s = GField v (ef_name ef) t /\ ef_name ef <> "_" /\
    ef_vis ef = v /\ docs_as_declared (gs_attrs s) (ef_docs ef).

Lemma field_generated r ef : region_generated r -> field_of_region r ef -> ef_generated ef.
Proof.
  intros (Hv & Hd & Hn) (Hname & _ & Hvis & Hdocs). unfold ef_generated.
  rewrite Hvis, Hdocs, Hv, Hd. repeat split. rewrite Hname in Hn.
  destruct Hn as [Hn|(off & Hn)]; [left | right; exists off]; now inversion Hn.
Qed.

Lemma field_declared s r ef : region_declared s r -> field_of_region r ef -> ef_declared s ef.
Proof.
  intros (v & name & t & Hf & Hne & Hn & Hv & Hd) (Hname & _ & Hvis & Hdocs).
  rewrite Hname in Hn. inversion Hn; subst name. exists v, t. repeat split; auto; [congruence|].
  rewrite Hdocs. now apply docs_of_attrs_doc.
Qed.

Theorem C17_emitted_fields order ptr mods st0 st files p it0 gd td0 :
  input_state ptr mods = Ok st0 -> NoDup (map fst mods) -> collision_free (st_reg st0) ->
  keeps_work order ->
  pyxis_resolve order ptr mods = BOk st -> write_all st = Ok files ->
  reg_get (st_reg st0) p = Some it0 -> it_state it0 = Unresolved gd -> gi_inner gd = GIType td0 ->
  path_parent p <> Some [] ->
  exists parent name f items s efs R_mid scope,
    path_parent p = Some parent /\ path_last p = Some name /\
    In (out_path parent, f) files /\ file_items f = Some items /\ find_struct name items = Some s /\
    struct_fields s = Some efs /\
    (* [R_mid]: the registry of the accepted attempt, where the field types were resolved;
       everything known there is unchanged in the final registry *)
    ext (st_reg st0) (st_reg st0) R_mid /\ ext (st_reg st0) R_mid (st_reg st) /\
    (* the emitted fields are, in order, generated fields and the counterparts of the declared
       field statements that are emitted *)
    interleave ef_generated (stmt_not_emitted R_mid scope (st_reg st)) ef_declared (gt_stmts td0) efs.
Proof.
  intros Hin HN Hcf Hord Hres Hw Hg0 Hs0 Hty Hroot.
  destruct (emitted_type_master _ _ _ _ _ _ _ _ _ _ Hin HN Hcf Hord Hres Hw Hg0 Hs0 Hty Hroot)
    as (parent & name & it & r & td & f & pre & s & rest & post & sm & sm' &
        Hpar & Hne & Hname & Hg & Hs & Hi & Hb & Hfile & Hitems & Hfind & Hsh & He0 & Hat & He1 & He2 & HM).
  destruct (type_build_regions _ _ _ _ _ _ Hat) as (td' & module & Hi' & _ & Hil).
  rewrite Hi in Hi'. inversion Hi'; subst td'. clear Hi'.
  destruct (ss_fields _ _ _ _ _ Hsh) as (efs & Hfields & Hall).
  exists parent, name, f, (pre ++ (s :: rest) ++ post), s, efs, (st_reg sm), (module_scope module).
  repeat (split; [assumption|]). split; [eapply ext_trans; eauto|].
  eapply interleave_forall2; [exact field_generated | exact field_declared | | exact Hall].
  eapply interleave_impl; [| | |exact Hil].
  - auto.
  - intros a [Ha|(v & nm & t & Hf & [->|(t' & Ht & Harr & Hsz)])]; [now left | |].
    + right. exists v, "_", t. split; [exact Hf | now left].
    + right. exists v, nm, t. split; [exact Hf|]. right. exists t'. split; [exact Ht|]. split; [exact Harr|].
      eapply size_of_ext; eauto.
  - auto.
Qed.

(** a declared type that cannot resolve to an array: a named type or a pointer *)
Definition gtype_not_array (t : gtype) : bool :=
  match t with GArray _ _ | GUnknown _ => false | _ => true end.

Lemma resolve_not_array R scope t t' :
  gtype_not_array t = true -> resolve_gtype R scope t = Some t' -> stype_is_array t' = false.
Proof.
  destruct t as [t0|t0|t0 n|nm|n]; cbn [gtype_not_array resolve_gtype]; intros Hna H; try discriminate.
  - destruct (resolve_gtype R scope t0); inversion H. reflexivity.
  - destruct (resolve_gtype R scope t0); inversion H. reflexivity.
  - unfold resolve_string in H. destruct (find _ _); [inversion H; reflexivity|].
    destruct (find _ _); inversion H. reflexivity.
Qed.

(** the two readings of [C17_emitted_fields] *)
Corollary C17_emitted_fields_each order ptr mods st0 st files p it0 gd td0 :
  input_state ptr mods = Ok st0 -> NoDup (map fst mods) -> collision_free (st_reg st0) ->
  keeps_work order ->
  pyxis_resolve order ptr mods = BOk st -> write_all st = Ok files ->
  reg_get (st_reg st0) p = Some it0 -> it_state it0 = Unresolved gd -> gi_inner gd = GIType td0 ->
  path_parent p <> Some [] ->
  exists parent name f items s efs,
    path_parent p = Some parent /\ path_last p = Some name /\
    In (out_path parent, f) files /\ file_items f = Some items /\ find_struct name items = Some s /\
    struct_fields s = Some efs /\
    (* every emitted field: generated (private, no attribute) or the counterpart of a declared field *)
    Forall (fun ef => ef_generated ef \/ exists stm, In stm (gt_stmts td0) /\ ef_declared stm ef) efs /\
    (* every declared named field whose type is not an array has its counterpart *)
    (forall stm v nm t, In stm (gt_stmts td0) -> gs_field stm = GField v nm t -> nm <> "_" ->
       gtype_not_array t = true ->
       exists ef, In ef efs /\ ef_name ef = nm /\ ef_vis ef = v /\ docs_as_declared (gs_attrs stm) (ef_docs ef)).
Proof.
  intros Hin HN Hcf Hord Hres Hw Hg0 Hs0 Hty Hroot.
  destruct (C17_emitted_fields _ _ _ _ _ _ _ _ _ _ Hin HN Hcf Hord Hres Hw Hg0 Hs0 Hty Hroot)
    as (parent & name & f & items & s & efs & R_mid & scope & Hpar & Hname & Hfile & Hitems & Hfind & Hfields & _ & _ & Hil).
  exists parent, name, f, items, s, efs. repeat (split; [assumption|]).
  split; [eapply interleave_right; eauto|].
  intros stm v nm t Hstm Hf Hnm Hna. pose proof (interleave_left _ _ _ _ _ Hil) as Hl.
  rewrite Forall_forall in Hl. destruct (Hl _ Hstm) as [Hdrop|(ef & Hef & (v' & t' & Hf' & _ & Hv & Hd))].
  - exfalso. destruct Hdrop as [(fs & Hv)|(v' & nm' & t0 & Hf' & Hor)]; [congruence|].
    rewrite Hf in Hf'. inversion Hf'; subst v' nm' t0.
    destruct Hor as [->|(t' & Ht & Harr & _)]; [congruence|].
    rewrite (resolve_not_array _ _ _ _ Hna Ht) in Harr. discriminate.
  - rewrite Hf in Hf'. inversion Hf'; subst. exists ef. auto.
Qed.

Print Assumptions C17_emitted_type.
Print Assumptions C17_emitted_fields.
Print Assumptions C17_emitted_fields_each.
