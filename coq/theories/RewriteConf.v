(** * RewriteConf: the abstract resolution loop for two attempt functions that agree below the ideal.

    ConfluencePerm.v compares two instances of Confluence.v's loop whose attempt functions agree
    everywhere.  The local rewrites of C20 whose side condition is semantic (the natural size, the
    offset a field would have had) give attempt functions that agree only at the states the loop can
    actually visit: the states between the start and the ideal (the limit of the lax loop), and only
    at keys that are still unresolved there.  That is all the proof of order independence uses. *)
From Coq Require Import List Arith Lia Bool Permutation.
From PyxisModel Require Import Confluence ConfluencePerm.
Import ListNotations.

Section ConfRel.
  Variable K V : Type.
  Variable eqb : K -> K -> bool.
  Hypothesis eqb_spec : forall a b, reflect (a = b) (eqb a b).

  Variable att att' : st K V -> K -> res V.
  Hypothesis M1 : forall R R' k v, le K V R R' -> R k = None -> R' k = None ->
    att R k = Done V v -> att R' k = Done V v.
  Hypothesis M2 : forall R R' k, le K V R R' -> R k = None -> R' k = None ->
    att R k = Fail V -> att R' k = Fail V.
  Hypothesis M1' : forall R R' k v, le K V R R' -> R k = None -> R' k = None ->
    att' R k = Done V v -> att' R' k = Done V v.
  Hypothesis M2' : forall R R' k, le K V R R' -> R k = None -> R' k = None ->
    att' R k = Fail V -> att' R' k = Fail V.

  Variable items items' : list K.
  Hypothesis items_iff : forall k, In k items <-> In k items'.

  Variable R0 : st K V.

  (** agreement at the states between the start and an ideal of the first instance, at the keys
      that are unresolved there *)
  Definition agree_below (T : st K V) : Prop :=
    forall R k, le K V R0 R -> le K V R T -> In k items -> R k = None -> att R k = att' R k.

  Hypothesis att_eq : forall T, ideal K V eqb att items R0 T -> agree_below T.

  Lemma steps_transfer_below T : agree_below T ->
    forall R T1, steps K V eqb att items R T1 -> le K V R0 R -> le K V T1 T ->
    steps K V eqb att' items' R T1.
  Proof.
    intros HA. induction 1 as [R | R k v T1 Hin Hk Ha Hs IH]; intros H0 HT; [constructor|].
    apply (steps_step K V eqb att' items' R k v T1); [now apply items_iff | exact Hk | |].
    - rewrite <- (HA R k H0); [exact Ha | | exact Hin | exact Hk].
      eapply le_trans; [|exact HT]. eapply le_trans; [apply (le_upd K V eqb eqb_spec); exact Hk|].
      eapply steps_le; eauto.
    - apply IH; [|exact HT]. eapply le_trans; [exact H0 | apply (le_upd K V eqb eqb_spec); exact Hk].
  Qed.

  Lemma ideal_transfer_below T : ideal K V eqb att items R0 T -> ideal K V eqb att' items' R0 T.
  Proof.
    intros HT. pose proof (att_eq T HT) as HA. destruct HT as [HS HM]. split.
    - apply (steps_transfer_below T HA R0 T HS); apply le_refl.
    - intros k v Hin Hk. apply items_iff in Hin.
      rewrite <- (HA T k); [now apply HM | | apply le_refl | exact Hin | exact Hk].
      eapply steps_le; eauto.
  Qed.

  Theorem order_independent_below (o1 o2 : list K -> list K) :
    (forall l, Permutation (o1 l) l) -> (forall l, Permutation (o2 l) l) ->
    forall fuel fuel', length (unres K V items R0) < fuel -> length (unres K V items' R0) < fuel' ->
    same_outcome2 K V items (loop K V eqb att items o1 true fuel R0) (loop K V eqb att' items' o2 true fuel' R0).
  Proof.
    intros P1 P2 fuel fuel' Hf Hf'.
    destruct (lax_ideal K V eqb eqb_spec att items o1 P1 fuel R0 Hf) as [T [_ [HS HM]]].
    assert (ideal K V eqb att items R0 T) as HT by (split; assumption).
    pose proof (ideal_transfer_below _ HT) as HT'.
    pose proof (att_eq T HT) as HA.
    pose proof (steps_le K V eqb eqb_spec att items _ _ HS) as HL.
    assert (forall k, In k items -> T k = None -> att T k = att' T k) as HAT
        by (intros k Hin Hk; apply HA; [exact HL | apply le_refl | exact Hin | exact Hk]).
    pose proof (strict_char K V eqb eqb_spec att M1 M2 items o1 P1 R0 T HT fuel R0 (le_refl K V _) HL Hf) as C1.
    pose proof (strict_char K V eqb eqb_spec att' M1' M2' items' o2 P2 R0 T HT' fuel' R0 (le_refl K V _) HL Hf') as C2.
    pose proof (unres_nil_transfer K V items items' items_iff T) as HU.
    destruct (loop K V eqb att items o1 true fuel R0) as [A|A| |],
             (loop K V eqb att' items' o2 true fuel' R0) as [B|B| |]; cbn [same_outcome2]; try contradiction; auto.
    - destruct C1 as [G1 _], C2 as [G2 _]. intros k Hk. rewrite G1 by exact Hk. symmetry. apply G2. now apply items_iff.
    - destruct C1 as [_ E], C2 as [_ [N _]]. apply N. now apply HU.
    - destruct C1 as [_ E], C2 as [k [Hin [Hk _]]]. apply items_iff in Hin.
      assert (In k (unres K V items T)) as X by (apply unres_in; tauto). rewrite E in X. destruct X.
    - destruct C1 as [_ [N _]], C2 as [_ E]. apply N. now apply HU.
    - destruct C1 as [G1 _], C2 as [G2 _]. intros k Hk. rewrite G1 by exact Hk. symmetry. apply G2. now apply items_iff.
    - destruct C1 as [_ [_ D]], C2 as [k [Hin [Hk F]]]. apply items_iff in Hin. rewrite <- HAT in F by assumption.
      rewrite D in F; [discriminate | apply unres_in; tauto].
    - destruct C2 as [_ E], C1 as [k [Hin [Hk _]]]. apply items_iff in Hin.
      assert (In k (unres K V items' T)) as X by (apply unres_in; tauto). rewrite E in X. destruct X.
    - destruct C2 as [_ [_ D]], C1 as [k [Hin [Hk F]]]. rewrite HAT in F by assumption. apply items_iff in Hin.
      rewrite D in F; [discriminate | apply unres_in; tauto].
  Qed.
End ConfRel.
