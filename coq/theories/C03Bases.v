(** * C03, the whole [type_build], for a LARGER class than C03Whole.v:
    [#[base]] fields, an impl block for the type, the [defaultable] marker.

    C03Whole.v proves "accepted iff realisable" for descriptions made of plain fields only.  This
    file removes three of its four exclusions; only a [vftable { .. }] block in the type itself
    stays outside (see C03Vft.v for that one).

    CLASS ([class_bases_okb st p d = true]):
      - the registry holds [u8] with size 1 and alignment 1; if the type is marked [defaultable],
        [u8] is a defaultable type (both true of every state made by [sem_new]);
      - the parent module of the owner path exists;
      - every statement is a field (no vftable block) whose type resolves, in the module's scope,
        to a type of known size and alignment, the alignment a power of two that fits usize
        (the [base] marker is ALLOWED, on any field);
      - the running end of every field and the declared size fit usize.
    Nothing is assumed about the impl block, the bases' types, or the [defaultable] marker: what
    the code requires of them is on the right-hand side, as three decidable conditions:

      [bases_okb]   (i) the FIRST field carrying the [base] marker (whatever its name or type) is
                    named (not [_]) and its type is a path to a resolved struct -- not an enum, a
                    pointer, an array;  (ii) every field carrying [base] that is named and is not a
                    zero-sized array has such a type.  ([_] fields other than the first base lose
                    the marker silently; zero-sized arrays are dropped before the check.)
      [impl_okb]    every function of the impl block (if any) converts ([fn_okb]: string [doc]s, no
                    negative [address], no [index], a known calling convention, at least one
                    [address(<int>)], argument and return types resolve), and its name differs from
                    the names already taken: the functions inherited from the first base's vftable,
                    the functions forwarded from the bases, the earlier impl functions.
      [dflt_okb]    if the type is marked [defaultable]: the type of every kept field (not a
                    zero-sized array) is a path, or an array of a path, to a defaultable item.

    MAIN STATEMENTS:
      [type_build_bases_decision]      the verdict as a function ([accept] of C03Core, guarded)
      [C03_bases_type_build_iff]       class -> ((exists st' r, type_build .. = (st', Ok r)) <->
                                          attrs_okb d /\ realisable .. /\ extras_okb st p d = true)
      [C03_bases_type_build_size_align]      accepted => state unchanged, size/align = accept's
      [C03_bases_type_build_rejects_otherwise]   otherwise [(st, Err msg)]: never Defer/Panic
      [class_okb_bases]                C03Whole's class is inside this one, with trivial extras. *)
From Coq Require Import List NArith ZArith Bool Lia String.
From PyxisModel Require Import Base Grammar SemTypes Registry Sem SemLemmas PlacementLemmas
     FunctionLemmas VftableLemmas EmitLemmas WholeBuild WholeBuildMore Examples C03Whole C03Tail.
From PyxisModel Require C03Core C03Refine.
Import ListNotations.
Local Open Scope N_scope.
Module C := C03Core.
Module CR := C03Refine.
Arguments N.add : simpl never. Arguments N.mul : simpl never. Arguments N.sub : simpl never.
Arguments N.modulo : simpl never. Arguments N.div : simpl never. Arguments N.gcd : simpl never.

(** ** 1. Fields of known size, whatever their markers *)
Definition sized_field (R : registry) (scope : list path) (s : gstatement) : bool :=
  match field_type R scope s with
  | Some t => match size_of R t, align_of R t with
              | Some _, Some a => C.is_pow2b a && (a <=? usize_max)
              | _, _ => false
              end
  | None => false
  end.

Lemma field_ok_sized R scope s : field_ok R scope s = sized_field R scope s && negb (field_is_base s).
Proof. reflexivity. Qed.

Lemma sized_field_plain R scope s : sized_field R scope s = true -> plain_field R scope s = true.
Proof. unfold sized_field, plain_field. destruct (field_type R scope s); [reflexivity | discriminate]. Qed.

Lemma sized_field_facts R scope s : sized_field R scope s = true ->
  CR.known R (snd (entry R scope s)) /\ CR.okP (region_sa R (snd (entry R scope s))) /\
  CR.absf R (entry R scope s) = abs_field R scope s.
Proof.
  unfold sized_field, CR.known, CR.okP, CR.absf, abs_field, region_sa, entry. cbn [fst snd r_type r_is_base].
  destruct (field_type R scope s) as [t|]; [|discriminate].
  destruct (size_of R t) as [sz|]; [|discriminate]. destruct (align_of R t) as [al|]; [|discriminate].
  intros H. apply andb_prop in H as [Hp Hl].
  apply C.is_pow2b_spec in Hp. apply N.leb_le in Hl.
  cbn [fst snd]. repeat split; try discriminate; assumption.
Qed.

(** ** 2. Bases: the struct behind a base region *)
Definition struct_def (R : registry) (t : stype) : option type_def :=
  match t with
  | TRaw p => match reg_get R p with
              | Some it => match item_resolved it with
                           | Some rs => match rs_inner rs with IType td => Some td | IEnum _ => None end
                           | None => None
                           end
              | None => None
              end
  | _ => None
  end.
Definition base_def (R : registry) (r : region) : option (string * type_def) :=
  match r_name r, struct_def R (r_type r) with
  | Some name, Some td => Some (name, td)
  | _, _ => None
  end.
Definition base_okb (R : registry) (r : region) : bool :=
  match base_def R r with Some _ => true | None => false end.

Lemma base_def_dec R r : CR.known R r ->
  match base_def R r with
  | Some x => region_name_and_typedef R r = Ok (Some x)
  | None => exists msg, region_name_and_typedef R r = Err msg
  end.
Proof.
  intros [Hs _]. unfold base_def, struct_def, region_name_and_typedef.
  destruct (r_name r) as [name|]; [|eauto].
  destruct (r_type r) as [bp| | | |]; eauto.
  cbn [size_of] in Hs. destruct (reg_get R bp) as [it|]; [|eauto].
  unfold item_size in Hs. destruct (item_resolved it) as [rs|]; [|cbn in Hs; congruence].
  destruct (rs_inner rs); eauto.
Qed.

Lemma known_not_unresolved R fb : (forall b, fb = Some b -> CR.known R b) -> first_base_unresolved R fb = false.
Proof.
  intros H. unfold first_base_unresolved. destruct fb as [b|]; [|reflexivity].
  destruct (H b eq_refl) as [Hs _]. destruct (r_type b) as [bp| | | |]; try reflexivity.
  cbn [size_of] in Hs. destruct (reg_get R bp) as [it|]; [|reflexivity].
  unfold item_size, item_resolved in Hs. unfold item_is_resolved.
  destruct (it_state it); [cbn in Hs; congruence | reflexivity].
Qed.

(** what the type inherits from its first base when it has no vftable block of its own *)
Definition inherited_vt (R : registry) (fb : option region) : option tvftable :=
  match fb with
  | Some b => match base_def R b with
              | Some (name, td) =>
                option_map (fun bvt => {| vt_functions := vt_functions bvt; vt_base_field := Some name;
                                          vt_type := vt_type bvt |}) (td_vftable td)
              | None => None
              end
  | None => None
  end.
Definition first_base_okb (R : registry) (fb : option region) : bool :=
  match fb with Some b => base_okb R b | None => true end.

Lemma vftable_build_none_dec st owner v fb :
  (forall b, fb = Some b -> CR.known (st_reg st) b) ->
  if first_base_okb (st_reg st) fb
  then vftable_build st owner v fb None = Ok (st, inherited_vt (st_reg st) fb, None)
  else exists msg, vftable_build st owner v fb None = Err msg.
Proof.
  intros Hk. unfold first_base_okb, base_okb, inherited_vt, vftable_build, opt_region_name_and_vftable.
  destruct fb as [b|]; [|reflexivity].
  pose proof (base_def_dec _ b (Hk b eq_refl)) as Hd.
  destruct (base_def (st_reg st) b) as [[name td]|].
  - rewrite Hd. cbn [bind]. destruct (td_vftable td); reflexivity.
  - destruct Hd as [msg Hm]. rewrite Hm. cbn [bind]. eauto.
Qed.

Lemma resolve_regions_none st owner v ts pending vt :
  first_base_unresolved (st_reg st) (find r_is_base (map snd pending)) = false ->
  vftable_build st owner v (find r_is_base (map snd pending)) None = Ok (st, vt, None) ->
  resolve_regions st owner v ts pending None =
  do y <- resolve_tail (st_reg st) ts pending ([], 0); Ok (st, fst y, vt, snd y).
Proof. intros Hu Hv. rewrite resolve_regions_unfold, Hu, Hv. reflexivity. Qed.

Lemma resolve_regions_none_err st owner v ts pending msg :
  first_base_unresolved (st_reg st) (find r_is_base (map snd pending)) = false ->
  vftable_build st owner v (find r_is_base (map snd pending)) None = Err msg ->
  resolve_regions st owner v ts pending None = Err msg.
Proof. intros Hu Hv. rewrite resolve_regions_unfold, Hu, Hv. reflexivity. Qed.

(** the forwarding functions of the bases, without the error cases *)
Fixpoint inject_pure (R : registry) (bases : list region) (i : nat)
         (acc : list sfunction * list string) : list sfunction * list string :=
  match bases with
  | [] => acc
  | b :: rest =>
    match base_def R b with
    | None => inject_pure R rest (S i) acc
    | Some (base_name, td) =>
      let acc1 := add_functions base_name (td_assoc td) acc in
      let acc2 := match i, td_vftable td with
                  | S _, Some vt => add_functions base_name (vt_functions vt) acc1
                  | _, _ => acc1
                  end in
      inject_pure R rest (S i) acc2
    end
  end.

Lemma inject_bases_dec R : forall bases i acc, Forall (CR.known R) bases ->
  if forallb (base_okb R) bases
  then inject_bases R bases i acc = Ok (inject_pure R bases i acc)
  else exists msg, inject_bases R bases i acc = Err msg.
Proof.
  induction bases as [|b bases IH]; intros i acc Hk; cbn [forallb inject_bases inject_pure]; [reflexivity|].
  inversion Hk as [|? ? Hb Hrest]; subst. pose proof (base_def_dec R b Hb) as Hd. unfold base_okb at 1.
  destruct (base_def R b) as [[name td]|]; cbn [andb].
  - rewrite Hd. cbn [bind]. apply IH. exact Hrest.
  - destruct Hd as [msg Hm]. rewrite Hm. cbn [bind]. eauto.
Qed.

(** ** 3. Functions of the impl block: when does [function_build] succeed *)
Definition fn_attr_ok (is_vfunc : bool) (a : gattr) : bool :=
  match a with
  | AFn name args =>
    if String.eqb name "address" then
      match args with [EInt v] => negb is_vfunc && (0 <=? v)%Z | _ => true end
    else if String.eqb name "index" then is_vfunc
    else if String.eqb name "calling_convention" then
      match args with
      | [EStr c] => match cc_of_string c with Some _ => true | None => false end
      | _ => true
      end
    else true
  | _ => true
  end.
Definition is_addr_attr (a : gattr) : bool := match addr_attr a with Some _ => true | None => false end.
Definition has_address (attrs : list gattr) : bool := existsb is_addr_attr attrs.
Definition arg_okb (R : registry) (scope : list path) (a : garg) : bool :=
  match a with
  | GNamed _ t => match resolve_gtype R scope t with Some _ => true | None => false end
  | _ => true
  end.
Definition ret_okb (R : registry) (scope : list path) (o : option gtype) : bool :=
  match o with
  | Some t => match resolve_gtype R scope t with Some _ => true | None => false end
  | None => true
  end.
Definition fn_okb (R : registry) (scope : list path) (is_vfunc : bool) (f : gfunction) : bool :=
  docs_ok (gf_attrs f) && forallb (fn_attr_ok is_vfunc) (gf_attrs f) &&
  (is_vfunc || has_address (gf_attrs f)) &&
  forallb (arg_okb R scope) (gf_args f) && ret_okb R scope (gf_ret f).

Lemma scan_fn_attr_dec is_vfunc b c a :
  if fn_attr_ok is_vfunc a
  then exists b' c', scan_fn_attr is_vfunc (b, c) a = Ok (b', c') /\
                     (b' = None <-> b = None /\ is_addr_attr a = false)
  else exists msg, scan_fn_attr is_vfunc (b, c) a = Err msg.
Proof.
  unfold fn_attr_ok, scan_fn_attr, is_addr_attr, addr_attr. cbn [fst snd].
  destruct a as [n|n args|k e]; try (exists b, c; split; [reflexivity | tauto]).
  destruct (String.eqb n "address") eqn:Ea.
  { destruct args as [|[v|?|?] [|? ?]]; try (exists b, c; split; [reflexivity | tauto]).
    destruct is_vfunc; cbn [negb andb]; [eauto|].
    destruct (0 <=? v)%Z eqn:Ev.
    - rewrite (z_to_usize_ok _ Ev). eexists _, _. split; [reflexivity|]. split; [discriminate | intros [_ ?]; discriminate].
    - rewrite (z_to_usize_neg _ Ev). eauto. }
  assert (match args with [EInt v] => None | _ => None end = @None Z) as HN
      by (destruct args as [|[?|?|?] [|? ?]]; reflexivity).
  destruct (String.eqb n "index") eqn:Ei.
  { destruct is_vfunc; [|eauto]. exists b, c. split; [reflexivity|].
    destruct args as [|[?|?|?] [|? ?]]; tauto. }
  destruct (String.eqb n "calling_convention") eqn:Ec.
  { destruct args as [|[?|s|?] [|? ?]]; try (exists b, c; split; [reflexivity | tauto]).
    destruct (cc_of_string s); [|eauto]. eexists _, _. split; [reflexivity | tauto]. }
  exists b, c. split; [reflexivity|]. destruct args as [|[?|?|?] [|? ?]]; tauto.
Qed.

Lemma scan_fn_attrs_dec is_vfunc : forall attrs b c,
  if forallb (fn_attr_ok is_vfunc) attrs
  then exists b' c', foldM (scan_fn_attr is_vfunc) attrs (b, c) = Ok (b', c') /\
                     (b' = None <-> b = None /\ has_address attrs = false)
  else exists msg, foldM (scan_fn_attr is_vfunc) attrs (b, c) = Err msg.
Proof.
  induction attrs as [|a attrs IH]; intros b c; cbn [forallb foldM].
  - exists b, c. split; [reflexivity|]. unfold has_address. cbn. tauto.
  - pose proof (scan_fn_attr_dec is_vfunc b c a) as Hs.
    destruct (fn_attr_ok is_vfunc a); cbn [andb].
    + destruct Hs as (b1 & c1 & H1 & Hb1). rewrite H1. cbn [bind].
      specialize (IH b1 c1). destruct (forallb _ attrs); [|exact IH].
      destruct IH as (b' & c' & H2 & Hb'). exists b', c'. split; [exact H2|].
      unfold has_address in *. cbn [existsb]. rewrite orb_false_iff. tauto.
    + destruct Hs as [msg Hm]. rewrite Hm. cbn [bind]. eauto.
Qed.

Lemma resolve_args_dec R scope : forall args,
  if forallb (arg_okb R scope) args
  then exists l, mapM (resolve_arg R scope) args = Ok l
  else exists msg, mapM (resolve_arg R scope) args = Err msg.
Proof.
  induction args as [|a args IH]; cbn [forallb mapM]; [eauto|].
  assert (if arg_okb R scope a then exists x, resolve_arg R scope a = Ok x
          else exists msg, resolve_arg R scope a = Err msg) as Ha.
  { unfold arg_okb, resolve_arg. destruct a as [| |n t]; eauto. destruct (resolve_gtype R scope t); eauto. }
  destruct (arg_okb R scope a); cbn [andb].
  - destruct Ha as [x Hx]. rewrite Hx. cbn [bind]. destruct (forallb _ args).
    + destruct IH as [l Hl]. rewrite Hl. cbn [bind]. eauto.
    + destruct IH as [msg Hm]. rewrite Hm. cbn [bind]. eauto.
  - destruct Ha as [msg Hm]. rewrite Hm. cbn [bind]. eauto.
Qed.

Theorem function_build_dec R scope is_vfunc f :
  if fn_okb R scope is_vfunc f
  then exists sf, function_build R scope is_vfunc f = Ok sf /\ sf_name sf = gf_name f
  else exists msg, function_build R scope is_vfunc f = Err msg.
Proof.
  unfold fn_okb, function_build.
  pose proof (attrs_doc_dec (gf_attrs f)) as Hd.
  destruct (docs_ok (gf_attrs f)); cbn [andb].
  2:{ destruct Hd as [msg Hm]. rewrite Hm. cbn [bind]. eauto. }
  destruct Hd as [doc Hd]. rewrite Hd. cbn [bind].
  pose proof (scan_fn_attrs_dec is_vfunc (gf_attrs f)
                (if is_vfunc then Some (BVftable (gf_name f)) else None) None) as Hs.
  destruct (forallb (fn_attr_ok is_vfunc) (gf_attrs f)); cbn [andb].
  2:{ destruct Hs as [msg Hm]. rewrite Hm. cbn [bind]. eauto. }
  destruct Hs as (b' & c' & Hs & Hb). rewrite Hs. cbn [bind fst snd].
  destruct (is_vfunc || has_address (gf_attrs f)) eqn:Eb; cbn [andb].
  2:{ apply orb_false_iff in Eb as [-> Eh]. destruct b' as [body|]; [|eauto].
      exfalso. assert (Some body = None) by (apply Hb; auto). discriminate. }
  destruct b' as [body|].
  2:{ exfalso. destruct (proj1 Hb eq_refl) as [Hn Hh]. destruct is_vfunc; [discriminate|].
      cbn [orb] in Eb. congruence. }
  pose proof (resolve_args_dec R scope (gf_args f)) as Ha.
  destruct (forallb (arg_okb R scope) (gf_args f)); cbn [andb].
  2:{ destruct Ha as [msg Hm]. rewrite Hm. cbn [bind]. eauto. }
  destruct Ha as [args Ha]. rewrite Ha. cbn [bind].
  unfold ret_okb. destruct (gf_ret f) as [t|].
  - destruct (resolve_gtype R scope t); cbn [bind]; eauto.
  - cbn [bind]. eauto.
Qed.

(** the impl block: names must be fresh *)
Fixpoint impl_fns_okb (R : registry) (scope : list path) (used : list string) (fns : list gfunction) : bool :=
  match fns with
  | [] => true
  | f :: rest => negb (str_mem (gf_name f) used) && fn_okb R scope false f &&
                 impl_fns_okb R scope (gf_name f :: used) rest
  end.

Lemma impl_fns_dec R scope : forall fns acc,
  if impl_fns_okb R scope (snd acc) fns
  then exists acc', foldM (add_impl_function R scope) fns acc = Ok acc'
  else exists msg, foldM (add_impl_function R scope) fns acc = Err msg.
Proof.
  induction fns as [|f fns IH]; intros acc; cbn [impl_fns_okb foldM]; [eauto|].
  unfold add_impl_function at 1 3.
  destruct (str_mem (gf_name f) (snd acc)); cbn [negb andb bind]; [eauto|].
  pose proof (function_build_dec R scope false f) as Hf.
  destruct (fn_okb R scope false f); cbn [andb].
  - destruct Hf as (sf & Hsf & Hn). rewrite Hsf. cbn [bind].
    specialize (IH (fst acc ++ [sf], sf_name sf :: snd acc)%list). cbn [snd] in IH. rewrite Hn in IH. rewrite Hn.
    exact IH.
  - destruct Hf as [msg Hm]. rewrite Hm. cbn [bind]. eauto.
Qed.

(** ** 4. The [defaultable] check *)
Definition type_defaultable (R : registry) (t : stype) : bool :=
  match defaultable_path t with
  | None => false
  | Some p => match reg_get R p with
              | None => false
              | Some it => match item_resolved it with
                           | None => true
                           | Some rs => inner_defaultable (rs_inner rs)
                           end
              end
  end.
Definition u8_dflt (R : registry) : bool := type_defaultable R (TRaw ["u8"%string]).

Lemma check_defaultable_dec R r :
  if type_defaultable R (r_type r) then check_defaultable R r = Ok tt
  else exists msg, check_defaultable R r = Err msg.
Proof.
  unfold type_defaultable, check_defaultable. destruct (defaultable_path (r_type r)) as [p|]; [|eauto].
  destruct (reg_get R p) as [it|]; [|eauto]. destruct (item_resolved it) as [rs|]; [|reflexivity].
  destruct (inner_defaultable (rs_inner rs)); eauto.
Qed.

Lemma check_all_defaultable_dec R : forall regions,
  if forallb (type_defaultable R) (map r_type regions)
  then foldM (fun _ r => check_defaultable R r) regions tt = Ok tt
  else exists msg, foldM (fun _ r => check_defaultable R r) regions tt = Err msg.
Proof.
  induction regions as [|r regions IH]; cbn [map forallb foldM]; [reflexivity|].
  pose proof (check_defaultable_dec R r) as Hc.
  destruct (type_defaultable R (r_type r)); cbn [andb].
  - rewrite Hc. cbn [bind]. exact IH.
  - destruct Hc as [msg Hm]. rewrite Hm. cbn [bind]. eauto.
Qed.

Lemma padding_defaultable R n : type_defaultable R (padding_type n) = u8_dflt R.
Proof. reflexivity. Qed.

(** ** 5. The conditions on the description *)
Definition pending_of (R : registry) (scope : list path) (d : gtypedef) : list (option N * region) :=
  map (entry R scope) (gt_stmts d).
Definition first_base (R : registry) (scope : list path) (d : gtypedef) : option region :=
  find r_is_base (map snd (pending_of R scope d)).
(** the base regions of the resolved type: marked, named, kept *)
Definition base_regions (R : registry) (scope : list path) (d : gtypedef) : list region :=
  filter (kept_base R) (map snd (pending_of R scope d)).

Definition bases_okb (R : registry) (scope : list path) (d : gtypedef) : bool :=
  first_base_okb R (first_base R scope d) && forallb (base_okb R) (base_regions R scope d).

Definition vt_names (vt : option tvftable) : list string :=
  match vt with Some v' => map sf_name (vt_functions v') | None => [] end.
(** the function names taken before the impl block is read *)
Definition inherited_names (R : registry) (scope : list path) (d : gtypedef) : list string :=
  snd (inject_pure R (base_regions R scope d) O ([], vt_names (inherited_vt R (first_base R scope d)))).

Definition impl_okb (R : registry) (scope : list path) (impl : option gfnblock) (d : gtypedef) : bool :=
  match impl with
  | Some blk => impl_fns_okb R scope (inherited_names R scope d) (gb_fns blk)
  | None => true
  end.

Definition kept_defaultable (R : registry) (r : region) : bool :=
  ignored R r || type_defaultable R (r_type r).
Definition dflt_okb (R : registry) (scope : list path) (d : gtypedef) : bool :=
  negb (is_defaultable d) || forallb (kept_defaultable R) (map snd (pending_of R scope d)).

Definition extras_of (R : registry) (scope : list path) (impl : option gfnblock) (d : gtypedef) : bool :=
  bases_okb R scope d && impl_okb R scope impl d && dflt_okb R scope d.

Definition body_bases_okb (R : registry) (scope : list path) (d : gtypedef) : bool :=
  forallb (sized_field R scope) (gt_stmts d) &&
  fields_fit 0 (map (abs_field R scope) (gt_stmts d)) &&
  size_fits (declared_size d) &&
  (negb (is_defaultable d) || u8_dflt R).

Definition class_bases_okb (st : sstate) (p : path) (d : gtypedef) : bool :=
  u8_ok (st_reg st) &&
  match owner_module st p with
  | Some m => body_bases_okb (st_reg st) (module_scope m) d
  | None => false
  end.

Definition extras_okb (st : sstate) (p : path) (d : gtypedef) : bool :=
  match owner_module st p with
  | Some m => extras_of (st_reg st) (module_scope m) (alookup p (m_impls m)) d
  | None => false
  end.

(** ** 6. [type_build] after the regions are resolved *)
Definition post_of (R : registry) (scope : list path) (impl : option gfnblock)
           (doc : option string) (ta : type_attrs) (regions : list region) (vt : option tvftable) (size : N)
  : outcome resolved :=
  do acc1 <- inject_bases R (filter r_is_base regions) O ([], vt_names vt);
  do acc2 <- match impl with
             | Some blk => foldM (add_impl_function R scope) (gb_fns blk) acc1
             | None => Ok acc1
             end;
  do_ (if ta_defaultable ta
       then foldM (fun _ r => check_defaultable R r) regions tt
       else Ok tt);
  do alignment <- compute_alignment R ta regions size;
  Ok {| rs_size := size; rs_align := alignment;
        rs_inner := IType {| td_regions := regions; td_doc := doc; td_assoc := fst acc2;
                             td_vftable := vt; td_singleton := ta_singleton ta;
                             td_copyable := ta_copyable ta; td_cloneable := ta_cloneable ta;
                             td_defaultable := ta_defaultable ta; td_packed := ta_packed ta |} |}.

Lemma type_build_eval_post st p v d parent m doc ta n pending vfs st' regions vt size :
  path_parent p = Some parent -> alookup parent (st_modules st) = Some m ->
  attrs_doc (gt_attrs d) = Ok doc -> foldM scan_type_attr (gt_attrs d) ta_init = Ok ta ->
  foldM (process_statement (st_reg st) (module_scope m)) (gt_stmts d) (O, ([], None)) = Ok (n, (pending, vfs)) ->
  resolve_regions st p v (ta_size ta) pending vfs = Ok (st', regions, vt, size) ->
  type_build st p v d =
  (st', post_of (st_reg st') (module_scope m) (alookup p (m_impls m)) doc ta regions vt size).
Proof.
  intros Hpar Hmod H1 H2 H3 H4. unfold type_build. rewrite Hpar, Hmod. cbv zeta.
  rewrite H1, H2. cbn [bind]. rewrite H3. cbn [bind snd]. rewrite H4. reflexivity.
Qed.

(** the verdict of the post-processing, given the verdict of [compute_alignment] *)
Lemma post_dec R scope impl doc ta regions vt size :
  Forall (CR.known R) (filter r_is_base regions) ->
  let used := snd (inject_pure R (filter r_is_base regions) O ([], vt_names vt)) in
  let ok := forallb (base_okb R) (filter r_is_base regions) &&
            match impl with Some blk => impl_fns_okb R scope used (gb_fns blk) | None => true end &&
            (negb (ta_defaultable ta) || forallb (type_defaultable R) (map r_type regions)) in
  match compute_alignment R ta regions size with
  | Ok a => if ok then exists r, post_of R scope impl doc ta regions vt size = Ok r /\
                                  rs_size r = size /\ rs_align r = a
            else exists msg, post_of R scope impl doc ta regions vt size = Err msg
  | Err _ => exists msg, post_of R scope impl doc ta regions vt size = Err msg
  | _ => True
  end.
Proof.
  intros Hk used ok. unfold post_of.
  pose proof (inject_bases_dec R (filter r_is_base regions) O ([], vt_names vt) Hk) as Hi.
  subst ok. destruct (forallb (base_okb R) (filter r_is_base regions)); cbn [andb].
  2:{ destruct Hi as [msg Hm]. rewrite Hm. cbn [bind]. destruct (compute_alignment R ta regions size); eauto. }
  rewrite Hi. cbn [bind]. fold used.
  set (acc1 := inject_pure R (filter r_is_base regions) O ([], vt_names vt)) in *.
  assert (if match impl with Some blk => impl_fns_okb R scope used (gb_fns blk) | None => true end
          then exists acc2, match impl with
                            | Some blk => foldM (add_impl_function R scope) (gb_fns blk) acc1
                            | None => Ok acc1 end = Ok acc2
          else exists msg, match impl with
                           | Some blk => foldM (add_impl_function R scope) (gb_fns blk) acc1
                           | None => Ok acc1 end = Err msg) as Hm.
  { destruct impl as [blk|]; [|eauto]. apply (impl_fns_dec R scope (gb_fns blk) acc1). }
  destruct (match impl with Some blk => impl_fns_okb R scope used (gb_fns blk) | None => true end); cbn [andb].
  2:{ destruct Hm as [msg Hm]. rewrite Hm. cbn [bind]. destruct (compute_alignment R ta regions size); eauto. }
  destruct Hm as [acc2 Hm]. rewrite Hm. cbn [bind].
  pose proof (check_all_defaultable_dec R regions) as Hd.
  destruct (ta_defaultable ta); cbn [negb orb].
  - destruct (forallb (type_defaultable R) (map r_type regions)).
    + rewrite Hd. cbn [bind]. destruct (compute_alignment R ta regions size); cbn [bind]; eauto.
    + destruct Hd as [msg Hd]. rewrite Hd. cbn [bind]. destruct (compute_alignment R ta regions size); eauto.
  - cbn [bind]. destruct (compute_alignment R ta regions size); cbn [bind]; eauto.
Qed.

(** ** 7. The decision of the whole [type_build] *)
Lemma find_map_snd_entry R scope stmts :
  map snd (map (entry R scope) stmts) = map (fun s => snd (entry R scope s)) stmts.
Proof. apply map_map. Qed.

Section WholeBases.
  Variables (st : sstate) (p : path) (v : vis) (d : gtypedef) (parent : path) (m : smodule).
  Let R := st_reg st.
  Let scope := module_scope m.
  Hypothesis Hu8 : reg_u8 R.
  Hypothesis Hu8a : align_of R (TRaw ["u8"%string]) = Some 1.
  Hypothesis Hpar : path_parent p = Some parent.
  Hypothesis Hmod : alookup parent (st_modules st) = Some m.
  Hypothesis Hbody : body_bases_okb R scope d = true.

  Let fs := map (abs_field R scope) (gt_stmts d).
  Let impl := alookup p (m_impls m).

  Theorem type_build_bases_decision :
    match (if attrs_okb d && extras_of R scope impl d
           then C.accept (reg_ptr R) fs (declared_size d) (declared_align d) (is_packed d)
           else None) with
    | Some (total, a) =>
      exists r, type_build st p v d = (st, Ok r) /\ rs_size r = total /\ rs_align r = a
    | None => exists msg, type_build st p v d = (st, Err msg)
    end.
  Proof.
    unfold body_bases_okb in Hbody. apply andb_prop in Hbody as [Hb Hu8d]. apply andb_prop in Hb as [Hb Hsf].
    apply andb_prop in Hb as [Hfo Hff].
    unfold attrs_okb.
    (* documentation of the type *)
    pose proof (attrs_doc_dec (gt_attrs d)) as Hdoc.
    destruct (docs_ok (gt_attrs d)); cbn [andb].
    2:{ destruct Hdoc as [msg Hm]. exists msg. eapply type_build_doc_err; eauto. }
    destruct Hdoc as [doc Hdoc].
    (* attributes of the type *)
    pose proof (scan_type_attrs_spec (gt_attrs d) ta_init) as Hta.
    destruct (type_attrs_ok (gt_attrs d)); cbn [andb].
    2:{ destruct Hta as [msg Hm]. exists msg. eapply type_build_attr_err; eauto. }
    destruct Hta as (ta & Hta & Hsz & Hal). cbn [ta_init ta_size ta_align] in Hsz, Hal.
    destruct (scan_type_attrs_flags _ _ _ Hta) as (_ & _ & Hdef & Hpk).
    cbn [ta_init ta_defaultable ta_packed orb] in Hdef, Hpk.
    assert (ta_size ta = declared_size d) as Esz
        by (unfold declared_size, nat_attr; rewrite Hsz; destruct (last_int "size" (gt_attrs d)); reflexivity).
    assert (ta_align ta = declared_align d) as Eal
        by (unfold declared_align, nat_attr; rewrite Hal; destruct (last_int "align" (gt_attrs d)); reflexivity).
    assert (ta_packed ta = is_packed d) as Epk by exact Hpk.
    assert (ta_defaultable ta = is_defaultable d) as Edf by exact Hdef.
    (* statements *)
    assert (forallb (plain_field R scope) (gt_stmts d) = true) as Hpl.
    { apply forallb_forall. intros s Hs. rewrite forallb_forall in Hfo. apply sized_field_plain, Hfo, Hs. }
    pose proof (process_statements_spec R scope (gt_stmts d) O [] None Hpl) as Hst.
    destruct (forallb stmt_attrs_ok (gt_stmts d)); cbn [andb].
    2:{ destruct Hst as [msg Hm]. exists msg. eapply type_build_stmt_err; eauto. }
    cbn [app] in Hst. fold (pending_of R scope d) in Hst. set (pending := pending_of R scope d) in *.
    (* hypotheses of the refinement *)
    rewrite forallb_forall in Hfo.
    assert (Forall (fun q => CR.known R (snd q)) pending) as Hk.
    { apply Forall_map, Forall_forall. intros s Hs. apply (sized_field_facts R scope s (Hfo s Hs)). }
    assert (Forall (fun q => CR.okP (region_sa R (snd q))) pending) as Hok.
    { apply Forall_map, Forall_forall. intros s Hs. apply (sized_field_facts R scope s (Hfo s Hs)). }
    assert (map (CR.absf R) pending = fs) as Habs.
    { unfold pending, pending_of, fs. rewrite map_map. apply map_ext_in. intros s Hs.
      apply (sized_field_facts R scope s (Hfo s Hs)). }
    assert (CR.all_fit R 0 pending) as Hfit by (apply fields_fit_all_fit; rewrite Habs; exact Hff).
    assert (forall t, ta_size ta = Some t -> t <= usize_max) as Hts.
    { intros t Ht. rewrite Esz in Ht. unfold size_fits in Hsf. rewrite Ht in Hsf. apply N.leb_le. exact Hsf. }
    assert (Forall (CR.known R) (map snd pending)) as Hkr by (apply Forall_map; exact Hk).
    (* the first base *)
    set (fb := find r_is_base (map snd pending)).
    assert (forall b, fb = Some b -> CR.known R b) as Hfbk.
    { intros b Hb. apply find_some in Hb as [Hin _]. rewrite Forall_forall in Hkr. auto. }
    pose proof (known_not_unresolved R fb Hfbk) as Hfbu.
    pose proof (vftable_build_none_dec st p v fb Hfbk) as Hvb. fold R in Hvb.
    unfold extras_of, bases_okb. fold pending. unfold first_base. fold pending fb.
    destruct (first_base_okb R fb); cbn [andb].
    2:{ destruct Hvb as [msg Hm]. exists msg.
        eapply type_build_regions_err; eauto. apply resolve_regions_none_err; assumption. }
    set (vt := inherited_vt R fb) in *.
    pose proof (resolve_regions_none st p v (ta_size ta) pending vt Hfbu Hvb) as Hrr. fold R in Hrr.
    (* the layout *)
    pose proof (tail_refines R Hu8 Hu8a ta pending [] 0 (Forall_nil _) (Forall_nil _) eq_refl Hk Hok Hfit Hts) as Hdec.
    change (CR.absr R []) with (@nil C.region) in Hdec. rewrite <- accept_from_nil in Hdec.
    rewrite Habs, Esz, Eal, Epk in Hdec. rewrite Esz in Hrr.
    (* what happens once the regions are there *)
    assert (Hpost : forall regions total,
      resolve_tail R (declared_size d) pending ([], 0) = Ok (regions, total) ->
      type_build st p v d = (st, post_of R scope impl doc ta regions vt total) /\
      filter r_is_base regions = base_regions R scope d /\
      (u8_dflt R = true ->
       forallb (type_defaultable R) (map r_type regions) = forallb (kept_defaultable R) (map snd pending))).
    { intros regions total Htail. rewrite Htail in Hrr. cbn [bind fst snd] in Hrr.
      split; [|split].
      - rewrite <- Esz in Hrr. exact (type_build_eval_post st p v d parent m doc ta _ pending None st regions vt total Hpar Hmod Hdoc Hta Hst Hrr).
      - exact (resolve_regions_bases _ _ _ _ _ _ _ _ _ _ Hrr).
      - intros Hu8df. destruct (resolve_tail_types R _ _ _ _ _ _ Htail) as (T1 & _ & T3).
        apply eq_true_iff_eq. rewrite !forallb_forall. split.
        + intros H r Hr. unfold kept_defaultable. destruct (ignored R r) eqn:Ei; [reflexivity|]. cbn [orb].
          apply in_map_iff in Hr as (q & <- & Hq). apply H. apply T3; assumption.
        + intros H t Ht. destruct (T1 t Ht) as [[]|[[n ->]|(q & Hq & -> & Hi)]].
          * rewrite padding_defaultable. exact Hu8df.
          * specialize (H (snd q) (in_map snd _ _ Hq)). unfold kept_defaultable in H. rewrite Hi in H. exact H. }
    assert (Hverdict : forall regions total,
      resolve_tail R (declared_size d) pending ([], 0) = Ok (regions, total) ->
      match compute_alignment R ta regions total with
      | Ok a => if forallb (base_okb R) (base_regions R scope d) && impl_okb R scope impl d && dflt_okb R scope d
                then exists r, type_build st p v d = (st, Ok r) /\ rs_size r = total /\ rs_align r = a
                else exists msg, type_build st p v d = (st, Err msg)
      | Err _ => exists msg, type_build st p v d = (st, Err msg)
      | _ => True
      end).
    { intros regions total Htail. destruct (Hpost regions total Htail) as (Htb & Hbases & Hdf).
      assert (Forall (CR.known R) (filter r_is_base regions)) as Hkb.
      { rewrite Hbases. unfold base_regions. fold pending. apply Forall_forall. intros r Hr.
        apply filter_In in Hr as [Hr _]. rewrite Forall_forall in Hkr. auto. }
      pose proof (post_dec R scope impl doc ta regions vt total Hkb) as Hp. cbv zeta in Hp.
      rewrite Hbases in Hp. rewrite Htb.
      assert ((negb (ta_defaultable ta) || forallb (type_defaultable R) (map r_type regions)) = dflt_okb R scope d) as Edflt.
      { unfold dflt_okb. fold pending. rewrite Edf. destruct (is_defaultable d); [|reflexivity]. cbn [negb orb] in *.
        apply Hdf. exact Hu8d. }
      rewrite Edflt in Hp.
      unfold impl_okb, inherited_names. fold pending. unfold first_base. fold pending fb vt.
      destruct (compute_alignment R ta regions total) as [a| |msg|]; auto.
      - destruct (_ && _ && _).
        + destruct Hp as (r & -> & H1 & H2). eauto.
        + destruct Hp as [msg ->]. eauto.
      - destruct Hp as [msg' ->]. eauto. }
    destruct (C.accept (reg_ptr R) fs (declared_size d) (declared_align d) (is_packed d)) as [[total a]|].
    - destruct Hdec as (regions & Htail & Hca). specialize (Hverdict regions total Htail). rewrite Hca in Hverdict.
      destruct (_ && _ && _); exact Hverdict.
    - assert (exists msg, type_build st p v d = (st, Err msg)) as Herr.
      { destruct Hdec as [[msg Htail]|(regions & total & msg & Htail & Hca)].
        + exists msg. eapply type_build_regions_err; eauto. rewrite Esz, Hrr, Htail. reflexivity.
        + specialize (Hverdict regions total Htail). rewrite Hca in Hverdict. exact Hverdict. }
      destruct (_ && _ && _); exact Herr.
  Qed.

  Lemma fs_bases_wf : C.wf_fields fs.
  Proof.
    unfold body_bases_okb in Hbody. apply andb_prop in Hbody as [Hb _]. apply andb_prop in Hb as [Hb _].
    apply andb_prop in Hb as [Hfo _].
    unfold C.wf_fields. apply Forall_map, Forall_forall. intros s Hs.
    rewrite forallb_forall in Hfo. destruct (sized_field_facts R scope s (Hfo s Hs)) as (_ & [Hp _] & Habs).
    rewrite <- Habs. exact Hp.
  Qed.

  Theorem type_build_bases_ok_inv st' r :
    type_build st p v d = (st', Ok r) ->
    st' = st /\ attrs_okb d = true /\ extras_of R scope impl d = true /\
    C.accept (reg_ptr R) fs (declared_size d) (declared_align d) (is_packed d) = Some (rs_size r, rs_align r).
  Proof.
    intros H. pose proof type_build_bases_decision as Hd.
    destruct (attrs_okb d && extras_of R scope impl d) eqn:E.
    - apply andb_prop in E as [E1 E2].
      destruct (C.accept (reg_ptr R) fs (declared_size d) (declared_align d) (is_packed d)) as [[total a]|].
      + destruct Hd as (r' & Hr' & <- & <-). rewrite H in Hr'. inversion Hr'; subst. auto.
      + destruct Hd as [msg Hm]. rewrite H in Hm. inversion Hm.
    - destruct Hd as [msg Hm]. rewrite H in Hm. inversion Hm.
  Qed.

  Theorem type_build_bases_accepts_iff :
    (exists st' r, type_build st p v d = (st', Ok r)) <->
    attrs_okb d = true /\
    C.realisable (reg_ptr R) fs (declared_size d) (declared_align d) (is_packed d) /\
    extras_of R scope impl d = true.
  Proof.
    rewrite <- (C.accept_iff_realisable _ _ _ _ _ fs_bases_wf). split.
    - intros (st' & r & H). destruct (type_build_bases_ok_inv _ _ H) as (_ & Ha & He & Hacc). eauto.
    - intros (Ha & [[total a] Hacc] & He).
      pose proof type_build_bases_decision as Hd. rewrite Ha, He, Hacc in Hd. cbn [andb] in Hd.
      destruct Hd as (r & Hr & _). eauto.
  Qed.

  Theorem type_build_bases_rejects_otherwise :
    ~ (attrs_okb d = true /\
       C.realisable (reg_ptr R) fs (declared_size d) (declared_align d) (is_packed d) /\
       extras_of R scope impl d = true) ->
    exists msg, type_build st p v d = (st, Err msg).
  Proof.
    intros Hn. pose proof type_build_bases_decision as Hd.
    destruct (attrs_okb d && extras_of R scope impl d) eqn:E; [|exact Hd].
    destruct (C.accept (reg_ptr R) fs (declared_size d) (declared_align d) (is_packed d)) as [[total a]|] eqn:Ea; [|exact Hd].
    exfalso. apply Hn. apply andb_prop in E as [E1 E2]. split; [exact E1|]. split; [|exact E2].
    apply (C.accept_iff_realisable _ _ _ _ _ fs_bases_wf). eauto.
  Qed.
End WholeBases.

(** ** 8. The packaged statements: one boolean premise on the state and the syntax *)
Lemma class_bases_okb_sound st p d : class_bases_okb st p d = true ->
  exists parent m, owner_module st p = Some m /\
    reg_u8 (st_reg st) /\ align_of (st_reg st) (TRaw ["u8"%string]) = Some 1 /\
    path_parent p = Some parent /\ alookup parent (st_modules st) = Some m /\
    body_bases_okb (st_reg st) (module_scope m) d = true.
Proof.
  unfold class_bases_okb, owner_module. intros H. apply andb_prop in H as [Hu H].
  destruct (u8_ok_sound _ Hu) as [Hu8 Hu8a].
  destruct (path_parent p) as [parent|]; [|discriminate].
  destruct (alookup parent (st_modules st)) as [m|] eqn:Em; [|discriminate].
  exists parent, m. repeat split; assumption.
Qed.

Theorem C03_bases_type_build_iff st p v d :
  class_bases_okb st p d = true ->
  ((exists st' r, type_build st p v d = (st', Ok r)) <->
   attrs_okb d = true /\
   C.realisable (reg_ptr (st_reg st)) (fields_of st p d) (declared_size d) (declared_align d) (is_packed d) /\
   extras_okb st p d = true).
Proof.
  intros H. destruct (class_bases_okb_sound _ _ _ H) as (parent & m & Hom & Hu8 & Hu8a & Hpar & Hmod & Hbody).
  unfold fields_of, extras_okb. rewrite Hom. eapply type_build_bases_accepts_iff; eauto.
Qed.

Theorem C03_bases_type_build_size_align st p v d st' r :
  class_bases_okb st p d = true -> type_build st p v d = (st', Ok r) ->
  st' = st /\
  C.accept (reg_ptr (st_reg st)) (fields_of st p d) (declared_size d) (declared_align d) (is_packed d)
  = Some (rs_size r, rs_align r).
Proof.
  intros H Hb. destruct (class_bases_okb_sound _ _ _ H) as (parent & m & Hom & Hu8 & Hu8a & Hpar & Hmod & Hbody).
  unfold fields_of. rewrite Hom.
  destruct (type_build_bases_ok_inv st p v d parent m Hu8 Hu8a Hpar Hmod Hbody _ _ Hb) as (E & _ & _ & Hacc). auto.
Qed.

Theorem C03_bases_type_build_rejects_otherwise st p v d :
  class_bases_okb st p d = true ->
  ~ (attrs_okb d = true /\
     C.realisable (reg_ptr (st_reg st)) (fields_of st p d) (declared_size d) (declared_align d) (is_packed d) /\
     extras_okb st p d = true) ->
  exists msg, type_build st p v d = (st, Err msg).
Proof.
  intros H Hn. destruct (class_bases_okb_sound _ _ _ H) as (parent & m & Hom & Hu8 & Hu8a & Hpar & Hmod & Hbody).
  unfold fields_of, extras_okb in Hn. rewrite Hom in Hn. eapply type_build_bases_rejects_otherwise; eauto.
Qed.

(** the verdict as one boolean *)
Theorem C03_bases_type_build_verdict st p v d :
  class_bases_okb st p d = true ->
  (exists st' r, type_build st p v d = (st', Ok r)) <->
  attrs_okb d &&
  C.realisableb (reg_ptr (st_reg st)) (fields_of st p d) (declared_size d) (declared_align d) (is_packed d) &&
  extras_okb st p d = true.
Proof.
  intros H. rewrite (C03_bases_type_build_iff _ _ _ _ H), !andb_true_iff, C.realisableb_spec. tauto.
Qed.

(** in the class, every attempt is decided at once: accepted or an error, the state unchanged *)
Theorem C03_bases_type_build_ok_or_err st p v d :
  class_bases_okb st p d = true ->
  (exists r, type_build st p v d = (st, Ok r)) \/ (exists msg, type_build st p v d = (st, Err msg)).
Proof.
  intros H. destruct (class_bases_okb_sound _ _ _ H) as (parent & m & Hom & Hu8 & Hu8a & Hpar & Hmod & Hbody).
  pose proof (type_build_bases_decision st p v d parent m Hu8 Hu8a Hpar Hmod Hbody) as Hd.
  destruct (if _ && _ then _ else None) as [[total a]|]; [left | right; exact Hd].
  destruct Hd as (r & Hr & _). eauto.
Qed.

(** ** 9. C03Whole's class is the special case with trivial extras *)
Lemma no_base_regions R rs : (forall r, In r rs -> r_is_base r = false) ->
  find r_is_base rs = None /\ filter (kept_base R) rs = [].
Proof.
  induction rs as [|r rs IH]; intros H; [split; reflexivity|].
  destruct IH as [I1 I2]; [intros; apply H; now right|].
  cbn [find filter]. unfold kept_base, named_base. rewrite (H r (or_introl eq_refl)). cbn [andb]. auto.
Qed.

Theorem class_okb_bases st p d :
  class_okb st p d = true -> class_bases_okb st p d = true /\ extras_okb st p d = true.
Proof.
  unfold class_okb, class_bases_okb, extras_okb. intros H. apply andb_prop in H as [Hu H]. rewrite Hu. cbn [andb].
  destruct (owner_module st p) as [m|]; [|discriminate].
  apply andb_prop in H as [Hi Hb]. destruct (alookup p (m_impls m)); [discriminate|].
  unfold body_okb in Hb. apply andb_prop in Hb as [Hb Hsf]. apply andb_prop in Hb as [Hb Hff].
  apply andb_prop in Hb as [Hnd Hfo].
  assert (forallb (sized_field (st_reg st) (module_scope m)) (gt_stmts d) = true) as Hs.
  { apply forallb_forall. intros s Hs. rewrite forallb_forall in Hfo. specialize (Hfo s Hs).
    rewrite field_ok_sized in Hfo. apply andb_prop in Hfo as [? _]. assumption. }
  split.
  - unfold body_bases_okb. rewrite Hs, Hff, Hsf, Hnd. reflexivity.
  - unfold extras_of, bases_okb, impl_okb, dflt_okb, first_base, base_regions. rewrite Hnd. cbn [orb].
    destruct (no_base_regions (st_reg st) (map snd (pending_of (st_reg st) (module_scope m) d))) as [-> ->].
    + intros r Hr. unfold pending_of in Hr. rewrite map_map in Hr. apply in_map_iff in Hr as (s & <- & Hin).
      rewrite forallb_forall in Hfo. specialize (Hfo s Hin). rewrite field_ok_sized in Hfo.
      apply andb_prop in Hfo as [_ Hnb]. apply negb_true_iff in Hnb. exact Hnb.
    + reflexivity.
Qed.

(** ** 10. [bases_okb], spelled out on the statements *)
Definition stmt_region (R : registry) (scope : list path) (s : gstatement) : region := snd (entry R scope s).

Lemma find_ext' {A} (f g : A -> bool) : (forall a, f a = g a) -> forall l, find f l = find g l.
Proof. intros H. induction l as [|a l IH]; cbn [find]; [reflexivity|]. rewrite H, IH. reflexivity. Qed.

Lemma find_map {A B} (f : A -> B) (g : B -> bool) : forall l, find g (map f l) = option_map f (find (fun a => g (f a)) l).
Proof. induction l as [|a l IH]; cbn [map find option_map]; [reflexivity|]. destruct (g (f a)); [reflexivity | exact IH]. Qed.

(** a base statement is fine when it is named and its type is a path to a resolved struct *)
Lemma base_okb_stmt R scope s vs name t t' :
  gs_field s = GField vs name t -> resolve_gtype R scope t = Some t' ->
  base_okb R (stmt_region R scope s) =
  negb (String.eqb name "_") && match struct_def R t' with Some _ => true | None => false end.
Proof.
  intros Hf Hr. unfold base_okb, base_def, stmt_region, entry, field_type. cbn [snd r_name r_type].
  rewrite Hf, Hr. destruct (String.eqb name "_"); cbn [negb andb]; [reflexivity|].
  destruct (struct_def R t'); reflexivity.
Qed.

Theorem bases_okb_spec R scope d :
  bases_okb R scope d = true <->
  (forall s, find field_is_base (gt_stmts d) = Some s -> base_okb R (stmt_region R scope s) = true) /\
  (forall s, In s (gt_stmts d) -> field_is_base s = true ->
             r_name (stmt_region R scope s) <> None -> ignored R (stmt_region R scope s) = false ->
             base_okb R (stmt_region R scope s) = true).
Proof.
  unfold bases_okb, first_base, base_regions, pending_of. rewrite map_map, andb_true_iff.
  fold (stmt_region R scope). rewrite (find_map (stmt_region R scope) r_is_base).
  assert (forall s, r_is_base (stmt_region R scope s) = field_is_base s) as Hb by reflexivity.
  rewrite (find_ext' (fun a => r_is_base (stmt_region R scope a)) field_is_base Hb).
  rewrite forallb_forall. split.
  - intros [H1 H2]. split.
    + intros s Hs. rewrite Hs in H1. exact H1.
    + intros s Hin Hm Hn Hi. apply H2. apply filter_In. split; [apply in_map; exact Hin|].
      unfold kept_base, named_base. rewrite Hb, Hm, Hi. destruct (r_name (stmt_region R scope s)); [reflexivity | congruence].
  - intros [H1 H2]. split.
    + destruct (find field_is_base (gt_stmts d)) as [s|]; [apply H1; reflexivity | reflexivity].
    + intros r Hr. apply filter_In in Hr as [Hin Hk]. apply in_map_iff in Hin as (s & <- & Hin).
      unfold kept_base, named_base in Hk. rewrite Hb in Hk.
      apply andb_prop in Hk as [Hk Hi]. apply andb_prop in Hk as [Hm Hn]. apply negb_true_iff in Hi.
      apply H2; auto. destruct (r_name (stmt_region R scope s)); [discriminate | discriminate].
Qed.

Print Assumptions type_build_bases_decision.
Print Assumptions bases_okb_spec.
Print Assumptions C03_bases_type_build_iff.
Print Assumptions C03_bases_type_build_size_align.
Print Assumptions C03_bases_type_build_rejects_otherwise.
Print Assumptions C03_bases_type_build_verdict.
Print Assumptions C03_bases_type_build_ok_or_err.
Print Assumptions class_okb_bases.
