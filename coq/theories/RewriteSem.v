(** * RewriteSem (C20, local rewrites, part 5): the rewrites whose side condition is semantic, lifted
    to one attempt.

    - (R2) [shape_address]: a field without [address] attribute gets [address(A)] (inserted anywhere
      among its attributes, [stmt_adds_address]);
    - (R5) [shape_gap]: a gap [_: unknown<N>] (no attributes) followed by a field without [address]
      attribute is replaced by that field with [address(A)];
    - (R1) [shape_size]: a type without [size] attribute gets [size(S)] (inserted anywhere among its
      attributes).
    Each is a syntactic shape plus a condition on ONE state [st] ("the placement fold of the original
    description, run in [st], reaches that field at an offset [o] with [A = o] (R2), [A = o + N]
    (R5)": [field_offset_in]; "[resolve_regions] of the original, run in [st], ends with size [S]"
    (R1): [natural_size_in]), and under that condition the two descriptions give the same outcome
    class when attempted in [st]: [address_type_build], [gap_type_build], [size_type_build].
    They lift the per-function lemmas [push_pending_address_explicit], [gap_is_address_fold] +
    [name_regions_same_named], [resolve_regions_natural_size] of RewriteLemmas.v through
    [process_statement], [resolve_regions] and [type_build]. *)
From Coq Require Import List NArith ZArith Bool Lia String Permutation.
From PyxisModel Require Import Base Grammar SemTypes Registry Sem SemLemmas PlacementLemmas FunctionLemmas
     VftableLemmas RewriteLemmas WholeBuild Monotone OrderIndep RewriteLocal.
From PyxisModel Require Confluence.
Import ListNotations.
Local Open Scope string_scope.
Local Open Scope list_scope.

(** ** outcome classes *)
Definition cls_eq {A} (o o' : outcome A) : Prop :=
  match o, o' with
  | Ok x, Ok y => x = y
  | Defer, Defer => True
  | Err _, Err _ | Err _, Panic _ | Panic _, Err _ | Panic _, Panic _ => True
  | _, _ => False
  end.

Lemma cls_eq_refl {A} (o : outcome A) : cls_eq o o.
Proof. destruct o; cbn; auto. Qed.
Lemma cls_eq_of_eq {A} (o o' : outcome A) : o = o' -> cls_eq o o'.
Proof. intros ->. apply cls_eq_refl. Qed.
Lemma cls_eq_classify (o o' : outcome resolved) : cls_eq o o' -> classify o = classify o'.
Proof. destruct o, o'; cbn; intros H; try contradiction; congruence. Qed.

Lemma cls_eq_bind {A B} (o o' : outcome A) (f f' : A -> outcome B) :
  cls_eq o o' -> (forall x, o = Ok x -> cls_eq (f x) (f' x)) -> cls_eq (bind o f) (bind o' f').
Proof. destruct o, o'; cbn; intros H Hf; try contradiction; auto. subst. now apply Hf. Qed.

(** ** the rest of [type_build] depends on the type attributes, other than [size], through these *)
Definition ta_rest_eq (ta ta' : type_attrs) : Prop :=
  ta_singleton ta = ta_singleton ta' /\ ta_copyable ta = ta_copyable ta' /\ ta_cloneable ta = ta_cloneable ta' /\
  ta_defaultable ta = ta_defaultable ta' /\ ta_packed ta = ta_packed ta' /\ ta_align ta = ta_align ta'.

Lemma ta_rest_eq_refl ta : ta_rest_eq ta ta.
Proof. repeat split. Qed.

Lemma type_post_ta R scope owner module doc ta ta' regions vt size :
  ta_rest_eq ta ta' ->
  type_post R scope owner module doc ta regions vt size = type_post R scope owner module doc ta' regions vt size.
Proof.
  intros (A & B & C & E & F & G). unfold type_post, compute_alignment. now rewrite A, B, C, E, F, G.
Qed.

Lemma type_rest_cls st owner v module doc ta ta' pending pending' vfs :
  ta_rest_eq ta ta' ->
  cls_eq (resolve_regions st owner v (ta_size ta) pending vfs) (resolve_regions st owner v (ta_size ta') pending' vfs) ->
  cls_eq (type_rest st owner v module doc ta pending vfs) (type_rest st owner v module doc ta' pending' vfs).
Proof.
  intros Hta H. unfold type_rest.
  destruct (resolve_regions st owner v (ta_size ta) pending vfs) as [[[[s1 rg] vt] sz]| | |],
           (resolve_regions st owner v (ta_size ta') pending' vfs) as [[[[s1' rg'] vt'] sz']| | |];
    cbn [cls_eq] in H; try contradiction; try exact I.
  inversion H; subst. rewrite (type_post_ta _ _ _ _ _ _ _ _ _ _ Hta). apply cls_eq_refl.
Qed.

(** ** the statement fold *)
Definition osnd {A B} (o : outcome (A * B)) : outcome B :=
  match o with Ok x => Ok (snd x) | Defer => Defer | Err m => Err m | Panic m => Panic m end.

Definition shift_ss (p0 : list (option N * region)) (o : outcome (nat * stmt_state)) : outcome (nat * stmt_state) :=
  match o with
  | Ok (i, (p, v)) => Ok (i, (p0 ++ p, v))
  | Defer => Defer | Err m => Err m | Panic m => Panic m
  end.

Lemma process_statement_shift R scope s i p0 v0 :
  process_statement R scope (i, (p0, v0)) s = shift_ss p0 (process_statement R scope (i, ([], v0)) s).
Proof.
  unfold process_statement. destruct (gs_field s) as [v name t|fs].
  - destruct (attrs_doc (gs_attrs s)); cbn [bind shift_ss]; try reflexivity.
    destruct (foldM scan_field_attr (gs_attrs s) (None, false)); cbn [bind shift_ss]; try reflexivity.
    destruct (resolve_gtype R scope t); reflexivity.
  - destruct (negb (Nat.eqb i 0)); [reflexivity|].
    destruct (foldM scan_vftable_size_attr (gs_attrs s) None); cbn [bind shift_ss]; try reflexivity.
    destruct (convert_functions R scope a fs); cbn [bind shift_ss]; try reflexivity. now rewrite app_nil_r.
Qed.

Lemma fold_statements_shift R scope : forall stmts i p0 v0,
  foldM (process_statement R scope) stmts (i, (p0, v0)) =
  shift_ss p0 (foldM (process_statement R scope) stmts (i, ([], v0))).
Proof.
  induction stmts as [|s stmts IH]; intros i p0 v0; cbn [foldM]; [cbn; now rewrite app_nil_r|].
  rewrite process_statement_shift.
  destruct (process_statement R scope (i, ([], v0)) s) as [[i1 [p1 v1]]| | |]; cbn [shift_ss bind]; try reflexivity.
  rewrite (IH i1 (p0 ++ p1) v1).
  transitivity (shift_ss p0 (shift_ss p1 (foldM (process_statement R scope) stmts (i1, ([], v1)))));
    [|f_equal; symmetry; apply IH].
  destruct (foldM (process_statement R scope) stmts (i1, ([], v1))) as [[i2 [p2 v2]]| | |]; cbn [shift_ss]; try reflexivity.
  now rewrite app_assoc.
Qed.

(** once a statement has been processed, the counter only says "not the first" *)
Lemma fold_statements_idx R scope : forall stmts i j s, i <> O -> j <> O ->
  osnd (foldM (process_statement R scope) stmts (i, s)) = osnd (foldM (process_statement R scope) stmts (j, s)).
Proof.
  induction stmts as [|x stmts IH]; intros i j [p v] Hi Hj; cbn [foldM]; [reflexivity|].
  unfold process_statement at 1 3. destruct (gs_field x) as [vv name t|fs].
  - destruct (attrs_doc (gs_attrs x)); cbn [bind osnd]; try reflexivity.
    destruct (foldM scan_field_attr (gs_attrs x) (None, false)); cbn [bind osnd]; try reflexivity.
    destruct (resolve_gtype R scope t); cbn [bind osnd]; [|reflexivity]. apply IH; discriminate.
  - destruct i; [congruence|]. destruct j; [congruence|]. reflexivity.
Qed.

Definition is_field (s : gstatement) : Prop := match gs_field s with GField _ _ _ => True | GVftable _ => False end.

(** what a field statement appends to the list of pending regions *)
Definition field_entry (R : registry) (scope : list path) (s : gstatement) : outcome (option N * region) :=
  match gs_field s with
  | GField v name t =>
    do doc <- attrs_doc (gs_attrs s);
    do ab <- foldM scan_field_attr (gs_attrs s) (None, false);
    match resolve_gtype R scope t with
    | None => Defer
    | Some t' => Ok (fst ab, {| r_vis := v; r_name := if String.eqb name "_" then None else Some name;
                                r_doc := doc; r_type := t'; r_is_base := snd ab |})
    end
  | GVftable _ => Err "not a field"
  end.

Lemma fold_fields R scope : forall mid i pp v1, Forall is_field mid ->
  foldM (process_statement R scope) mid (i, ((pp, v1) : stmt_state)) =
  match mapM (field_entry R scope) mid with
  | Ok es => Ok ((i + List.length mid)%nat, ((pp ++ es, v1) : stmt_state))
  | Defer => Defer | Err m => Err m | Panic m => Panic m
  end.
Proof.
  induction mid as [|s mid IH]; intros i pp v1 H; cbn [foldM mapM List.length].
  - now rewrite app_nil_r, Nat.add_0_r.
  - apply Forall_cons_iff in H as [Hs Hm]. unfold is_field in Hs.
    unfold process_statement at 1. unfold field_entry at 1. destruct (gs_field s) as [v name t|]; [|contradiction].
    destruct (attrs_doc (gs_attrs s)); cbn [bind]; try reflexivity.
    destruct (foldM scan_field_attr (gs_attrs s) (None, false)); cbn [bind]; try reflexivity.
    destruct (resolve_gtype R scope t); cbn [bind]; [|reflexivity].
    rewrite (IH _ _ _ Hm). destruct (mapM (field_entry R scope) mid); cbn [bind]; try reflexivity.
    rewrite <- app_assoc. cbn [app]. do 2 f_equal. lia.
Qed.

(** the statement state after [pre ++ mid ++ post], [mid] a non-empty run of field statements *)
Definition after (R : registry) (scope : list path) (post_s : list gstatement)
           (pp : list (option N * region)) (v1 : option (list sfunction)) : outcome stmt_state :=
  match foldM (process_statement R scope) post_s (1%nat, ([], v1)) with
  | Ok (_, (qq, v2)) => Ok (pp ++ qq, v2)
  | Defer => Defer | Err m => Err m | Panic m => Panic m
  end.

Lemma fold_mid R scope pre_s mid post_s : mid <> [] -> Forall is_field mid ->
  osnd (foldM (process_statement R scope) (pre_s ++ mid ++ post_s) (O, ([], None))) =
  do a1 <- foldM (process_statement R scope) pre_s (O, ([], None));
  do es <- mapM (field_entry R scope) mid;
  after R scope post_s (fst (snd a1) ++ es) (snd (snd a1)).
Proof.
  intros Hne Hf. rewrite foldM_app.
  destruct (foldM (process_statement R scope) pre_s (O, ([], None))) as [[i1 [pp v1]]| | |]; cbn [bind osnd fst snd]; try reflexivity.
  rewrite foldM_app, (fold_fields R scope mid i1 pp v1 Hf).
  destruct (mapM (field_entry R scope) mid) as [es| | |]; cbn [bind osnd]; try reflexivity.
  rewrite (fold_statements_idx R scope post_s (i1 + List.length mid)%nat 1%nat); [|destruct mid; [congruence | cbn; lia] | discriminate].
  rewrite fold_statements_shift. unfold after.
  destruct (foldM (process_statement R scope) post_s (1%nat, ([], v1))) as [[i2 [qq v2]]| | |]; reflexivity.
Qed.

Lemma type_pre_osnd R scope d :
  type_pre R scope d =
  do doc <- attrs_doc (gt_attrs d);
  do ta <- foldM scan_type_attr (gt_attrs d) ta_init;
  do ss <- osnd (foldM (process_statement R scope) (gt_stmts d) (O, ([], None)));
  Ok (doc, ta, ss).
Proof.
  unfold type_pre. destruct (attrs_doc (gt_attrs d)); cbn [bind]; try reflexivity.
  destruct (foldM scan_type_attr (gt_attrs d) ta_init); cbn [bind]; try reflexivity.
  destruct (foldM (process_statement R scope) (gt_stmts d) (O, ([], None))); reflexivity.
Qed.

(** ** attributes *)
Definition no_attr (name : string) (attrs : list gattr) : Prop :=
  Forall (fun a => int_attr name a = None) attrs.

Lemma scan_field_no_address : forall attrs st r, no_attr "address" attrs ->
  foldM scan_field_attr attrs st = Ok r -> fst r = fst st.
Proof.
  induction attrs as [|a attrs IH]; intros st r H Hf; cbn [foldM] in Hf; [now inversion Hf|].
  apply Forall_cons_iff in H as [Ha H]. inv_bind Hf. rewrite (IH _ _ H Hf).
  unfold scan_field_attr, int_attr in *. destruct a as [n|n [|[z|?|?] [|? ?]]|? ?]; try (now inversion Ha0).
  - destruct (String.eqb n "base"); now inversion Ha0.
  - destruct (String.eqb n "address"); [discriminate | now inversion Ha0].
Qed.

Definition addr_attr_of (A : N) : gattr := AFn "address" [EInt (Z.of_N A)].

(** [s'] is the statement [s] with [address(A)] inserted somewhere among its attributes *)
Definition stmt_adds_address (s s' : gstatement) (A : N) : Prop :=
  gs_field s' = gs_field s /\ adds_attr (addr_attr_of A) (gs_attrs s) (gs_attrs s').

Definition with_address (s : gstatement) (A : N) : gstatement :=
  {| gs_field := gs_field s; gs_attrs := gs_attrs s ++ [addr_attr_of A] |}.
Lemma with_address_adds s A : stmt_adds_address s (with_address s A) A.
Proof. split; [reflexivity | apply adds_attr_end]. Qed.

Lemma scan_field_addr ab A : scan_field_attr ab (addr_attr_of A) = Ok (Some A, snd ab).
Proof. unfold scan_field_attr, addr_attr_of. now rewrite String.eqb_refl, z_to_usize_of_N. Qed.

(** without [address] attributes the field scan never fails, and keeps the address it started with *)
Lemma scan_field_total : forall attrs b, no_attr "address" attrs ->
  exists b', forall x, foldM scan_field_attr attrs (x, b) = Ok (x, b').
Proof.
  induction attrs as [|a attrs IH]; intros b H; cbn [foldM]; [exists b; reflexivity|].
  apply Forall_cons_iff in H as [Ha H].
  assert (exists b1, forall x, scan_field_attr (x, b) a = Ok (x, b1)) as (b1 & Hb1).
  { unfold scan_field_attr, int_attr in *. destruct a as [n|n [|[z|?|?] [|? ?]]|? ?]; try (exists b; reflexivity).
    - destruct (String.eqb n "base"); [exists true | exists b]; reflexivity.
    - destruct (String.eqb n "address"); [discriminate | exists b; reflexivity]. }
  destruct (IH b1 H) as (b' & Hb'). exists b'. intros x. rewrite Hb1. cbn [bind]. apply Hb'.
Qed.

Lemma field_entry_adds_address R scope s s' A : no_attr "address" (gs_attrs s) -> stmt_adds_address s s' A ->
  match field_entry R scope s, field_entry R scope s' with
  | Ok x, Ok y => fst x = None /\ y = (Some A, snd x)
  | Defer, Defer => True
  | Err m, Err m' => m = m'
  | Panic m, Panic m' => m = m'
  | _, _ => False
  end.
Proof.
  intros Hna (Hf & Hadd). unfold field_entry. rewrite Hf.
  destruct (gs_field s) as [v name t|]; [|reflexivity].
  rewrite (attrs_doc_adds (addr_attr_of A) _ _ ltac:(intros; discriminate) Hadd).
  destruct (attrs_doc (gs_attrs s)) as [doc| | |]; cbn [bind]; try reflexivity.
  destruct Hadd as (l1 & l2 & E & E'). rewrite E, E'. rewrite E in Hna. apply Forall_app in Hna as [H1 H2].
  destruct (scan_field_total l1 false H1) as (b1 & Hb1). destruct (scan_field_total l2 b1 H2) as (b2 & Hb2).
  rewrite !foldM_app, !Hb1. cbn [bind foldM]. rewrite scan_field_addr. cbn [bind snd]. rewrite !Hb2. cbn [bind fst snd].
  destruct (resolve_gtype R scope t); [|exact I]. split; reflexivity.
Qed.

(** ** two lists of pending regions with the same placement *)
Lemma same_result_refl o : same_result o o.
Proof. destruct o as [[rs l]| | |]; cbn; auto. split; [reflexivity | apply Forall2_same_refl]. Qed.

Lemma regions_push_same_named R rs1 rs2 l a :
  Forall2 same_named rs1 rs2 ->
  match regions_push R (rs1, l) a, regions_push R (rs2, l) a with
  | Some (x1, l1), Some (x2, l2) => l1 = l2 /\ Forall2 same_named x1 x2
  | None, None => True
  | _, _ => False
  end.
Proof.
  intros H. rewrite (regions_push_frame R rs1), (regions_push_frame R rs2).
  destruct (regions_push R ([], l) a) as [[d l']|]; cbn [option_map fst snd]; [|exact I].
  split; [reflexivity|]. apply Forall2_app; [exact H | apply Forall2_same_refl].
Qed.

(** [resolve_regions] on two pending lists whose placement folds agree *)
Lemma resolve_regions_pending st owner v ts pending pending' vfs :
  find r_is_base (map snd pending) = find r_is_base (map snd pending') ->
  (first_base_unresolved (st_reg st) (find r_is_base (map snd pending)) = false ->
   forall st' vt vr acc0,
     vftable_build st owner v (find r_is_base (map snd pending)) vfs = Ok (st', vt, vr) ->
     match vr with Some r => defer_opt (regions_push (st_reg st') ([], 0%N) r) | None => Ok ([], 0%N) end = Ok acc0 ->
     same_result (foldM (push_pending (st_reg st')) pending acc0) (foldM (push_pending (st_reg st')) pending' acc0)) ->
  cls_eq (resolve_regions st owner v ts pending vfs) (resolve_regions st owner v ts pending' vfs).
Proof.
  intros Hfb Hsame. unfold resolve_regions. rewrite <- Hfb.
  destruct (first_base_unresolved (st_reg st) _) eqn:Efb; [exact I|].
  specialize (Hsame eq_refl).
  destruct (vftable_build st owner v _ vfs) as [[[st' vt] vr]| | |]; cbn [bind cls_eq]; try exact I.
  specialize (Hsame st' vt vr). set (R := st_reg st') in *.
  destruct (match vr with Some r => defer_opt (regions_push R ([], 0%N) r) | None => Ok ([], 0%N) end) as [acc0| | |];
    cbn [bind cls_eq]; try exact I.
  specialize (Hsame acc0 eq_refl eq_refl).
  destruct (foldM (push_pending R) pending acc0) as [[rs1 l1]| | |], (foldM (push_pending R) pending' acc0) as [[rs2 l2]| | |];
    cbn [same_result] in Hsame; try contradiction; cbn [bind cls_eq]; try exact I.
  destruct Hsame as [<- HF]. cbn [snd].
  assert (match (match ts with
                 | Some t => if (l1 <? t)%N then defer_opt (regions_push R (rs1, l1) (unnamed_region (padding_type (t - l1)))) else Ok (rs1, l1)
                 | None => Ok (rs1, l1) end),
                (match ts with
                 | Some t => if (l1 <? t)%N then defer_opt (regions_push R (rs2, l1) (unnamed_region (padding_type (t - l1)))) else Ok (rs2, l1)
                 | None => Ok (rs2, l1) end) with
          | Ok (x1, k1), Ok (x2, k2) => k1 = k2 /\ Forall2 same_named x1 x2
          | Defer, Defer => True
          | _, _ => False
          end) as H2.
  { destruct ts as [t|]; [|auto]. destruct (l1 <? t)%N; [|auto].
    pose proof (regions_push_same_named R rs1 rs2 l1 (unnamed_region (padding_type (t - l1))) HF) as Hp.
    destruct (regions_push R (rs1, l1) _) as [[x1 k1]|], (regions_push R (rs2, l1) _) as [[x2 k2]|]; cbn [defer_opt]; auto. }
  destruct (match ts with Some t => if (l1 <? t)%N then defer_opt (regions_push R (rs1, l1) _) else Ok (rs1, l1) | None => Ok (rs1, l1) end)
    as [[x1 k1]| | |],
    (match ts with Some t => if (l1 <? t)%N then defer_opt (regions_push R (rs2, l1) _) else Ok (rs2, l1) | None => Ok (rs2, l1) end)
    as [[x2 k2]| | |]; try contradiction; cbn [bind cls_eq fst snd]; try exact I.
  destruct H2 as [<- HF2]. rewrite (name_regions_same_named R x1 x2 0%N HF2). apply cls_eq_refl.
Qed.

(** ** the first phase of two type descriptions that differ in a run of field statements *)
Definition cls_compat {A} (o o' : outcome A) : Prop :=
  match o, o' with
  | Ok _, Ok _ => True
  | Defer, Defer => True
  | Err _, Err _ | Err _, Panic _ | Panic _, Err _ | Panic _, Panic _ => True
  | _, _ => False
  end.

Lemma type_pre_mid R scope td td' pre_s mid mid' post_s :
  gt_attrs td = gt_attrs td' ->
  gt_stmts td = pre_s ++ mid ++ post_s -> gt_stmts td' = pre_s ++ mid' ++ post_s ->
  mid <> [] -> mid' <> [] -> Forall is_field mid -> Forall is_field mid' ->
  cls_compat (mapM (field_entry R scope) mid) (mapM (field_entry R scope) mid') ->
  match type_pre R scope td, type_pre R scope td' with
  | Ok (doc, ta, (pending, vfs)), Ok (doc', ta', (pending', vfs')) =>
      doc = doc' /\ ta = ta' /\ vfs = vfs' /\
      exists i1 pp v1 es es' qq,
        foldM (process_statement R scope) pre_s (O, ([], None)) = Ok (i1, (pp, v1)) /\
        mapM (field_entry R scope) mid = Ok es /\ mapM (field_entry R scope) mid' = Ok es' /\
        pending = (pp ++ es) ++ qq /\ pending' = (pp ++ es') ++ qq
  | Ok _, _ | _, Ok _ => False
  | Defer, Defer => True
  | Defer, _ | _, Defer => False
  | _, _ => True
  end.
Proof.
  intros Ha Hs Hs' Hne Hne' Hf Hf' Hc. rewrite !type_pre_osnd, <- Ha, Hs, Hs'.
  destruct (attrs_doc (gt_attrs td)) as [doc| | |]; cbn [bind]; auto.
  destruct (foldM scan_type_attr (gt_attrs td) ta_init) as [ta| | |]; cbn [bind]; auto.
  rewrite (fold_mid R scope pre_s mid post_s Hne Hf), (fold_mid R scope pre_s mid' post_s Hne' Hf').
  destruct (foldM (process_statement R scope) pre_s (O, ([], None))) as [[i1 [pp v1]]| | |]; cbn [bind fst snd]; auto.
  destruct (mapM (field_entry R scope) mid) as [es| | |], (mapM (field_entry R scope) mid') as [es'| | |];
    cbn [cls_compat] in Hc; try contradiction; cbn [bind]; auto.
  unfold after. destruct (foldM (process_statement R scope) post_s (1%nat, ([], v1))) as [[i2 [qq v2]]| | |]; cbn [bind]; auto.
  repeat split. exists i1, pp, v1, es, es', qq. repeat split.
Qed.

(** ** the offset the placement fold reaches *)
Definition reach_offset (st : sstate) (owner : path) (v : vis) (pending : list (option N * region))
           (vfs : option (list sfunction)) (pp : list (option N * region)) (off : N) : Prop :=
  first_base_unresolved (st_reg st) (find r_is_base (map snd pending)) = false /\
  exists st' vt vr acc0 accp,
    vftable_build st owner v (find r_is_base (map snd pending)) vfs = Ok (st', vt, vr) /\
    match vr with Some r => defer_opt (regions_push (st_reg st') ([], 0%N) r) | None => Ok ([], 0%N) end = Ok acc0 /\
    foldM (push_pending (st_reg st')) pp acc0 = Ok accp /\ snd accp = off.

(** "run in [st], the placement fold of the type description [td] of [p] gets to its [j]-th
    declared field, at offset [off]" *)
Definition field_offset_in (st : sstate) (p : path) (v : vis) (td : gtypedef) (j : nat) (off : N) : Prop :=
  exists parent module doc ta pending vfs pp x qq,
    path_parent p = Some parent /\ alookup parent (st_modules st) = Some module /\
    type_pre (st_reg st) (module_scope module) td = Ok (doc, ta, (pending, vfs)) /\
    pending = pp ++ x :: qq /\ List.length pp = j /\ reach_offset st p v pending vfs pp off.

(** "run in [st], [resolve_regions] of the type description [td] of [p] (without target size)
    ends with size [sz]" *)
Definition natural_size_in (st : sstate) (p : path) (v : vis) (td : gtypedef) (sz : N) : Prop :=
  exists parent module doc ta pending vfs st' regions vt,
    path_parent p = Some parent /\ alookup parent (st_modules st) = Some module /\
    type_pre (st_reg st) (module_scope module) td = Ok (doc, ta, (pending, vfs)) /\
    resolve_regions st p v None pending vfs = Ok (st', regions, vt, sz).

Definition is_fieldb (s : gstatement) : bool := match gs_field s with GField _ _ _ => true | GVftable _ => false end.
Definition fields_before (stmts : list gstatement) : nat := List.length (filter is_fieldb stmts).

Lemma fold_statements_length R scope : forall stmts i p0 v0 i1 pp v1,
  foldM (process_statement R scope) stmts (i, (p0, v0)) = Ok (i1, (pp, v1)) ->
  List.length pp = (List.length p0 + fields_before stmts)%nat.
Proof.
  induction stmts as [|s stmts IH]; intros i p0 v0 i1 pp v1 H; cbn [foldM] in H.
  - inversion H; subst. unfold fields_before. cbn. lia.
  - inv_bind H. destruct a as [i2 [p2 v2]]. rewrite (IH _ _ _ _ _ _ H). unfold fields_before, is_fieldb. cbn [filter].
    unfold process_statement in Ha. destruct (gs_field s) as [vv name t|fs].
    + inv_bind Ha. inv_bind Ha. destruct (resolve_gtype R scope t); [|discriminate]. inversion Ha; subst.
      rewrite app_length. cbn [List.length]. lia.
    + destruct (negb (Nat.eqb i 0)); [discriminate|]. inv_bind Ha. inv_bind Ha. inversion Ha; subst. lia.
Qed.

Lemma find_app {A} (f : A -> bool) : forall l1 l2,
  find f (l1 ++ l2) = match find f l1 with Some x => Some x | None => find f l2 end.
Proof. induction l1 as [|a l1 IH]; intros l2; cbn [app find]; [reflexivity|]. destruct (f a); auto. Qed.

Lemma app_inv_length {A} (a b c d : list A) : a ++ b = c ++ d -> List.length a = List.length c -> a = c /\ b = d.
Proof.
  revert c. induction a as [|x a IH]; intros [|y c] H Hl; cbn in *; try discriminate; [auto|].
  inversion H; subst. destruct (IH c H2) as [-> ->]; [lia|]. auto.
Qed.

Lemma clean_u8 : clean_path ["u8"] = true.
Proof. vm_compute. reflexivity. Qed.

Lemma vftable_build_u8 st owner v fb vfs st' vt vr :
  reg_u8 (st_reg st) -> vftable_build st owner v fb vfs = Ok (st', vt, vr) -> reg_u8 (st_reg st').
Proof.
  intros Hu H. destruct (vftable_build_step _ _ _ _ _ _ _ _ H) as [->|(fs & vit & _ & Hvi & Hadd)]; [exact Hu|].
  rewrite (add_item_reg _ _ _ Hadd). unfold reg_u8 in *. cbn [size_of] in *.
  rewrite reg_get_add_other; [exact Hu|].
  destruct (vftable_item_facts _ _ _ _ _ Hvi) as (Hvp & _). intros E.
  pose proof (gen_path_not_clean _ _ Hvp) as Hc. rewrite E, clean_u8 in Hc. discriminate.
Qed.

(** ** (R2) an explicit address *)
Definition shape_address (td td' : gtypedef) (j : nat) (A : N) : Prop :=
  gt_attrs td = gt_attrs td' /\
  exists pre_s s s' post_s,
    gt_stmts td = pre_s ++ s :: post_s /\ gt_stmts td' = pre_s ++ s' :: post_s /\
    is_field s /\ no_attr "address" (gs_attrs s) /\ stmt_adds_address s s' A /\ j = fields_before pre_s.

Lemma is_field_adds s s' A : stmt_adds_address s s' A -> is_field s -> is_field s'.
Proof. intros [Hf _]. unfold is_field. now rewrite Hf. Qed.

Theorem address_type_build st p v td td' j A :
  reg_u8 (st_reg st) -> shape_address td td' j A ->
  (forall off, field_offset_in st p v td j off -> off = A) ->
  cls_eq (snd (type_build st p v td)) (snd (type_build st p v td')).
Proof.
  intros Hu8 (Hattrs & pre_s & s & s' & post_s & Hs & Hs' & Hfs & Hna & Hadd & Hj) Hcond.
  rewrite !type_build_snd.
  destruct (path_parent p) as [parent|] eqn:Epar; [|apply cls_eq_refl].
  destruct (alookup parent (st_modules st)) as [module|] eqn:Emod; [|apply cls_eq_refl].
  set (R := st_reg st) in *. set (scope := module_scope module) in *.
  pose proof (field_entry_adds_address R scope s s' A Hna Hadd) as Hfe.
  pose proof (type_pre_mid R scope td td' pre_s [s] [s'] post_s Hattrs Hs Hs'
                ltac:(discriminate) ltac:(discriminate)
                (Forall_cons _ Hfs (Forall_nil _)) (Forall_cons _ (is_field_adds s s' A Hadd Hfs) (Forall_nil _))) as Hpre.
  cbn [mapM] in Hpre.
  destruct (field_entry R scope s) as [[a r]| | |] eqn:Ee, (field_entry R scope s') as [y| | |] eqn:Ee';
    try contradiction; cbn [bind cls_compat] in Hpre; specialize (Hpre I).
  2-4: destruct (type_pre R scope td) as [[[doc ta] [pending vfs]]| | |], (type_pre R scope td') as [[[doc' ta'] [pending' vfs']]| | |];
       try contradiction; cbn [cls_eq]; auto;
       destruct Hpre as (_ & _ & _ & ? & ? & ? & ? & ? & ? & _ & Hx & _); discriminate.
  destruct Hfe as [Ha ->]. cbn [fst snd] in Ha. subst a.
  destruct (type_pre R scope td) as [[[doc ta] [pending vfs]]| | |] eqn:E1, (type_pre R scope td') as [[[doc' ta'] [pending' vfs']]| | |];
    try contradiction; cbn [cls_eq]; auto.
  destruct Hpre as (<- & <- & <- & i1 & pp & v1 & es & es' & qq & Hfold & Hes & Hes' & Hp & Hp').
  inversion Hes; subst es. inversion Hes'; subst es'. cbn [snd] in *.
  apply type_rest_cls; [apply ta_rest_eq_refl|].
  assert (map snd pending = map snd pending') as Hmap by (subst pending pending'; now rewrite !map_app).
  apply resolve_regions_pending; [now rewrite Hmap|].
  intros Efb st' vt vr acc0 Hvb Hacc0.
  subst pending'. rewrite Hp. rewrite <- !app_assoc. cbn [app]. rewrite !foldM_app.
  destruct (foldM (push_pending (st_reg st')) pp acc0) as [[rs last]| | |] eqn:Epp; cbn [bind same_result]; auto.
  assert (last = A) as ->.
  { apply Hcond. exists parent, module, doc, ta, pending, vfs, pp, (None, r), qq.
    split; [exact Epar|]. split; [exact Emod|]. split; [exact E1|].
    split; [subst pending; now rewrite <- app_assoc|]. split.
    - rewrite (fold_statements_length R scope _ _ _ _ _ _ _ Hfold). cbn [List.length]. now rewrite Hj.
    - split; [exact Efb|]. exists st', vt, vr, acc0, (rs, last). auto. }
  cbn [foldM]. rewrite (push_pending_address_explicit (st_reg st') rs A r (vftable_build_u8 _ _ _ _ _ _ _ _ Hu8 Hvb)).
  apply same_result_refl.
Qed.

(** ** (R5) a gap written as an address on the next field *)
Definition gap_region (vg : vis) (n : N) : region :=
  {| r_vis := vg; r_name := None; r_doc := None; r_type := padding_type n; r_is_base := false |}.

(** the statement [_: unknown<n>] without attributes *)
Definition gap_stmt (g : gstatement) (n : N) : Prop :=
  exists vg, gs_field g = GField vg "_" (GUnknown n) /\ gs_attrs g = [].

Lemma field_entry_gap R scope g n vg : gs_field g = GField vg "_" (GUnknown n) -> gs_attrs g = [] ->
  field_entry R scope g = Ok (None, gap_region vg n).
Proof. intros Hf Ha. unfold field_entry. rewrite Hf, Ha. reflexivity. Qed.

Lemma gap_region_is_gap vg n : is_gap (gap_region vg n) n.
Proof. repeat split. Qed.

Definition shape_gap (td td' : gtypedef) (j : nat) (n A : N) : Prop :=
  gt_attrs td = gt_attrs td' /\
  exists pre_s g s s' post_s,
    gt_stmts td = pre_s ++ g :: s :: post_s /\ gt_stmts td' = pre_s ++ s' :: post_s /\
    gap_stmt g n /\ is_field s /\ no_attr "address" (gs_attrs s) /\ stmt_adds_address s s' A /\ j = fields_before pre_s.

Theorem gap_type_build st p v td td' j n A :
  shape_gap td td' j n A ->
  (forall off, field_offset_in st p v td j off -> A = (off + n)%N) ->
  cls_eq (snd (type_build st p v td)) (snd (type_build st p v td')).
Proof.
  intros (Hattrs & pre_s & g & s & s' & post_s & Hs & Hs' & (vg & Hg & Hga) & Hfs & Hna & Hadd & Hj) Hcond.
  rewrite !type_build_snd.
  destruct (path_parent p) as [parent|] eqn:Epar; [|apply cls_eq_refl].
  destruct (alookup parent (st_modules st)) as [module|] eqn:Emod; [|apply cls_eq_refl].
  set (R := st_reg st) in *. set (scope := module_scope module) in *.
  pose proof (field_entry_adds_address R scope s s' A Hna Hadd) as Hfe.
  assert (is_field g) as Hfg by (unfold is_field; now rewrite Hg).
  pose proof (type_pre_mid R scope td td' pre_s [g; s] [s'] post_s Hattrs Hs Hs'
                ltac:(discriminate) ltac:(discriminate)
                (Forall_cons _ Hfg (Forall_cons _ Hfs (Forall_nil _)))
                (Forall_cons _ (is_field_adds s s' A Hadd Hfs) (Forall_nil _))) as Hpre.
  cbn [mapM] in Hpre. rewrite (field_entry_gap R scope g n vg Hg Hga) in Hpre. cbn [bind] in Hpre.
  destruct (field_entry R scope s) as [[a r]| | |] eqn:Ee, (field_entry R scope s') as [y| | |] eqn:Ee';
    try contradiction; cbn [bind cls_compat] in Hpre; specialize (Hpre I).
  2-4: destruct (type_pre R scope td) as [[[doc ta] [pending vfs]]| | |], (type_pre R scope td') as [[[doc' ta'] [pending' vfs']]| | |];
       try contradiction; cbn [cls_eq]; auto;
       destruct Hpre as (_ & _ & _ & ? & ? & ? & ? & ? & ? & _ & Hx & _); discriminate.
  destruct Hfe as [Ha ->]. cbn [fst snd] in Ha. subst a.
  destruct (type_pre R scope td) as [[[doc ta] [pending vfs]]| | |] eqn:E1, (type_pre R scope td') as [[[doc' ta'] [pending' vfs']]| | |];
    try contradiction; cbn [cls_eq]; auto.
  destruct Hpre as (<- & <- & <- & i1 & pp & v1 & es & es' & qq & Hfold & Hes & Hes' & Hp & Hp').
  inversion Hes; subst es. inversion Hes'; subst es'. cbn [snd] in *.
  apply type_rest_cls; [apply ta_rest_eq_refl|].
  apply resolve_regions_pending.
  { subst pending pending'. rewrite !map_app, !find_app. cbn [map find snd gap_region r_is_base]. reflexivity. }
  intros Efb st' vt vr acc0 Hvb Hacc0.
  subst pending'. rewrite Hp. rewrite <- !app_assoc. cbn [app].
  destruct (foldM (push_pending (st_reg st')) pp acc0) as [accp| | |] eqn:Epp.
  2-4: rewrite !foldM_app, Epp; cbn [bind same_result]; auto.
  assert (A = (snd accp + n)%N) as ->.
  { apply Hcond. exists parent, module, doc, ta, pending, vfs, pp, (None, gap_region vg n), ((None, r) :: qq).
    split; [exact Epar|]. split; [exact Emod|]. split; [exact E1|].
    split; [subst pending; now rewrite <- app_assoc|]. split.
    - rewrite (fold_statements_length R scope _ _ _ _ _ _ _ Hfold). cbn [List.length]. now rewrite Hj.
    - split; [exact Efb|]. exists st', vt, vr, acc0, accp. auto. }
  exact (gap_is_address_fold (st_reg st') pp (gap_region vg n) n r qq acc0 accp (gap_region_is_gap vg n) Epp).
Qed.

(** ** (R1) the natural size written as a [size] attribute *)
Definition size_attr_of (S : N) : gattr := AFn "size" [EInt (Z.of_N S)].
Definition set_size (ta : type_attrs) (S : N) : type_attrs :=
  {| ta_size := Some S; ta_singleton := ta_singleton ta; ta_copyable := ta_copyable ta;
     ta_cloneable := ta_cloneable ta; ta_defaultable := ta_defaultable ta;
     ta_packed := ta_packed ta; ta_align := ta_align ta |}.

Definition shape_size (td td' : gtypedef) (S : N) : Prop :=
  gt_stmts td = gt_stmts td' /\ adds_attr (size_attr_of S) (gt_attrs td) (gt_attrs td') /\ no_attr "size" (gt_attrs td).

Lemma scan_type_size ta S : scan_type_attr ta (size_attr_of S) = Ok (set_size ta S).
Proof. unfold scan_type_attr, size_attr_of. now rewrite String.eqb_refl, z_to_usize_of_N. Qed.

Lemma scan_type_no_size : forall attrs ta r, no_attr "size" attrs ->
  foldM scan_type_attr attrs ta = Ok r -> ta_size r = ta_size ta.
Proof.
  induction attrs as [|a attrs IH]; intros ta r H Hf; cbn [foldM] in Hf; [now inversion Hf|].
  apply Forall_cons_iff in H as [Ha H]. inv_bind Hf. rewrite (IH _ _ H Hf).
  unfold scan_type_attr, int_attr in *. destruct a as [n|n [|[z|?|?] [|? ?]]|? ?]; try (now inversion Ha0).
  destruct (String.eqb n "size"); [discriminate|].
  destruct (String.eqb n "singleton"); [destruct (z_to_usize z); now inversion Ha0|].
  destruct (String.eqb n "align"); [destruct (z_to_usize z); now inversion Ha0|]. now inversion Ha0.
Qed.

(** an attribute other than [size] commutes with setting the size *)
Lemma scan_type_set_size ta S a : int_attr "size" a = None ->
  scan_type_attr (set_size ta S) a =
  match scan_type_attr ta a with Ok t => Ok (set_size t S) | Defer => Defer | Err m => Err m | Panic m => Panic m end.
Proof.
  unfold scan_type_attr, int_attr. intros H. destruct a as [n|n [|[z|?|?] [|? ?]]|? ?]; try reflexivity.
  destruct (String.eqb n "size"); [discriminate|].
  destruct (String.eqb n "singleton"); [destruct (z_to_usize z); reflexivity|].
  destruct (String.eqb n "align"); [destruct (z_to_usize z); reflexivity|]. reflexivity.
Qed.

Lemma fold_type_set_size S : forall l ta, no_attr "size" l ->
  foldM scan_type_attr l (set_size ta S) =
  match foldM scan_type_attr l ta with Ok t => Ok (set_size t S) | Defer => Defer | Err m => Err m | Panic m => Panic m end.
Proof.
  induction l as [|a l IH]; intros ta H; cbn [foldM]; [reflexivity|].
  apply Forall_cons_iff in H as [Ha H]. rewrite (scan_type_set_size ta S a Ha).
  destruct (scan_type_attr ta a); cbn [bind]; auto.
Qed.

Lemma type_pre_size R scope td td' S : shape_size td td' S ->
  match type_pre R scope td, type_pre R scope td' with
  | Ok (doc, ta, ss), Ok (doc', ta', ss') => doc = doc' /\ ss = ss' /\ ta' = set_size ta S /\ ta_size ta = None
  | Defer, Defer => True
  | Err m, Err m' => m = m'
  | Panic m, Panic m' => m = m'
  | _, _ => False
  end.
Proof.
  intros (Hs & Ha & Hns). unfold type_pre. rewrite <- Hs.
  rewrite (attrs_doc_adds (size_attr_of S) _ _ ltac:(intros; discriminate) Ha).
  destruct (attrs_doc (gt_attrs td)) as [doc| | |]; cbn [bind]; auto.
  destruct Ha as (l1 & l2 & E & E'). rewrite E, E'. rewrite E in Hns. pose proof Hns as Hall. apply Forall_app in Hns as [H1 H2].
  rewrite !foldM_app.
  destruct (foldM scan_type_attr l1 ta_init) as [t1| | |] eqn:E1; cbn [bind foldM]; auto.
  rewrite scan_type_size. cbn [bind]. rewrite (fold_type_set_size S l2 t1 H2).
  destruct (foldM scan_type_attr l2 t1) as [ta| | |] eqn:E2; cbn [bind]; auto.
  destruct (foldM (process_statement R scope) (gt_stmts td) (O, ([], None))) as [stm| | |]; cbn [bind]; auto.
  repeat split. rewrite (scan_type_no_size _ _ _ H2 E2), (scan_type_no_size _ _ _ H1 E1). reflexivity.
Qed.

Lemma name_regions_defer_or_ok R : forall rs s, name_regions R rs s = Defer \/ exists x, name_regions R rs s = Ok x.
Proof.
  induction rs as [|r rs IH]; intros s; cbn [name_regions]; [right; eauto|].
  destruct (size_of R (r_type r)) as [rsz|]; [|now left].
  destruct (IH (s + rsz)%N) as [->|[x ->]]; cbn [bind]; [now left | right; eauto].
Qed.

Lemma name_regions_defer_app R : forall l l' s, name_regions R l s = Defer -> name_regions R (l ++ l') s = Defer.
Proof.
  induction l as [|r l IH]; intros l' s H; cbn [name_regions app] in *; [discriminate|].
  destruct (size_of R (r_type r)) as [rsz|]; [|reflexivity].
  destruct (name_regions R l (s + rsz)%N) as [x| | |] eqn:E; cbn [bind] in H; try discriminate.
  now rewrite (IH _ _ E).
Qed.

Lemma resolve_regions_size_nonok st owner v pending vfs S :
  (forall x, resolve_regions st owner v None pending vfs <> Ok x) ->
  cls_eq (resolve_regions st owner v None pending vfs) (resolve_regions st owner v (Some S) pending vfs).
Proof.
  unfold resolve_regions. intros Hn.
  destruct (first_base_unresolved (st_reg st) _); [exact I|].
  destruct (vftable_build st owner v _ vfs) as [[[st' vt] vr]| | |]; cbn [bind cls_eq] in *; try exact I.
  set (R := st_reg st') in *.
  destruct (match vr with Some r => defer_opt (regions_push R ([], 0%N) r) | None => Ok ([], 0%N) end) as [acc0| | |];
    cbn [bind cls_eq] in *; try exact I.
  destruct (foldM (push_pending R) pending acc0) as [[rs1 l1]| | |]; cbn [bind cls_eq fst snd] in *; try exact I.
  destruct (name_regions_defer_or_ok R rs1 0%N) as [Hd|[x Hx]].
  2:{ exfalso. rewrite Hx in Hn. cbn [bind] in Hn. eapply Hn. reflexivity. }
  rewrite Hd. cbn [bind].
  destruct (l1 <? S)%N; cbn [bind fst]; [|rewrite Hd; exact I].
  rewrite regions_push_frame. destruct (regions_push R ([], l1) _) as [[d l2]|]; cbn [option_map defer_opt bind fst snd]; [|exact I].
  rewrite (name_regions_defer_app R rs1 d 0%N Hd). exact I.
Qed.

Lemma resolve_regions_size st owner v pending vfs S :
  (forall st' regions vt sz, resolve_regions st owner v None pending vfs = Ok (st', regions, vt, sz) -> sz = S) ->
  cls_eq (resolve_regions st owner v None pending vfs) (resolve_regions st owner v (Some S) pending vfs).
Proof.
  intros H. destruct (resolve_regions st owner v None pending vfs) as [[[[st' rg] vt] sz]| | |] eqn:E.
  - pose proof (H _ _ _ _ eq_refl) as ->. rewrite (resolve_regions_natural_size _ _ _ _ _ _ _ _ _ E). reflexivity.
  - rewrite <- E. apply resolve_regions_size_nonok. rewrite E. discriminate.
  - rewrite <- E. apply resolve_regions_size_nonok. rewrite E. discriminate.
  - rewrite <- E. apply resolve_regions_size_nonok. rewrite E. discriminate.
Qed.

Theorem size_type_build st p v td td' S :
  shape_size td td' S ->
  (forall sz, natural_size_in st p v td sz -> sz = S) ->
  cls_eq (snd (type_build st p v td)) (snd (type_build st p v td')).
Proof.
  intros Hsh Hcond. rewrite !type_build_snd.
  destruct (path_parent p) as [parent|] eqn:Epar; [|apply cls_eq_refl].
  destruct (alookup parent (st_modules st)) as [module|] eqn:Emod; [|apply cls_eq_refl].
  pose proof (type_pre_size (st_reg st) (module_scope module) td td' S Hsh) as Hpre.
  destruct (type_pre (st_reg st) (module_scope module) td) as [[[doc ta] [pending vfs]]| | |] eqn:E1,
           (type_pre (st_reg st) (module_scope module) td') as [[[doc' ta'] [pending' vfs']]| | |];
    try contradiction; cbn [cls_eq]; auto.
  destruct Hpre as (<- & Hss & -> & Hnone). inversion Hss; subst pending' vfs'.
  apply type_rest_cls; [repeat split|]. cbn [set_size ta_size]. rewrite Hnone.
  apply resolve_regions_size. intros st' regions vt sz Hrr. apply Hcond.
  exists parent, module, doc, ta, pending, vfs, st', regions, vt. auto.
Qed.
