(** * Lemmas about function::build (C05, C16) *)
From Coq Require Import List NArith ZArith Bool Lia String.
From PyxisModel Require Import Base Grammar SemTypes Registry Sem SemLemmas.
Import ListNotations.
Local Open Scope string_scope.

Lemma mapM_ok {A B} (f : A -> outcome B) : forall l l',
  mapM f l = Ok l' -> Forall2 (fun a b => f a = Ok b) l l'.
Proof.
  induction l as [|a l IH]; intros l' H; cbn [mapM] in H.
  - inversion H. constructor.
  - inv_bind H. inv_bind H. inversion H; subst. constructor; auto.
Qed.

(** ** SPEC: what the attributes of a function say ("the last one wins") *)
Definition addr_attr (a : gattr) : option Z :=
  match a with
  | AFn name [EInt v] => if String.eqb name "address" then Some v else None
  | _ => None
  end.
Definition cc_attr (a : gattr) : option string :=
  match a with
  | AFn name [EStr c] => if String.eqb name "calling_convention" then Some c else None
  | _ => None
  end.
Definition is_index_attr (a : gattr) : bool :=
  match a with AFn name _ => String.eqb name "index" | _ => false end.
Definition last_some {A B} (f : A -> option B) (l : list A) (init : option B) : option B :=
  fold_left (fun acc a => match f a with Some b => Some b | None => acc end) l init.
Definition declared_address (attrs : list gattr) : option Z := last_some addr_attr attrs None.
Definition declared_cc (attrs : list gattr) : option string := last_some cc_attr attrs None.
Definition has_receiver (args : list garg) : bool :=
  existsb (fun a => match a with GNamed _ _ => false | _ => true end) args.

Lemma last_some_acc {A B} (f : A -> option B) : forall l b, last_some f l (Some b) <> None.
Proof.
  unfold last_some. induction l as [|x l IH]; intros b; cbn [fold_left]; [discriminate|].
  destruct (f x); apply IH.
Qed.

(** ** one step of the scan, seen through the two projections *)
Lemma scan_fn_attr_step is_vfunc b c a b' c' :
  scan_fn_attr is_vfunc (b, c) a = Ok (b', c') ->
  (* calling convention *)
  (match cc_attr a with
   | Some s => cc_of_string s = Some (match c' with Some x => x | None => CC_C end) /\ c' <> None
   | None => c' = c
   end) /\
  (* body *)
  (match addr_attr a with
   | Some v => is_vfunc = false /\ exists n, z_to_usize v = Some n /\ b' = Some (BAddress n)
   | None => b' = b
   end) /\
  (is_index_attr a = true -> is_vfunc = true).
Proof.
  unfold scan_fn_attr, cc_attr, addr_attr, is_index_attr.
  destruct a as [n|n args|n e]; cbn [fst snd].
  - intros H; inversion H; subst. repeat split; auto; try discriminate.
  - destruct (String.eqb n "address") eqn:Ea.
    + apply String.eqb_eq in Ea. subst n. cbn [String.eqb Ascii.eqb Bool.eqb].
      destruct args as [|[v|?|?] [|? ?]]; try solve [intros H; inversion H; subst; repeat split; auto; try discriminate].
      destruct is_vfunc; [discriminate|].
      destruct (z_to_usize v) as [nn|] eqn:Ez; [|discriminate].
      intros H; inversion H; subst. repeat split; eauto; try discriminate.
    + destruct (String.eqb n "index") eqn:Ei.
      * apply String.eqb_eq in Ei. subst n. cbn [String.eqb Ascii.eqb Bool.eqb].
        destruct is_vfunc; [|discriminate]. intros H; inversion H; subst.
        destruct args as [|[?|?|?] [|? ?]]; repeat split; auto.
      * destruct (String.eqb n "calling_convention") eqn:Ec.
        -- destruct args as [|[?|s|?] [|? ?]]; try solve [intros H; inversion H; subst; repeat split; auto; try discriminate].
           destruct (cc_of_string s) as [x|] eqn:Es; [|discriminate].
           intros H; inversion H; subst. repeat split; auto; try discriminate.
        -- intros H; inversion H; subst.
           destruct args as [|[?|?|?] [|? ?]]; repeat split; auto; try discriminate.
  - intros H; inversion H; subst. repeat split; auto; try discriminate.
Qed.

Lemma scan_fn_attrs_spec is_vfunc : forall attrs b c b' c',
  foldM (scan_fn_attr is_vfunc) attrs (b, c) = Ok (b', c') ->
  (* convention: the last calling_convention attribute, which names a supported convention *)
  match last_some cc_attr attrs None with
  | Some s => exists x, cc_of_string s = Some x /\ c' = Some x
  | None => c' = c
  end /\
  (forall s, In s (flat_map (fun a => match cc_attr a with Some s => [s] | None => [] end) attrs) ->
             cc_of_string s <> None) /\
  (* body: bound to the last address attribute *)
  match last_some addr_attr attrs None with
  | Some v => is_vfunc = false /\ exists n, z_to_usize v = Some n /\ b' = Some (BAddress n)
  | None => b' = b
  end /\
  (existsb is_index_attr attrs = true -> is_vfunc = true).
Proof.
  (* strengthen: arbitrary initial accumulators of the two "last" scans *)
  assert (G : forall attrs b c b' c' ic ia,
    foldM (scan_fn_attr is_vfunc) attrs (b, c) = Ok (b', c') ->
    (match ic with Some s => exists x, cc_of_string s = Some x /\ c = Some x | None => True end) ->
    (match ia with Some v => is_vfunc = false /\ exists n, z_to_usize v = Some n /\ b = Some (BAddress n) | None => True end) ->
    match last_some cc_attr attrs ic with
    | Some s => exists x, cc_of_string s = Some x /\ c' = Some x
    | None => c' = c
    end /\
    (forall s, In s (flat_map (fun a => match cc_attr a with Some s => [s] | None => [] end) attrs) ->
               cc_of_string s <> None) /\
    match last_some addr_attr attrs ia with
    | Some v => is_vfunc = false /\ exists n, z_to_usize v = Some n /\ b' = Some (BAddress n)
    | None => b' = b
    end /\
    (existsb is_index_attr attrs = true -> is_vfunc = true)).
  { induction attrs as [|a attrs IH]; intros b c b' c' ic ia H Hic Hia; cbn [foldM] in H.
    - inversion H; subst. unfold last_some. cbn [fold_left flat_map existsb].
      repeat split; try (destruct ic; auto); try (destruct ia; auto); try tauto; try discriminate.
    - inv_bind H. destruct a0 as [b1 c1].
      destruct (scan_fn_attr_step _ _ _ _ _ _ Ha) as (S1 & S2 & S3).
      unfold last_some in *. cbn [fold_left flat_map existsb].
      destruct (cc_attr a) as [s|] eqn:Ecc; destruct (addr_attr a) as [v|] eqn:Ead.
      + destruct S1 as [E N]. destruct c1 as [x|]; [|congruence]. cbn in E.
        destruct (IH b1 (Some x) b' c' (Some s) (Some v) H) as (I1 & I2 & I3 & I4); eauto.
        pose proof (last_some_acc cc_attr attrs s) as K1. pose proof (last_some_acc addr_attr attrs v) as K2.
        unfold last_some in K1, K2.
        destruct (fold_left _ attrs (Some s)); [|congruence].
        destruct (fold_left _ attrs (Some v)); [|congruence].
        split; [exact I1|]. split; [|split; [exact I3|]].
        * intros sx [<-|Hs]; [congruence | auto].
        * intros Hx. apply orb_true_iff in Hx as [Hx|Hx]; auto.
      + destruct S1 as [E N]. destruct c1 as [x|]; [|congruence]. cbn in E. subst b1.
        destruct (IH b (Some x) b' c' (Some s) ia H) as (I1 & I2 & I3 & I4); eauto.
        pose proof (last_some_acc cc_attr attrs s) as K1. unfold last_some in K1.
        destruct (fold_left _ attrs (Some s)); [|congruence].
        split; [exact I1|]. split; [|split; [exact I3|]].
        * intros sx [<-|Hs]; [congruence | auto].
        * intros Hx. apply orb_true_iff in Hx as [Hx|Hx]; auto.
      + subst c1.
        destruct (IH b1 c b' c' ic (Some v) H) as (I1 & I2 & I3 & I4); eauto.
        pose proof (last_some_acc addr_attr attrs v) as K2. unfold last_some in K2.
        destruct (fold_left _ attrs (Some v)); [|congruence].
        split; [exact I1|]. split; [exact I2|]. split; [exact I3|].
        intros Hx. apply orb_true_iff in Hx as [Hx|Hx]; auto.
      + subst c1 b1.
        destruct (IH b c b' c' ic ia H) as (I1 & I2 & I3 & I4); eauto.
        split; [exact I1|]. split; [exact I2|]. split; [exact I3|].
        intros Hx. apply orb_true_iff in Hx as [Hx|Hx]; auto. }
  intros attrs b c b' c' H. exact (G attrs b c b' c' None None H I I).
Qed.

(** ** function_build: signature, body and convention as declared (C05, C16) *)
Definition cc_spec (f : gfunction) : option cc :=
  match declared_cc (gf_attrs f) with
  | Some s => cc_of_string s
  | None => Some (if has_receiver (gf_args f) then CC_Thiscall else CC_System)
  end.

Lemma resolve_arg_self R scope a b : resolve_arg R scope a = Ok b ->
  sarg_is_self b = match a with GNamed _ _ => false | _ => true end.
Proof.
  destruct a; cbn; intros H; try (inversion H; reflexivity).
  destruct (resolve_gtype R scope t); inversion H. reflexivity.
Qed.

Theorem function_build_spec R scope is_vfunc f sf :
  function_build R scope is_vfunc f = Ok sf ->
  sf_name sf = gf_name f /\ sf_vis sf = gf_vis f /\
  attrs_doc (gf_attrs f) = Ok (sf_doc sf) /\
  (* arguments: the declared ones, in order, each with its resolved type *)
  Forall2 (fun a b => resolve_arg R scope a = Ok b) (gf_args f) (sf_args sf) /\
  (* return type: the declared one, resolved; never dropped *)
  match gf_ret f with
  | Some t => exists t', resolve_gtype R scope t = Some t' /\ sf_ret sf = Some t'
  | None => sf_ret sf = None
  end /\
  (* calling convention *)
  cc_spec f = Some (sf_cc sf) /\
  (* body *)
  (if is_vfunc then sf_body sf = BVftable (gf_name f) /\ declared_address (gf_attrs f) = None
   else exists a n, declared_address (gf_attrs f) = Some a /\ z_to_usize a = Some n /\
                    sf_body sf = BAddress n).
Proof.
  unfold function_build. intros H.
  inv_bind H. rename a into doc. inv_bind H. destruct a as [body ccopt].
  destruct (scan_fn_attrs_spec _ _ _ _ _ _ Ha0) as (Hcc & _ & Haddr & _).
  cbn [fst snd] in H. destruct body as [body|]; [|discriminate].
  inv_bind H. rename a into args. inv_bind H. rename a into ret.
  inversion H; subst sf. clear H. cbn [sf_name sf_vis sf_doc sf_args sf_ret sf_cc sf_body].
  pose proof (mapM_ok _ _ _ Ha1) as Hargs.
  repeat split; auto.
  - destruct (gf_ret f) as [t|]; [|inversion Ha2; reflexivity].
    destruct (resolve_gtype R scope t) as [t'|]; inversion Ha2. eauto.
  - unfold cc_spec, declared_cc. destruct (last_some cc_attr (gf_attrs f) None) as [s|].
    + destruct Hcc as (x & Hx & ->). exact Hx.
    + subst ccopt. f_equal.
      assert (existsb sarg_is_self args = has_receiver (gf_args f)) as ->; [|reflexivity].
      unfold has_receiver. clear - Hargs. induction Hargs as [|a b la lb Hab _ IH]; [reflexivity|].
      cbn [existsb]. rewrite IH. f_equal. eapply resolve_arg_self; eauto.
  - unfold declared_address. destruct is_vfunc.
    + destruct (last_some addr_attr (gf_attrs f) None) as [v|].
      * destruct Haddr as [E _]. discriminate.
      * inversion Haddr. auto.
    + destruct (last_some addr_attr (gf_attrs f) None) as [v|].
      * destruct Haddr as (_ & n & Hn & Hb). inversion Hb; subst. eauto.
      * discriminate.
Qed.

(** the rejections C05 and C16 name *)
Theorem function_build_rejects R scope f :
  (declared_address (gf_attrs f) = None -> ~ is_ok (function_build R scope false f) = true) /\
  (forall s, In s (flat_map (fun a => match cc_attr a with Some s => [s] | None => [] end) (gf_attrs f)) ->
             cc_of_string s = None -> forall v, ~ is_ok (function_build R scope v f) = true) /\
  (forall n t, In (GNamed n t) (gf_args f) -> resolve_gtype R scope t = None ->
               forall v, ~ is_ok (function_build R scope v f) = true) /\
  (forall t, gf_ret f = Some t -> resolve_gtype R scope t = None ->
             forall v, ~ is_ok (function_build R scope v f) = true).
Proof.
  repeat split.
  - intros Hd Hok. destruct (function_build R scope false f) as [sf| | |] eqn:E; try discriminate.
    destruct (function_build_spec _ _ _ _ _ E) as (_ & _ & _ & _ & _ & _ & (a & n & Ha & _)). congruence.
  - intros s Hs Hn v Hok. destruct (function_build R scope v f) as [sf| | |] eqn:E; try discriminate.
    unfold function_build in E. inv_bind E. inv_bind E. destruct a0 as [b c].
    destruct (scan_fn_attrs_spec _ _ _ _ _ _ Ha0) as (_ & Hall & _). exact (Hall s Hs Hn).
  - intros n t Hin Hr v Hok. destruct (function_build R scope v f) as [sf| | |] eqn:E; try discriminate.
    destruct (function_build_spec _ _ _ _ _ E) as (_ & _ & _ & Hargs & _).
    clear - Hargs Hin Hr. induction Hargs as [|a b la lb Hab _ IH]; [destruct Hin|].
    destruct Hin as [->|Hin]; [|auto]. cbn in Hab. rewrite Hr in Hab. discriminate.
  - intros t Ht Hr v Hok. destruct (function_build R scope v f) as [sf| | |] eqn:E; try discriminate.
    destruct (function_build_spec _ _ _ _ _ E) as (_ & _ & _ & _ & Hret & _).
    rewrite Ht in Hret. destruct Hret as (t' & Ht' & _). congruence.
Qed.
