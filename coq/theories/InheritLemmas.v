(** * Inheritance: vftable sharing (C06) and re-exposed base members (C07) *)
From Coq Require Import List NArith ZArith Bool Lia String.
From PyxisModel Require Import Base Grammar SemTypes Registry Sem SemLemmas.
Import ListNotations.
Local Open Scope string_scope.
Local Open Scope list_scope.

(** ** C06 *)
(** position by position, the derived table repeats the base's slots (record equality on name,
    receiver and parameters, return type, convention -- and, as the code demands, visibility, doc
    and body kind) *)
Lemma prefix_equal_nth : forall base derived,
  prefix_equal base derived = true -> (List.length base <= List.length derived)%nat ->
  forall k b, nth_error base k = Some b ->
  exists d, nth_error derived k = Some d /\ sfunction_eqb b d = true.
Proof.
  induction base as [|b0 base IH]; intros derived H Hlen k b Hk; [destruct k; discriminate|].
  destruct derived as [|d0 derived]; [cbn in Hlen; lia|].
  cbn [prefix_equal] in H. apply andb_prop in H as [H0 H1].
  destruct k as [|k]; cbn [nth_error] in *.
  - inversion Hk; subst. eauto.
  - eapply IH; eauto. cbn in Hlen. lia.
Qed.

Lemma sfunction_eqb_fields a b : sfunction_eqb a b = true ->
  sf_name a = sf_name b /\ sf_cc a = sf_cc b \/ True.
Proof. auto. Qed.

Lemma cc_eqb_eq a b : cc_eqb a b = true -> a = b.
Proof. destruct a, b; cbn; congruence. Qed.

Lemma sfunction_eqb_proj a b : sfunction_eqb a b = true ->
  sf_name a = sf_name b /\ sf_cc a = sf_cc b /\ sf_vis a = sf_vis b /\
  list_eqb sarg_eqb (sf_args a) (sf_args b) = true /\
  opt_eqb stype_eqb (sf_ret a) (sf_ret b) = true.
Proof.
  unfold sfunction_eqb. intros H.
  repeat (apply andb_prop in H as [H ?]).
  repeat split; auto.
  - now apply String.eqb_eq.
  - now apply cc_eqb_eq.
  - destruct (sf_vis a), (sf_vis b); cbn in *; congruence.
Qed.

Theorem vftable_build_with_base st owner v fb vfs st' vt vr base_name bvt :
  owner <> [] ->
  vftable_build st owner v (Some fb) vfs = Ok (st', vt, vr) ->
  opt_region_name_and_vftable (st_reg st') (Some fb) = Ok (Some (base_name, bvt)) ->
  vr = None /\
  match vfs with
  | Some fs =>
    prefix_equal (vt_functions bvt) fs = true /\
    (List.length (vt_functions bvt) <= List.length fs)%nat /\
    exists vp, vftable_path owner = Some vp /\
      vt = Some {| vt_functions := fs; vt_base_field := Some base_name; vt_type := TConstPtr (TRaw vp) |}
  | None =>
    st' = st /\
    vt = Some {| vt_functions := vt_functions bvt; vt_base_field := Some base_name; vt_type := vt_type bvt |}
  end.
Proof.
  intros Hne. unfold vftable_build. destruct vfs as [fs|].
  - destruct (vftable_item (st_reg st) owner v fs) as [vit|] eqn:Ei.
    2:{ exfalso. unfold vftable_item, vftable_path, path_last, path_parent in Ei.
        destruct owner; [congruence | discriminate]. }
    intros H Hb. inv_bind H. rename a into st1. inv_bind H.
    destruct a as [[bn bv]|].
    + destruct (Nat.ltb _ _) eqn:El; [discriminate|]. destruct (negb _) eqn:Ep; [discriminate|].
      inversion H; subst st' vt vr. rewrite Ha0 in Hb. inversion Hb; subst bn bv.
      split; [reflexivity|]. apply negb_false_iff in Ep. apply Nat.ltb_ge in El.
      split; [exact Ep|]. split; [exact El|].
      unfold vftable_item in Ei. destruct (vftable_path owner) as [vp|]; [|discriminate].
      inversion Ei; subst vit. exists vp. split; reflexivity.
    + inversion H; subst st' vt vr. rewrite Ha0 in Hb. discriminate.
  - intros H Hb. inv_bind H. destruct a as [[bn bv]|]; inversion H; subst st' vt vr.
    + rewrite Ha in Hb. inversion Hb; subst. auto.
    + rewrite Ha in Hb. discriminate.
Qed.

(** ** C07 *)
Definition forwards (base : string) (g f' : sfunction) : Prop :=
  sf_body f' = BField base (sf_name g) /\ sf_args f' = sf_args g /\ sf_ret f' = sf_ret g /\
  sf_vis f' = sf_vis g /\ sf_doc f' = sf_doc g /\ sf_cc f' = sf_cc g.

Lemma add_functions_spec base : forall fs acc,
  exists new,
    fst (add_functions base fs acc) = fst acc ++ new /\
    Forall2 (forwards base) (filter sf_is_public fs) new /\
    (* naming: own name when still free, else <field>_<name> *)
    (forall used0, used0 = snd acc ->
       Forall2 (fun g f' => sf_name f' = sf_name g \/ sf_name f' = base +++ "_" +++ sf_name g)
               (filter sf_is_public fs) new).
Proof.
  unfold add_functions. induction fs as [|g fs IH]; intros acc; cbn [fold_left filter].
  - exists []. rewrite app_nil_r. repeat split; constructor.
  - destruct (sf_is_public g) eqn:Ep.
    + set (name := if str_mem (sf_name g) (snd acc) then base +++ "_" +++ sf_name g else sf_name g).
      set (f' := {| sf_vis := sf_vis g; sf_name := name; sf_doc := sf_doc g;
                    sf_body := BField base (sf_name g); sf_args := sf_args g;
                    sf_ret := sf_ret g; sf_cc := sf_cc g |}).
      destruct (IH (fst acc ++ [f'], name :: snd acc)) as (new & Hout & Hf & Hn).
      exists (f' :: new). cbn [fst snd] in *. split; [rewrite Hout, <- app_assoc; reflexivity|].
      split.
      * constructor; [|exact Hf]. unfold forwards. cbn. repeat split.
      * intros used0 _. constructor; [|eapply Hn; reflexivity].
        cbn. unfold name. destruct (str_mem _ _); auto.
    + exact (IH acc).
Qed.

(** the first occurrence keeps its name exactly when that name is unused so far *)
Lemma add_functions_first_name base g fs acc :
  sf_is_public g = true ->
  exists f' rest,
    fst (add_functions base (g :: fs) acc) = fst acc ++ f' :: rest /\
    sf_name f' = (if str_mem (sf_name g) (snd acc) then base +++ "_" +++ sf_name g else sf_name g) /\
    forwards base g f'.
Proof.
  intros Hp. unfold add_functions. cbn [fold_left]. rewrite Hp.
  set (name := if str_mem (sf_name g) (snd acc) then base +++ "_" +++ sf_name g else sf_name g).
  set (f' := {| sf_vis := sf_vis g; sf_name := name; sf_doc := sf_doc g;
                sf_body := BField base (sf_name g); sf_args := sf_args g;
                sf_ret := sf_ret g; sf_cc := sf_cc g |}).
  destruct (add_functions_spec base fs (fst acc ++ [f'], name :: snd acc)) as (new & Hout & _).
  exists f', new. unfold add_functions in Hout. cbn [fst snd] in *.
  rewrite Hout, <- app_assoc. repeat split.
Qed.

(** all bases, in region order: each resolved base contributes its public associated functions,
    and (except the first) its public virtual functions *)
Fixpoint base_contributions (R : registry) (bases : list region) (i : nat)
  : outcome (list (string * list sfunction)) :=
  match bases with
  | [] => Ok []
  | b :: rest =>
    do x <- region_name_and_typedef R b;
    do tl <- base_contributions R rest (S i);
    match x with
    | None => Ok tl
    | Some (name, td) =>
      Ok ((name, filter sf_is_public (td_assoc td) ++
                 match i, td_vftable td with
                 | S _, Some vt => filter sf_is_public (vt_functions vt)
                 | _, _ => []
                 end) :: tl)
    end
  end.

Theorem inject_bases_spec R : forall bases i acc acc',
  inject_bases R bases i acc = Ok acc' ->
  exists contribs news,
    base_contributions R bases i = Ok contribs /\
    fst acc' = fst acc ++ List.concat news /\
    Forall2 (fun c new => Forall2 (forwards (fst c)) (snd c) new) contribs news.
Proof.
  induction bases as [|b bases IH]; intros i acc acc' H; cbn [inject_bases base_contributions] in *.
  - inversion H; subst. exists [], []. cbn. rewrite app_nil_r. repeat split; constructor.
  - inv_bind H. rewrite Ha. cbn [bind]. destruct a as [[name td]|].
    + set (acc1 := add_functions name (td_assoc td) acc) in *.
      set (acc2 := match i, td_vftable td with
                   | S _, Some vt => add_functions name (vt_functions vt) acc1
                   | _, _ => acc1 end) in *.
      destruct (IH _ _ _ H) as (contribs & news & Hc & Hout & Hall).
      rewrite Hc. cbn [bind].
      destruct (add_functions_spec name (td_assoc td) acc) as (new1 & Ho1 & Hf1 & _).
      fold acc1 in Ho1.
      assert (exists new2, fst acc2 = fst acc1 ++ new2 /\
                Forall2 (forwards name) (match i, td_vftable td with
                                         | S _, Some vt => filter sf_is_public (vt_functions vt)
                                         | _, _ => [] end) new2) as (new2 & Ho2 & Hf2).
      { unfold acc2. destruct i as [|i']; [exists []; rewrite app_nil_r; split; [reflexivity|constructor]|].
        destruct (td_vftable td) as [vt|]; [|exists []; rewrite app_nil_r; split; [reflexivity|constructor]].
        destruct (add_functions_spec name (vt_functions vt) acc1) as (n2 & A & B & _). eauto. }
      eexists; exists ((new1 ++ new2) :: news). split; [reflexivity|].
      split.
      * rewrite Hout, Ho2, Ho1. cbn [List.concat]. now rewrite <- !app_assoc.
      * constructor; [|exact Hall]. cbn [fst snd]. apply Forall2_app; assumption.
    + destruct (IH _ _ _ H) as (contribs & news & Hc & Hout & Hall).
      rewrite Hc. cbn [bind]. exists contribs, news. auto.
Qed.
