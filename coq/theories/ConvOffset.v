(** * ConvOffset: the address the emitted conversions return.

    C07, second half (AsRef/AsMut), part 4.  The body of an emitted conversion is the borrow of the
    place [self.f1.f2...fn].  SPEC side (next to RustExec.v):
    - [path_offset R rs f rest]: the byte offset (and the type) of the place [.f.rest...] in a struct
      with regions [rs]: fields are looked up BY NAME ([RustExec.field_offset], as Rust does), and a
      field is entered only when its type is a user type resolved to a struct;
      [place_addr]: the address the borrow denotes, [self + offset] (the convention of
      [RustExec.call_method] for [self.FIELD.NAME(..)]).
    - [sub_at R rs fp off t]: "the base's ACTUAL offset": along the chain of nested base sub-objects
      [fp] names, the sum of the prefix-sum offsets ([PlacementLemmas.offsets_of], i.e. RustLayout's
      [prefix_sums] of the region sizes: the repr(C) offsets when nothing is padded, which by C01/C02
      are the declared addresses) of each base region (found BY POSITION, the region the hierarchy
      walk visited) in the struct that contains it.
    Proved:
    - [hierarchy_sub_at]: every hierarchy entry [(pre ++ fp, t)] has its chain: [sub_at R rs fp off t];
    - [sub_at_path_offset]: when along the chain every region is sized and region names are
      distinct ([hier_ok]), the name-based [path_offset] of [fp] exists and is that sum, with type [t];
    - [hierarchy_path_offset]: both together, for every entry of the hierarchy;
    - [path_offset_app]: the offset of [fp1 ++ fp2] is the offset of [fp1] plus the offset of [fp2]
      in the type of [fp1] (converting to a transitive base = converting to the direct base, then
      converting inside it);
    - [hier_okb_sound]: a boolean checker for [hier_ok] (for examples). *)
From Coq Require Import List String NArith Bool Lia.
From PyxisModel Require Import Base Grammar SemTypes Registry Sem SemLemmas RustLayout LayoutLemmas
     PlacementLemmas RustExec ExecLemmas HierSpec.
Import ListNotations.
Local Open Scope N_scope.

(** ** the place [self.f.rest...] *)
Fixpoint path_offset (R : registry) (rs : list region) (f : string) (rest : list string) : option (N * stype) :=
  match field_offset R rs f 0 with
  | None => None
  | Some (off, ty) =>
    match rest with
    | [] => Some (off, ty)
    | g :: rest' =>
      match ty with
      | TRaw bp =>
        match typedef_of R bp with
        | Some btd => match path_offset R (td_regions btd) g rest' with
                      | Some (o, t) => Some (off + o, t)
                      | None => None
                      end
        | None => None
        end
      | _ => None
      end
    end
  end.

(** a field path; the empty path is the object itself and has no field type *)
Definition place_offset (R : registry) (td : type_def) (fp : list string) : option (N * option stype) :=
  match fp with
  | [] => Some (0, None)
  | f :: rest => option_map (fun x => (fst x, Some (snd x))) (path_offset R (td_regions td) f rest)
  end.
(** the address [&self.fp] / [&mut self.fp] denotes for an object at [self] *)
Definition place_addr (R : registry) (td : type_def) (self : N) (fp : list string) : option N :=
  option_map (fun x => self + fst x) (place_offset R td fp).

Lemma path_offset_single R rs f : path_offset R rs f [] = field_offset R rs f 0.
Proof. cbn [path_offset]. destruct (field_offset R rs f 0) as [[off ty]|]; reflexivity. Qed.

Lemma path_offset_cons R rs f g rest off bp btd :
  field_offset R rs f 0 = Some (off, TRaw bp) -> typedef_of R bp = Some btd ->
  path_offset R rs f (g :: rest)
  = match path_offset R (td_regions btd) g rest with Some (o, t) => Some (off + o, t) | None => None end.
Proof. intros H1 H2. cbn [path_offset]. now rewrite H1, H2. Qed.

(** composition: into a sub-object, then inside it *)
Theorem path_offset_app R : forall fp1 rs f g fp2 off1 bp btd,
  path_offset R rs f fp1 = Some (off1, TRaw bp) -> typedef_of R bp = Some btd ->
  path_offset R rs f (fp1 ++ g :: fp2)
  = match path_offset R (td_regions btd) g fp2 with Some (o, t) => Some (off1 + o, t) | None => None end.
Proof.
  induction fp1 as [|f' fp1 IH]; intros rs f g fp2 off1 bp btd H Htd.
  - rewrite path_offset_single in H. cbn [app]. now apply (path_offset_cons R rs f g fp2 off1 bp btd).
  - cbn [app]. cbn [path_offset] in H |- *.
    destruct (field_offset R rs f 0) as [[off ty]|]; [|discriminate].
    destruct ty as [q| | | |]; try discriminate.
    destruct (typedef_of R q) as [qtd|]; [|discriminate].
    destruct (path_offset R (td_regions qtd) f' fp1) as [[o t]|] eqn:E; [|discriminate].
    inversion H; subst. rewrite (IH _ _ _ _ _ _ _ E Htd).
    destruct (path_offset R (td_regions btd) g fp2) as [[o' t']|]; [|reflexivity].
    f_equal. f_equal. lia.
Qed.

(** ** the base's actual offset *)
(** [sub_from R start rs fp off t]: [fp] names a chain of nested base sub-objects, the first one a
    region of [rs] (laid out from offset [start]), each next one a region of the type of the one
    before (laid out from 0); [off] is the sum of their prefix-sum offsets, [t] the type of the last *)
Inductive sub_from (R : registry) : N -> list region -> list string -> N -> stype -> Prop :=
| sub_here start rs r off name bp btd :
    In (off, r) (offsets_of R start rs) -> base_of R r name bp btd ->
    sub_from R start rs [name] off (TRaw bp)
| sub_deeper start rs r off name bp btd rest off' t :
    In (off, r) (offsets_of R start rs) -> base_of R r name bp btd ->
    sub_from R 0 (td_regions btd) rest off' t ->
    sub_from R start rs (name :: rest) (off + off') t.
Definition sub_at (R : registry) (rs : list region) : list string -> N -> stype -> Prop := sub_from R 0 rs.

Lemma offsets_of_cons R start r rs :
  offsets_of R start (r :: rs) = (start, r) :: offsets_of R (start + fst (region_sa R r)) rs.
Proof. unfold offsets_of. cbn [map prefix_sums combine]. destruct (region_sa R r). reflexivity. Qed.

Lemma sub_from_skip R start r rs fp off t :
  sub_from R (start + fst (region_sa R r)) rs fp off t -> sub_from R start (r :: rs) fp off t.
Proof.
  intros H. inversion H; subst.
  - eapply sub_here; eauto. rewrite offsets_of_cons. now right.
  - eapply sub_deeper; eauto. rewrite offsets_of_cons. now right.
Qed.

(** every entry of the hierarchy has its chain of base sub-objects *)
Lemma hierarchy_sub_from R rs pre h : bases_regs R rs pre h -> forall start,
  Forall (fun x => exists fp off, fst x = pre ++ fp /\ sub_from R start rs fp off (snd x)) h.
Proof.
  induction 1 as [pre|r rs pre h Hb _ IH|r rs pre h Hp _ IH|r rs pre name bp btd sub h Hb _ IHs _ IHr]; intros start.
  - constructor.
  - specialize (IH (start + fst (region_sa R r))). revert IH. apply Forall_impl.
    intros x (fp & off & E & S). exists fp, off. split; [exact E | now apply sub_from_skip].
  - specialize (IH (start + fst (region_sa R r))). revert IH. apply Forall_impl.
    intros x (fp & off & E & S). exists fp, off. split; [exact E | now apply sub_from_skip].
  - constructor; [|apply Forall_app; split].
    + exists [name], start. split; [reflexivity|]. eapply sub_here; eauto. rewrite offsets_of_cons. now left.
    + specialize (IHs 0). revert IHs. apply Forall_impl. intros x (fp & off & E & S).
      exists (name :: fp), (start + off). split; [rewrite E, <- app_assoc; reflexivity|].
      eapply sub_deeper; eauto. rewrite offsets_of_cons. now left.
    + specialize (IHr (start + fst (region_sa R r))). revert IHr. apply Forall_impl.
      intros x (fp & off & E & S). exists fp, off. split; [exact E | now apply sub_from_skip].
Qed.

Theorem hierarchy_sub_at R td h : bases_of R td [] h ->
  Forall (fun x => exists off, sub_at R (td_regions td) (fst x) off (snd x)) h.
Proof.
  intros H. pose proof (hierarchy_sub_from _ _ _ _ H 0) as F. revert F. apply Forall_impl.
  intros x (fp & off & E & S). cbn [app] in E. subst fp. now exists off.
Qed.

(** ** by name = by position, when regions are sized and names are distinct *)
Definition region_names (rs : list region) : list string :=
  flat_map (fun r => match r_name r with Some n => [n] | None => [] end) rs.
Definition regions_ok (R : registry) (rs : list region) : Prop :=
  Forall (fun r => size_of R (r_type r) <> None) rs /\ NoDup (region_names rs).
(** the regions of a type and, recursively, of the types of its bases *)
Inductive hier_ok (R : registry) : list region -> Prop :=
| hier_ok_intro rs :
    regions_ok R rs ->
    (forall r name bp btd, In r rs -> base_of R r name bp btd -> hier_ok R (td_regions btd)) ->
    hier_ok R rs.

Lemma in_offsets_split R : forall rs start off r, In (off, r) (offsets_of R start rs) ->
  exists l1 l2, rs = l1 ++ r :: l2 /\ off = total start (map (region_sa R) l1).
Proof.
  induction rs as [|r0 rs IH]; intros start off r H; [destruct H|].
  rewrite offsets_of_cons in H. destruct H as [H|H].
  - inversion H; subst. exists [], rs. split; reflexivity.
  - destruct (IH _ _ _ H) as (l1 & l2 & -> & ->). exists (r0 :: l1), l2. split; [reflexivity|].
    cbn [map total]. destruct (region_sa R r0). reflexivity.
Qed.

Lemma field_offset_split R f : forall l1 r l2 cur,
  Forall (fun r' => size_of R (r_type r') <> None) l1 -> size_of R (r_type r) <> None ->
  r_name r = Some f -> Forall (fun r' => r_name r' <> Some f) l1 ->
  field_offset R (l1 ++ r :: l2) f cur = Some (total cur (map (region_sa R) l1), r_type r).
Proof.
  induction l1 as [|r0 l1 IH]; intros r l2 cur Hs Hr Hn Hf; cbn [app field_offset map total].
  - destruct (size_of R (r_type r)); [|congruence]. now rewrite Hn, String.eqb_refl.
  - inversion Hs; subst. inversion Hf; subst.
    unfold region_sa at 1. destruct (size_of R (r_type r0)) as [s|] eqn:Es; [|congruence].
    assert (match r_name r0 with Some n => String.eqb n f | None => false end = false) as ->.
    { destruct (r_name r0) as [n|]; [|reflexivity]. destruct (String.eqb_spec n f); [subst; congruence | reflexivity]. }
    now apply IH.
Qed.

Lemma region_names_app a b : region_names (a ++ b) = region_names a ++ region_names b.
Proof. unfold region_names. apply flat_map_app. Qed.

Lemma field_offset_by_position R rs off r f :
  regions_ok R rs -> In (off, r) (offsets_of R 0 rs) -> r_name r = Some f ->
  field_offset R rs f 0 = Some (off, r_type r).
Proof.
  intros [Hs Hn] Hin Hf. destruct (in_offsets_split _ _ _ _ _ Hin) as (l1 & l2 & -> & ->).
  apply Forall_app in Hs as [Hs1 Hs2]. inversion Hs2; subst.
  apply field_offset_split; auto.
  rewrite region_names_app in Hn. change (r :: l2) with ([r] ++ l2) in Hn. rewrite region_names_app in Hn.
  unfold region_names at 2 in Hn. cbn [flat_map] in Hn. rewrite Hf in Hn. cbn [app] in Hn.
  apply NoDup_remove_2 in Hn. apply Forall_forall. intros r' Hr' E. apply Hn. apply in_or_app. left.
  unfold region_names. apply in_flat_map. exists r'. split; [exact Hr'|]. rewrite E. now left.
Qed.

(** the name-based offset of the path is the sum along the chain *)
Theorem sub_from_path_offset R start rs fp off t :
  sub_from R start rs fp off t -> start = 0 -> hier_ok R rs ->
  exists f rest, fp = f :: rest /\ path_offset R rs f rest = Some (off, t).
Proof.
  induction 1 as [start rs r off name bp btd Hin Hb|start rs r off name bp btd rest off' t Hin Hb _ IH];
    intros -> Hok; inversion Hok as [rs' Hreg Hsub]; subst rs'.
  - exists name, []. split; [reflexivity|]. rewrite path_offset_single.
    destruct Hb as (_ & Hn & Ht & _). rewrite <- Ht. now apply field_offset_by_position.
  - assert (In r rs) as Hr.
    { destruct (in_offsets_split _ _ _ _ _ Hin) as (l1 & l2 & -> & _). apply in_or_app. right. now left. }
    destruct (IH eq_refl (Hsub _ _ _ _ Hr Hb)) as (g & rest' & -> & Hp).
    exists name, (g :: rest'). split; [reflexivity|].
    pose proof Hb as (_ & Hn & Ht & Htd).
    rewrite (path_offset_cons R rs name g rest' off bp btd); [now rewrite Hp | | exact Htd].
    rewrite <- Ht. now apply field_offset_by_position.
Qed.

Corollary sub_at_path_offset R rs fp off t :
  sub_at R rs fp off t -> hier_ok R rs ->
  exists f rest, fp = f :: rest /\ path_offset R rs f rest = Some (off, t).
Proof. intros H. now apply (sub_from_path_offset _ _ _ _ _ _ H). Qed.

(** for every sub-object of the hierarchy: the place its conversions borrow is at the sub-object's
    actual offset, and has the sub-object's type *)
Theorem hierarchy_path_offset R td h :
  bases_of R td [] h -> hier_ok R (td_regions td) ->
  Forall (fun x => exists off,
            sub_at R (td_regions td) (fst x) off (snd x) /\
            place_offset R td (fst x) = Some (off, Some (snd x)) /\
            forall self, place_addr R td self (fst x) = Some (self + off)) h.
Proof.
  intros H Hok. pose proof (hierarchy_sub_at _ _ _ H) as F. revert F. apply Forall_impl.
  intros x (off & S). exists off. split; [exact S|].
  destruct (sub_at_path_offset _ _ _ _ _ S Hok) as (f & rest & E & P).
  unfold place_addr, place_offset. rewrite E, P. cbn. split; [reflexivity | intros; reflexivity].
Qed.

(** a direct base: the offset is [field_offset] of the base field, the one [C07_exec] uses for the
    forwarded functions, and it is one of the prefix-sum offsets of the struct *)
Corollary direct_base_offset R td h name t :
  bases_of R td [] h -> hier_ok R (td_regions td) -> In ([name], t) h ->
  exists off r, field_offset R (td_regions td) name 0 = Some (off, t) /\
    In (off, r) (offsets_of R 0 (td_regions td)) /\ r_name r = Some name /\ r_type r = t /\
    forall self, place_addr R td self [name] = Some (self + off).
Proof.
  intros H Hok Hin. pose proof (hierarchy_path_offset _ _ _ H Hok) as F. rewrite Forall_forall in F.
  destruct (F _ Hin) as (off & _ & P & A). cbn [fst snd] in *.
  unfold place_offset in P. rewrite path_offset_single in P.
  destruct (field_offset R (td_regions td) name 0) as [[o ty]|] eqn:E; [|discriminate].
  cbn in P. inversion P; subst o ty.
  destruct (field_offset_in_offsets _ _ _ _ _ _ E) as (r & I & N & T). exists off, r. auto.
Qed.

(** ** [hier_ok] from the types that occur in the hierarchy
    it is enough that the regions of the type itself and of the type of every entry of its
    hierarchy are sized and have distinct names *)
Lemma regions_ok_tail R r rs : regions_ok R (r :: rs) -> regions_ok R rs.
Proof.
  intros [Hs Hn]. split; [now inversion Hs|].
  change (r :: rs) with ([r] ++ rs) in Hn. rewrite region_names_app in Hn.
  induction (region_names [r]) as [|x l IH]; [exact Hn|]. apply IH. now inversion Hn.
Qed.

Definition entry_regions_ok (R : registry) (x : list string * stype) : Prop :=
  forall bp btd, snd x = TRaw bp -> typedef_of R bp = Some btd -> regions_ok R (td_regions btd).

Theorem hier_ok_of_entries R rs pre h : bases_regs R rs pre h ->
  regions_ok R rs -> Forall (entry_regions_ok R) h -> hier_ok R rs.
Proof.
  induction 1 as [pre|r rs pre h Hb _ IH|r rs pre h Hp _ IH|r rs pre name bp btd sub h Hb _ IHs _ IHr];
    intros Hreg Hent.
  - constructor; [exact Hreg|]. intros r name bp btd [].
  - specialize (IH (regions_ok_tail _ _ _ Hreg) Hent). inversion IH as [rs' _ Hsub]; subst rs'.
    constructor; [exact Hreg|]. intros r' name bp btd [<-|Hin] Hbo; [|eauto].
    destruct Hbo as [E _]. congruence.
  - specialize (IH (regions_ok_tail _ _ _ Hreg) Hent). inversion IH as [rs' _ Hsub]; subst rs'.
    constructor; [exact Hreg|]. intros r' name bp btd [<-|Hin] Hbo; [|eauto].
    exfalso. eapply base_of_not_pending; eauto.
  - inversion Hent as [|x l Hhead Htail]; subst. apply Forall_app in Htail as [Hsub_ent Hrest_ent].
    specialize (IHr (regions_ok_tail _ _ _ Hreg) Hrest_ent). inversion IHr as [rs' _ Hsub]; subst rs'.
    constructor; [exact Hreg|]. intros r' name' bp' btd' [<-|Hin] Hbo; [|eauto].
    pose proof (base_of_lookup _ _ _ _ _ Hb) as L1. pose proof (base_of_lookup _ _ _ _ _ Hbo) as L2.
    rewrite L1 in L2. inversion L2; subst. apply IHs; [|exact Hsub_ent].
    destruct Hb as (_ & _ & _ & Htd). exact (Hhead bp btd' eq_refl Htd).
Qed.

(** ** a checker for [hier_ok] *)
Fixpoint nodupb (l : list string) : bool :=
  match l with [] => true | x :: r => negb (existsb (String.eqb x) r) && nodupb r end.
Definition regions_okb (R : registry) (rs : list region) : bool :=
  forallb (fun r => match size_of R (r_type r) with Some _ => true | None => false end) rs &&
  nodupb (region_names rs).
Fixpoint hier_okb (fuel : nat) (R : registry) (rs : list region) : bool :=
  match fuel with
  | O => false
  | S fu =>
    regions_okb R rs &&
    forallb (fun r => negb (r_is_base r) ||
                      match r_type r with
                      | TRaw bp => match typedef_of R bp with
                                   | Some btd => hier_okb fu R (td_regions btd)
                                   | None => true
                                   end
                      | _ => true
                      end) rs
  end.

Lemma nodupb_sound l : nodupb l = true -> NoDup l.
Proof.
  induction l as [|x l IH]; cbn [nodupb]; intros H; [constructor|].
  apply andb_true_iff in H as [H1 H2]. constructor; [|now apply IH].
  intros Hin. apply negb_true_iff in H1. assert (existsb (String.eqb x) l = true) as X; [|congruence].
  apply existsb_exists. exists x. split; [exact Hin | apply String.eqb_refl].
Qed.

Lemma regions_okb_sound R rs : regions_okb R rs = true -> regions_ok R rs.
Proof.
  unfold regions_okb. intros H. apply andb_true_iff in H as [H1 H2]. split; [|now apply nodupb_sound].
  apply Forall_forall. intros r Hr. rewrite forallb_forall in H1. specialize (H1 _ Hr).
  destruct (size_of R (r_type r)); [discriminate | discriminate].
Qed.

Theorem hier_okb_sound : forall fuel R rs, hier_okb fuel R rs = true -> hier_ok R rs.
Proof.
  induction fuel as [|fu IH]; intros R rs H; [discriminate|]. cbn [hier_okb] in H.
  apply andb_true_iff in H as [H1 H2]. constructor; [now apply regions_okb_sound|].
  intros r name bp btd Hr (Hb & _ & Ht & Htd). rewrite forallb_forall in H2. specialize (H2 _ Hr).
  rewrite Hb, Ht, Htd in H2. cbn [negb orb] in H2. now apply IH.
Qed.

Print Assumptions path_offset_app.
Print Assumptions hierarchy_sub_at.
Print Assumptions sub_at_path_offset.
Print Assumptions hierarchy_path_offset.
Print Assumptions direct_base_offset.
Print Assumptions hier_okb_sound.
Print Assumptions hier_ok_of_entries.
