(** * EmitShapeExamples: the readers of EmitReaders.v on a real emitted file (the input of
    Examples.v, pointer width 4), and the hypotheses of [emitted_struct_whole_build] on it. *)
From Coq Require Import List String NArith ZArith Bool Permutation.
From PyxisModel Require Import Base Sexp Grammar SemTypes Registry Sem Emit Driver Examples RustLayout
     WholeBuild OrderIndep EmitReaders EmitShape EmitFinal EmitLayout.
Import ListNotations.
Local Open Scope string_scope.

Definition bindo {A B} (o : option A) (f : A -> option B) : option B :=
  match o with Some a => f a | None => None end.

(** the file written for module [m] *)
Definition ex_file (ptr : N) : option sexp :=
  bindo (ex_state ptr) (fun st =>
    match write_all st with
    | Ok files => option_map snd (find (fun kf => String.eqb (fst kf) "m.rs") files)
    | _ => None
    end).
Definition ex_items (ptr : N) : option (list sexp) := bindo (ex_file ptr) file_items.
Definition ex_struct (ptr : N) (name : string) : option sexp := bindo (ex_items ptr) (find_struct name).
Definition ex_enum (ptr : N) (name : string) : option sexp :=
  bindo (ex_items ptr) (find (fun e => match enum_name e with Some n => String.eqb n name | None => false end)).

(** one file; its items, by kind *)
Example ex_item_kinds :
  option_map (map item_kind) (ex_items 4) =
  Some [Some "opaque";
        Some "struct"; Some "fn"; Some "impl"; Some "impl"; Some "impl";          (* Base *)
        Some "struct"; Some "fn"; Some "impl"; Some "impl"; Some "impl";          (* BaseVftable *)
        Some "enum"; Some "fn";                                                   (* E *)
        Some "struct"; Some "fn"; Some "impl"; Some "impl"; Some "impl";          (* P *)
        Some "struct"; Some "fn"; Some "impl"; Some "impl"; Some "impl"; Some "impl"; Some "impl"; (* T *)
        Some "opaque"].
Proof. vm_compute. reflexivity. Qed.

(** the size checks of the file: (function name, type, literal, literal) *)
Example ex_size_checks :
  option_map (all_somes read_size_check) (ex_items 4) =
  Some [("_Base_size_check", "Base", 8%N, 8%N); ("_BaseVftable_size_check", "BaseVftable", 16%N, 16%N);
        ("_E_size_check", "E", 2%N, 2%N); ("_P_size_check", "P", 9%N, 9%N);
        ("_T_size_check", "T", 32%N, 32%N)].
Proof. vm_compute. reflexivity. Qed.

(** struct [T]: name, visibility, repr, derive list, fields (name, visibility, type tokens) *)
Example ex_T_header :
  bindo (ex_struct 4 "T") struct_name = Some "T" /\ bindo (ex_struct 4 "T") struct_vis = Some Public /\
  bindo (ex_struct 4 "T") struct_repr = Some (ReprAlign 4) /\
  bindo (ex_struct 4 "T") struct_derives = Some [] /\ bindo (ex_struct 4 "T") struct_docs = Some [].
Proof. vm_compute. repeat split; reflexivity. Qed.

Example ex_T_fields :
  option_map (map (fun f => (ef_name f, ef_vis f, ef_ty f))) (bindo (ex_struct 4 "T") struct_fields) =
  Some [("a", Public, [Atom "u32"]);
        ("_field_4", Private, [bracket [Atom "u8"; Atom ";"; tint 4 "-"]]);
        ("b", Private, [bracket [Atom "u16"; Atom ";"; tint 2 "-"]]);
        ("_field_c", Private, [bracket [Atom "u8"; Atom ";"; tint 2 "-"]]);
        ("c", Private, tks ["crate"; ":"; ":"; "m"; ":"; ":"; "E"]);
        ("base", Public, tks ["crate"; ":"; ":"; "m"; ":"; ":"; "Base"]);
        ("e", Private, tks ["crate"; ":"; ":"; "m"; ":"; ":"; "Ext"])].
Proof. vm_compute. reflexivity. Qed.

(** the (size, alignment) the final registry gives to the types of the regions of an item *)
Definition ex_field_sas (ptr : N) (p : path) : option (list sa) :=
  bindo (ex_state ptr) (fun st =>
    bindo (resolved_of st p) (fun r =>
      match rs_inner r with
      | IType td => Some (map (type_sa (st_reg st)) (map r_type (td_regions td)))
      | IEnum _ => None
      end)).

(** the Reference's algorithm on the emitted [T]: field offsets, size 32, alignment 4 *)
Example ex_T_layout :
  bindo (ex_field_sas 4 ["m"; "T"]) (fun sas => bindo (ex_struct 4 "T") (emitted_struct_layout sas)) =
  Some ([("a", 0); ("_field_4", 4); ("b", 8); ("_field_c", 12); ("c", 14); ("base", 16); ("e", 24)], 32, 4)%N.
Proof. vm_compute. reflexivity. Qed.

(** the packed struct [P]: [repr(C, packed)], offsets without padding, size 9, alignment 1 *)
Example ex_P_layout :
  bindo (ex_struct 4 "P") struct_repr = Some ReprPacked /\
  bindo (ex_field_sas 4 ["m"; "P"]) (fun sas => bindo (ex_struct 4 "P") (emitted_struct_layout sas)) =
  Some ([("a", 0); ("b", 1); ("c", 5)], 9, 1)%N.
Proof. vm_compute. split; reflexivity. Qed.

(** the enum [E]: repr, derive list, variants (default marker, name, discriminant) *)
Example ex_E :
  bindo (ex_enum 4 "E") enum_repr = Some [Atom "i16"] /\
  bindo (ex_enum 4 "E") enum_derives = Some ["PartialEq"; "Eq"; "PartialOrd"; "Ord"; "Debug"; "Copy"; "Clone"] /\
  option_map (map (fun x => (evr_default x, evr_name x, evr_disc x))) (bindo (ex_enum 4 "E") enum_variants_of) =
  Some [(false, "A", -2); (false, "B", -1); (false, "C", 16)]%Z.
Proof. vm_compute. repeat split; reflexivity. Qed.

(** the hypotheses of [emitted_struct_whole_build] are met by this input (the struct [m::T]) *)
Definition ex_hyps_check : bool :=
  match input_state 4 ex_mods, pyxis_resolve (hook_schedule []) 4 ex_mods with
  | Ok st0, BOk st =>
    collision_freeb (st_reg st0) && is_ok (write_all st) &&
    match reg_get (st_reg st0) ["m"; "T"] with
    | Some it0 => match it_state it0 with
                  | Unresolved gd => match gi_inner gd with GIType _ => true | GIEnum _ => false end
                  | Resolved _ => false
                  end
    | None => false
    end
  | _, _ => false
  end.

Example ex_hypotheses :
  ex_hyps_check = true /\ NoDup (map fst ex_mods) /\ keeps_work (hook_schedule []) /\
  path_parent ["m"; "T"] <> Some [].
Proof.
  split; [vm_compute; reflexivity|]. split; [repeat constructor; intros []|].
  split; [apply perm_keeps_work; intros l; apply hook_schedule_perm | discriminate].
Qed.
