(** * C03, the whole [type_build]: the model accepts exactly the realisable descriptions.

    C03Core.v  : [accept] (arithmetic core)  <->  [realisable] (the SPEC written from the property text).
    C03Refine.v: the decision code [resolve_regions] ; [compute_alignment] computes [accept].
    THIS FILE  : the wrapper around the decision code -- attribute scan, statement loop, base
                 injection, impl block, defaultable check -- so that the statement is about
                 [Sem.type_build st p v d] and the grammar-level description [d : gtypedef] itself.

    The attribute scans are characterised by spec functions on the syntax:
      [declared_size d], [declared_align d]  the last [size(<int>)] / [align(<int>)] attribute
      [is_packed d], [is_defaultable d]      the marker attributes
      [field_addr s], [field_is_base s]      the last [address(<int>)] attribute / the [base] marker
      [attrs_okb d]                          no negative [size]/[singleton]/[align]/[address] value
                                             anywhere (even one that a later attribute overrides),
                                             every [doc = ..] attribute is a string literal.

    CLASS of descriptions ([class_okb st p d = true], a boolean on the state and the syntax):
      - the registry holds [u8] with size 1 and alignment 1 (true of every state made by [sem_new]);
      - the parent module of the owner path [p] exists, and holds NO impl block for [p];
      - NO [defaultable] marker;
      - every statement is a plain field (NO vftable block) WITHOUT [base] marker whose type
        resolves, in the module's scope, to a type of known size and alignment, the alignment a
        power of two that fits usize;
      - the running end of every field and the declared size fit usize (the model works in
        unbounded N and defers where the implementation's checked arithmetic gives up).
    Attribute errors are NOT excluded: they are part of the equivalence ([attrs_okb d]).

    MAIN STATEMENTS (all proved, closed under the global context):
      [type_build_decision]   in the class, [type_build st p v d] is [(st, Ok r)] with
                              [(rs_size r, rs_align r)] the result of [C03Core.accept] when
                              [attrs_okb d] and [accept .. = Some _]; otherwise it is [(st, Err _)].
      [C03_type_build_iff]    class_okb st p d = true ->
                              ((exists st' r, type_build st p v d = (st', Ok r)) <->
                               attrs_okb d = true /\ realisable ptr (fields_of st p d) size align packed)
      [C03_type_build_accepts_iff_realisable]  the same with [attrs_okb d = true] as a premise
      [C03_type_build_size_align]              accepted => state unchanged, size/alignment = accept's
      [C03_type_build_rejects_otherwise]       not (well formed and realisable) => [(st, Err msg)]
      [C03_type_build_verdict]                 the verdict as a boolean
    REJECTIONS WITHOUT CLASS HYPOTHESIS (any state, owner, statements):
      [negative_size_rejected], [negative_align_rejected], [negative_singleton_rejected],
      [bad_type_attr_rejected], [bad_type_doc_rejected]        => [(st, Err msg)]
      [packed_with_align_never_accepted], [negative_address_never_accepted],
      [bad_field_attr_never_accepted]                          => never [Ok]
      (in the class these are errors too: [packed_with_align_rejected], [bad_attrs_rejected]).
    EXCLUDED inputs (outside [class_okb]): vftable blocks, [base] fields, an impl block for the type,
    the [defaultable] marker, field types that are unresolved / of unknown size / whose alignment
    is not a power of two, and offsets beyond usize. *)
From Coq Require Import List NArith ZArith Bool Lia String.
From PyxisModel Require Import Base Grammar SemTypes Registry Sem SemLemmas PlacementLemmas
     FunctionLemmas VftableLemmas EmitLemmas WholeBuild WholeBuildMore Examples.
From PyxisModel Require C03Core C03Refine.
Import ListNotations.
Local Open Scope N_scope.
Module C := C03Core.
Module CR := C03Refine.
Arguments N.add : simpl never. Arguments N.mul : simpl never. Arguments N.sub : simpl never.
Arguments N.modulo : simpl never. Arguments N.div : simpl never. Arguments N.gcd : simpl never.

(** ** 1. The attribute scans, as functions of the syntax *)
Definition last_int (name : string) (attrs : list gattr) : option Z :=
  last_some (int_attr name) attrs None.
Definition nat_attr (name : string) (attrs : list gattr) : option N :=
  option_map Z.to_N (last_int name attrs).

Definition declared_size (d : gtypedef) : option N := nat_attr "size" (gt_attrs d).
Definition declared_align (d : gtypedef) : option N := nat_attr "align" (gt_attrs d).
Definition is_packed (d : gtypedef) : bool := has_marker "packed" (gt_attrs d).
Definition is_defaultable (d : gtypedef) : bool := has_marker "defaultable" (gt_attrs d).
Definition field_addr (s : gstatement) : option N := nat_attr "address" (gs_attrs s).
Definition field_is_base (s : gstatement) : bool := has_marker "base" (gs_attrs s).

(** the only attribute errors: a negative value of one of the integer attributes the scan converts
    with [try_into::<usize>], and a [doc] attribute that is not a string literal *)
Definition int_attr_ok (names : list string) (a : gattr) : bool :=
  match a with
  | AFn n [EInt v] => if existsb (String.eqb n) names then (0 <=? v)%Z else true
  | _ => true
  end.
Definition type_attrs_ok (attrs : list gattr) : bool :=
  forallb (int_attr_ok ["size"; "singleton"; "align"]%string) attrs.
Definition field_attrs_ok (attrs : list gattr) : bool :=
  forallb (int_attr_ok ["address"%string]) attrs.
Definition doc_attr_ok (a : gattr) : bool :=
  match a with
  | AAssign k v => if String.eqb k "doc" then match v with EStr _ => true | _ => false end else true
  | _ => true
  end.
Definition docs_ok (attrs : list gattr) : bool := forallb doc_attr_ok attrs.
Definition stmt_attrs_ok (s : gstatement) : bool :=
  docs_ok (gs_attrs s) && field_attrs_ok (gs_attrs s).
Definition attrs_okb (d : gtypedef) : bool :=
  docs_ok (gt_attrs d) && type_attrs_ok (gt_attrs d) && forallb stmt_attrs_ok (gt_stmts d).

Lemma last_some_init {A B} (f : A -> option B) : forall l init,
  last_some f l init = match last_some f l None with Some b => Some b | None => init end.
Proof.
  unfold last_some. induction l as [|x l IH]; intros init; cbn [fold_left]; [reflexivity|].
  rewrite (IH (match f x with Some b => Some b | None => init end)).
  rewrite (IH (match f x with Some b => Some b | None => None end)).
  destruct (fold_left _ l None); [reflexivity|]. destruct (f x); reflexivity.
Qed.

Lemma last_int_cons name a attrs :
  last_int name (a :: attrs) = match last_int name attrs with Some z => Some z | None => int_attr name a end.
Proof.
  unfold last_int. unfold last_some at 1. cbn [fold_left].
  fold (last_some (int_attr name) attrs (match int_attr name a with Some b => Some b | None => None end)).
  rewrite last_some_init. destruct (last_some (int_attr name) attrs None); [reflexivity|].
  destruct (int_attr name a); reflexivity.
Qed.

Lemma z_to_usize_ok v : (0 <=? v)%Z = true -> z_to_usize v = Some (Z.to_N v).
Proof. intros H. unfold z_to_usize. assert ((v <? 0)%Z = false) as -> by lia. reflexivity. Qed.
Lemma z_to_usize_neg v : (0 <=? v)%Z = false -> z_to_usize v = None.
Proof. intros H. unfold z_to_usize. assert ((v <? 0)%Z = true) as -> by lia. reflexivity. Qed.

(** *** type attributes *)
Lemma scan_type_attr_step a ta :
  if int_attr_ok ["size"; "singleton"; "align"]%string a
  then exists ta', scan_type_attr ta a = Ok ta' /\
       ta_size ta' = match int_attr "size" a with Some z => Some (Z.to_N z) | None => ta_size ta end /\
       ta_align ta' = match int_attr "align" a with Some z => Some (Z.to_N z) | None => ta_align ta end
  else exists m, scan_type_attr ta a = Err m.
Proof.
  unfold int_attr_ok, scan_type_attr, int_attr.
  destruct a as [n|n [|[v|?|?] [|? ?]]|k e]; try (eexists; split; [reflexivity | split; reflexivity]).
  cbn [existsb]. rewrite orb_false_r.
  destruct (String.eqb n "size") eqn:Es.
  { apply String.eqb_eq in Es. subst n. cbn [orb String.eqb Ascii.eqb Bool.eqb].
    destruct (0 <=? v)%Z eqn:Ev.
    - rewrite (z_to_usize_ok _ Ev). eexists; split; [reflexivity | split; reflexivity].
    - rewrite (z_to_usize_neg _ Ev). eexists; reflexivity. }
  destruct (String.eqb n "singleton") eqn:Eg.
  { apply String.eqb_eq in Eg. subst n. cbn [orb String.eqb Ascii.eqb Bool.eqb].
    destruct (0 <=? v)%Z eqn:Ev.
    - rewrite (z_to_usize_ok _ Ev). eexists; split; [reflexivity | split; reflexivity].
    - rewrite (z_to_usize_neg _ Ev). eexists; reflexivity. }
  destruct (String.eqb n "align") eqn:Ea; cbn [orb].
  { destruct (0 <=? v)%Z eqn:Ev.
    - rewrite (z_to_usize_ok _ Ev). eexists; split; [reflexivity | split; reflexivity].
    - rewrite (z_to_usize_neg _ Ev). eexists; reflexivity. }
  eexists; split; [reflexivity | split; reflexivity].
Qed.

Lemma scan_type_attrs_spec : forall attrs ta,
  if type_attrs_ok attrs
  then exists ta', foldM scan_type_attr attrs ta = Ok ta' /\
       ta_size ta' = match last_int "size" attrs with Some z => Some (Z.to_N z) | None => ta_size ta end /\
       ta_align ta' = match last_int "align" attrs with Some z => Some (Z.to_N z) | None => ta_align ta end
  else exists m, foldM scan_type_attr attrs ta = Err m.
Proof.
  unfold type_attrs_ok.
  induction attrs as [|a attrs IH]; intros ta; cbn [forallb foldM].
  - exists ta. split; [reflexivity | split; reflexivity].
  - pose proof (scan_type_attr_step a ta) as Hs.
    destruct (int_attr_ok ["size"; "singleton"; "align"]%string a); cbn [andb].
    + destruct Hs as (ta1 & H1 & Hsz & Hal). rewrite H1. cbn [bind].
      specialize (IH ta1). destruct (forallb _ attrs).
      * destruct IH as (ta' & H2 & Hsz' & Hal'). exists ta'. split; [exact H2|].
        rewrite !last_int_cons, Hsz', Hal', Hsz, Hal.
        split; [destruct (last_int "size" attrs) | destruct (last_int "align" attrs)]; reflexivity.
      * exact IH.
    + destruct Hs as [m Hm]. rewrite Hm. cbn [bind]. eauto.
Qed.

(** *** field attributes *)
Lemma scan_field_attr_step a st :
  if int_attr_ok ["address"%string] a
  then scan_field_attr st a =
       Ok (match int_attr "address" a with Some z => Some (Z.to_N z) | None => fst st end,
           snd st || has_marker "base" [a])
  else exists m, scan_field_attr st a = Err m.
Proof.
  unfold int_attr_ok, scan_field_attr, int_attr, has_marker. cbn [existsb]. destruct st as [ad b]. cbn [fst snd].
  destruct a as [n|n [|[v|?|?] [|? ?]]|k e]; rewrite ?orb_false_r; try reflexivity.
  - destruct (String.eqb n "base"); [now rewrite orb_true_r | now rewrite orb_false_r].
  - destruct (String.eqb n "address").
    + destruct (0 <=? v)%Z eqn:Ev.
      * rewrite (z_to_usize_ok _ Ev). reflexivity.
      * rewrite (z_to_usize_neg _ Ev). eexists; reflexivity.
    + reflexivity.
Qed.

Lemma has_marker_cons name a attrs :
  has_marker name (a :: attrs) = has_marker name [a] || has_marker name attrs.
Proof. unfold has_marker. cbn [existsb]. now rewrite orb_false_r. Qed.

Lemma scan_field_attrs_spec : forall attrs st,
  if field_attrs_ok attrs
  then foldM scan_field_attr attrs st =
       Ok (match last_int "address" attrs with Some z => Some (Z.to_N z) | None => fst st end,
           snd st || has_marker "base" attrs)
  else exists m, foldM scan_field_attr attrs st = Err m.
Proof.
  unfold field_attrs_ok.
  induction attrs as [|a attrs IH]; intros st; cbn [forallb foldM].
  - destruct st. unfold has_marker. cbn. now rewrite orb_false_r.
  - pose proof (scan_field_attr_step a st) as Hs.
    destruct (int_attr_ok ["address"%string] a); cbn [andb].
    + rewrite Hs. cbn [bind]. specialize (IH (match int_attr "address" a with Some z => Some (Z.to_N z) | None => fst st end,
                                              snd st || has_marker "base" [a])).
      destruct (forallb _ attrs); [|exact IH].
      rewrite IH. cbn [fst snd]. rewrite last_int_cons, (has_marker_cons "base" a attrs), orb_assoc.
      destruct (last_int "address" attrs); reflexivity.
    + destruct Hs as [m Hm]. rewrite Hm. cbn [bind]. eauto.
Qed.

(** *** documentation attributes *)
Lemma attrs_doc_aux_dec : forall attrs acc,
  if docs_ok attrs then exists d, attrs_doc_aux attrs acc = Ok d
  else exists m, attrs_doc_aux attrs acc = Err m.
Proof.
  unfold docs_ok.
  induction attrs as [|a attrs IH]; intros acc; cbn [forallb attrs_doc_aux]; [eauto|].
  destruct a as [n|n args|k e]; cbn [doc_attr_ok andb]; try apply IH.
  destruct (String.eqb k "doc"); [|apply IH].
  destruct e as [z|s|i]; cbn [andb]; try (eexists; reflexivity). apply IH.
Qed.
Lemma attrs_doc_dec attrs :
  if docs_ok attrs then exists d, attrs_doc attrs = Ok d else exists m, attrs_doc attrs = Err m.
Proof. apply attrs_doc_aux_dec. Qed.

(** ** 2. The statement loop *)
Definition field_type (R : registry) (scope : list path) (s : gstatement) : option stype :=
  match gs_field s with
  | GField _ _ t => resolve_gtype R scope t
  | GVftable _ => None
  end.
(** a plain field whose type resolves *)
Definition plain_field (R : registry) (scope : list path) (s : gstatement) : bool :=
  match field_type R scope s with Some _ => true | None => false end.

(** the pending entry a plain field contributes *)
Definition entry (R : registry) (scope : list path) (s : gstatement) : option N * region :=
  (field_addr s,
   {| r_vis := match gs_field s with GField v _ _ => v | GVftable _ => Private end;
      r_name := match gs_field s with
                | GField _ name _ => if String.eqb name "_" then None else Some name
                | GVftable _ => None
                end;
      r_doc := match attrs_doc (gs_attrs s) with Ok d => d | _ => None end;
      r_type := match field_type R scope s with Some t => t | None => TRaw [] end;
      r_is_base := field_is_base s |}).

Lemma process_statement_spec R scope s idx pending vfs :
  plain_field R scope s = true ->
  if stmt_attrs_ok s
  then process_statement R scope (idx, (pending, vfs)) s = Ok (S idx, (pending ++ [entry R scope s], vfs))
  else exists m, process_statement R scope (idx, (pending, vfs)) s = Err m.
Proof.
  unfold plain_field, stmt_attrs_ok, process_statement, entry, field_type, field_addr, field_is_base, nat_attr.
  destruct (gs_field s) as [v name t|fs]; [|discriminate].
  destruct (resolve_gtype R scope t) as [t'|]; [|discriminate]. intros _.
  pose proof (attrs_doc_dec (gs_attrs s)) as Hd.
  destruct (docs_ok (gs_attrs s)); cbn [andb].
  - destruct Hd as [doc Hd]. rewrite Hd. cbn [bind].
    pose proof (scan_field_attrs_spec (gs_attrs s) (None, false)) as Hf.
    destruct (field_attrs_ok (gs_attrs s)).
    + rewrite Hf. cbn [bind fst snd orb]. destruct (last_int "address" (gs_attrs s)); reflexivity.
    + destruct Hf as [m Hm]. rewrite Hm. cbn [bind]. eauto.
  - destruct Hd as [m Hm]. rewrite Hm. cbn [bind]. eauto.
Qed.

Lemma process_statements_spec R scope : forall stmts idx pending vfs,
  forallb (plain_field R scope) stmts = true ->
  if forallb stmt_attrs_ok stmts
  then foldM (process_statement R scope) stmts (idx, (pending, vfs))
       = Ok ((idx + List.length stmts)%nat, (pending ++ map (entry R scope) stmts, vfs))
  else exists m, foldM (process_statement R scope) stmts (idx, (pending, vfs)) = Err m.
Proof.
  induction stmts as [|s stmts IH]; intros idx pending vfs Hpl; cbn [forallb foldM map List.length].
  - rewrite app_nil_r, Nat.add_0_r. reflexivity.
  - cbn [forallb] in Hpl. apply andb_prop in Hpl as [Hp1 Hp2].
    pose proof (process_statement_spec R scope s idx pending vfs Hp1) as Hs.
    destruct (stmt_attrs_ok s); cbn [andb].
    + rewrite Hs. cbn [bind]. specialize (IH (S idx) (pending ++ [entry R scope s]) vfs Hp2).
      destruct (forallb stmt_attrs_ok stmts); [|exact IH].
      rewrite IH, <- app_assoc. cbn [app]. rewrite Nat.add_succ_r. reflexivity.
    + destruct Hs as [m Hm]. rewrite Hm. cbn [bind]. eauto.
Qed.

(** ** 3. The class of descriptions, as boolean conditions on the registry and the syntax *)
(** the abstract field (C03Core) of a statement: its address, and the size and alignment of its type *)
Definition abs_field (R : registry) (scope : list path) (s : gstatement) : C.field :=
  match field_type R scope s with
  | Some t => {| C.addr := field_addr s;
                 C.sz := match size_of R t with Some x => x | None => 0 end;
                 C.al := match align_of R t with Some x => x | None => 0 end;
                 C.zarr := stype_is_array t |}
  | None => {| C.addr := None; C.sz := 0; C.al := 0; C.zarr := false |}
  end.

(** a plain field, not a base, of known size and alignment, the alignment a power of two in usize *)
Definition field_ok (R : registry) (scope : list path) (s : gstatement) : bool :=
  match field_type R scope s with
  | Some t => match size_of R t, align_of R t with
              | Some _, Some a => C.is_pow2b a && (a <=? usize_max)
              | _, _ => false
              end
  | None => false
  end && negb (field_is_base s).

(** the end of every field stays within usize *)
Fixpoint fields_fit (last : N) (fs : list C.field) : bool :=
  match fs with
  | [] => true
  | f :: r => let e := match C.addr f with Some a => a | None => last end + C.sz f in
              (e <=? usize_max) && fields_fit e r
  end.
Definition size_fits (size : option N) : bool :=
  match size with Some t => t <=? usize_max | None => true end.

Definition u8_ok (R : registry) : bool :=
  match size_of R (TRaw ["u8"%string]), align_of R (TRaw ["u8"%string]) with
  | Some 1, Some 1 => true
  | _, _ => false
  end.

Definition body_okb (R : registry) (scope : list path) (d : gtypedef) : bool :=
  negb (is_defaultable d) &&
  forallb (field_ok R scope) (gt_stmts d) &&
  fields_fit 0 (map (abs_field R scope) (gt_stmts d)) &&
  size_fits (declared_size d).

(** the module of the owner path *)
Definition owner_module (st : sstate) (p : path) : option smodule :=
  match path_parent p with
  | Some parent => alookup parent (st_modules st)
  | None => None
  end.

Definition class_okb (st : sstate) (p : path) (d : gtypedef) : bool :=
  u8_ok (st_reg st) &&
  match owner_module st p with
  | Some m => match alookup p (m_impls m) with None => true | Some _ => false end &&
              body_okb (st_reg st) (module_scope m) d
  | None => false
  end.

Definition fields_of (st : sstate) (p : path) (d : gtypedef) : list C.field :=
  match owner_module st p with
  | Some m => map (abs_field (st_reg st) (module_scope m)) (gt_stmts d)
  | None => []
  end.

Lemma u8_ok_sound R : u8_ok R = true -> reg_u8 R /\ align_of R (TRaw ["u8"%string]) = Some 1.
Proof.
  unfold u8_ok, reg_u8. destruct (size_of R (TRaw ["u8"%string])) as [[|[?|?|]]|]; try discriminate.
  destruct (align_of R (TRaw ["u8"%string])) as [[|[?|?|]]|]; try discriminate. auto.
Qed.

Lemma field_ok_plain R scope s : field_ok R scope s = true -> plain_field R scope s = true.
Proof. unfold field_ok, plain_field. destruct (field_type R scope s); [reflexivity | discriminate]. Qed.

(** [field_ok], spelled out *)
Lemma field_ok_iff R scope s :
  field_ok R scope s = true <->
  exists vs name t t' sz al,
    gs_field s = GField vs name t /\ resolve_gtype R scope t = Some t' /\
    size_of R t' = Some sz /\ align_of R t' = Some al /\ C.pow2 al /\ al <= usize_max /\
    field_is_base s = false.
Proof.
  unfold field_ok, field_type. split.
  - intros H. apply andb_prop in H as [H Hb]. apply negb_true_iff in Hb.
    destruct (gs_field s) as [vs name t|?] eqn:Ef; [|discriminate].
    destruct (resolve_gtype R scope t) as [t'|] eqn:Er; [|discriminate].
    destruct (size_of R t') as [sz|] eqn:Es; [|discriminate].
    destruct (align_of R t') as [al|] eqn:Ea; [|discriminate].
    apply andb_prop in H as [Hp Hl]. apply C.is_pow2b_spec in Hp. apply N.leb_le in Hl.
    exists vs, name, t, t', sz, al. repeat (split; [first [reflexivity | assumption]|]). exact Hb.
  - intros (vs & name & t & t' & sz & al & -> & -> & Hs & Ha & Hp & Hl & ->). rewrite Hs, Ha.
    apply C.is_pow2b_spec in Hp. apply N.leb_le in Hl. rewrite Hp, Hl. reflexivity.
Qed.

Lemma field_ok_facts R scope s : field_ok R scope s = true ->
  CR.known R (snd (entry R scope s)) /\ CR.okP (region_sa R (snd (entry R scope s))) /\
  r_is_base (snd (entry R scope s)) = false /\ CR.absf R (entry R scope s) = abs_field R scope s.
Proof.
  unfold field_ok, CR.known, CR.okP, CR.absf, abs_field, region_sa, entry. cbn [fst snd r_type r_is_base].
  destruct (field_type R scope s) as [t|]; [|discriminate].
  destruct (size_of R t) as [sz|]; [|discriminate]. destruct (align_of R t) as [al|]; [|discriminate].
  intros H. apply andb_prop in H as [H Hb]. apply andb_prop in H as [Hp Hl].
  apply C.is_pow2b_spec in Hp. apply N.leb_le in Hl. apply negb_true_iff in Hb.
  cbn [fst snd]. repeat split; try discriminate; assumption.
Qed.

Lemma fields_fit_all_fit R : forall pending last,
  fields_fit last (map (CR.absf R) pending) = true -> CR.all_fit R last pending.
Proof.
  induction pending as [|p pending IH]; intros last H; cbn [map fields_fit CR.all_fit] in *; [exact I|].
  apply andb_prop in H as [H1 H2]. apply N.leb_le in H1. unfold CR.absf at 1 2 in H1. cbn [C.addr C.sz] in H1.
  split; [exact H1|]. apply IH. exact H2.
Qed.

(** ** 4. [type_build], phase by phase *)
Section Phases.
  Variables (st : sstate) (p : path) (v : vis) (d : gtypedef) (parent : path) (m : smodule).
  Hypothesis Hpar : path_parent p = Some parent.
  Hypothesis Hmod : alookup parent (st_modules st) = Some m.
  Let R := st_reg st.
  Let scope := module_scope m.

  Lemma type_build_doc_err msg : attrs_doc (gt_attrs d) = Err msg -> type_build st p v d = (st, Err msg).
  Proof. intros H. unfold type_build. rewrite Hpar, Hmod. cbv zeta. rewrite H. reflexivity. Qed.

  Lemma type_build_attr_err doc msg :
    attrs_doc (gt_attrs d) = Ok doc -> foldM scan_type_attr (gt_attrs d) ta_init = Err msg ->
    type_build st p v d = (st, Err msg).
  Proof. intros H1 H2. unfold type_build. rewrite Hpar, Hmod. cbv zeta. rewrite H1, H2. reflexivity. Qed.

  Lemma type_build_stmt_err doc ta msg :
    attrs_doc (gt_attrs d) = Ok doc -> foldM scan_type_attr (gt_attrs d) ta_init = Ok ta ->
    foldM (process_statement R scope) (gt_stmts d) (O, ([], None)) = Err msg ->
    type_build st p v d = (st, Err msg).
  Proof.
    intros H1 H2 H3. unfold type_build. rewrite Hpar, Hmod. cbv zeta. fold R scope. rewrite H1, H2. cbn [bind].
    rewrite H3. reflexivity.
  Qed.

  Lemma type_build_regions_err doc ta n pending vfs msg :
    attrs_doc (gt_attrs d) = Ok doc -> foldM scan_type_attr (gt_attrs d) ta_init = Ok ta ->
    foldM (process_statement R scope) (gt_stmts d) (O, ([], None)) = Ok (n, (pending, vfs)) ->
    resolve_regions st p v (ta_size ta) pending vfs = Err msg ->
    type_build st p v d = (st, Err msg).
  Proof.
    intros H1 H2 H3 H4. unfold type_build. rewrite Hpar, Hmod. cbv zeta. fold R scope. rewrite H1, H2. cbn [bind].
    rewrite H3. cbn [bind snd]. rewrite H4. reflexivity.
  Qed.

  (** no base region, no impl block, no defaultable marker: what remains is [compute_alignment] *)
  Lemma type_build_eval doc ta n pending regions size :
    attrs_doc (gt_attrs d) = Ok doc -> foldM scan_type_attr (gt_attrs d) ta_init = Ok ta ->
    foldM (process_statement R scope) (gt_stmts d) (O, ([], None)) = Ok (n, (pending, None)) ->
    resolve_regions st p v (ta_size ta) pending None = Ok (st, regions, None, size) ->
    filter r_is_base regions = [] -> alookup p (m_impls m) = None -> ta_defaultable ta = false ->
    type_build st p v d =
    (st, do alignment <- compute_alignment R ta regions size;
         Ok {| rs_size := size; rs_align := alignment;
               rs_inner := IType {| td_regions := regions; td_doc := doc; td_assoc := [];
                                    td_vftable := None; td_singleton := ta_singleton ta;
                                    td_copyable := ta_copyable ta; td_cloneable := ta_cloneable ta;
                                    td_defaultable := ta_defaultable ta; td_packed := ta_packed ta |} |}).
  Proof.
    intros H1 H2 H3 H4 Hnb Himpl Hdef. unfold type_build. rewrite Hpar, Hmod. cbv zeta. fold R scope.
    rewrite H1, H2. cbn [bind]. rewrite H3. cbn [bind snd]. rewrite H4, Hnb, Himpl, Hdef.
    cbn [inject_bases bind fst]. reflexivity.
  Qed.
End Phases.

(** ** 5. The decision of the whole [type_build] is the core's [accept] *)
Section Whole.
  Variables (st : sstate) (p : path) (v : vis) (d : gtypedef) (parent : path) (m : smodule).
  Let R := st_reg st.
  Let scope := module_scope m.
  Hypothesis Hu8 : reg_u8 R.
  Hypothesis Hu8a : align_of R (TRaw ["u8"%string]) = Some 1.
  Hypothesis Hpar : path_parent p = Some parent.
  Hypothesis Hmod : alookup parent (st_modules st) = Some m.
  Hypothesis Himpl : alookup p (m_impls m) = None.
  Hypothesis Hbody : body_okb R scope d = true.

  Let fs := map (abs_field R scope) (gt_stmts d).

  Theorem type_build_decision :
    match (if attrs_okb d
           then C.accept (reg_ptr R) fs (declared_size d) (declared_align d) (is_packed d)
           else None) with
    | Some (total, a) => exists r, type_build st p v d = (st, Ok r) /\ rs_size r = total /\ rs_align r = a
    | None => exists msg, type_build st p v d = (st, Err msg)
    end.
  Proof.
    unfold body_okb in Hbody. apply andb_prop in Hbody as [Hb Hsf]. apply andb_prop in Hb as [Hb Hff].
    apply andb_prop in Hb as [Hnd Hfo]. apply negb_true_iff in Hnd.
    unfold attrs_okb.
    (* documentation of the type *)
    pose proof (attrs_doc_dec (gt_attrs d)) as Hdoc.
    destruct (docs_ok (gt_attrs d)); cbn [andb].
    2:{ destruct Hdoc as [msg Hm]. exists msg. eapply type_build_doc_err; eauto. }
    destruct Hdoc as [doc Hdoc].
    (* attributes of the type *)
    pose proof (scan_type_attrs_spec (gt_attrs d) ta_init) as Hta.
    destruct (type_attrs_ok (gt_attrs d)); cbn [andb].
    2:{ destruct Hta as [msg Hm]. exists msg. eapply type_build_attr_err; eauto. }
    destruct Hta as (ta & Hta & Hsz & Hal). cbn [ta_init ta_size ta_align] in Hsz, Hal.
    destruct (scan_type_attrs_flags _ _ _ Hta) as (_ & _ & Hdef & Hpk). cbn [ta_init ta_defaultable ta_packed orb] in Hdef, Hpk.
    assert (ta_size ta = declared_size d) as Esz
        by (unfold declared_size, nat_attr; rewrite Hsz; destruct (last_int "size" (gt_attrs d)); reflexivity).
    assert (ta_align ta = declared_align d) as Eal
        by (unfold declared_align, nat_attr; rewrite Hal; destruct (last_int "align" (gt_attrs d)); reflexivity).
    assert (ta_packed ta = is_packed d) as Epk by exact Hpk.
    assert (ta_defaultable ta = false) as Edf by (rewrite Hdef; exact Hnd).
    (* statements *)
    assert (forallb (plain_field R scope) (gt_stmts d) = true) as Hpl.
    { apply forallb_forall. intros s Hs. rewrite forallb_forall in Hfo. apply field_ok_plain, Hfo, Hs. }
    pose proof (process_statements_spec R scope (gt_stmts d) O [] None Hpl) as Hst.
    destruct (forallb stmt_attrs_ok (gt_stmts d)).
    2:{ destruct Hst as [msg Hm]. exists msg. eapply type_build_stmt_err; eauto. }
    cbn [app] in Hst. set (pending := map (entry R scope) (gt_stmts d)) in *.
    (* hypotheses of the refinement *)
    rewrite forallb_forall in Hfo.
    assert (Forall (fun q => CR.known R (snd q)) pending) as Hk.
    { apply Forall_map, Forall_forall. intros s Hs. apply (field_ok_facts R scope s (Hfo s Hs)). }
    assert (Forall (fun q => CR.okP (region_sa R (snd q))) pending) as Hok.
    { apply Forall_map, Forall_forall. intros s Hs. apply (field_ok_facts R scope s (Hfo s Hs)). }
    assert (forall q, In q pending -> r_is_base (snd q) = false) as Hnbase.
    { intros q Hq. apply in_map_iff in Hq as (s & <- & Hs). apply (field_ok_facts R scope s (Hfo s Hs)). }
    assert (find r_is_base (map snd pending) = None) as Hnb.
    { destruct (find r_is_base (map snd pending)) as [r|] eqn:Ef; [|reflexivity].
      apply find_some in Ef as [Hin Hb]. apply in_map_iff in Hin as (q & <- & Hq).
      rewrite (Hnbase q Hq) in Hb. discriminate. }
    assert (map (CR.absf R) pending = fs) as Habs.
    { unfold pending, fs. rewrite map_map. apply map_ext_in. intros s Hs.
      apply (field_ok_facts R scope s (Hfo s Hs)). }
    assert (CR.all_fit R 0 pending) as Hfit by (apply fields_fit_all_fit; rewrite Habs; exact Hff).
    assert (forall t, ta_size ta = Some t -> t <= usize_max) as Hts.
    { intros t Ht. rewrite Esz in Ht. unfold size_fits in Hsf. rewrite Ht in Hsf. apply N.leb_le. exact Hsf. }
    pose proof (CR.decision_refines R Hu8 Hu8a st p v ta pending eq_refl Hk Hok Hnb Hfit Hts) as Hdec.
    rewrite Habs, Esz, Eal, Epk in Hdec.
    (* no base region comes out of resolve_regions *)
    assert (forall regions total, resolve_regions st p v (declared_size d) pending None = Ok (st, regions, None, total) ->
                                  filter r_is_base regions = []) as Hfb.
    { intros regions total Hrr. rewrite (resolve_regions_bases _ _ _ _ _ _ _ _ _ _ Hrr).
      clear - Hnbase. induction pending as [|q qs IH]; [reflexivity|]. cbn [map filter].
      assert (kept_base (st_reg st) (snd q) = false) as ->.
      { unfold kept_base, named_base. rewrite (Hnbase q (or_introl eq_refl)). reflexivity. }
      apply IH. intros q' Hq'. apply Hnbase. now right. }
    destruct (C.accept (reg_ptr R) fs (declared_size d) (declared_align d) (is_packed d)) as [[total a]|].
    - destruct Hdec as (regions & Hrr & Hca).
      eexists. split; [|split].
      + rewrite <- Esz in Hrr.
        rewrite (type_build_eval st p v d parent m Hpar Hmod doc ta _ pending regions total Hdoc Hta Hst Hrr);
          [| rewrite Esz in Hrr; eapply Hfb; exact Hrr | exact Himpl | exact Edf].
        fold R. rewrite Hca. cbn [bind]. reflexivity.
      + reflexivity.
      + reflexivity.
    - destruct Hdec as [[msg Hrr]|(regions & total & msg & Hrr & Hca)].
      + exists msg. rewrite <- Esz in Hrr. eapply type_build_regions_err; eauto.
      + exists msg. pose proof (Hfb _ _ Hrr) as Hnbr. rewrite <- Esz in Hrr.
        rewrite (type_build_eval st p v d parent m Hpar Hmod doc ta _ pending regions total Hdoc Hta Hst Hrr Hnbr Himpl Edf).
        fold R. rewrite Hca. reflexivity.
  Qed.
End Whole.

(** ** 6. Accepted iff (attributes well formed and) realisable *)
Lemma wf_fields_of R scope stmts :
  forallb (field_ok R scope) stmts = true -> C.wf_fields (map (abs_field R scope) stmts).
Proof.
  intros H. unfold C.wf_fields. apply Forall_map, Forall_forall. intros s Hs.
  rewrite forallb_forall in H. destruct (field_ok_facts R scope s (H s Hs)) as (_ & [Hp _] & _ & Habs).
  rewrite <- Habs. exact Hp.
Qed.

Section WholeIff.
  Variables (st : sstate) (p : path) (v : vis) (d : gtypedef) (parent : path) (m : smodule).
  Let R := st_reg st.
  Let scope := module_scope m.
  Hypothesis Hu8 : reg_u8 R.
  Hypothesis Hu8a : align_of R (TRaw ["u8"%string]) = Some 1.
  Hypothesis Hpar : path_parent p = Some parent.
  Hypothesis Hmod : alookup parent (st_modules st) = Some m.
  Hypothesis Himpl : alookup p (m_impls m) = None.
  Hypothesis Hbody : body_okb R scope d = true.
  Let fs := map (abs_field R scope) (gt_stmts d).

  Lemma fs_wf : C.wf_fields fs.
  Proof.
    apply wf_fields_of. unfold body_okb in Hbody.
    apply andb_prop in Hbody as [Hb _]. apply andb_prop in Hb as [Hb _]. apply andb_prop in Hb as [_ Hb]. exact Hb.
  Qed.

  (** accepted: the attributes are well formed, the core accepts, and the resolved size and
      alignment are the core's *)
  Theorem type_build_ok_inv st' r :
    type_build st p v d = (st', Ok r) ->
    st' = st /\ attrs_okb d = true /\
    C.accept (reg_ptr R) fs (declared_size d) (declared_align d) (is_packed d) = Some (rs_size r, rs_align r).
  Proof.
    intros H. pose proof (type_build_decision st p v d parent m Hu8 Hu8a Hpar Hmod Himpl Hbody) as Hd.
    fold R scope fs in Hd.
    destruct (attrs_okb d).
    - destruct (C.accept (reg_ptr R) fs (declared_size d) (declared_align d) (is_packed d)) as [[total a]|].
      + destruct Hd as (r' & Hr' & <- & <-). rewrite H in Hr'. inversion Hr'; subst. auto.
      + destruct Hd as [msg Hm]. rewrite H in Hm. inversion Hm.
    - destruct Hd as [msg Hm]. rewrite H in Hm. inversion Hm.
  Qed.

  (** the full equivalence, attribute errors included *)
  Theorem type_build_accepts_iff :
    (exists st' r, type_build st p v d = (st', Ok r)) <->
    attrs_okb d = true /\
    C.realisable (reg_ptr R) fs (declared_size d) (declared_align d) (is_packed d).
  Proof.
    rewrite <- (C.accept_iff_realisable _ _ _ _ _ fs_wf). split.
    - intros (st' & r & H). destruct (type_build_ok_inv _ _ H) as (_ & Ha & Hacc). split; [exact Ha | eauto].
    - intros [Ha [[total a] Hacc]].
      pose proof (type_build_decision st p v d parent m Hu8 Hu8a Hpar Hmod Himpl Hbody) as Hd.
      fold R scope fs in Hd. rewrite Ha, Hacc in Hd. destruct Hd as (r & Hr & _). eauto.
  Qed.

  (** the form of the property: for descriptions whose attributes scan without error *)
  Theorem type_build_accepts_iff_realisable :
    attrs_okb d = true ->
    ((exists st' r, type_build st p v d = (st', Ok r)) <->
     C.realisable (reg_ptr R) fs (declared_size d) (declared_align d) (is_packed d)).
  Proof. intros Ha. rewrite type_build_accepts_iff. tauto. Qed.

  (** "every other description fails with an error instead of producing bindings": never a
      deferral, never a panic, and the state is unchanged *)
  Theorem type_build_rejects_otherwise :
    ~ (attrs_okb d = true /\ C.realisable (reg_ptr R) fs (declared_size d) (declared_align d) (is_packed d)) ->
    exists msg, type_build st p v d = (st, Err msg).
  Proof.
    intros Hn. pose proof (type_build_decision st p v d parent m Hu8 Hu8a Hpar Hmod Himpl Hbody) as Hd.
    fold R scope fs in Hd. destruct (attrs_okb d); [|exact Hd].
    destruct (C.accept (reg_ptr R) fs (declared_size d) (declared_align d) (is_packed d)) as [[total a]|] eqn:Ea; [|exact Hd].
    exfalso. apply Hn. split; [reflexivity|]. apply (C.accept_iff_realisable _ _ _ _ _ fs_wf). eauto.
  Qed.

  (** the class is decided one way or the other *)
  Theorem type_build_ok_or_err :
    (exists r, type_build st p v d = (st, Ok r)) \/ (exists msg, type_build st p v d = (st, Err msg)).
  Proof.
    pose proof (type_build_decision st p v d parent m Hu8 Hu8a Hpar Hmod Himpl Hbody) as Hd.
    fold R scope fs in Hd.
    destruct (if attrs_okb d then _ else None) as [[total a]|]; [left | right; exact Hd].
    destruct Hd as (r & Hr & _). eauto.
  Qed.
End WholeIff.

(** ** 7. The packaged statement: one boolean premise on the state and the syntax *)
Lemma class_okb_sound st p d : class_okb st p d = true ->
  exists parent m, owner_module st p = Some m /\
    reg_u8 (st_reg st) /\ align_of (st_reg st) (TRaw ["u8"%string]) = Some 1 /\
    path_parent p = Some parent /\ alookup parent (st_modules st) = Some m /\
    alookup p (m_impls m) = None /\ body_okb (st_reg st) (module_scope m) d = true.
Proof.
  unfold class_okb, owner_module. intros H. apply andb_prop in H as [Hu H].
  destruct (u8_ok_sound _ Hu) as [Hu8 Hu8a].
  destruct (path_parent p) as [parent|]; [|discriminate].
  destruct (alookup parent (st_modules st)) as [m|] eqn:Em; [|discriminate].
  apply andb_prop in H as [Hi Hb]. destruct (alookup p (m_impls m)) eqn:Ei; [discriminate|].
  exists parent, m. repeat split; assumption.
Qed.

Theorem C03_type_build_iff st p v d :
  class_okb st p d = true ->
  ((exists st' r, type_build st p v d = (st', Ok r)) <->
   attrs_okb d = true /\
   C.realisable (reg_ptr (st_reg st)) (fields_of st p d) (declared_size d) (declared_align d) (is_packed d)).
Proof.
  intros H. destruct (class_okb_sound _ _ _ H) as (parent & m & Hom & Hu8 & Hu8a & Hpar & Hmod & Himpl & Hbody).
  unfold fields_of. rewrite Hom. eapply type_build_accepts_iff; eauto.
Qed.

Theorem C03_type_build_accepts_iff_realisable st p v d :
  class_okb st p d = true -> attrs_okb d = true ->
  ((exists st' r, type_build st p v d = (st', Ok r)) <->
   C.realisable (reg_ptr (st_reg st)) (fields_of st p d) (declared_size d) (declared_align d) (is_packed d)).
Proof. intros H Ha. rewrite (C03_type_build_iff _ _ _ _ H). tauto. Qed.

Theorem C03_type_build_size_align st p v d st' r :
  class_okb st p d = true -> type_build st p v d = (st', Ok r) ->
  st' = st /\
  C.accept (reg_ptr (st_reg st)) (fields_of st p d) (declared_size d) (declared_align d) (is_packed d)
  = Some (rs_size r, rs_align r).
Proof.
  intros H Hb. destruct (class_okb_sound _ _ _ H) as (parent & m & Hom & Hu8 & Hu8a & Hpar & Hmod & Himpl & Hbody).
  unfold fields_of. rewrite Hom.
  destruct (type_build_ok_inv st p v d parent m Hu8 Hu8a Hpar Hmod Himpl Hbody _ _ Hb) as (E & _ & Hacc). auto.
Qed.

Theorem C03_type_build_rejects_otherwise st p v d :
  class_okb st p d = true ->
  ~ (attrs_okb d = true /\
     C.realisable (reg_ptr (st_reg st)) (fields_of st p d) (declared_size d) (declared_align d) (is_packed d)) ->
  exists msg, type_build st p v d = (st, Err msg).
Proof.
  intros H Hn. destruct (class_okb_sound _ _ _ H) as (parent & m & Hom & Hu8 & Hu8a & Hpar & Hmod & Himpl & Hbody).
  unfold fields_of in Hn. rewrite Hom in Hn. eapply type_build_rejects_otherwise; eauto.
Qed.

(** the verdict as a boolean: [type_build] accepts iff [attrs_okb d && realisableb ..] *)
Theorem C03_type_build_verdict st p v d :
  class_okb st p d = true ->
  (exists st' r, type_build st p v d = (st', Ok r)) <->
  attrs_okb d &&
  C.realisableb (reg_ptr (st_reg st)) (fields_of st p d) (declared_size d) (declared_align d) (is_packed d) = true.
Proof.
  intros H. rewrite (C03_type_build_iff _ _ _ _ H), andb_true_iff, C.realisableb_spec. tauto.
Qed.

(** ** 8. Attribute errors: [type_build] rejects, whatever the rest of the description is.
    (No class hypothesis here: any state, any owner path, any statements.) *)
Theorem bad_type_doc_rejected st p v d :
  docs_ok (gt_attrs d) = false -> exists msg, type_build st p v d = (st, Err msg).
Proof.
  intros H. unfold type_build.
  destruct (path_parent p) as [parent|]; [|eauto].
  destruct (alookup parent (st_modules st)) as [m|]; [|eauto]. cbv zeta.
  pose proof (attrs_doc_dec (gt_attrs d)) as Hd. rewrite H in Hd. destruct Hd as [msg Hm]. rewrite Hm. cbn [bind]. eauto.
Qed.

Theorem bad_type_attr_rejected st p v d :
  type_attrs_ok (gt_attrs d) = false -> exists msg, type_build st p v d = (st, Err msg).
Proof.
  intros H. unfold type_build.
  destruct (path_parent p) as [parent|]; [|eauto].
  destruct (alookup parent (st_modules st)) as [m|]; [|eauto]. cbv zeta.
  pose proof (attrs_doc_dec (gt_attrs d)) as Hd.
  destruct (docs_ok (gt_attrs d)); destruct Hd as [x Hx]; rewrite Hx; cbn [bind]; [|eauto].
  pose proof (scan_type_attrs_spec (gt_attrs d) ta_init) as Hs. rewrite H in Hs. destruct Hs as [msg Hm].
  rewrite Hm. cbn [bind]. eauto.
Qed.

Lemma type_attrs_ok_neg name z attrs :
  In name ["size"; "singleton"; "align"]%string -> In (AFn name [EInt z]) attrs -> (z < 0)%Z ->
  type_attrs_ok attrs = false.
Proof.
  intros Hn Hin Hz. unfold type_attrs_ok.
  destruct (forallb _ attrs) eqn:E; [|reflexivity].
  rewrite forallb_forall in E. specialize (E _ Hin). unfold int_attr_ok in E.
  assert (existsb (String.eqb name) ["size"; "singleton"; "align"]%string = true) as Hex.
  { apply existsb_exists. exists name. split; [exact Hn | apply String.eqb_refl]. }
  rewrite Hex in E. lia.
Qed.

(** a negative [#[size(..)]], [#[align(..)]] or [#[singleton(..)]] anywhere in the attribute list
    (even when a later attribute overrides it) *)
Theorem negative_size_rejected st p v d z :
  In (AFn "size" [EInt z]) (gt_attrs d) -> (z < 0)%Z -> exists msg, type_build st p v d = (st, Err msg).
Proof. intros Hin Hz. apply bad_type_attr_rejected. eapply type_attrs_ok_neg; eauto. cbn; auto. Qed.
Theorem negative_align_rejected st p v d z :
  In (AFn "align" [EInt z]) (gt_attrs d) -> (z < 0)%Z -> exists msg, type_build st p v d = (st, Err msg).
Proof. intros Hin Hz. apply bad_type_attr_rejected. eapply type_attrs_ok_neg; eauto. cbn; auto. Qed.
Theorem negative_singleton_rejected st p v d z :
  In (AFn "singleton" [EInt z]) (gt_attrs d) -> (z < 0)%Z -> exists msg, type_build st p v d = (st, Err msg).
Proof. intros Hin Hz. apply bad_type_attr_rejected. eapply type_attrs_ok_neg; eauto. cbn; auto. Qed.

(** the scan of an accepted description, read back *)
Lemma scan_type_attrs_ok_inv attrs ta :
  foldM scan_type_attr attrs ta_init = Ok ta ->
  type_attrs_ok attrs = true /\
  ta_size ta = nat_attr "size" attrs /\ ta_align ta = nat_attr "align" attrs /\
  ta_packed ta = has_marker "packed" attrs /\ ta_defaultable ta = has_marker "defaultable" attrs.
Proof.
  intros H. pose proof (scan_type_attrs_spec attrs ta_init) as Hs.
  destruct (type_attrs_ok attrs); [|destruct Hs as [msg Hm]; congruence].
  destruct Hs as (ta' & H' & Hsz & Hal). rewrite H in H'. inversion H'; subst ta'.
  destruct (scan_type_attrs_flags _ _ _ H) as (_ & _ & Hdef & Hpk).
  cbn [ta_init ta_size ta_align ta_packed ta_defaultable orb] in *. unfold nat_attr.
  repeat split; assumption.
Qed.

(** [packed] together with [align(..)] is never accepted: any state, any statements *)
Theorem packed_with_align_never_accepted st p v d st' r :
  is_packed d = true -> declared_align d <> None -> type_build st p v d <> (st', Ok r).
Proof.
  intros Hp Ha H.
  destruct (type_build_inv _ _ _ _ _ _ H) as
      (parent & m & doc & ta & n & pending & vfs & regions & vt & size & funcs & A &
       _ & _ & Hta & _ & _ & Hca & _).
  destruct (scan_type_attrs_ok_inv _ _ Hta) as (_ & _ & Hal & Hpk & _).
  destruct (compute_alignment_packed _ _ _ _ _ Hca) as [_ Hnone]; [rewrite Hpk; exact Hp|].
  apply Ha. unfold declared_align. rewrite <- Hal. exact Hnone.
Qed.

Lemma packed_with_align_not_realisable ptr fs size a : ~ C.realisable ptr fs size (Some a) true.
Proof. intros (ms & e & _ & _ & H). cbn zeta in H. discriminate. Qed.

(** ... and in the class it is an error (not a deferral) *)
Theorem packed_with_align_rejected st p v d :
  class_okb st p d = true -> is_packed d = true -> declared_align d <> None ->
  exists msg, type_build st p v d = (st, Err msg).
Proof.
  intros Hc Hp Ha. apply (C03_type_build_rejects_otherwise _ _ _ _ Hc). intros [_ Hr].
  rewrite Hp in Hr. destruct (declared_align d) as [a|]; [|congruence].
  exact (packed_with_align_not_realisable _ _ _ _ Hr).
Qed.

(** a field attribute error (negative [#[address(..)]], non-string [doc]) on any plain field:
    never accepted, whatever the other statements are *)
Lemma process_statements_ok_attrs R scope : forall stmts acc acc',
  foldM (process_statement R scope) stmts acc = Ok acc' ->
  forall s, In s stmts -> (exists vs name t, gs_field s = GField vs name t) -> stmt_attrs_ok s = true.
Proof.
  induction stmts as [|s0 stmts IH]; intros acc acc' H s Hin Hf; [destruct Hin|].
  cbn [foldM] in H. inv_bind H. destruct Hin as [<-|Hin]; [|eapply IH; eauto].
  destruct Hf as (vs & name & t & Hf). destruct acc as [idx [pending vfs]].
  unfold process_statement in Ha. rewrite Hf in Ha. inv_bind Ha. inv_bind Ha.
  unfold stmt_attrs_ok.
  pose proof (attrs_doc_dec (gs_attrs s0)) as Hd. destruct (docs_ok (gs_attrs s0)); [|destruct Hd; congruence].
  pose proof (scan_field_attrs_spec (gs_attrs s0) (None, false)) as Hs.
  destruct (field_attrs_ok (gs_attrs s0)); [reflexivity | destruct Hs; congruence].
Qed.

Theorem bad_field_attr_never_accepted st p v d st' r s vs name t :
  In s (gt_stmts d) -> gs_field s = GField vs name t -> stmt_attrs_ok s = false ->
  type_build st p v d <> (st', Ok r).
Proof.
  intros Hin Hf Hbad H.
  destruct (type_build_inv _ _ _ _ _ _ H) as
      (parent & m & doc & ta & n & pending & vfs & regions & vt & size & funcs & A &
       _ & _ & _ & Hst & _).
  rewrite (process_statements_ok_attrs _ _ _ _ _ Hst s Hin) in Hbad; [discriminate | eauto].
Qed.

Lemma field_attrs_ok_neg z attrs :
  In (AFn "address" [EInt z]) attrs -> (z < 0)%Z -> field_attrs_ok attrs = false.
Proof.
  intros Hin Hz. unfold field_attrs_ok. destruct (forallb _ attrs) eqn:E; [|reflexivity].
  rewrite forallb_forall in E. specialize (E _ Hin). cbn in E. lia.
Qed.

Theorem negative_address_never_accepted st p v d st' r s vs name t z :
  In s (gt_stmts d) -> gs_field s = GField vs name t ->
  In (AFn "address" [EInt z]) (gs_attrs s) -> (z < 0)%Z ->
  type_build st p v d <> (st', Ok r).
Proof.
  intros Hin Hf Ha Hz. eapply bad_field_attr_never_accepted; eauto.
  unfold stmt_attrs_ok. rewrite (field_attrs_ok_neg _ _ Ha Hz). apply andb_false_r.
Qed.

(** ... and in the class it is an error *)
Theorem bad_attrs_rejected st p v d :
  class_okb st p d = true -> attrs_okb d = false -> exists msg, type_build st p v d = (st, Err msg).
Proof.
  intros Hc Ha. apply (C03_type_build_rejects_otherwise _ _ _ _ Hc). intros [Ha' _]. congruence.
Qed.

(** ** 9. Non-vacuity: concrete descriptions over built-in field types, in the state made by
    [sem_new ptr] plus one module (the input state of [pyxis_resolve]).

<<
#[size(24), align(8)]
pub type T { pub a: u32, #[address(8)] b: [u16; 2], _: unknown<4>, pub p: *const u8, z: [u64; 0] }
type Overlap { pub a: u32, #[address(2)] pub b: u16 }
type Misaligned { pub a: u8, pub b: u32 }
#[packed] type Packed { pub a: u8, pub b: u32 }
#[packed, align(4)] type PackedAlign { pub a: u32 }
#[size(-8)] type NegSize { pub a: u32 }
type NegAddr { #[address(-4)] pub a: u32 }
>> *)
Definition ex_text : string := "(module (attrs) (uses) (extern_types) (extern_values) (defs (def pub ""T"" (type (attrs (fn ""size"" (int 24)) (fn ""align"" (int 8))) (field (attrs) pub ""a"" (tid ""u32"")) (field (attrs (fn ""address"" (int 8))) priv ""b"" (array (tid ""u16"") 2)) (field (attrs) priv ""_"" (unknown 4)) (field (attrs) pub ""p"" (cptr (tid ""u8""))) (field (attrs) priv ""z"" (array (tid ""u64"") 0)))) (def priv ""Overlap"" (type (attrs) (field (attrs) pub ""a"" (tid ""u32"")) (field (attrs (fn ""address"" (int 2))) pub ""b"" (tid ""u16"")))) (def priv ""Misaligned"" (type (attrs) (field (attrs) pub ""a"" (tid ""u8"")) (field (attrs) pub ""b"" (tid ""u32"")))) (def priv ""Packed"" (type (attrs (ident ""packed"")) (field (attrs) pub ""a"" (tid ""u8"")) (field (attrs) pub ""b"" (tid ""u32"")))) (def priv ""PackedAlign"" (type (attrs (ident ""packed"") (fn ""align"" (int 4))) (field (attrs) pub ""a"" (tid ""u32"")))) (def priv ""NegSize"" (type (attrs (fn ""size"" (int -8))) (field (attrs) pub ""a"" (tid ""u32"")))) (def priv ""NegAddr"" (type (attrs) (field (attrs (fn ""address"" (int -4))) pub ""a"" (tid ""u32""))))) (impls) (backends))"%string.
Definition ex_mods : list (path * gmodule) := [(["m"%string], Examples.module_of_text ex_text)].

Definition ex_def (name : string) : gtypedef :=
  match find (fun gd => String.eqb (gi_name gd) name) (gm_defs (Examples.module_of_text ex_text)) with
  | Some gd => match gi_inner gd with GIType td => td | GIEnum _ => {| gt_stmts := []; gt_attrs := [] |} end
  | None => {| gt_stmts := []; gt_attrs := [] |}
  end.
Definition ex_path (name : string) : path := ["m"%string; name].

(** what the boolean premises and the spec evaluate to, for each description, at one pointer width:
    (in the class, attributes well formed, realisable) *)
Definition ex_verdict (ptr : N) (name : string) : option (bool * bool * bool) :=
  match input_state ptr ex_mods with
  | Ok st => let d := ex_def name in let p := ex_path name in
             Some (class_okb st p d, attrs_okb d,
                   C.realisableb (reg_ptr (st_reg st)) (fields_of st p d)
                                 (declared_size d) (declared_align d) (is_packed d))
  | _ => None
  end.

Example ex_premises :
  List.length (gt_stmts (ex_def "T")) = 5%nat /\
  ex_verdict 4 "T" = Some (true, true, true) /\ ex_verdict 8 "T" = Some (true, true, true) /\
  ex_verdict 4 "Overlap" = Some (true, true, false) /\
  ex_verdict 4 "Misaligned" = Some (true, true, false) /\
  ex_verdict 4 "Packed" = Some (true, true, true) /\
  ex_verdict 4 "PackedAlign" = Some (true, true, false) /\
  ex_verdict 4 "NegSize" = Some (true, false, false) /\
  ex_verdict 4 "NegAddr" = Some (true, false, true).
Proof. vm_compute. repeat split. Qed.

(** the input state, as a closed term *)
Definition ex_st (ptr : N) : sstate :=
  match input_state ptr ex_mods with
  | Ok st => st
  | _ => {| st_modules := []; st_reg := {| reg_types := []; reg_ptr := ptr |} |}
  end.
Example ex_st_is_input : input_state 4 ex_mods = Ok (ex_st 4) /\ input_state 8 ex_mods = Ok (ex_st 8).
Proof. vm_compute. split; reflexivity. Qed.

(** the abstract fields of [T] at pointer width 4 *)
Example ex_fields_T :
  fields_of (ex_st 4) (ex_path "T") (ex_def "T") =
  [ {| C.addr := None; C.sz := 4; C.al := 4; C.zarr := false |};
    {| C.addr := Some 8; C.sz := 4; C.al := 2; C.zarr := true |};
    {| C.addr := None; C.sz := 4; C.al := 1; C.zarr := true |};
    {| C.addr := None; C.sz := 4; C.al := 4; C.zarr := false |};
    {| C.addr := None; C.sz := 0; C.al := 8; C.zarr := true |} ] /\
  declared_size (ex_def "T") = Some 24 /\ declared_align (ex_def "T") = Some 8 /\ is_packed (ex_def "T") = false.
Proof. vm_compute. repeat split. Qed.

Definition ex_realisableb (ptr : N) (name : string) : bool :=
  C.realisableb (reg_ptr (st_reg (ex_st ptr))) (fields_of (ex_st ptr) (ex_path name) (ex_def name))
                (declared_size (ex_def name)) (declared_align (ex_def name)) (is_packed (ex_def name)).
Definition ex_accept (ptr : N) (name : string) : option (N * N) :=
  C.accept (reg_ptr (st_reg (ex_st ptr))) (fields_of (ex_st ptr) (ex_path name) (ex_def name))
           (declared_size (ex_def name)) (declared_align (ex_def name)) (is_packed (ex_def name)).

(** the theorem applied: [T] is accepted with size 24, alignment 8, because it is realisable ... *)
Example ex_T_accepted ptr : ptr = 4 \/ ptr = 8 ->
  exists st' r, type_build (ex_st ptr) (ex_path "T") Public (ex_def "T") = (st', Ok r) /\
                rs_size r = 24 /\ rs_align r = 8.
Proof.
  intros Hp.
  assert (class_okb (ex_st ptr) (ex_path "T") (ex_def "T") = true /\ attrs_okb (ex_def "T") = true /\
          ex_realisableb ptr "T" = true /\ ex_accept ptr "T" = Some (24, 8)) as (Hc & Ha & Hr & Hacc).
  { destruct Hp as [-> | ->]; vm_compute; repeat split. }
  destruct (proj2 (C03_type_build_accepts_iff_realisable (ex_st ptr) _ Public _ Hc Ha)) as (st' & r & Hb).
  { apply C.realisableb_spec. exact Hr. }
  exists st', r. split; [exact Hb|].
  destruct (C03_type_build_size_align _ _ _ _ _ _ Hc Hb) as [_ Hsa]. unfold ex_accept in Hacc.
  rewrite Hacc in Hsa. inversion Hsa. auto.
Qed.

(** ... and the others are rejected with an error because they are not (or carry an attribute error) *)
Example ex_rejected name : In name ["Overlap"; "Misaligned"; "PackedAlign"; "NegSize"; "NegAddr"]%string ->
  exists msg, type_build (ex_st 4) (ex_path name) Private (ex_def name) = (ex_st 4, Err msg).
Proof.
  intros Hn.
  assert (class_okb (ex_st 4) (ex_path name) (ex_def name) = true /\
          attrs_okb (ex_def name) && ex_realisableb 4 name = false) as (Hc & Hv).
  { cbn [In] in Hn. repeat (destruct Hn as [<- | Hn]; [vm_compute; split; reflexivity|]). destruct Hn. }
  apply (C03_type_build_rejects_otherwise _ _ _ _ Hc). intros [Ha Hr].
  apply C.realisableb_spec in Hr. unfold ex_realisableb in Hv. rewrite Ha, Hr in Hv. discriminate Hv.
Qed.

(** every built-in field type of the property's quantifier (the 14 predefined scalars, pointers,
    arrays, [unknown<N>]) passes [field_ok] in these states, at both pointer widths *)
Definition builtin_gtypes : list gtype :=
  let scalars := map (fun ns => GIdent (fst ns)) predefined_types in
  scalars ++ map GConstPtr scalars ++ map GMutPtr scalars ++ map (fun t => GArray t 3) scalars ++
  [GArray (GArray (GIdent "u16") 2) 5; GConstPtr (GMutPtr (GIdent "void")); GUnknown 0; GUnknown 7;
   GArray (GIdent "u64") 0]%string.
Example ex_builtin_types_in_class :
  forallb (fun ptr => forallb (fun t => field_ok (st_reg (ex_st ptr)) [["m"%string]]
                                                 {| gs_field := GField Public "f" t; gs_attrs := [] |})
                              builtin_gtypes) [4; 8] = true.
Proof. vm_compute. reflexivity. Qed.

Print Assumptions C03_type_build_iff.
Print Assumptions C03_type_build_accepts_iff_realisable.
Print Assumptions C03_type_build_size_align.
Print Assumptions C03_type_build_rejects_otherwise.
Print Assumptions packed_with_align_never_accepted.
Print Assumptions negative_size_rejected.
Print Assumptions negative_address_never_accepted.
Print Assumptions ex_T_accepted.
Print Assumptions ex_rejected.
