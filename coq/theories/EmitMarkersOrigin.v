(** * EmitMarkersOrigin: inherited copies keep the visibility and the doc lines of the DECLARATION
    they come from, through any number of [#[base]] levels (Part 4c of EmitMarkers.v, closed).

    [C17_emitted_inherited_wrappers] (EmitMarkersFn.v) is one step: a forwarder carries the
    visibility / doc of the function record of the base type's item.  Here the chain is closed with
    the rank of the base hierarchy (NoPanicRank.v: the base of a type has a smaller rank): every
    function record of every type item of the final registry -- associated functions (own and
    forwarded) and vftable slots (own block, or the table shared with the first base) that are not
    placeholders -- carries the visibility and the doc of a function DECLARED in the input, in an
    impl block or a vftable block of a declared type ([fn_origins]).  With the wrapper / slot shapes
    this gives [C17_emitted_wrappers_origin] and [C17_emitted_slots_origin]: every wrapper of the
    inherent impl of a declared type, and every non-placeholder slot of its [<T>Vftable], has the
    visibility and the doc lines of a declared function. *)
From Coq Require Import List NArith ZArith Bool Lia String Permutation Wf_nat.
From PyxisModel Require Import Base Sexp Grammar SemTypes Registry Sem SemLemmas FunctionLemmas
     ScopeLemmas PlacementLemmas VftableLemmas InheritLemmas TotalityLemmas EnumLemmas Emit EmitLemmas
     WholeBuild WholeBuildMore FinalState NoPanicNames NoPanicRank
     EmitReaders EmitShape EmitFinal EmitFind EmitFnReaders EmitFnShape EmitFnFinal
     EmitMarkers EmitMarkersEnum EmitMarkersFn.
Import ListNotations.
Local Open Scope string_scope.
Local Open Scope list_scope.

(** ** the statement *)
(** [gf] is a function the input declares: in the impl block of a declared type, or in its vftable
    block *)
Definition declared_fn (st0 : sstate) (gf : gfunction) : Prop :=
  exists q it0 gd td0,
    reg_get (st_reg st0) q = Some it0 /\ it_state it0 = Unresolved gd /\ gi_inner gd = GIType td0 /\
    ((exists parent module0 blk,
        path_parent q = Some parent /\ alookup parent (st_modules st0) = Some module0 /\
        alookup q (m_impls module0) = Some blk /\ In gf (gb_fns blk)) \/
     (exists stm gfs, In stm (gt_stmts td0) /\ gs_field stm = GVftable gfs /\ In gf gfs)).

(** the record [sf] carries the visibility and the doc of the declaration [gf] *)
Definition carries (gf : gfunction) (sf : sfunction) : Prop :=
  sf_vis sf = gf_vis gf /\ attrs_doc (gf_attrs gf) = Ok (sf_doc sf).

Definition has_origin (st0 : sstate) (sf : sfunction) : Prop :=
  exists gf, declared_fn st0 gf /\ carries gf sf.

Definition fns_ok (st0 : sstate) (td : type_def) : Prop :=
  Forall (has_origin st0) (td_assoc td) /\
  forall vt, td_vftable td = Some vt -> Forall (fun sf => is_pad sf \/ has_origin st0 sf) (vt_functions vt).

Lemma carries_build R scope v gf sf : function_build R scope v gf = Ok sf -> carries gf sf.
Proof. intros H. destruct (function_build_spec _ _ _ _ _ H) as (_ & Hv & Hd & _). split; assumption. Qed.

Lemma carries_forwards base gf g f' : forwards base g f' -> carries gf g -> carries gf f'.
Proof. intros (_ & _ & _ & Hv & Hd & _) [A B]. unfold carries. now rewrite Hv, Hd. Qed.

Lemma pad_private sf : is_pad sf -> sf_is_public sf = false.
Proof. intros (k & ->). reflexivity. Qed.

Lemma Forall2_in_r' {A B} (P : A -> B -> Prop) l1 l2 b :
  Forall2 P l1 l2 -> In b l2 -> exists a, In a l1 /\ P a b.
Proof.
  induction 1 as [|x y l1 l2 Hxy _ IH]; intros Hin; [destruct Hin|].
  destruct Hin as [->|Hin]; [exists x; split; [now left | exact Hxy]|].
  destruct (IH Hin) as (a & Ha & Hp). exists a. split; [now right | exact Hp].
Qed.

(** ** the items of the final registry *)
Section Accepted.
  Variables (order : schedule) (ptr : N) (mods : list (path * gmodule)) (st0 st : sstate).
  Hypothesis Hin : input_state ptr mods = Ok st0.
  Hypothesis Hcf : collision_free (st_reg st0).
  Hypothesis Hres : pyxis_resolve order ptr mods = BOk st.
  Let R0 := st_reg st0.
  Let R := st_reg st.

  Lemma final_gen_plain : gen_plain R0 R.
  Proof.
    destruct (pyxis_resolve_input _ _ _ _ Hres) as (st0' & Hin' & Hb).
    rewrite Hin in Hin'. inversion Hin'; subst st0'. clear Hin'.
    pose proof (input_state_keyed _ _ _ Hin) as HK0.
    unfold sem_build in Hb.
    destruct (resolve_loop order _ st0) as [st1| | | |] eqn:El; try discriminate.
    unfold R. rewrite (finish_build_reg _ _ Hb).
    destruct (resolve_loop_built2 R0 (st_modules st0) order Hcf _ _ _ (Inv_init _) HK0 (mods_rel_refl _)
                                  (gen_plain_init _) El) as (HJ1 & _). exact HJ1.
  Qed.

  (** a type item of the final registry is a declared type, or has no function at all *)
  Lemma final_type_cases p it rs td :
    reg_get R p = Some it -> item_resolved it = Some rs -> rs_inner rs = IType td ->
    (exists it0 gd td0, reg_get R0 p = Some it0 /\ it_state it0 = Unresolved gd /\ gi_inner gd = GIType td0) \/
    (td_assoc td = [] /\ td_vftable td = None).
  Proof.
    intros Hg Hr Hi. destruct (reg_get R0 p) as [it0|] eqn:Hg0.
    - destruct (it_state it0) as [gd|rs0] eqn:Hs0.
      + destruct (gi_inner gd) as [td0|ed0] eqn:Hty; [left; exists it0, gd, td0; auto|]. exfalso.
        assert (it_state it = Resolved rs) as Hs.
        { unfold item_resolved in Hr. destruct (it_state it); inversion Hr. reflexivity. }
        destruct (whole_build_enum _ _ _ _ _ _ _ _ _ _ _ Hin Hcf Hres Hg0 Hs0 Hty Hg Hs) as (sm & _ & _ & Hb).
        destruct (enum_build_doc _ _ _ _ Hb) as (ed & Hi' & _). congruence.
      + right. assert (item_resolved it0 = Some rs0) as Hr0 by (unfold item_resolved; now rewrite Hs0).
        destruct (input_state_trivial _ _ _ Hin _ _ _ Hg0 Hr0) as (_ & td' & Hi' & _ & Ha & Hv).
        destruct (pyxis_resolve_items _ _ _ _ _ Hin Hcf Hres) as ((_ & He & _) & _).
        destruct (He _ _ _ Hg0 Hr0) as (it' & rs' & Hg' & Hr' & _ & _ & Heq).
        fold R in Hg'. rewrite Hg in Hg'. inversion Hg'; subst it'.
        assert (it = it0) as E by (apply Heq; unfold R0 in Hg0; rewrite Hg0; discriminate).
        rewrite E, Hr0 in Hr. inversion Hr; subst rs0.
        rewrite Hi in Hi'. inversion Hi'; subst td'. auto.
    - right. destruct (final_gen_plain _ _ Hg Hg0) as (rs' & td' & Hr' & Hi' & Ha & Hv).
      rewrite Hr in Hr'. inversion Hr'; subst rs'. rewrite Hi in Hi'. inversion Hi'; subst td'. auto.
  Qed.

  (** the contributions of the bases: every forwarded record has an origin when the base items do *)
  Lemma base_contributions_origin : forall bases i contribs,
    base_contributions R bases i = Ok contribs ->
    (forall b name tdb, In b bases -> region_name_and_typedef R b = Ok (Some (name, tdb)) -> fns_ok st0 tdb) ->
    Forall (fun c => Forall (has_origin st0) (snd c)) contribs.
  Proof.
    induction bases as [|b bases IH]; intros i contribs H Hb; cbn [base_contributions] in H.
    - inversion H. constructor.
    - inv_bind H. rename a into x. inv_bind H. rename a into tl.
      assert (Forall (fun c => Forall (has_origin st0) (snd c)) tl) as Htl.
      { eapply IH; [exact Ha0|]. intros b' name tdb Hin'. apply Hb. now right. }
      destruct x as [[name tdb]|]; [|inversion H; subst; exact Htl].
      inversion H; subst contribs. constructor; [|exact Htl]. cbn [snd].
      destruct (Hb b name tdb (or_introl eq_refl) Ha) as (Hassoc & Hvt).
      apply Forall_app. split.
      + apply Forall_forall. intros g Hg. apply filter_In in Hg as [Hg _]. rewrite Forall_forall in Hassoc. auto.
      + destruct i as [|i']; [constructor|]. destruct (td_vftable tdb) as [vt|]; [|constructor].
        specialize (Hvt vt eq_refl). apply Forall_forall. intros g Hg. apply filter_In in Hg as [Hg Hp].
        rewrite Forall_forall in Hvt. destruct (Hvt _ Hg) as [Hpad|Ho]; [|exact Ho].
        rewrite (pad_private _ Hpad) in Hp. discriminate.
  Qed.

  (** one declared type, given its bases *)
  Lemma declared_type_fns_ok p it0 gd td0 it r td :
    reg_get R0 p = Some it0 -> it_state it0 = Unresolved gd -> gi_inner gd = GIType td0 ->
    reg_get R p = Some it -> it_state it = Resolved r -> rs_inner r = IType td ->
    (forall b name tdb, In b (td_regions td) -> r_is_base b = true ->
       region_name_and_typedef R b = Ok (Some (name, tdb)) -> fns_ok st0 tdb) ->
    fns_ok st0 td.
  Proof.
    intros Hg0 Hs0 Hty Hg Hs Hi Hbases. split.
    - (* associated functions *)
      destruct (C07_whole_build _ _ _ _ _ _ _ _ _ _ _ _ Hin Hcf Hres Hg0 Hs0 Hty Hg Hs Hi)
        as (contribs & news & own & parent & module0 & R_mid & Hc & Htda & Hnews & Hfw & Hpar & Hm0 & _ & Hown).
      cbn zeta in Htda, Hnews. rewrite Htda, Hnews. apply Forall_app. split.
      + assert (Forall (fun c => Forall (has_origin st0) (snd c)) contribs) as Hco.
        { eapply base_contributions_origin; [exact Hc|]. intros b name tdb Hb Hl.
          apply filter_In in Hb as [Hb Hbase]. eapply Hbases; eauto. }
        clear -Hfw Hco. induction Hfw as [|c new contribs news Hcn _ IH]; cbn [List.concat]; [constructor|].
        inversion Hco as [|? ? Hc Hrest]; subst. apply Forall_app. split; [|now apply IH].
        clear -Hcn Hc. induction Hcn as [|g f' gs fs' Hgf _ IH']; [constructor|].
        inversion Hc as [|? ? (gf & Hd & Hcar) Hr]; subst. constructor; [|now apply IH'].
        exists gf. split; [exact Hd | eapply carries_forwards; eauto].
      + destruct (alookup p (m_impls module0)) as [blk|] eqn:Hblk; [|subst own; constructor].
        apply Forall_forall. intros sf Hsf.
        destruct (Forall2_in_r' _ _ _ _ Hown Hsf) as (gf & Hgf & Hfb).
        exists gf. split; [|eapply carries_build; eauto].
        exists p, it0, gd, td0. repeat (split; [assumption|]). left. exists parent, module0, blk. auto.
    - (* the vftable *)
      intros vt Hvt.
      destruct (whole_build_first_base _ _ _ _ _ _ _ _ _ _ _ _ Hin Hcf Hres Hg0 Hs0 Hty Hg Hs Hi)
        as (m & m' & module & ta & n & pending & vfs & size & vr & vp &
            Hext0 & Hmm' & Hext & HJm & HJ & Hstm & Hrr & Hvp & Hvb & Hu8).
      destruct vfs as [fs|].
      + (* own block *)
        destruct (vftable_build_some _ _ _ _ _ _ _ _ _ Hvb Hvp) as (vit & bf & _ & _ & _ & Hvt').
        rewrite Hvt in Hvt'. inversion Hvt'; subst vt. cbn [vt_functions].
        destruct (process_statements_vfs _ _ _ _ _ _ Hstm) as (s & rest & gfs & sz & Hst & Hf & _ & Hconv).
        pose proof (interleave_right _ _ _ _ _ (convert_functions_il _ _ _ _ _ Hconv)) as Hr.
        eapply Forall_impl; [|exact Hr]. intros sf [Hp|(gf & Hgf & Hfb)]; [now left|]. right.
        exists gf. split; [|eapply carries_build; eauto].
        exists p, it0, gd, td0. repeat (split; [assumption|]). right. exists s, gfs.
        split; [rewrite Hst; now left | auto].
      + (* the table of the first base *)
        unfold vftable_build in Hvb. inv_bind Hvb. rename a into base.
        destruct base as [[base_name bvt]|]; inversion Hvb; subst; [|congruence].
        match goal with H : Some _ = td_vftable td |- _ => rewrite <- H in Hvt end.
        inversion Hvt; subst vt. cbn [vt_functions]. clear Hvt.
        destruct (find r_is_base (td_regions td)) as [fb|] eqn:Hfb; [|cbn in Ha; inversion Ha].
        unfold opt_region_name_and_vftable in Ha. inv_bind Ha. rename a into x.
        destruct x as [[nm tdm]|]; [|inversion Ha]. cbn [option_map] in Ha.
        destruct (td_vftable tdm) as [bv|] eqn:Ebv; inversion Ha; subst nm bv. clear Ha.
        destruct (typedef_lookup_ext _ _ _ _ _ _ Hext HJm HJ Ha0) as (td' & Hl' & _ & Hv' & _).
        apply find_some in Hfb as [Hfin Hfbase].
        destruct (Hbases _ _ _ Hfin Hfbase Hl') as (_ & Hvt'). apply Hvt'. congruence.
  Qed.

  (** ** every function record of the final registry has a declared origin *)
  Theorem fn_origins : forall p it rs td,
    reg_get R p = Some it -> item_resolved it = Some rs -> rs_inner rs = IType td -> fns_ok st0 td.
  Proof.
    destruct (rank_final _ _ _ _ _ Hin Hres) as (rank & Hrank & _). fold R in Hrank.
    assert (forall n p, (rank p < n)%nat -> forall it rs td,
              reg_get R p = Some it -> item_resolved it = Some rs -> rs_inner rs = IType td -> fns_ok st0 td) as H.
    { induction n as [|n IH]; intros p Hlt it rs td Hg Hr Hi; [lia|].
      destruct (final_type_cases _ _ _ _ Hg Hr Hi) as [(it0 & gd & td0 & Hg0 & Hs0 & Hty)|(Ha & Hv)].
      - assert (it_state it = Resolved rs) as Hs.
        { unfold item_resolved in Hr. destruct (it_state it); inversion Hr. reflexivity. }
        eapply declared_type_fns_ok; eauto.
        intros b name tdb Hb Hbase Hl.
        destruct (typedef_lookup_shape _ _ _ Hl) as (nm & bp & itb & _ & Hbt & Hgb & _ & rsb & Hrb & Hib).
        destruct (Hrank _ _ _ _ _ _ Hg Hr Hi Hb Hbase Hbt) as (_ & Hlt').
        eapply (IH bp); eauto. lia.
      - split; [rewrite Ha; constructor | intros vt Hvt; congruence]. }
    intros p it rs td. eapply (H (S (rank p))). lia.
  Qed.
End Accepted.

(** ** on the emitted text: every function of the inherent impl of a declared type *)
(** the emitted function [e] has the visibility and the doc lines of a function the input declares *)
Definition fn_from_declaration (st0 : sstate) (e : sexp) : Prop :=
  exists gf, declared_fn st0 gf /\ item_kind e = Some "fn" /\ fn_vis e = Some (gf_vis gf) /\
    exists docs, fn_docs e = Some docs /\ docs_as_declared (gf_attrs gf) docs.

Lemma wrapper_from_declaration st0 sf e : has_origin st0 sf -> wrapper_shape sf e -> fn_from_declaration st0 e.
Proof.
  intros (gf & Hd & Hv & Hdoc) Hw. destruct (wrapper_vis_docs _ _ Hw) as (K & _ & B & C).
  exists gf. split; [exact Hd|]. split; [exact K|]. split; [now rewrite B, Hv|].
  exists (doc_lines (sf_doc sf)). split; [exact C | now apply docs_of_attrs_doc].
Qed.

Lemma wrappers_from_declarations st0 l out :
  mapM build_function l = Ok out -> Forall (has_origin st0) l -> Forall (fn_from_declaration st0) out.
Proof.
  intros H Ho. pose proof (wrappers_shape _ _ H) as F. clear H.
  induction F as [|sf e l out Hw _ IH]; [constructor|]. inversion Ho; subst.
  constructor; [eapply wrapper_from_declaration; eauto | now apply IH].
Qed.

Theorem C17_emitted_wrappers_origin order ptr mods st0 st files p it0 gd td0 :
  input_state ptr mods = Ok st0 -> NoDup (map fst mods) -> collision_free (st_reg st0) ->
  keeps_work order ->
  pyxis_resolve order ptr mods = BOk st -> write_all st = Ok files ->
  reg_get (st_reg st0) p = Some it0 -> it_state it0 = Unresolved gd -> gi_inner gd = GIType td0 ->
  path_parent p <> Some [] ->
  exists parent name f items s im acc wrappers,
    path_parent p = Some parent /\ path_last p = Some name /\
    In (out_path parent, f) files /\ file_items f = Some items /\
    find_struct name items = Some s /\ In im items /\
    (* the inherent impl: the [vftable()] accessor if the type has a table, then the wrappers *)
    inherent_impl im = Some (name, acc ++ wrappers) /\
    Forall (fun a => fn_name a = Some "vftable" /\ fn_vis a = Some Public /\ fn_docs a = Some []) acc /\
    (List.length acc <= 1)%nat /\
    (* every wrapper -- own, forwarded from a base at any depth, virtual -- has the visibility and
       the doc lines of a function the input declares *)
    Forall (fn_from_declaration st0) wrappers.
Proof.
  intros Hin HN Hcf Hord Hres Hw Hg0 Hs0 Hty Hroot.
  destruct (emitted_type_items _ _ _ _ _ _ _ _ _ _ Hin HN Hcf Hord Hres Hw Hg0 Hs0 Hty Hroot)
    as (parent & name & it & r & td & f & pre & s & sing & im & conv & post & acc & assoc & vfns &
        Hpar & Hne & Hname & Hg & Hs & Hi & Hfile & Hitems & Hfind & Hsh & Hsing & Him & Hacc & Hassoc & Hvfns & Hconv).
  assert (item_resolved it = Some r) as Hr by (unfold item_resolved; now rewrite Hs).
  destruct (fn_origins _ _ _ _ _ Hin Hcf Hres _ _ _ _ Hg Hr Hi) as (Ho & Hvo).
  exists parent, name, f, (pre ++ (s :: size_check name (rs_size r) ++ sing ++ im :: conv) ++ post), s, im, acc, (assoc ++ vfns).
  split; [exact Hpar|]. split; [exact Hname|]. split; [exact Hfile|]. split; [exact Hitems|]. split; [exact Hfind|].
  split. { apply in_or_app. right. apply in_or_app. left. right. apply in_or_app. right. apply in_or_app. right. now left. }
  split; [subst im; apply inherent_impl_printed|].
  split.
  { destruct (td_vftable td) as [vt|]; [|subst acc; constructor].
    destruct Hacc as (a & Ha & ->). constructor; [|constructor].
    pose proof (vftable_accessor_shape _ _ Ha) as Hsh'. split; [apply Hsh'|]. split; [apply Hsh'|].
    unfold vftable_accessor in Ha. destruct (negb (stype_ok _)); [discriminate|].
    destruct (vt_base_field vt) as [b|]; [destruct (negb (ident_ok b)); [discriminate|]|]; inversion Ha;
      unfold fn_docs; rewrite (read_fn_fn_sexp [] Public false "vftable" [Atom "self"] _ _ [EPSelf] eq_refl); reflexivity. }
  split. { destruct (td_vftable td); [destruct Hacc as (a & _ & ->) | subst acc]; cbn; lia. }
  apply Forall_app. split.
  - eapply wrappers_from_declarations; [exact Hassoc|].
    apply Forall_forall. intros sf Hsf. apply filter_In in Hsf as [Hsf _]. rewrite Forall_forall in Ho. auto.
  - destruct (td_vftable td) as [vt|]; [|subst vfns; constructor].
    eapply wrappers_from_declarations; [exact Hvfns|]. specialize (Hvo vt eq_refl).
    apply Forall_forall. intros sf Hsf. apply filter_In in Hsf as [Hsf Hint]. rewrite Forall_forall in Hvo.
    destruct (Hvo _ Hsf) as [(k & ->)|Horig]; [|exact Horig]. rewrite pad_internal in Hint. discriminate.
Qed.

Print Assumptions fn_origins.
Print Assumptions C17_emitted_wrappers_origin.
