(** * RefutedWitnessesEmit: open findings about emitted structs and enums (F9, F12a, F12b, F12c, F13,
    F14), as machine-checked facts about the MODEL.

    Every input is accepted by the model ([pyxis_resolve .. = BOk], [write_all .. = Ok]) and meets
    the side conditions of the whole-build theorems ([collision_freeb], [clean_stateb]); what is
    written is read back with the readers of EmitReaders.v / EmitLayout.v / EmitPaths.v.  The
    offending fact of each theorem is the fact rustc rejects (C13) or the fact that contradicts the
    property (C01/C02/C08).  Pointer width 4, schedule [hook_schedule []] throughout.

    Positive counterparts (what IS proved): [C02_whole_build] and
    [EmitLayout.emitted_struct_whole_build] (the emitted struct, laid out from the REGISTRY's sizes
    of its field types, has the resolved size: F9 is exactly the one field type whose registry size
    is not the compiler's); [C08_whole_build], [C08_emitted_enum_shape] (the emitted enum is what
    was declared: F12a-c are declarations rustc refuses); [EmitShape.struct_shape] (repr as
    declared: F13); [EmitInherit]'s [no_field_named "vftable"] hypothesis (F14). *)
From Coq Require Import List String NArith ZArith Bool.
From PyxisModel Require Import Base Sexp Grammar SemTypes Registry Sem Emit WholeBuild OrderIndep
     EmitReaders EmitFnReaders RustLayout EmitLayout FilesRead EmitPaths EmitMarkersEnum RefutedInputs.
Import ListNotations.
Local Open Scope string_scope.
Local Open Scope list_scope.

(** ** F9: a by-value [void] field
    [#[packed] type T { a: void, b: u8 }].  pyxis gives [void] the size 0 and writes it
    [::std::ffi::c_void]; for rustc that type is a one-byte enum ([#[repr(u8)] pub enum c_void],
    library/core/src/ffi/mod.rs): size 1, alignment 1. *)
Definition rustc_c_void : sa := (1, 1)%N.
(** the compiler's (size, alignment) of an emitted field type: the registry's, except for [void] *)
Definition rustc_field_sa (R : registry) (t : stype) : sa :=
  match t with
  | TRaw p => if is_void p then rustc_c_void else type_sa R t
  | _ => type_sa R t
  end.
Definition c_void_tokens : list sexp := tks [":"; ":"; "std"; ":"; ":"; "ffi"; ":"; ":"; "c_void"].

Definition f9_st0 : sstate := st0_of 4 f9_mods.
Definition f9_st : sstate := st_of [] 4 f9_mods.
Definition f9_files : files_t := files_of f9_st.
Definition f9_tys : list stype := [TRaw ["void"]; TRaw ["u8"]].

Lemma f9_accepted : accepted_check [] 4 f9_mods = true.
Proof. vm_compute. reflexivity. Qed.
Lemma f9_built : built [] 4 f9_mods f9_st0 f9_st f9_files.
Proof. exact (built_of _ _ _ f9_accepted). Qed.
Lemma f9_side : side_ok f9_st0 = true.
Proof. vm_compute. reflexivity. Qed.
Lemma f9_resolved :
  size_at f9_st ["a"; "T"] = Some 1%N /\
  option_map (map r_type) (regions_at f9_st ["a"; "T"]) = Some f9_tys /\
  map (type_sa (st_reg f9_st)) f9_tys = [(0, 1); (1, 1)]%N /\
  map (rustc_field_sa (st_reg f9_st)) f9_tys = [(1, 1); (1, 1)]%N.
Proof. vm_compute. repeat split; reflexivity. Qed.
Lemma f9_emitted :
  thenr (struct_of f9_files "a.rs" "T") struct_repr = Some ReprPacked /\
  option_map (map (fun ef => (ef_name ef, ef_ty ef))) (thenr (struct_of f9_files "a.rs" "T") struct_fields) =
    Some [("a", c_void_tokens); ("b", [Atom "u8"])] /\
  size_check_of f9_files "a.rs" "T" = Some (1%N, 1%N).
Proof. vm_compute. repeat split; reflexivity. Qed.
Lemma f9_layouts :
  thenr (struct_of f9_files "a.rs" "T") (emitted_struct_layout (map (type_sa (st_reg f9_st)) f9_tys)) =
    Some ([("a", 0); ("b", 0)], 1, 1)%N /\
  thenr (struct_of f9_files "a.rs" "T") (emitted_struct_layout (map (rustc_field_sa (st_reg f9_st)) f9_tys)) =
    Some ([("a", 0); ("b", 1)], 2, 1)%N.
Proof. vm_compute. split; reflexivity. Qed.

(** accepted; resolved size 1, size check literal 1; the emitted struct is [repr(C, packed)] with the
    fields [a: ::std::ffi::c_void] and [b: u8].  With the registry's sizes (void = 0) the
    Reference's algorithm gives size 1, both fields at offset 0; with the compiler's [c_void]
    (1 byte) it gives size 2 and [b] at offset 1: the resolved size is NOT the compiled size
    (C02), the declared field [b] is NOT at its resolved offset (C01), and the emitted size check
    [transmute::<[u8; 1], T>] does not compile (C13). *)
Theorem C01_C02_void_by_value_refuted_F9 :
  exists st0 st files,
    built [] 4 f9_mods st0 st files /\ side_ok st0 = true /\
    size_at st ["a"; "T"] = Some 1%N /\
    option_map (map r_type) (regions_at st ["a"; "T"]) = Some f9_tys /\
    thenr (struct_of files "a.rs" "T") struct_repr = Some ReprPacked /\
    option_map (map (fun ef => (ef_name ef, ef_ty ef))) (thenr (struct_of files "a.rs" "T") struct_fields) =
      Some [("a", c_void_tokens); ("b", [Atom "u8"])] /\
    size_check_of files "a.rs" "T" = Some (1%N, 1%N) /\
    map (type_sa (st_reg st)) f9_tys = [(0, 1); (1, 1)]%N /\
    map (rustc_field_sa (st_reg st)) f9_tys = [(1, 1); (1, 1)]%N /\
    thenr (struct_of files "a.rs" "T") (emitted_struct_layout (map (type_sa (st_reg st)) f9_tys)) =
      Some ([("a", 0); ("b", 0)], 1, 1)%N /\
    thenr (struct_of files "a.rs" "T") (emitted_struct_layout (map (rustc_field_sa (st_reg st)) f9_tys)) =
      Some ([("a", 0); ("b", 1)], 2, 1)%N.
Proof.
  exists f9_st0, f9_st, f9_files.
  destruct f9_resolved as (R1 & R2 & R3 & R4). destruct f9_emitted as (E1 & E2 & E3). destruct f9_layouts as [L1 L2].
  split; [exact f9_built|]. split; [exact f9_side|]. split; [exact R1|]. split; [exact R2|]. split; [exact E1|].
  split; [exact E2|]. split; [exact E3|]. split; [exact R3|]. split; [exact R4|]. split; [exact L1 | exact L2].
Qed.
Print Assumptions C01_C02_void_by_value_refuted_F9.

(** ** F12a: [enum E: u8 {}] -- accepted, emitted with [repr(u8)] and no variant (rustc E0084) *)
Definition f12a_st0 : sstate := st0_of 4 f12a_mods.
Definition f12a_st : sstate := st_of [] 4 f12a_mods.
Definition f12a_files : files_t := files_of f12a_st.
Lemma f12a_accepted : accepted_check [] 4 f12a_mods = true.
Proof. vm_compute. reflexivity. Qed.
Lemma f12a_built : built [] 4 f12a_mods f12a_st0 f12a_st f12a_files.
Proof. exact (built_of _ _ _ f12a_accepted). Qed.
Lemma f12a_facts :
  side_ok f12a_st0 = true /\
  option_map ed_fields (enumdef_at f12a_st ["a"; "E"]) = Some [] /\
  size_at f12a_st ["a"; "E"] = Some 1%N /\
  thenr (enum_of f12a_files "a.rs" "E") enum_repr = Some [Atom "u8"] /\
  thenr (enum_of f12a_files "a.rs" "E") enum_variants_of = Some [].
Proof. vm_compute. repeat split; reflexivity. Qed.

Theorem C08_C13_enum_without_variants_refuted_F12a :
  exists st0 st files,
    built [] 4 f12a_mods st0 st files /\ side_ok st0 = true /\
    option_map ed_fields (enumdef_at st ["a"; "E"]) = Some [] /\
    size_at st ["a"; "E"] = Some 1%N /\
    thenr (enum_of files "a.rs" "E") enum_repr = Some [Atom "u8"] /\
    thenr (enum_of files "a.rs" "E") enum_variants_of = Some [].
Proof.
  exists f12a_st0, f12a_st, f12a_files. destruct f12a_facts as (A & B & C & D & E).
  split; [exact f12a_built|]. split; [exact A|]. split; [exact B|]. split; [exact C|]. split; [exact D | exact E].
Qed.
Print Assumptions C08_C13_enum_without_variants_refuted_F12a.

(** ** F12b: [type S { a: u8 }  enum E: S { A }] -- accepted; the emitted [repr] names the struct
    [crate::a::S], an item the same file defines as a struct (rustc E0552) *)
Definition f12b_st0 : sstate := st0_of 4 f12b_mods.
Definition f12b_st : sstate := st_of [] 4 f12b_mods.
Definition f12b_files : files_t := files_of f12b_st.
Lemma f12b_accepted : accepted_check [] 4 f12b_mods = true.
Proof. vm_compute. reflexivity. Qed.
Lemma f12b_built : built [] 4 f12b_mods f12b_st0 f12b_st f12b_files.
Proof. exact (built_of _ _ _ f12b_accepted). Qed.
Lemma f12b_facts :
  side_ok f12b_st0 = true /\
  option_map ed_type (enumdef_at f12b_st ["a"; "E"]) = Some (TRaw ["a"; "S"]) /\
  issome (typedef_at f12b_st ["a"; "S"]) = true /\
  option_map it_cat (reg_get (st_reg f12b_st) ["a"; "S"]) = Some Defined /\
  thenr (enum_of f12b_files "a.rs" "E") enum_repr = Some (tks ["crate"; ":"; ":"; "a"; ":"; ":"; "S"]) /\
  option_map type_paths (thenr (enum_of f12b_files "a.rs" "E") enum_repr) = Some [["a"; "S"]] /\
  option_map file_decls (file_named f12b_files "a.rs") = Some [("enum", "E"); ("struct", "S")].
Proof. vm_compute. repeat split; reflexivity. Qed.

Theorem C08_C13_enum_struct_base_refuted_F12b :
  exists st0 st files,
    built [] 4 f12b_mods st0 st files /\ side_ok st0 = true /\
    (* the resolved representation type is a user-defined struct, not an integer *)
    option_map ed_type (enumdef_at st ["a"; "E"]) = Some (TRaw ["a"; "S"]) /\
    typedef_at st ["a"; "S"] <> None /\
    option_map it_cat (reg_get (st_reg st) ["a"; "S"]) = Some Defined /\
    (* the emitted enum says repr(crate::a::S), and S is a struct of the same file *)
    thenr (enum_of files "a.rs" "E") enum_repr = Some (tks ["crate"; ":"; ":"; "a"; ":"; ":"; "S"]) /\
    option_map type_paths (thenr (enum_of files "a.rs" "E") enum_repr) = Some [["a"; "S"]] /\
    option_map file_decls (file_named files "a.rs") = Some [("enum", "E"); ("struct", "S")].
Proof.
  exists f12b_st0, f12b_st, f12b_files. destruct f12b_facts as (A & B & C & D & E & F & G).
  split; [exact f12b_built|]. split; [exact A|]. split; [exact B|]. split; [exact (issome_not_none _ C)|].
  split; [exact D|]. split; [exact E|]. split; [exact F | exact G].
Qed.
Print Assumptions C08_C13_enum_struct_base_refuted_F12b.

(** ** F12c: [enum E: u8 { A = 1, B = 1 }] -- accepted; two emitted variants with discriminant 1
    (rustc E0081) *)
Definition f12c_st0 : sstate := st0_of 4 f12c_mods.
Definition f12c_st : sstate := st_of [] 4 f12c_mods.
Definition f12c_files : files_t := files_of f12c_st.
Definition f12c_variants : list evariant :=
  [{| evr_default := false; evr_name := "A"; evr_disc := 1 |}; {| evr_default := false; evr_name := "B"; evr_disc := 1 |}].
Lemma f12c_accepted : accepted_check [] 4 f12c_mods = true.
Proof. vm_compute. reflexivity. Qed.
Lemma f12c_built : built [] 4 f12c_mods f12c_st0 f12c_st f12c_files.
Proof. exact (built_of _ _ _ f12c_accepted). Qed.
Lemma f12c_facts :
  side_ok f12c_st0 = true /\
  option_map ed_fields (enumdef_at f12c_st ["a"; "E"]) = Some [("A", 1%Z); ("B", 1%Z)] /\
  thenr (enum_of f12c_files "a.rs" "E") enum_variants_of = Some f12c_variants.
Proof. vm_compute. repeat split; reflexivity. Qed.

Theorem C08_C13_enum_duplicate_discriminant_refuted_F12c :
  exists st0 st files vs,
    built [] 4 f12c_mods st0 st files /\ side_ok st0 = true /\
    option_map ed_fields (enumdef_at st ["a"; "E"]) = Some [("A", 1%Z); ("B", 1%Z)] /\
    thenr (enum_of files "a.rs" "E") enum_variants_of = Some vs /\
    map (fun v => (evr_name v, evr_disc v)) vs = [("A", 1%Z); ("B", 1%Z)] /\
    ~ NoDup (map evr_disc vs).
Proof.
  exists f12c_st0, f12c_st, f12c_files, f12c_variants. destruct f12c_facts as (A & B & C).
  split; [exact f12c_built|]. split; [exact A|]. split; [exact B|]. split; [exact C|].
  split; [reflexivity|]. exact (not_nodup_pair 1%Z [] []).
Qed.
Print Assumptions C08_C13_enum_duplicate_discriminant_refuted_F12c.

(** ** F13: [type I { a: u32 }  #[packed] type P { x: u8, i: I }] -- accepted; [P] is emitted
    [repr(C, packed)] and its field [i] has the type [crate::a::I], which the same file emits with
    [repr(C, align(4))] (rustc E0588: packed type cannot transitively contain a [repr(align)] type) *)
Definition f13_st0 : sstate := st0_of 4 f13_mods.
Definition f13_st : sstate := st_of [] 4 f13_mods.
Definition f13_files : files_t := files_of f13_st.
Lemma f13_accepted : accepted_check [] 4 f13_mods = true.
Proof. vm_compute. reflexivity. Qed.
Lemma f13_built : built [] 4 f13_mods f13_st0 f13_st f13_files.
Proof. exact (built_of _ _ _ f13_accepted). Qed.
Lemma f13_facts :
  side_ok f13_st0 = true /\
  (size_at f13_st ["a"; "P"], align_at f13_st ["a"; "P"], align_at f13_st ["a"; "I"]) = (Some 5, Some 1, Some 4)%N /\
  thenr (struct_of f13_files "a.rs" "P") struct_repr = Some ReprPacked /\
  option_map (map (fun ef => (ef_name ef, type_paths (ef_ty ef)))) (thenr (struct_of f13_files "a.rs" "P") struct_fields) =
    Some [("x", [["u8"]]); ("i", [["a"; "I"]])] /\
  thenr (struct_of f13_files "a.rs" "I") struct_repr = Some (ReprAlign 4).
Proof. vm_compute. repeat split; reflexivity. Qed.

Theorem C13_packed_embeds_aligned_refuted_F13 :
  exists st0 st files,
    built [] 4 f13_mods st0 st files /\ side_ok st0 = true /\
    (size_at st ["a"; "P"], align_at st ["a"; "P"], align_at st ["a"; "I"]) = (Some 5, Some 1, Some 4)%N /\
    thenr (struct_of files "a.rs" "P") struct_repr = Some ReprPacked /\
    option_map (map (fun ef => (ef_name ef, type_paths (ef_ty ef)))) (thenr (struct_of files "a.rs" "P") struct_fields) =
      Some [("x", [["u8"]]); ("i", [["a"; "I"]])] /\
    thenr (struct_of files "a.rs" "I") struct_repr = Some (ReprAlign 4).
Proof.
  exists f13_st0, f13_st, f13_files. destruct f13_facts as (A & B & C & D & E).
  split; [exact f13_built|]. split; [exact A|]. split; [exact B|]. split; [exact C|]. split; [exact D | exact E].
Qed.
Print Assumptions C13_packed_embeds_aligned_refuted_F13.

(** ** F14: [type D { vftable { pub fn f(&self); }, pub vftable: u32 }] -- accepted; the emitted
    struct has the generated pointer field [vftable] AND the declared field [vftable]
    (rustc E0124: field is already declared) *)
Definition f14_st0 : sstate := st0_of 4 f14_mods.
Definition f14_st : sstate := st_of [] 4 f14_mods.
Definition f14_files : files_t := files_of f14_st.
Lemma f14_accepted : accepted_check [] 4 f14_mods = true.
Proof. vm_compute. reflexivity. Qed.
Lemma f14_built : built [] 4 f14_mods f14_st0 f14_st f14_files.
Proof. exact (built_of _ _ _ f14_accepted). Qed.
Definition f14_fields : list (vis * string * list sexp) :=
  [(Private, "vftable", tks ["*"; "const"; "crate"; ":"; ":"; "a"; ":"; ":"; "DVftable"]);
   (Public, "vftable", [Atom "u32"])].
Lemma f14_facts :
  side_ok f14_st0 = true /\
  option_map (map (fun r => (r_name r, r_type r))) (regions_at f14_st ["a"; "D"]) =
    Some [(Some "vftable", TConstPtr (TRaw ["a"; "DVftable"])); (Some "vftable", TRaw ["u32"])] /\
  option_map (map (fun ef => (ef_vis ef, ef_name ef, ef_ty ef))) (thenr (struct_of f14_files "a.rs" "D") struct_fields) =
    Some f14_fields.
Proof. vm_compute. repeat split; reflexivity. Qed.

Theorem C13_two_fields_named_vftable_refuted_F14 :
  exists st0 st files fs,
    built [] 4 f14_mods st0 st files /\ side_ok st0 = true /\
    option_map (map (fun r => (r_name r, r_type r))) (regions_at st ["a"; "D"]) =
      Some [(Some "vftable", TConstPtr (TRaw ["a"; "DVftable"])); (Some "vftable", TRaw ["u32"])] /\
    option_map (map (fun ef => (ef_vis ef, ef_name ef, ef_ty ef))) (thenr (struct_of files "a.rs" "D") struct_fields) = Some fs /\
    map (fun x => snd (fst x)) fs = ["vftable"; "vftable"] /\
    ~ NoDup (map (fun x => snd (fst x)) fs).
Proof.
  exists f14_st0, f14_st, f14_files, f14_fields. destruct f14_facts as (A & B & C).
  split; [exact f14_built|]. split; [exact A|]. split; [exact B|]. split; [exact C|].
  split; [reflexivity|]. exact (not_nodup_pair "vftable" [] []).
Qed.
Print Assumptions C13_two_fields_named_vftable_refuted_F14.
