(** * RewriteLocal (C20, local rewrites, part 4): the syntactic rewrites, lifted to one attempt.

    [type_build] reads a type description through three scans only ([type_pre]: the doc scan, the
    type-attribute scan, the statement fold); the rest ([type_rest]) is a function of their results.

    [adds_attr a l l']: [l'] is [l] with the attribute [a] inserted at any position.

    - (R4) [rw_enum]: writing out enum values equal to the implicit ones ([enum_expl]);
    - (R3) [rw_index]: giving virtual functions that declare no index the [index] of their natural
      slot, the attribute inserted anywhere among the function's attributes ([vfuncs_rel],
      [fn_adds_index]; the per-function lemma [convert_one_index_explicit] of RewriteLemmas.v is the
      case "appended at the end", [with_index_adds]).
    Both are purely syntactic, and [attempt st p d = attempt st p d'] in EVERY state. *)
From Coq Require Import List NArith ZArith Bool Lia String Permutation.
From PyxisModel Require Import Base Grammar SemTypes Registry Sem SemLemmas PlacementLemmas FunctionLemmas
     VftableLemmas RewriteLemmas WholeBuild Monotone.
Import ListNotations.
Local Open Scope string_scope.
Local Open Scope list_scope.

(** ** [type_build] = a pure first phase, then the rest *)
Definition type_pre (R : registry) (scope : list path) (d : gtypedef)
  : outcome (option string * type_attrs * stmt_state) :=
  do doc <- attrs_doc (gt_attrs d);
  do ta <- foldM scan_type_attr (gt_attrs d) ta_init;
  do stm <- foldM (process_statement R scope) (gt_stmts d) (O, ([], None));
  Ok (doc, ta, snd stm).

Definition type_post (R : registry) (scope : list path) (owner : path) (module : smodule)
           (doc : option string) (ta : type_attrs) (regions : list region) (vt : option tvftable) (size : N)
  : outcome resolved :=
  let used0 := match vt with Some v' => map sf_name (vt_functions v') | None => [] end in
  do acc1 <- inject_bases R (filter r_is_base regions) O ([], used0);
  do acc2 <- match alookup owner (m_impls module) with
             | Some blk => foldM (add_impl_function R scope) (gb_fns blk) acc1
             | None => Ok acc1
             end;
  do_ (if ta_defaultable ta
       then foldM (fun _ r => check_defaultable R r) regions tt
       else Ok tt);
  do alignment <- compute_alignment R ta regions size;
  Ok {| rs_size := size; rs_align := alignment;
        rs_inner := IType {| td_regions := regions; td_doc := doc; td_assoc := fst acc2;
                             td_vftable := vt; td_singleton := ta_singleton ta;
                             td_copyable := ta_copyable ta; td_cloneable := ta_cloneable ta;
                             td_defaultable := ta_defaultable ta; td_packed := ta_packed ta |} |}.

(** the outcome of the rest (the state component is not needed for the verdict class) *)
Definition type_rest (st : sstate) (owner : path) (v : vis) (module : smodule)
           (doc : option string) (ta : type_attrs) (pending : list (option N * region))
           (vfs : option (list sfunction)) : outcome resolved :=
  match resolve_regions st owner v (ta_size ta) pending vfs with
  | Defer => Defer
  | Err m => Err m
  | Panic m => Panic m
  | Ok (st', regions, vt, size) => type_post (st_reg st') (module_scope module) owner module doc ta regions vt size
  end.

Lemma type_build_snd st owner v d :
  snd (type_build st owner v d) =
  match path_parent owner with
  | None => Err "failed to get module for path"
  | Some parent =>
    match alookup parent (st_modules st) with
    | None => Err "failed to get module for path"
    | Some module =>
      match type_pre (st_reg st) (module_scope module) d with
      | Defer => Defer
      | Err m => Err m
      | Panic m => Panic m
      | Ok (doc, ta, (pending, vfs)) => type_rest st owner v module doc ta pending vfs
      end
    end
  end.
Proof.
  unfold type_build, type_pre, type_rest, type_post.
  destruct (path_parent owner) as [parent|]; [|reflexivity].
  destruct (alookup parent (st_modules st)) as [module|]; [|reflexivity].
  destruct (bind (attrs_doc (gt_attrs d)) _) as [[[doc ta] [pending vfs]]| | |]; try reflexivity.
  destruct (resolve_regions st owner v (ta_size ta) pending vfs) as [[[[st' regions] vt] size]| | |]; reflexivity.
Qed.

(** two type descriptions with the same first phase give the same attempt *)
Lemma type_build_congr st owner v d d' :
  (forall parent module, path_parent owner = Some parent -> alookup parent (st_modules st) = Some module ->
     type_pre (st_reg st) (module_scope module) d = type_pre (st_reg st) (module_scope module) d') ->
  type_build st owner v d = type_build st owner v d'.
Proof.
  intros H. unfold type_build.
  destruct (path_parent owner) as [parent|] eqn:Ep; [|reflexivity].
  destruct (alookup parent (st_modules st)) as [module|] eqn:Em; [|reflexivity].
  specialize (H parent module eq_refl Em). unfold type_pre in H. rewrite H. reflexivity.
Qed.

Lemma foldM_Forall2_eq {A S} (f : S -> A -> outcome S) : forall l l',
  Forall2 (fun a a' => forall s, f s a = f s a') l l' -> forall s, foldM f l s = foldM f l' s.
Proof.
  induction 1 as [|a a' l l' Ha _ IH]; intros s; cbn [foldM]; [reflexivity|].
  rewrite Ha. destruct (f s a'); cbn [bind]; auto.
Qed.

(** ** inserting one attribute into an attribute list *)
Definition adds_attr (a : gattr) (l l' : list gattr) : Prop :=
  exists l1 l2, l = l1 ++ l2 /\ l' = l1 ++ a :: l2.

Lemma adds_attr_end a l : adds_attr a l (l ++ [a]).
Proof. exists l, []. now rewrite app_nil_r. Qed.

Lemma attrs_doc_aux_insert : forall l1 l2 a acc, (forall k v, a <> AAssign k v) ->
  attrs_doc_aux (l1 ++ a :: l2) acc = attrs_doc_aux (l1 ++ l2) acc.
Proof.
  induction l1 as [|x l1 IH]; intros l2 a acc Ha; cbn [app attrs_doc_aux].
  - destruct a as [?|? ?|k v]; try reflexivity. exfalso. eapply Ha. reflexivity.
  - destruct x as [?|? ?|k v]; try (apply IH; exact Ha).
    destruct (String.eqb k "doc"); [|apply IH; exact Ha].
    destruct v; try reflexivity. apply IH. exact Ha.
Qed.

Lemma attrs_doc_adds a l l' : (forall k v, a <> AAssign k v) -> adds_attr a l l' -> attrs_doc l' = attrs_doc l.
Proof. intros Ha (l1 & l2 & -> & ->). unfold attrs_doc. now apply attrs_doc_aux_insert. Qed.

(** an attribute that a scan ignores can be inserted anywhere *)
Lemma foldM_insert_neutral {A S} (f : S -> A -> outcome S) a : (forall s, f s a = Ok s) ->
  forall l1 l2 s, foldM f (l1 ++ a :: l2) s = foldM f (l1 ++ l2) s.
Proof.
  intros Hn. induction l1 as [|x l1 IH]; intros l2 s; cbn [app foldM].
  - now rewrite Hn.
  - destruct (f s x); cbn [bind]; auto.
Qed.

(** a scan that ignores every attribute of a list leaves its state alone *)
Lemma foldM_all_neutral {A S} (f : S -> A -> outcome S) : forall l s,
  Forall (fun a => forall s, f s a = Ok s) l -> foldM f l s = Ok s.
Proof.
  induction l as [|x l IH]; intros s H; cbn [foldM]; [reflexivity|].
  apply Forall_cons_iff in H as [Hx Hl]. rewrite Hx. cbn [bind]. now apply IH.
Qed.

(** ** (R4) enum values written out *)
Definition enum_next (v : Z) : option Z := if (v <? isize_max)%Z then Some (v + 1)%Z else None.

(** [enum_expl last ss ss']: the statements of [ss'] are those of [ss], except that a statement
    without a value may carry, in [ss'], the value the implicit rule gives it ([last], the
    predecessor's value plus one) *)
Fixpoint enum_expl (last : option Z) (ss ss' : list genumstmt) : Prop :=
  match ss, ss' with
  | [], [] => True
  | s :: r, s' :: r' =>
    ge_name s = ge_name s' /\ ge_attrs s = ge_attrs s' /\
    match ge_expr s with
    | Some (EInt v) => ge_expr s' = Some (EInt v) /\ enum_expl (enum_next v) r r'
    | Some e => ge_expr s' = Some e /\ r = r'
    | None => match last with
              | Some v => (ge_expr s' = None \/ ge_expr s' = Some (EInt v)) /\ enum_expl (enum_next v) r r'
              | None => ge_expr s' = None /\ r = r'
              end
    end
  | _, _ => False
  end.

Lemma enum_expl_refl : forall ss last, enum_expl last ss ss.
Proof.
  induction ss as [|s r IH]; intros last; cbn [enum_expl]; [exact I|].
  split; [reflexivity|]. split; [reflexivity|].
  destruct (ge_expr s) as [[v|?|?]|]; auto. destruct last; auto.
Qed.

Lemma enum_cases_expl : forall ss ss' last idx fields di,
  enum_expl last ss ss' -> enum_cases ss last idx fields di = enum_cases ss' last idx fields di.
Proof.
  induction ss as [|s r IH]; intros [|s' r'] last idx fields di H; cbn [enum_expl] in H; try contradiction; [reflexivity|].
  destruct H as (Hn & Ha & H). cbn [enum_cases]. rewrite <- Hn, <- Ha.
  destruct (ge_expr s) as [[v|?|?]|] eqn:Ee.
  - destruct H as [-> H]. cbn [bind]. match goal with |- bind ?x _ = _ => destruct x end; cbn [bind]; try reflexivity.
    apply IH. exact H.
  - destruct H as [-> ->]. reflexivity.
  - destruct H as [-> ->]. reflexivity.
  - destruct last as [v|].
    + destruct H as [[->| ->] H]; cbn [bind];
        (match goal with |- bind ?x _ = _ => destruct x end; cbn [bind]; try reflexivity; apply IH; exact H).
    + destruct H as [-> ->]. reflexivity.
Qed.

Definition rw_enum (d d' : gitemdef) : Prop :=
  gi_vis d = gi_vis d' /\ gi_name d = gi_name d' /\
  exists ed ed', gi_inner d = GIEnum ed /\ gi_inner d' = GIEnum ed' /\
    ged_type ed = ged_type ed' /\ ged_attrs ed = ged_attrs ed' /\
    enum_expl (Some 0%Z) (ged_stmts ed) (ged_stmts ed').

Theorem rw_enum_attempt st p d d' : rw_enum d d' -> attempt st p d = attempt st p d'.
Proof.
  intros (_ & _ & ed & ed' & Hi & Hi' & Ht & Ha & He). unfold attempt. rewrite Hi, Hi'. f_equal.
  unfold enum_build. rewrite <- Ht, <- Ha, (enum_cases_expl _ _ _ O [] None He). reflexivity.
Qed.

(** ** (R3) the natural slot of a virtual function written as an [index] attribute *)
(** the number of slots after a function that lands after [n] slots *)
Definition slots_after (n : N) (f : gfunction) : N :=
  match fn_index f with
  | Some (Some k) => k + 1
  | _ => n + 1
  end.

Definition index_attr_of (k : N) : gattr := AFn "index" [EInt (Z.of_N k)].

(** [f'] is [f] with the attribute [index(k)] inserted somewhere among its attributes, none of
    which is an [index] attribute *)
Definition fn_adds_index (f f' : gfunction) (k : N) : Prop :=
  gf_vis f' = gf_vis f /\ gf_name f' = gf_name f /\ gf_args f' = gf_args f /\ gf_ret f' = gf_ret f /\
  adds_attr (index_attr_of k) (gf_attrs f) (gf_attrs f') /\
  Forall (fun a => index_attr a = None) (gf_attrs f).

Lemma with_index_adds f k : Forall (fun a => index_attr a = None) (gf_attrs f) -> fn_adds_index f (with_index f k) k.
Proof. intros H. repeat split; auto. apply adds_attr_end. Qed.

Lemma scan_index_neutral a : index_attr a = None -> forall acc, scan_index_attr acc a = Ok acc.
Proof.
  unfold index_attr, int_attr, scan_index_attr, scan_int_attr. intros H acc.
  destruct a as [?|n [|[v|?|?] [|? ?]]|? ?]; try reflexivity. destruct (String.eqb n "index"); [discriminate | reflexivity].
Qed.

Lemma scan_fn_index_neutral k st : scan_fn_attr true st (index_attr_of k) = Ok st.
Proof. reflexivity. Qed.

Lemma function_build_adds_index R scope f f' k : fn_adds_index f f' k ->
  function_build R scope true f' = function_build R scope true f.
Proof.
  intros (Hv & Hn & Ha & Hr & Hadd & _). unfold function_build. rewrite Hv, Hn, Ha, Hr.
  rewrite (attrs_doc_adds (index_attr_of k) _ _ ltac:(intros; discriminate) Hadd).
  destruct Hadd as (l1 & l2 & -> & ->).
  now rewrite (foldM_insert_neutral (scan_fn_attr true) (index_attr_of k) (scan_fn_index_neutral k)).
Qed.

Lemma convert_one_adds_index R scope out f f' :
  fn_adds_index f f' (N.of_nat (List.length out)) -> convert_one R scope out f' = convert_one R scope out f.
Proof.
  intros H. pose proof (function_build_adds_index R scope f f' _ H) as Hfb.
  destruct H as (_ & _ & _ & _ & (l1 & l2 & E & E') & Hno). unfold convert_one. rewrite Hfb, E, E'.
  rewrite E in Hno. apply Forall_app in Hno as [H1 H2].
  assert (forall l acc, Forall (fun a => index_attr a = None) l -> foldM scan_index_attr l acc = Ok acc) as Hneutral.
  { intros l acc Hl. apply foldM_all_neutral. eapply Forall_impl; [|exact Hl]. intros a Hq s0. now apply scan_index_neutral. }
  rewrite foldM_app, (Hneutral l1 None H1). cbn [bind foldM].
  rewrite (Hneutral (l1 ++ l2) None) by (apply Forall_app; auto).
  unfold scan_index_attr at 1, scan_int_attr, index_attr_of. rewrite String.eqb_refl, z_to_usize_of_N. cbn [bind].
  rewrite (Hneutral l2 _ H2). cbn [bind]. now rewrite N.ltb_irrefl, pad_to_same.
Qed.

(** [vfuncs_rel n fs fs']: a function of [fs] that declares no index may carry, in [fs'], the
    attribute [index(k)] with [k] the number of slots before it *)
Fixpoint vfuncs_rel (n : N) (fs fs' : list gfunction) : Prop :=
  match fs, fs' with
  | [], [] => True
  | f :: r, f' :: r' =>
    (f' = f \/ fn_adds_index f f' n) /\ vfuncs_rel (slots_after n f) r r'
  | _, _ => False
  end.

Lemma vfuncs_rel_refl : forall fs n, vfuncs_rel n fs fs.
Proof. induction fs as [|f r IH]; intros n; cbn [vfuncs_rel]; auto. Qed.

Lemma convert_fold_index R scope : forall fs fs' out,
  vfuncs_rel (N.of_nat (List.length out)) fs fs' ->
  foldM (convert_one R scope) fs out = foldM (convert_one R scope) fs' out.
Proof.
  induction fs as [|f r IH]; intros [|f' r'] out H; cbn [vfuncs_rel] in H; try contradiction; [reflexivity|].
  destruct H as [Hf H]. cbn [foldM].
  assert (convert_one R scope out f' = convert_one R scope out f) as ->.
  { destruct Hf as [->|Hi]; [reflexivity|]. now apply convert_one_adds_index. }
  destruct (convert_one R scope out f) as [out'| | |] eqn:E; cbn [bind]; try reflexivity.
  apply IH. destruct (convert_one_spec _ _ _ _ _ E) as (idx & sf & Hidx & _ & _ & _ & Hlen). cbn zeta in Hlen.
  unfold slots_after in H. rewrite Hidx in H. rewrite Hlen. destruct idx; exact H.
Qed.

(** a statement and its rewritten form: the same, or a vftable block with related functions *)
Definition stmt_index (s s' : gstatement) : Prop :=
  s' = s \/
  exists fs fs', gs_field s = GVftable fs /\ gs_field s' = GVftable fs' /\ gs_attrs s = gs_attrs s' /\
                 vfuncs_rel 0%N fs fs'.

Lemma process_statement_index R scope s s' : stmt_index s s' ->
  forall acc, process_statement R scope acc s = process_statement R scope acc s'.
Proof.
  intros [->|(fs & fs' & Hf & Hf' & Ha & Hr)] acc; [reflexivity|].
  unfold process_statement. destruct acc as [idx [pending vfs]]. rewrite Hf, Hf', <- Ha.
  destruct (negb (Nat.eqb idx 0)); [reflexivity|].
  destruct (foldM scan_vftable_size_attr (gs_attrs s) None) as [sz| | |]; cbn [bind]; try reflexivity.
  unfold convert_functions. now rewrite (convert_fold_index R scope fs fs' [] Hr).
Qed.

Definition rw_index (d d' : gitemdef) : Prop :=
  gi_vis d = gi_vis d' /\ gi_name d = gi_name d' /\
  exists td td', gi_inner d = GIType td /\ gi_inner d' = GIType td' /\
    gt_attrs td = gt_attrs td' /\ Forall2 stmt_index (gt_stmts td) (gt_stmts td').

Theorem rw_index_attempt st p d d' : rw_index d d' -> attempt st p d = attempt st p d'.
Proof.
  intros (Hv & _ & td & td' & Hi & Hi' & Ha & Hs). unfold attempt. rewrite Hi, Hi', <- Hv.
  apply type_build_congr. intros parent module _ _. unfold type_pre. rewrite <- Ha.
  rewrite (foldM_Forall2_eq (process_statement (st_reg st) (module_scope module)) (gt_stmts td) (gt_stmts td')); [reflexivity|].
  clear - Hs. induction Hs as [|s s' l l' H _ IH]; constructor; [|exact IH].
  intros acc. now apply process_statement_index.
Qed.

(** *** what the end-to-end argument needs of the two relations *)
Lemma clean_fn_adds_index f f' k : fn_adds_index f f' k -> clean_fn f' = clean_fn f.
Proof. intros (_ & _ & Ha & Hr & _). unfold clean_fn. now rewrite Ha, Hr. Qed.

Lemma vfuncs_rel_clean : forall fs fs' n, vfuncs_rel n fs fs' -> forallb clean_fn fs = forallb clean_fn fs'.
Proof.
  induction fs as [|f r IH]; intros [|f' r'] n H; cbn [vfuncs_rel] in H; try contradiction; [reflexivity|].
  destruct H as [Hf H]. cbn [forallb]. rewrite (IH _ _ H). f_equal.
  destruct Hf as [->|Hi]; [reflexivity | now rewrite (clean_fn_adds_index _ _ _ Hi)].
Qed.

Lemma stmt_index_clean s s' : stmt_index s s' -> clean_stmt s = clean_stmt s'.
Proof.
  intros [->|(fs & fs' & Hf & Hf' & _ & Hr)]; [reflexivity|]. unfold clean_stmt. rewrite Hf, Hf'.
  eapply vfuncs_rel_clean; eauto.
Qed.

Lemma stmt_index_vft s s' : stmt_index s s' -> (exists gfs, gs_field s = GVftable gfs) <-> (exists gfs, gs_field s' = GVftable gfs).
Proof.
  intros [->|(fs & fs' & Hf & Hf' & _)]; [tauto|]. split; intros _; eauto.
Qed.

Lemma rw_index_clean d d' : rw_index d d' -> clean_def d = clean_def d'.
Proof.
  intros (_ & _ & td & td' & Hi & Hi' & _ & Hs). unfold clean_def. rewrite Hi, Hi'.
  induction Hs as [|s s' l l' H _ IH]; cbn [forallb]; [reflexivity|]. now rewrite IH, (stmt_index_clean _ _ H).
Qed.

Lemma rw_enum_clean d d' : rw_enum d d' -> clean_def d = clean_def d'.
Proof. intros (_ & _ & ed & ed' & Hi & Hi' & Ht & _). unfold clean_def. now rewrite Hi, Hi', Ht. Qed.
