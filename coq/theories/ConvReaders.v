(** * ConvReaders: reading the emitted reference conversions back.

    C07, second half (AsRef/AsMut), part 2.  Readers for
    - a trait impl item
      [impl std::convert::AsRef<T> for Self_ { fn as_ref(&self) -> &T { &self.f1.f2 } }]
      (and the [AsMut] / [as_mut] / [&mut] form): [read_as_ref] gives the implementing type, which
      of the two traits, the tokens of [T] in the trait, the tokens of the return type after the
      [&] / [&mut], and the FIELD PATH of the place the body borrows ([self] alone is the empty
      path);
    - the private [const _CONFLICTING_...: () = ();] item pyxis emits INSTEAD of the two impls when
      a base type occurs more than once: [read_conflict_const] gives its name and doc lines.
    The readers only look at constructors and compare atoms with [String.eqb]; they do not mention
    the printers.  Second half: they invert [as_ref_impls] and the conflict-const printer of
    Emit.v; no other item of a type is read by them.  Third part: the printed tokens of a raw
    (user) type determine its path ([raw_tokens_inj]), for types the back end accepts. *)
From Coq Require Import List String Ascii NArith Bool Lia.
From PyxisModel Require Import Base Sexp Grammar SemTypes Registry Sem Emit EmitLemmas EmitReaders EmitFnReaders.
Import ListNotations.
Local Open Scope string_scope.
Local Open Scope list_scope.

(** ** readers *)
Record conv_impl := {
  ci_self : string;          (* the implementing type *)
  ci_mut : bool;             (* false: AsRef / as_ref / &;  true: AsMut / as_mut / &mut *)
  ci_target : list sexp;     (* the tokens of T in [AsRef<T>] *)
  ci_ret : list sexp;        (* the tokens after [&] / [&mut] in the return type *)
  ci_path : list string }.   (* the fields of the borrowed place [self.f1.f2...] *)

(** [.f1.f2...] *)
Fixpoint read_dots (l : list sexp) : option (list string) :=
  match l with
  | [] => Some []
  | Atom d :: Atom f :: r =>
    if String.eqb d "." then match read_dots r with Some fs => Some (f :: fs) | None => None end else None
  | _ => None
  end.

(** the body: [self], or [&self.f1.f2...] / [&mut self.f1.f2...] *)
Definition read_place (mutable : bool) (body : list sexp) : option (list string) :=
  match body with
  | [Atom s] => if String.eqb s "self" then Some [] else None
  | Atom a :: Atom s :: r =>
    if String.eqb a "&" then
      if mutable then
        match r with
        | Atom s' :: r' => if String.eqb s "mut" && String.eqb s' "self" then read_dots r' else None
        | _ => None
        end
      else if String.eqb s "self" then read_dots r else None
    else None
  | _ => None
  end.

(** the return type: [&T] / [&mut T] *)
Definition read_ref_type (mutable : bool) (ret : list sexp) : option (list sexp) :=
  match ret with
  | Atom a :: t =>
    if String.eqb a "&" then
      if mutable then
        match t with
        | Atom m :: t' => if String.eqb m "mut" then Some t' else None
        | _ => None
        end
      else Some t
    else None
  | _ => None
  end.

(** the trait: [(trait std : : convert : : <AsRef|AsMut> < T... >)] *)
Definition is_gt (e : sexp) : bool := match e with Atom a => String.eqb a ">" | _ => false end.
Definition read_conv_trait (tr : sexp) : option (bool * list sexp) :=
  match tagged "trait" tr with
  | Some l =>
    match atoms_prefix ["std"; ":"; ":"; "convert"; ":"; ":"] l with
    | Some (Atom which :: Atom lt :: rest) =>
      if String.eqb lt "<" && is_gt (last rest (Atom "")) then
        if String.eqb which "AsRef" then Some (false, removelast rest)
        else if String.eqb which "AsMut" then Some (true, removelast rest)
        else None
      else None
    | _ => None
    end
  | None => None
  end.

Definition is_receiver (mutable : bool) (ps : list eparam) : bool :=
  match ps with
  | [EPSelf] => negb mutable
  | [EPMutSelf] => mutable
  | _ => false
  end.

Definition read_as_ref (e : sexp) : option conv_impl :=
  match impl_parts e with
  | Some (tr, name, [f]) =>
    match read_conv_trait tr, read_fn f with
    | Some (mutable, target), Some fn =>
      if String.eqb (efn_name fn) (if mutable then "as_mut" else "as_ref")
         && is_receiver mutable (efn_params fn) && negb (efn_unsafe fn) then
        match read_ref_type mutable (efn_ret fn), read_place mutable (efn_body fn) with
        | Some rt, Some fp =>
          Some {| ci_self := name; ci_mut := mutable; ci_target := target; ci_ret := rt; ci_path := fp |}
        | _, _ => None
        end
      else None
    | _, _ => None
    end
  | _ => None
  end.

(** [const NAME: () = ();] with its doc lines *)
Definition read_conflict_const (e : sexp) : option (string * list string) :=
  match e with
  | SList [Atom k; attrs; Atom v; Atom cname; SList [Atom t; p1]; SList [Atom w; p2]] =>
    if String.eqb k "const" && String.eqb v "priv" && String.eqb t "ty" && String.eqb w "val" then
      match tagged "attrs" attrs, tagged "paren" p1, tagged "paren" p2 with
      | Some al, Some [], Some [] => Some (cname, all_somes read_doc_attr al)
      | _, _, _ => None
      end
    else None
  | _ => None
  end.

(** ** the readers invert the printers *)
Definition dots (fields : list string) : list sexp := flat_map (fun f => [tk "."; tk f]) fields.

Lemma read_dots_dots fields : read_dots (dots fields) = Some fields.
Proof.
  unfold dots. induction fields as [|f fs IH]; [reflexivity|].
  cbn [flat_map app tk read_dots String.eqb Ascii.eqb Bool.eqb]. now rewrite IH.
Qed.

Lemma read_conv_trait_printed (which : string) (mutable : bool) target :
  which = (if mutable then "AsMut" else "AsRef") ->
  read_conv_trait (SList (Atom "trait" :: tks ["std"; ":"; ":"; "convert"; ":"; ":"; which; "<"] ++ target ++ [tk ">"]))
  = Some (mutable, target).
Proof.
  intros ->. unfold read_conv_trait.
  cbn [tagged tks map app String.eqb Ascii.eqb Bool.eqb atoms_prefix].
  rewrite last_last, removelast_last. destruct mutable; reflexivity.
Qed.

(** the two impls [as_ref_impls] prints *)
Definition conv_of (self_name : string) (mutable : bool) (target : list sexp) (fields : list string) : conv_impl :=
  {| ci_self := self_name; ci_mut := mutable; ci_target := target; ci_ret := target; ci_path := fields |}.

Theorem read_as_ref_as_ref_impls self_name target fields :
  exists e1 e2, as_ref_impls self_name target fields = [e1; e2] /\
    read_as_ref e1 = Some (conv_of self_name false target fields) /\
    read_as_ref e2 = Some (conv_of self_name true target fields) /\
    read_conflict_const e1 = None /\ read_conflict_const e2 = None /\
    item_kind e1 = Some "impl" /\ item_kind e2 = Some "impl".
Proof.
  unfold as_ref_impls. eexists _, _. split; [reflexivity|].
  split; [|split]; [| |repeat split].
  - unfold read_as_ref. rewrite impl_parts_printed.
    rewrite (read_conv_trait_printed "AsRef" false target eq_refl).
    rewrite (read_fn_fn_sexp [] Private false "as_ref" [Atom "self"] _ _ [EPSelf] eq_refl).
    cbn [efn_name efn_params efn_unsafe efn_ret efn_body is_receiver negb andb String.eqb Ascii.eqb Bool.eqb
         read_ref_type tk].
    destruct fields as [|f fs]; [reflexivity|].
    change (flat_map (fun f0 : string => [tk "."; tk f0]) (f :: fs)) with (dots (f :: fs)).
    cbn [read_place tk String.eqb Ascii.eqb Bool.eqb]. now rewrite read_dots_dots.
  - unfold read_as_ref. rewrite impl_parts_printed.
    rewrite (read_conv_trait_printed "AsMut" true target eq_refl).
    rewrite (read_fn_fn_sexp [] Private false "as_mut" [Atom "mutself"] _ _ [EPMutSelf] eq_refl).
    cbn [efn_name efn_params efn_unsafe efn_ret efn_body is_receiver negb andb String.eqb Ascii.eqb Bool.eqb
         read_ref_type tk].
    destruct fields as [|f fs]; [reflexivity|].
    change (flat_map (fun f0 : string => [tk "."; tk f0]) (f :: fs)) with (dots (f :: fs)).
    cbn [read_place tk String.eqb Ascii.eqb Bool.eqb andb]. now rewrite read_dots_dots.
Qed.

(** the const item pyxis prints for a repeated base type *)
Definition conflict_const (doc : option string) (cname : string) : sexp :=
  SList [Atom "const"; attrs_sexp (doc_attrs doc); Atom "priv"; Atom cname;
         SList [Atom "ty"; paren []]; SList [Atom "val"; paren []]].

Theorem read_conflict_const_printed doc cname :
  read_conflict_const (conflict_const doc cname) = Some (cname, doc_lines doc) /\
  read_as_ref (conflict_const doc cname) = None /\
  item_kind (conflict_const doc cname) = Some "const".
Proof.
  unfold conflict_const, read_conflict_const, attrs_sexp.
  cbn [String.eqb Ascii.eqb Bool.eqb andb tagged paren]. rewrite docs_read. repeat split.
Qed.

(** ** the other items of a type are not conversions *)
Lemma read_as_ref_kind e ci : read_as_ref e = Some ci -> item_kind e = Some "impl".
Proof.
  unfold read_as_ref, impl_parts. destruct e as [| |[|[k| |] l]]; try discriminate.
  destruct l as [|x [|tr [|[| |[|[s| |] [|[nm| |] [|]]]] items]]]; try discriminate.
  destruct (String.eqb_spec k "impl"); [subst; intros _; reflexivity | cbn [andb]; discriminate].
Qed.

Lemma read_as_ref_not_inherent e ci : read_as_ref e = Some ci -> inherent_impl e = None.
Proof.
  unfold read_as_ref, inherent_impl. destruct (impl_parts e) as [[[tr name] items]|]; [|discriminate].
  destruct tr as [a| |l]; [|reflexivity|reflexivity].
  unfold read_conv_trait. cbn [tagged]. destruct items as [|f [|]]; discriminate.
Qed.

Lemma read_conflict_const_kind e x : read_conflict_const e = Some x -> item_kind e = Some "const".
Proof.
  unfold read_conflict_const. destruct e as [| |[|[k| |] l]]; try discriminate.
  destruct l as [|attrs [|[v| |] [|[c| |] [|[| |[|[t| |] [|p1 [|]]]] [|[| |[|[w| |] [|p2 [|]]]] [|]]]]]]; try discriminate.
  destruct (String.eqb_spec k "const"); [subst; intros _; reflexivity | cbn [andb]; discriminate].
Qed.

(** ** the tokens of a raw type determine its path *)
Definition atom_str (e : sexp) : string := match e with Atom a => a | _ => "" end.
Fixpoint join_atoms (l : list sexp) : string :=
  match l with [] => "" | e :: r => atom_str e +++ join_atoms r end.

Lemma join_atoms_app a b : join_atoms (a ++ b) = join_atoms a +++ join_atoms b.
Proof. induction a as [|e a IH]; cbn [app join_atoms]; [reflexivity|]. now rewrite IH, sapp_assoc. Qed.

Lemma string_of_list_app a b : string_of_list (a ++ b) = string_of_list a +++ string_of_list b.
Proof. induction a as [|c a IH]; cbn; [reflexivity|]. now rewrite IH. Qed.

Lemma string_of_list_of_string s : string_of_list (list_of_string s) = s.
Proof. induction s as [|c s IH]; cbn; [reflexivity|]. now rewrite IH. Qed.

(** concatenating the tokens of a segment gives the segment back *)
Lemma seg_tokens_aux_join : forall s cur,
  join_atoms (seg_tokens_aux s cur) = string_of_list (rev cur ++ s).
Proof.
  induction s as [|c s IH]; intros cur; cbn [seg_tokens_aux].
  - rewrite app_nil_r. destruct cur as [|c0 cur]; [reflexivity|]. cbn [join_atoms atom_str]. apply sapp_nil_r.
  - destruct (Ascii.eqb c "<" || Ascii.eqb c ">").
    + rewrite join_atoms_app. cbn [join_atoms atom_str]. rewrite (IH []). cbn [rev app].
      rewrite string_of_list_app. cbn [string_of_list]. f_equal.
      destruct cur as [|c0 cur]; [reflexivity|]. cbn [join_atoms atom_str]. apply sapp_nil_r.
    + rewrite (IH (c :: cur)). cbn [rev]. now rewrite <- app_assoc.
Qed.

Lemma seg_tokens_join s : join_atoms (seg_tokens s) = s.
Proof. unfold seg_tokens. rewrite seg_tokens_aux_join. cbn [rev app]. apply string_of_list_of_string. Qed.

Lemma seg_tokens_inj s t : seg_tokens s = seg_tokens t -> s = t.
Proof. intros H. rewrite <- (seg_tokens_join s), <- (seg_tokens_join t). now rewrite H. Qed.

(** an accepted segment has at least one token and no [:] token *)
Definition is_colon (e : sexp) : bool := match e with Atom a => String.eqb a ":" | _ => false end.

Lemma seg_tokens_no_colon s : seg_ok s = true ->
  seg_tokens s <> [] /\ Forall (fun e => is_colon e = false) (seg_tokens s).
Proof.
  unfold seg_ok. destruct (seg_tokens s) as [|t l] eqn:E; [discriminate|]. intros H.
  split; [discriminate|]. apply Forall_forall. intros e He. rewrite forallb_forall in H. specialize (H e He).
  destruct e as [a| |]; try discriminate. cbn [is_colon].
  destruct (String.eqb_spec a ":") as [->|]; [discriminate | reflexivity].
Qed.

Lemma split_first_colon : forall l1 l2 r1 r2 : list sexp,
  Forall (fun e => is_colon e = false) l1 -> Forall (fun e => is_colon e = false) l2 ->
  l1 ++ tk ":" :: r1 = l2 ++ tk ":" :: r2 -> l1 = l2 /\ r1 = r2.
Proof.
  induction l1 as [|a l1 IH]; intros [|b l2] r1 r2 H1 H2 E; cbn [app] in E.
  - inversion E. auto.
  - inversion E; subst b. inversion H2; subst. discriminate.
  - inversion E; subst a. inversion H1; subst. discriminate.
  - inversion E; subst b. inversion H1; inversion H2; subst.
    destruct (IH l2 r1 r2) as [-> ->]; auto.
Qed.

Lemma no_colon_eq l l2 r : Forall (fun e => is_colon e = false) l -> l <> l2 ++ tk ":" :: r.
Proof.
  intros H E. assert (In (tk ":") l) as X by (rewrite E; apply in_or_app; right; now left).
  rewrite Forall_forall in H. specialize (H _ X). discriminate.
Qed.

Lemma path_tokens_cons s s' p : path_tokens (s :: s' :: p) = seg_tokens s ++ tk ":" :: tk ":" :: path_tokens (s' :: p).
Proof. reflexivity. Qed.

Lemma path_tokens_inj : forall p q, forallb seg_ok p = true -> forallb seg_ok q = true ->
  path_tokens p = path_tokens q -> p = q.
Proof.
  induction p as [|s p IH]; intros [|t q] Hp Hq E.
  - reflexivity.
  - exfalso. cbn [forallb] in Hq. apply andb_true_iff in Hq as [Ht _].
    destruct (seg_tokens_no_colon _ Ht) as [Hne _].
    destruct q as [|t' q]; [cbn [path_tokens] in E; congruence|].
    rewrite path_tokens_cons in E. destruct (seg_tokens t); [congruence | discriminate].
  - exfalso. cbn [forallb] in Hp. apply andb_true_iff in Hp as [Hs _].
    destruct (seg_tokens_no_colon _ Hs) as [Hne _].
    destruct p as [|s' p]; [cbn [path_tokens] in E; congruence|].
    rewrite path_tokens_cons in E. destruct (seg_tokens s); [congruence | discriminate].
  - cbn [forallb] in Hp, Hq. apply andb_true_iff in Hp as [Hs Hp]. apply andb_true_iff in Hq as [Ht Hq].
    destruct (seg_tokens_no_colon _ Hs) as [_ Cs]. destruct (seg_tokens_no_colon _ Ht) as [_ Ct].
    destruct p as [|s' p], q as [|t' q].
    + cbn [path_tokens] in E. now rewrite (seg_tokens_inj _ _ E).
    + exfalso. rewrite path_tokens_cons in E. change (path_tokens [s]) with (seg_tokens s) in E.
      exact (no_colon_eq _ _ _ Cs E).
    + exfalso. rewrite path_tokens_cons in E. change (path_tokens [t]) with (seg_tokens t) in E. symmetry in E.
      exact (no_colon_eq _ _ _ Ct E).
    + rewrite !path_tokens_cons in E. destruct (split_first_colon _ _ _ _ Cs Ct E) as [E1 E2].
      inversion E2 as [E3]. rewrite (seg_tokens_inj _ _ E1). f_equal. now apply IH.
Qed.

Lemma is_void_eq p : is_void p = true -> p = ["void"].
Proof.
  destruct p as [|s [|]]; try discriminate. cbn. intros H. apply String.eqb_eq in H. now subst.
Qed.

(** the tokens of a user type path determine the path *)
Theorem raw_tokens_inj p q :
  stype_ok (TRaw p) = true -> stype_ok (TRaw q) = true -> raw_tokens p = raw_tokens q -> p = q.
Proof.
  cbn [stype_ok]. intros Hp Hq E.
  destruct p as [|s p]; [discriminate|]. destruct q as [|t q]; [discriminate|].
  assert (forall u r, forallb seg_ok (u :: r) = true -> is_void (u :: r) = false ->
            match raw_tokens (u :: r) with
            | Atom a :: _ => String.eqb a ":" = false
            | _ => False
            end) as Hfirst.
  { intros u r Hok Hv. unfold raw_tokens. rewrite Hv. destruct r as [|u' r]; [|reflexivity].
    cbn [path_tokens]. cbn [forallb] in Hok. apply andb_true_iff in Hok as [Hu _].
    unfold seg_ok in Hu. destruct (seg_tokens u) as [|e l]; [discriminate|].
    cbn [forallb] in Hu. apply andb_true_iff in Hu as [He _]. destruct e as [a| |]; try discriminate.
    destruct (String.eqb_spec a ":") as [->|]; [discriminate | reflexivity]. }
  destruct (is_void (s :: p)) eqn:Vp, (is_void (t :: q)) eqn:Vq.
  - now rewrite (is_void_eq _ Vp), (is_void_eq _ Vq).
  - exfalso. specialize (Hfirst _ _ Hq Vq). rewrite <- E in Hfirst. unfold raw_tokens in Hfirst.
    rewrite Vp in Hfirst. cbn in Hfirst. discriminate.
  - exfalso. specialize (Hfirst _ _ Hp Vp). rewrite E in Hfirst. unfold raw_tokens in Hfirst.
    rewrite Vq in Hfirst. cbn in Hfirst. discriminate.
  - unfold raw_tokens in E. rewrite Vp, Vq in E.
    pose proof Hp as Hp'. pose proof Hq as Hq'.
    cbn [forallb] in Hp', Hq'. apply andb_true_iff in Hp' as [Hs _]. apply andb_true_iff in Hq' as [Ht _].
    destruct (seg_tokens_no_colon _ Hs) as [_ Cs]. destruct (seg_tokens_no_colon _ Ht) as [_ Ct].
    destruct p as [|s' p], q as [|t' q].
    + now apply path_tokens_inj.
    + exfalso. cbn [path_tokens] in E. cbn [dcolon app] in E.
      apply (no_colon_eq (seg_tokens s) [tk "crate"] (tk ":" :: path_tokens (t :: t' :: q)) Cs). exact E.
    + exfalso. cbn [path_tokens] in E. cbn [dcolon app] in E. symmetry in E.
      apply (no_colon_eq (seg_tokens t) [tk "crate"] (tk ":" :: path_tokens (s :: s' :: p)) Ct). exact E.
    + cbn [dcolon app] in E. inversion E as [E']. now apply path_tokens_inj.
Qed.

Corollary type_tokens_raw_inj p q :
  stype_ok (TRaw p) = true -> stype_ok (TRaw q) = true ->
  type_tokens (TRaw p) = type_tokens (TRaw q) -> p = q.
Proof. cbn [type_tokens]. apply raw_tokens_inj. Qed.

Print Assumptions read_as_ref_as_ref_impls.
Print Assumptions read_conflict_const_printed.
Print Assumptions raw_tokens_inj.
