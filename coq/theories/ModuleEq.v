(** * ModuleEq: an executable equality on the abstract syntax of Grammar.v, proved to decide
    Leibniz equality.  Used to compare [parse_module tokens] with the AST of the real parser.
    Everything is a plain boolean function (no proof terms in the computational path). *)
From Coq Require Import List NArith ZArith Bool String Ascii.
From PyxisModel Require Import Base Grammar.
Import ListNotations.
Local Open Scope bool_scope.

(** ** lists, options, pairs *)
Section Containers.
  Context {A : Type} (eqb : A -> A -> bool).
  Fixpoint list_eqb (l l' : list A) : bool :=
    match l, l' with
    | [], [] => true
    | a :: r, b :: r' => eqb a b && list_eqb r r'
    | _, _ => false
    end.
  Definition option_eqb (x y : option A) : bool :=
    match x, y with
    | Some a, Some b => eqb a b
    | None, None => true
    | _, _ => false
    end.
  Hypothesis eqb_spec : forall a b, eqb a b = true <-> a = b.
  Lemma list_eqb_spec : forall l l', list_eqb l l' = true <-> l = l'.
  Proof.
    induction l as [|a l IH]; intros [|b l']; cbn [list_eqb]; try (split; [discriminate | congruence]).
    - split; reflexivity.
    - rewrite andb_true_iff, eqb_spec, IH. split; [intros [-> ->]; reflexivity | intros H; injection H; auto].
  Qed.
  Lemma option_eqb_spec : forall x y, option_eqb x y = true <-> x = y.
  Proof.
    intros [a|] [b|]; cbn [option_eqb]; try (split; [discriminate | congruence]).
    - rewrite eqb_spec. split; [intros ->; reflexivity | intros H; injection H; auto].
    - split; reflexivity.
  Qed.
End Containers.

Lemma string_eqb_spec' a b : String.eqb a b = true <-> a = b.
Proof. apply String.eqb_eq. Qed.
Lemma N_eqb_spec' a b : N.eqb a b = true <-> a = b.
Proof. apply N.eqb_eq. Qed.
Lemma Z_eqb_spec' a b : Z.eqb a b = true <-> a = b.
Proof. apply Z.eqb_eq. Qed.

(** the last step of every proof below: a conjunction of equalities against an equality of
    constructor applications *)
Ltac ctor_iff :=
  split;
  [ intros; repeat match goal with H : _ /\ _ |- _ => destruct H end; subst; reflexivity
  | let H := fresh in intros H; injection H; intros; subst; repeat split; reflexivity ].
Ltac absurd_iff := split; [discriminate | congruence].

(** ** the syntax *)
Definition vis_eqb (a b : vis) : bool :=
  match a, b with Public, Public | Private, Private => true | _, _ => false end.
Lemma vis_eqb_spec a b : vis_eqb a b = true <-> a = b.
Proof. destruct a, b; cbn; split; congruence. Qed.

Fixpoint gtype_eqb (a b : gtype) : bool :=
  match a, b with
  | GConstPtr x, GConstPtr y => gtype_eqb x y
  | GMutPtr x, GMutPtr y => gtype_eqb x y
  | GArray x n, GArray y m => gtype_eqb x y && N.eqb n m
  | GIdent s, GIdent t => String.eqb s t
  | GUnknown n, GUnknown m => N.eqb n m
  | _, _ => false
  end.
Lemma gtype_eqb_spec : forall a b, gtype_eqb a b = true <-> a = b.
Proof.
  induction a as [x IH|x IH|x IH n|s|n]; intros [y|y|y m|t|m]; cbn [gtype_eqb]; try absurd_iff.
  - rewrite IH. ctor_iff.
  - rewrite IH. ctor_iff.
  - rewrite andb_true_iff, IH, N_eqb_spec'. ctor_iff.
  - rewrite string_eqb_spec'. ctor_iff.
  - rewrite N_eqb_spec'. ctor_iff.
Qed.

Definition gexpr_eqb (a b : gexpr) : bool :=
  match a, b with
  | EInt x, EInt y => Z.eqb x y
  | EStr s, EStr t => String.eqb s t
  | EIdent s, EIdent t => String.eqb s t
  | _, _ => false
  end.
Lemma gexpr_eqb_spec a b : gexpr_eqb a b = true <-> a = b.
Proof.
  destruct a, b; cbn [gexpr_eqb]; try absurd_iff;
    rewrite ?Z_eqb_spec', ?string_eqb_spec'; ctor_iff.
Qed.

Definition gattr_eqb (a b : gattr) : bool :=
  match a, b with
  | AIdent s, AIdent t => String.eqb s t
  | AFn s xs, AFn t ys => String.eqb s t && list_eqb gexpr_eqb xs ys
  | AAssign s x, AAssign t y => String.eqb s t && gexpr_eqb x y
  | _, _ => false
  end.
Lemma gattr_eqb_spec a b : gattr_eqb a b = true <-> a = b.
Proof.
  destruct a, b; cbn [gattr_eqb]; try absurd_iff;
    rewrite ?andb_true_iff, ?string_eqb_spec', ?(list_eqb_spec _ gexpr_eqb_spec), ?gexpr_eqb_spec; ctor_iff.
Qed.
Definition gattrs_eqb : list gattr -> list gattr -> bool := list_eqb gattr_eqb.
Lemma gattrs_eqb_spec a b : gattrs_eqb a b = true <-> a = b.
Proof. apply list_eqb_spec, gattr_eqb_spec. Qed.

Definition garg_eqb (a b : garg) : bool :=
  match a, b with
  | GConstSelf, GConstSelf | GMutSelf, GMutSelf => true
  | GNamed s x, GNamed t y => String.eqb s t && gtype_eqb x y
  | _, _ => false
  end.
Lemma garg_eqb_spec a b : garg_eqb a b = true <-> a = b.
Proof.
  destruct a, b; cbn [garg_eqb]; try absurd_iff; try (split; reflexivity).
  rewrite andb_true_iff, string_eqb_spec', gtype_eqb_spec. ctor_iff.
Qed.

Definition gfunction_eqb (a b : gfunction) : bool :=
  vis_eqb (gf_vis a) (gf_vis b) && String.eqb (gf_name a) (gf_name b) &&
  gattrs_eqb (gf_attrs a) (gf_attrs b) && list_eqb garg_eqb (gf_args a) (gf_args b) &&
  option_eqb gtype_eqb (gf_ret a) (gf_ret b).
Lemma gfunction_eqb_spec a b : gfunction_eqb a b = true <-> a = b.
Proof.
  destruct a as [a0 a1 a2 a3 a4], b as [b0 b1 b2 b3 b4]; unfold gfunction_eqb; cbn [gf_vis gf_name gf_attrs gf_args gf_ret].
  rewrite !andb_true_iff, vis_eqb_spec, string_eqb_spec', gattrs_eqb_spec,
    (list_eqb_spec _ garg_eqb_spec), (option_eqb_spec _ gtype_eqb_spec). ctor_iff.
Qed.

Definition gtypefield_eqb (a b : gtypefield) : bool :=
  match a, b with
  | GField v s x, GField w t y => vis_eqb v w && String.eqb s t && gtype_eqb x y
  | GVftable fs, GVftable gs => list_eqb gfunction_eqb fs gs
  | _, _ => false
  end.
Lemma gtypefield_eqb_spec a b : gtypefield_eqb a b = true <-> a = b.
Proof.
  destruct a, b; cbn [gtypefield_eqb]; try absurd_iff.
  - rewrite !andb_true_iff, vis_eqb_spec, string_eqb_spec', gtype_eqb_spec. ctor_iff.
  - rewrite (list_eqb_spec _ gfunction_eqb_spec). ctor_iff.
Qed.

Definition gstatement_eqb (a b : gstatement) : bool :=
  gtypefield_eqb (gs_field a) (gs_field b) && gattrs_eqb (gs_attrs a) (gs_attrs b).
Lemma gstatement_eqb_spec a b : gstatement_eqb a b = true <-> a = b.
Proof.
  destruct a as [a0 a1], b as [b0 b1]; unfold gstatement_eqb; cbn [gs_field gs_attrs].
  rewrite andb_true_iff, gtypefield_eqb_spec, gattrs_eqb_spec. ctor_iff.
Qed.

Definition gtypedef_eqb (a b : gtypedef) : bool :=
  list_eqb gstatement_eqb (gt_stmts a) (gt_stmts b) && gattrs_eqb (gt_attrs a) (gt_attrs b).
Lemma gtypedef_eqb_spec a b : gtypedef_eqb a b = true <-> a = b.
Proof.
  destruct a as [a0 a1], b as [b0 b1]; unfold gtypedef_eqb; cbn [gt_stmts gt_attrs].
  rewrite andb_true_iff, (list_eqb_spec _ gstatement_eqb_spec), gattrs_eqb_spec. ctor_iff.
Qed.

Definition genumstmt_eqb (a b : genumstmt) : bool :=
  String.eqb (ge_name a) (ge_name b) && option_eqb gexpr_eqb (ge_expr a) (ge_expr b) &&
  gattrs_eqb (ge_attrs a) (ge_attrs b).
Lemma genumstmt_eqb_spec a b : genumstmt_eqb a b = true <-> a = b.
Proof.
  destruct a as [a0 a1 a2], b as [b0 b1 b2]; unfold genumstmt_eqb; cbn [ge_name ge_expr ge_attrs].
  rewrite !andb_true_iff, string_eqb_spec', (option_eqb_spec _ gexpr_eqb_spec), gattrs_eqb_spec. ctor_iff.
Qed.

Definition genumdef_eqb (a b : genumdef) : bool :=
  gtype_eqb (ged_type a) (ged_type b) && list_eqb genumstmt_eqb (ged_stmts a) (ged_stmts b) &&
  gattrs_eqb (ged_attrs a) (ged_attrs b).
Lemma genumdef_eqb_spec a b : genumdef_eqb a b = true <-> a = b.
Proof.
  destruct a as [a0 a1 a2], b as [b0 b1 b2]; unfold genumdef_eqb; cbn [ged_type ged_stmts ged_attrs].
  rewrite !andb_true_iff, gtype_eqb_spec, (list_eqb_spec _ genumstmt_eqb_spec), gattrs_eqb_spec. ctor_iff.
Qed.

Definition gitem_inner_eqb (a b : gitem_inner) : bool :=
  match a, b with
  | GIType x, GIType y => gtypedef_eqb x y
  | GIEnum x, GIEnum y => genumdef_eqb x y
  | _, _ => false
  end.
Lemma gitem_inner_eqb_spec a b : gitem_inner_eqb a b = true <-> a = b.
Proof.
  destruct a, b; cbn [gitem_inner_eqb]; try absurd_iff;
    rewrite ?gtypedef_eqb_spec, ?genumdef_eqb_spec; ctor_iff.
Qed.

Definition gitemdef_eqb (a b : gitemdef) : bool :=
  vis_eqb (gi_vis a) (gi_vis b) && String.eqb (gi_name a) (gi_name b) &&
  gitem_inner_eqb (gi_inner a) (gi_inner b).
Lemma gitemdef_eqb_spec a b : gitemdef_eqb a b = true <-> a = b.
Proof.
  destruct a as [a0 a1 a2], b as [b0 b1 b2]; unfold gitemdef_eqb; cbn [gi_vis gi_name gi_inner].
  rewrite !andb_true_iff, vis_eqb_spec, string_eqb_spec', gitem_inner_eqb_spec. ctor_iff.
Qed.

Definition gfnblock_eqb (a b : gfnblock) : bool :=
  String.eqb (gb_name a) (gb_name b) && list_eqb gfunction_eqb (gb_fns a) (gb_fns b) &&
  gattrs_eqb (gb_attrs a) (gb_attrs b).
Lemma gfnblock_eqb_spec a b : gfnblock_eqb a b = true <-> a = b.
Proof.
  destruct a as [a0 a1 a2], b as [b0 b1 b2]; unfold gfnblock_eqb; cbn [gb_name gb_fns gb_attrs].
  rewrite !andb_true_iff, string_eqb_spec', (list_eqb_spec _ gfunction_eqb_spec), gattrs_eqb_spec. ctor_iff.
Qed.

Definition gbackend_eqb (a b : gbackend) : bool :=
  String.eqb (gbk_name a) (gbk_name b) && option_eqb String.eqb (gbk_pro a) (gbk_pro b) &&
  option_eqb String.eqb (gbk_epi a) (gbk_epi b).
Lemma gbackend_eqb_spec a b : gbackend_eqb a b = true <-> a = b.
Proof.
  destruct a as [a0 a1 a2], b as [b0 b1 b2]; unfold gbackend_eqb; cbn [gbk_name gbk_pro gbk_epi].
  rewrite !andb_true_iff, string_eqb_spec', !(option_eqb_spec _ string_eqb_spec'). ctor_iff.
Qed.

Definition gexternvalue_eqb (a b : gexternvalue) : bool :=
  vis_eqb (gev_vis a) (gev_vis b) && String.eqb (gev_name a) (gev_name b) &&
  gtype_eqb (gev_type a) (gev_type b) && gattrs_eqb (gev_attrs a) (gev_attrs b).
Lemma gexternvalue_eqb_spec a b : gexternvalue_eqb a b = true <-> a = b.
Proof.
  destruct a as [a0 a1 a2 a3], b as [b0 b1 b2 b3]; unfold gexternvalue_eqb; cbn [gev_vis gev_name gev_type gev_attrs].
  rewrite !andb_true_iff, vis_eqb_spec, string_eqb_spec', gtype_eqb_spec, gattrs_eqb_spec. ctor_iff.
Qed.

Definition gexterntype_eqb (a b : string * list gattr) : bool :=
  String.eqb (fst a) (fst b) && gattrs_eqb (snd a) (snd b).
Lemma gexterntype_eqb_spec a b : gexterntype_eqb a b = true <-> a = b.
Proof.
  destruct a, b; unfold gexterntype_eqb; cbn [fst snd].
  rewrite andb_true_iff, string_eqb_spec', gattrs_eqb_spec. ctor_iff.
Qed.

Definition path_eqb' : path -> path -> bool := list_eqb String.eqb.
Lemma path_eqb'_spec a b : path_eqb' a b = true <-> a = b.
Proof. apply list_eqb_spec, string_eqb_spec'. Qed.

Definition gmodule_eqb (a b : gmodule) : bool :=
  list_eqb path_eqb' (gm_uses a) (gm_uses b) &&
  list_eqb gexterntype_eqb (gm_extern_types a) (gm_extern_types b) &&
  list_eqb gexternvalue_eqb (gm_extern_values a) (gm_extern_values b) &&
  list_eqb gitemdef_eqb (gm_defs a) (gm_defs b) &&
  list_eqb gfnblock_eqb (gm_impls a) (gm_impls b) &&
  list_eqb gbackend_eqb (gm_backends a) (gm_backends b) &&
  gattrs_eqb (gm_attrs a) (gm_attrs b).

Theorem gmodule_eqb_spec : forall a b, gmodule_eqb a b = true <-> a = b.
Proof.
  intros a b. destruct a as [a0 a1 a2 a3 a4 a5 a6], b as [b0 b1 b2 b3 b4 b5 b6]; unfold gmodule_eqb;
    cbn [gm_uses gm_extern_types gm_extern_values gm_defs gm_impls gm_backends gm_attrs].
  rewrite !andb_true_iff, (list_eqb_spec _ path_eqb'_spec), (list_eqb_spec _ gexterntype_eqb_spec),
    (list_eqb_spec _ gexternvalue_eqb_spec), (list_eqb_spec _ gitemdef_eqb_spec),
    (list_eqb_spec _ gfnblock_eqb_spec), (list_eqb_spec _ gbackend_eqb_spec), gattrs_eqb_spec.
  ctor_iff.
Qed.

Corollary gmodule_eqb_refl a : gmodule_eqb a a = true.
Proof. now apply gmodule_eqb_spec. Qed.
Corollary gmodule_eqb_neq a b : gmodule_eqb a b = false <-> a <> b.
Proof.
  split.
  - intros H E. apply gmodule_eqb_spec in E. congruence.
  - intros H. destruct (gmodule_eqb a b) eqn:E; [|reflexivity]. apply gmodule_eqb_spec in E. contradiction.
Qed.

(** the decision procedure, for callers that prefer a sumbool; computes (ends with [Defined],
    and only inspects the boolean) *)
Definition gmodule_eq_dec (a b : gmodule) : {a = b} + {a <> b}.
Proof.
  destruct (gmodule_eqb a b) eqn:E.
  - left. now apply gmodule_eqb_spec.
  - right. now apply gmodule_eqb_neq.
Defined.

(** comparing the answer of [parse_module] with an expected module *)
Definition option_gmodule_eqb : option gmodule -> option gmodule -> bool := option_eqb gmodule_eqb.
Lemma option_gmodule_eqb_spec x y : option_gmodule_eqb x y = true <-> x = y.
Proof. apply option_eqb_spec, gmodule_eqb_spec. Qed.
