(** * RewriteExamples (C20): a pair of inputs related by every local rewrite -- non-vacuity.

    Module [m] of the original input:
<<
    pub enum E: u32 { A, B = 5, C }
    pub type Base { vftable { pub fn f(&self); /// second slot
                              pub fn g(&self, x: u32) -> u32; }, pub x: u32 }
    pub type TA { pub a: u32, pub e: E, /// after the enum
                  pub b: u32 }
    pub type TG { pub a: u32, _: unknown<4>, pub e: E }
    #[align(4)] pub type TS { pub a: u32, pub bs: Base, pub e: E }
    pub type D  { #[base] pub base: Base, pub y: u32 }
    pub type TV { vftable { pub fn h(&self); }, pub z: u32 }
>>
    and of the rewritten input: [E] with all values written out (R4); [g] with [#[index(1)]] (R3,
    inserted BEFORE its doc attribute); [TA.b] with [#[address(8)]] (R2: after a field of enum
    type, inserted before the doc attribute), [D.y] with [#[address(8)]] (R2: after a base class),
    [TV.z] with [#[address(4)]] (R2: after the vftable pointer); [TG]'s gap replaced by
    [#[address(8)]] on [e] (R5); [TS] with [#[size(16)]] before its [align] (R1: the size depends on
    [Base], a type with a vftable, and on [E]).  Module [n] uses [m] and is unchanged. *)
From Coq Require Import List NArith ZArith Bool Lia String Permutation.
From Coq Require Import Relations.Relation_Operators.
From PyxisModel Require Import Base Sexp Grammar SemTypes Registry Sem Emit SemLemmas VftableLemmas RewriteLemmas WholeBuild Monotone
     OrderIndep FinalState Reorder RewriteReg RewriteWhole RewriteAtt RewriteLocal RewriteSem RewriteLift RewriteAll Examples.
Import ListNotations.
Local Open Scope string_scope.
Local Open Scope list_scope.

Definition rx_m0_text : string := "(module (attrs) (uses) (extern_types) (extern_values) (defs (def pub ""E"" (enum (tid ""u32"") (attrs) (case (attrs) ""A"" none) (case (attrs) ""B"" (some (int 5))) (case (attrs) ""C"" none))) (def pub ""Base"" (type (attrs) (vftable (attrs) (func (attrs) pub ""f"" (args cself) none) (func (attrs (assign ""doc"" (str ""second slot""))) pub ""g"" (args cself (named ""x"" (tid ""u32""))) (some (tid ""u32"")))) (field (attrs) pub ""x"" (tid ""u32"")))) (def pub ""TA"" (type (attrs) (field (attrs) pub ""a"" (tid ""u32"")) (field (attrs) pub ""e"" (tid ""E"")) (field (attrs (assign ""doc"" (str ""after the enum""))) pub ""b"" (tid ""u32"")))) (def pub ""TG"" (type (attrs) (field (attrs) pub ""a"" (tid ""u32"")) (field (attrs) priv ""_"" (unknown 4)) (field (attrs) pub ""e"" (tid ""E"")))) (def pub ""TS"" (type (attrs (fn ""align"" (int 4))) (field (attrs) pub ""a"" (tid ""u32"")) (field (attrs) pub ""bs"" (tid ""Base"")) (field (attrs) pub ""e"" (tid ""E"")))) (def pub ""D"" (type (attrs) (field (attrs (ident ""base"")) pub ""base"" (tid ""Base"")) (field (attrs) pub ""y"" (tid ""u32"")))) (def pub ""TV"" (type (attrs) (vftable (attrs) (func (attrs) pub ""h"" (args cself) none)) (field (attrs) pub ""z"" (tid ""u32""))))) (impls) (backends))".
Definition rx_m1_text : string := "(module (attrs) (uses) (extern_types) (extern_values) (defs (def pub ""E"" (enum (tid ""u32"") (attrs) (case (attrs) ""A"" (some (int 0))) (case (attrs) ""B"" (some (int 5))) (case (attrs) ""C"" (some (int 6))))) (def pub ""Base"" (type (attrs) (vftable (attrs) (func (attrs) pub ""f"" (args cself) none) (func (attrs (fn ""index"" (int 1)) (assign ""doc"" (str ""second slot""))) pub ""g"" (args cself (named ""x"" (tid ""u32""))) (some (tid ""u32"")))) (field (attrs) pub ""x"" (tid ""u32"")))) (def pub ""TA"" (type (attrs) (field (attrs) pub ""a"" (tid ""u32"")) (field (attrs) pub ""e"" (tid ""E"")) (field (attrs (fn ""address"" (int 8)) (assign ""doc"" (str ""after the enum""))) pub ""b"" (tid ""u32"")))) (def pub ""TG"" (type (attrs) (field (attrs) pub ""a"" (tid ""u32"")) (field (attrs (fn ""address"" (int 8))) pub ""e"" (tid ""E"")))) (def pub ""TS"" (type (attrs (fn ""size"" (int 16)) (fn ""align"" (int 4))) (field (attrs) pub ""a"" (tid ""u32"")) (field (attrs) pub ""bs"" (tid ""Base"")) (field (attrs) pub ""e"" (tid ""E"")))) (def pub ""D"" (type (attrs) (field (attrs (ident ""base"")) pub ""base"" (tid ""Base"")) (field (attrs (fn ""address"" (int 8))) pub ""y"" (tid ""u32"")))) (def pub ""TV"" (type (attrs) (vftable (attrs) (func (attrs) pub ""h"" (args cself) none)) (field (attrs (fn ""address"" (int 4))) pub ""z"" (tid ""u32""))))) (impls) (backends))".
Definition rx_n_text : string := "(module (attrs) (uses (path ""m"")) (extern_types) (extern_values) (defs (def pub ""U"" (type (attrs) (field (attrs) pub ""t"" (tid ""TA"")) (field (attrs) pub ""p"" (cptr (tid ""Base"")))))) (impls) (backends))".

Definition rx_m0 : gmodule := Eval vm_compute in Examples.module_of_text rx_m0_text.
Definition rx_m1 : gmodule := Eval vm_compute in Examples.module_of_text rx_m1_text.
Definition rx_n : gmodule := Eval vm_compute in Examples.module_of_text rx_n_text.
Definition rx_mods : list (path * gmodule) := [(["m"], rx_m0); (["n"], rx_n)].
Definition rx_mods' : list (path * gmodule) := [(["m"], rx_m1); (["n"], rx_n)].

Example rx_parsed : List.length (gm_defs rx_m0) = 7%nat /\ List.length (gm_defs rx_m1) = 7%nat /\ List.length (gm_defs rx_n) = 1%nat.
Proof. vm_compute. auto. Qed.

(** both inputs are accepted, under two different schedules, and the files are the same *)
Example rx_accepted_same_files :
  match pyxis_resolve (hook_schedule []) 4 rx_mods, pyxis_resolve (hook_schedule [5; 3; 1; 2; 7; 4; 6; 0]%N) 4 rx_mods' with
  | BOk s1, BOk s2 => write_all s1 = write_all s2 /\
                      match write_all s1 with Ok fs => List.length fs = 2%nat | _ => False end
  | _, _ => False
  end.
Proof. vm_compute. split; reflexivity. Qed.

(** the input state of the original and the final state of one accepted run, as closed terms *)
Definition rx_dummy : sstate := {| st_modules := []; st_reg := {| reg_types := []; reg_ptr := 0%N |} |}.
Definition rx_st0 : sstate := Eval vm_compute in match input_state 4 rx_mods with Ok s => s | _ => rx_dummy end.
Definition rx_t1 : sstate :=
  Eval vm_compute in match pyxis_resolve (hook_schedule []) 4 rx_mods with BOk t => t | _ => rx_dummy end.

Example rx_input : input_state 4 rx_mods = Ok rx_st0.
Proof. vm_compute. reflexivity. Qed.
Example rx_run : pyxis_resolve (hook_schedule []) 4 rx_mods = BOk rx_t1.
Proof. vm_compute. reflexivity. Qed.
Example rx_side_conditions : collision_freeb (st_reg rx_st0) = true /\ clean_stateb rx_st0 = true.
Proof. vm_compute. auto. Qed.

(** the offsets and the size the original build gives (the semantic data of R2, R5, R1), computed
    in the reference state: the final registry with the module table of the input *)
Definition rx_ref : sstate := ref_state rx_st0 rx_t1.
Definition rx_ddef : gitemdef := {| gi_vis := Public; gi_name := ""; gi_inner := GIType {| gt_stmts := []; gt_attrs := [] |} |}.
Definition rx_td (m : gmodule) (i : nat) : gtypedef :=
  match gi_inner (nth i (gm_defs m) rx_ddef) with GIType td => td | _ => {| gt_stmts := []; gt_attrs := [] |} end.

Example rx_semantic_data :
  field_offset_of rx_ref ["m"; "TA"] Public (rx_td rx_m0 2) 2 = Some 8%N /\
  field_offset_of rx_ref ["m"; "TG"] Public (rx_td rx_m0 3) 1 = Some 4%N /\
  natural_size_of rx_ref ["m"; "TS"] Public (rx_td rx_m0 4) = Some 16%N /\
  field_offset_of rx_ref ["m"; "D"] Public (rx_td rx_m0 5) 1 = Some 8%N /\
  field_offset_of rx_ref ["m"; "TV"] Public (rx_td rx_m0 6) 0 = Some 4%N.
Proof. vm_compute. repeat split. Qed.

(** ** the rewritten input is [rewritten] from the original, with the final registry of the accepted
    run as the reference state *)
Definition rx_dstmt : gstatement := {| gs_field := GVftable []; gs_attrs := [] |}.
Definition rx_stmt (m : gmodule) (i k : nat) : gstatement := nth k (gt_stmts (rx_td m i)) rx_dstmt.

(** a semantic side condition, in the reference state of the accepted run: by computation *)
Ltac rx_ok :=
  let st := fresh "st" in let td := fresh "td" in let Hr := fresh "Hr" in let Hi := fresh "Hi" in
  let x := fresh "x" in let Hx := fresh "Hx" in
  intros st td Hr Hi x Hx; unfold Ref_final in Hr; subst st; cbn in Hi; injection Hi as <-;
  first [apply field_offset_of_sound in Hx | apply natural_size_of_sound in Hx];
  vm_compute in Hx; injection Hx as <-; reflexivity.

(** the item-level part of a rewrite on a type: same visibility and name, both are types *)
Ltac rx_type := split; [reflexivity|]; split; [reflexivity|]; eexists _, _; split; [reflexivity|]; split; [reflexivity|].

Example rx_rewritten : rewritten (Ref_final rx_st0 rx_t1) rx_mods rx_mods'.
Proof.
  unfold rewritten, rewritten_gen, rx_mods, rx_mods'.
  constructor; [|constructor; [|constructor]].
  - split; [reflexivity|]. cbn [fst snd]. unfold ast_rel.
    split; [reflexivity|]. split; [reflexivity|]. split; [reflexivity|]. split; [|repeat split; reflexivity].
    unfold rx_m0, rx_m1; cbn [gm_defs].
    repeat (apply Forall2_cons); [.. | apply Forall2_nil];
      (split; [reflexivity|]; split; [reflexivity|]); cbn [path_join gi_name app].
    + (* E: values written out *)
      apply rst_step, ls_enum. split; [reflexivity|]. split; [reflexivity|]. eexists _, _.
      split; [reflexivity|]. split; [reflexivity|]. split; [reflexivity|]. split; [reflexivity|].
      vm_compute. repeat split; auto.
    + (* Base: index(1) on g, before its doc attribute *)
      apply rst_step, ls_index. rx_type. split; [reflexivity|]. cbn [gt_stmts].
      constructor; [|constructor; [left; reflexivity | constructor]].
      right. eexists _, _. split; [reflexivity|]. split; [reflexivity|]. split; [reflexivity|].
      cbn [vfuncs_rel]. split; [left; reflexivity|]. split; [|exact I].
      right. repeat (split; [reflexivity|]). split.
      * exists [], [AAssign "doc" (EStr "second slot")]. split; reflexivity.
      * repeat constructor.
    + (* TA: address(8) on b, after an enum field, before its doc attribute *)
      apply rst_step. apply (ls_address _ _ _ _ 2%nat 8%N); [|rx_ok].
      rx_type. split; [reflexivity|].
      exists (firstn 2 (gt_stmts (rx_td rx_m0 2))), (rx_stmt rx_m0 2 2), (rx_stmt rx_m1 2 2), [].
      split; [reflexivity|]. split; [reflexivity|]. split; [exact I|]. split; [repeat constructor|].
      split; [|reflexivity]. split; [reflexivity|].
      exists [], [AAssign "doc" (EStr "after the enum")]. split; reflexivity.
    + (* TG: the gap replaced by address(8) on e *)
      apply rst_step. apply (ls_gap _ _ _ _ 1%nat 4%N 8%N); [|rx_ok].
      rx_type. split; [reflexivity|].
      exists (firstn 1 (gt_stmts (rx_td rx_m0 3))), (rx_stmt rx_m0 3 1), (rx_stmt rx_m0 3 2), (rx_stmt rx_m1 3 1), [].
      split; [reflexivity|]. split; [reflexivity|]. split; [exists Private; split; reflexivity|].
      split; [exact I|]. split; [repeat constructor|].
      split; [|reflexivity]. split; [reflexivity|]. exists [], []. split; reflexivity.
    + (* TS: size(16), before the align attribute *)
      apply rst_step. apply (ls_size _ _ _ _ 16%N); [|rx_ok].
      rx_type. split; [reflexivity|]. split; [|repeat constructor].
      exists [], [AFn "align" [EInt 4]]. split; reflexivity.
    + (* D: address(8) on y, after the base class *)
      apply rst_step. apply (ls_address _ _ _ _ 1%nat 8%N); [|rx_ok].
      rx_type. split; [reflexivity|].
      exists (firstn 1 (gt_stmts (rx_td rx_m0 5))), (rx_stmt rx_m0 5 1), (rx_stmt rx_m1 5 1), [].
      split; [reflexivity|]. split; [reflexivity|]. split; [exact I|]. split; [repeat constructor|].
      split; [|reflexivity]. split; [reflexivity|]. exists [], []. split; reflexivity.
    + (* TV: address(4) on z, after the vftable pointer *)
      apply rst_step. apply (ls_address _ _ _ _ 0%nat 4%N); [|rx_ok].
      rx_type. split; [reflexivity|].
      exists (firstn 1 (gt_stmts (rx_td rx_m0 6))), (rx_stmt rx_m0 6 1), (rx_stmt rx_m1 6 1), [].
      split; [reflexivity|]. split; [reflexivity|]. split; [exact I|]. split; [repeat constructor|].
      split; [|reflexivity]. split; [reflexivity|]. exists [], []. split; reflexivity.
  - split; [reflexivity|]. cbn [fst snd]. unfold ast_rel. repeat (split; [reflexivity|]).
    split; [|repeat split; reflexivity].
    unfold rx_n; cbn [gm_defs]. constructor; [|constructor].
    split; [reflexivity|]. split; [reflexivity|]. apply rst_refl.
Qed.

(** the theorem applies: under EVERY permutation-valued schedule the rewritten input is accepted and
    the back end writes exactly the files of the original *)
Example rx_theorem_applies o2 :
  (forall l, Permutation (o2 l) l) ->
  exists t2, pyxis_resolve o2 4 rx_mods' = BOk t2 /\ write_all rx_t1 = write_all t2.
Proof.
  intros P2. destruct rx_side_conditions as [Hcf Hcl].
  exact (rewritten_same_output_accepted 4 rx_mods rx_mods' rx_st0 (hook_schedule []) o2 rx_t1
           rx_input (collision_freeb_sound _ Hcf) Hcl (hook_schedule_perm []) P2 rx_run rx_rewritten).
Qed.

Example rx_registration : is_ok (input_state 4 rx_mods) = is_ok (input_state 4 rx_mods').
Proof. exact (rewritten_registration _ 4 rx_mods rx_mods' rx_rewritten). Qed.

(** ** the syntactic rewrites alone (R3, R4): no reference state, every verdict *)
Definition rx_m2_text : string := "(module (attrs) (uses) (extern_types) (extern_values) (defs (def pub ""E"" (enum (tid ""u32"") (attrs) (case (attrs) ""A"" (some (int 0))) (case (attrs) ""B"" (some (int 5))) (case (attrs) ""C"" (some (int 6))))) (def pub ""Base"" (type (attrs) (vftable (attrs) (func (attrs) pub ""f"" (args cself) none) (func (attrs (fn ""index"" (int 1)) (assign ""doc"" (str ""second slot""))) pub ""g"" (args cself (named ""x"" (tid ""u32""))) (some (tid ""u32"")))) (field (attrs) pub ""x"" (tid ""u32"")))) (def pub ""TA"" (type (attrs) (field (attrs) pub ""a"" (tid ""u32"")) (field (attrs) pub ""e"" (tid ""E"")) (field (attrs (assign ""doc"" (str ""after the enum""))) pub ""b"" (tid ""u32"")))) (def pub ""TG"" (type (attrs) (field (attrs) pub ""a"" (tid ""u32"")) (field (attrs) priv ""_"" (unknown 4)) (field (attrs) pub ""e"" (tid ""E"")))) (def pub ""TS"" (type (attrs (fn ""align"" (int 4))) (field (attrs) pub ""a"" (tid ""u32"")) (field (attrs) pub ""bs"" (tid ""Base"")) (field (attrs) pub ""e"" (tid ""E"")))) (def pub ""D"" (type (attrs) (field (attrs (ident ""base"")) pub ""base"" (tid ""Base"")) (field (attrs) pub ""y"" (tid ""u32"")))) (def pub ""TV"" (type (attrs) (vftable (attrs) (func (attrs) pub ""h"" (args cself) none)) (field (attrs) pub ""z"" (tid ""u32""))))) (impls) (backends))".
Definition rx_m2 : gmodule := Eval vm_compute in Examples.module_of_text rx_m2_text.
Definition rx_mods2 : list (path * gmodule) := [(["m"], rx_m2); (["n"], rx_n)].

Example rx_rewritten_syn : rewritten_syn rx_mods rx_mods2.
Proof.
  unfold rewritten_syn, rewritten_gen, rx_mods, rx_mods2.
  constructor; [|constructor; [|constructor]].
  - split; [reflexivity|]. cbn [fst snd]. unfold ast_rel.
    split; [reflexivity|]. split; [reflexivity|]. split; [reflexivity|]. split; [|repeat split; reflexivity].
    unfold rx_m0, rx_m2; cbn [gm_defs].
    repeat (apply Forall2_cons); [.. | apply Forall2_nil];
      (split; [reflexivity|]; split; [reflexivity|]); cbn [path_join gi_name app]; try apply rst_refl.
    + apply rst_step. right. split; [reflexivity|]. split; [reflexivity|]. eexists _, _.
      split; [reflexivity|]. split; [reflexivity|]. split; [reflexivity|]. split; [reflexivity|].
      vm_compute. repeat split; auto.
    + apply rst_step. left. rx_type. split; [reflexivity|]. cbn [gt_stmts].
      constructor; [|constructor; [left; reflexivity | constructor]].
      right. eexists _, _. split; [reflexivity|]. split; [reflexivity|]. split; [reflexivity|].
      cbn [vfuncs_rel]. split; [left; reflexivity|]. split; [|exact I].
      right. repeat (split; [reflexivity|]). split.
      * exists [], [AAssign "doc" (EStr "second slot")]. split; reflexivity.
      * repeat constructor.
  - split; [reflexivity|]. cbn [fst snd]. unfold ast_rel. repeat (split; [reflexivity|]).
    split; [|repeat split; reflexivity].
    unfold rx_n; cbn [gm_defs]. constructor; [|constructor].
    split; [reflexivity|]. split; [reflexivity|]. apply rst_refl.
Qed.

Example rx_syn_theorem_applies o1 o2 :
  (forall l, Permutation (o1 l) l) -> (forall l, Permutation (o2 l) l) ->
  match pyxis_resolve o1 4 rx_mods, pyxis_resolve o2 4 rx_mods2 with
  | BOk s1, BOk s2 => write_all s1 = write_all s2
  | BOk _, _ | _, BOk _ => False
  | _, _ => True
  end.
Proof.
  intros P1 P2. destruct rx_side_conditions as [Hcf Hcl].
  exact (rewritten_syn_same_output 4 rx_mods rx_mods2 rx_st0 o1 o2 rx_input (collision_freeb_sound _ Hcf) Hcl
           rx_rewritten_syn P1 P2).
Qed.

(** a rejected pair: [X] names an undefined type; with or without the enum values written out, the
    build makes no progress *)
Definition rx_bad0 : gmodule := Eval vm_compute in Examples.module_of_text "(module (attrs) (uses) (extern_types) (extern_values) (defs (def pub ""E"" (enum (tid ""u32"") (attrs) (case (attrs) ""A"" none) (case (attrs) ""B"" none))) (def pub ""X"" (type (attrs) (field (attrs) pub ""q"" (tid ""Missing"")) (field (attrs) pub ""e"" (tid ""E""))))) (impls) (backends))".
Definition rx_bad1 : gmodule := Eval vm_compute in Examples.module_of_text "(module (attrs) (uses) (extern_types) (extern_values) (defs (def pub ""E"" (enum (tid ""u32"") (attrs) (case (attrs) ""A"" (some (int 0))) (case (attrs) ""B"" (some (int 1))))) (def pub ""X"" (type (attrs) (field (attrs) pub ""q"" (tid ""Missing"")) (field (attrs) pub ""e"" (tid ""E""))))) (impls) (backends))".

Example rx_bad_rewritten : rewritten_syn [(["m"], rx_bad0)] [(["m"], rx_bad1)].
Proof.
  constructor; [|constructor]. split; [reflexivity|]. cbn [fst snd]. unfold ast_rel.
  split; [reflexivity|]. split; [reflexivity|]. split; [reflexivity|]. split; [|repeat split; reflexivity].
  unfold rx_bad0, rx_bad1; cbn [gm_defs].
  repeat (apply Forall2_cons); [.. | apply Forall2_nil];
    (split; [reflexivity|]; split; [reflexivity|]); cbn [path_join gi_name app]; try apply rst_refl.
  apply rst_step. right. split; [reflexivity|]. split; [reflexivity|]. eexists _, _.
  split; [reflexivity|]. split; [reflexivity|]. split; [reflexivity|]. split; [reflexivity|].
  vm_compute. repeat split; auto.
Qed.

Example rx_bad_both_stuck :
  pyxis_resolve (hook_schedule []) 4 [(["m"], rx_bad0)] = BNoProgress [["m"; "X"]] /\
  pyxis_resolve (hook_schedule [3; 1]%N) 4 [(["m"], rx_bad1)] = BNoProgress [["m"; "X"]].
Proof. vm_compute. split; reflexivity. Qed.
