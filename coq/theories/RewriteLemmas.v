(** * Equivalent descriptions produce identical results (C20) *)
From Coq Require Import List NArith ZArith Bool Lia String.
From PyxisModel Require Import Base Grammar SemTypes Registry Sem RustLayout LayoutLemmas SemLemmas PlacementLemmas FunctionLemmas VftableLemmas.
Import ListNotations.
Local Open Scope N_scope.

(** ** writing an enum value that equals the implicit one *)
Fixpoint explicitate (stmts : list genumstmt) (next : Z) : list genumstmt :=
  match stmts with
  | [] => []
  | s :: r =>
    match ge_expr s with
    | Some (EInt v) => s :: explicitate r (v + 1)%Z
    | Some _ => s :: r
    | None => {| ge_name := ge_name s; ge_expr := Some (EInt next); ge_attrs := ge_attrs s |}
                :: explicitate r (next + 1)%Z
    end
  end.

Theorem enum_cases_explicit : forall stmts last next idx fields di r,
  enum_cases stmts last idx fields di = Ok r -> (last = Some next \/ last = None) ->
  enum_cases (explicitate stmts next) last idx fields di = Ok r.
Proof.
  induction stmts as [|s stmts IH]; intros last next idx fields di r H Hl; cbn [explicitate enum_cases] in *.
  - exact H.
  - destruct (ge_expr s) as [[v|?|?]|] eqn:Ee.
    + cbn [enum_cases]. rewrite Ee. inv_bind H. inversion Ha; subst a. inv_bind H. rewrite Ha0. cbn [bind].
      eapply IH; [exact H|]. destruct (v <? isize_max)%Z; auto.
    + cbn [enum_cases]. rewrite Ee. exact H.
    + cbn [enum_cases]. rewrite Ee. exact H.
    + destruct Hl as [->| ->]; [|discriminate]. cbn [enum_cases ge_expr ge_attrs ge_name bind] in *.
      inv_bind H. rewrite Ha. cbn [bind]. eapply IH; [exact H|]. destruct (next <? isize_max)%Z; auto.
Qed.

(** ** giving a field the explicit address it already has *)
Theorem push_pending_address_explicit R rs last r :
  reg_u8 R -> push_pending R (rs, last) (Some last, r) = push_pending R (rs, last) (None, r).
Proof.
  intros Hu. unfold push_pending. cbn [fst snd]. rewrite N.ltb_irrefl, N.sub_diag.
  assert (regions_push R (rs, last) (unnamed_region (padding_type 0)) = Some (rs, last)) as ->.
  { unfold regions_push. cbn [unnamed_region r_type]. rewrite (padding_size_eq _ _ Hu).
    unfold checked_mul. cbn. reflexivity. }
  reflexivity.
Qed.

(** ** adding a size attribute equal to the natural size *)
Theorem resolve_regions_natural_size st owner v pending vfs st' regions vt size :
  resolve_regions st owner v None pending vfs = Ok (st', regions, vt, size) ->
  resolve_regions st owner v (Some size) pending vfs = Ok (st', regions, vt, size).
Proof.
  unfold resolve_regions. intros H.
  destruct (first_base_unresolved _ _); [discriminate|].
  inv_bind H. destruct a as [[st1 vt1] vr1]. rewrite Ha. cbn [bind].
  inv_bind H. rewrite Ha0. cbn [bind]. inv_bind H. rewrite Ha1. cbn [bind].
  inv_bind H. inversion Ha2; subst a1. inv_bind H. destruct a1 as [named sz].
  cbn [fst snd] in *.
  assert (st1 = st' /\ named = regions /\ vt1 = vt /\ sz = size) as (-> & -> & -> & Hsz) by (inversion H; auto).
  subst sz. rename size into sz.
  destruct (name_regions_spec _ _ _ _ _ Ha3) as (_ & Hs & _).
  (* the natural end equals the sum, so no tail padding is added *)
  assert (snd a0 = sz) as Hend.
  { (* the running offset is the total of the regions pushed so far *)
    destruct a as [rs0 l0]. destruct a0 as [rs1 l1]. cbn [fst snd] in *.
    assert (l0 = total 0 (map (region_sa (st_reg st')) rs0)) as H0.
    { destruct vr1 as [vr|].
      - apply defer_opt_ok in Ha0. destruct (regions_push_spec _ _ _ _ _ _ Ha0) as (s & Hsz & Hr).
        destruct (ignored _ vr); [destruct Hr as (-> & -> & _); reflexivity|].
        destruct Hr as (-> & ->). cbn [app map total]. unfold region_sa. rewrite Hsz. cbn. lia.
      - inversion Ha0. reflexivity. }
    (* push_all_spec needs reg_u8 only for the padding of explicit addresses; we avoid it by a direct
       statement about the running total *)
    assert (G : forall pending rs l rs' l', foldM (push_pending (st_reg st')) pending (rs, l) = Ok (rs', l') ->
              l = total 0 (map (region_sa (st_reg st')) rs) -> l' = total 0 (map (region_sa (st_reg st')) rs')).
    { clear. induction pending as [|[addr r] pending IH]; intros rs l rs' l' H Hl; cbn [foldM] in H.
      - inversion H. congruence.
      - inv_bind H. destruct a as [rs1 l1]. eapply IH; [exact H|].
        unfold push_pending in Ha. cbn [fst snd] in Ha. inv_bind Ha. destruct a as [rs2 l2].
        apply defer_opt_ok in Ha.
        assert (l2 = total 0 (map (region_sa (st_reg st')) rs2)) as H2.
        { destruct addr as [a|].
          - destruct (a <? l); [discriminate|]. apply defer_opt_ok in Ha0.
            destruct (regions_push_spec _ _ _ _ _ _ Ha0) as (s & Hsz & Hr).
            destruct (ignored _ _); [destruct Hr as (-> & -> & _); exact Hl|].
            destruct Hr as (-> & ->). rewrite total_snoc, (region_sa_size _ _ _ Hsz). lia.
          - inversion Ha0. congruence. }
        destruct (regions_push_spec _ _ _ _ _ _ Ha) as (s & Hsz & Hr).
        destruct (ignored _ r); [destruct Hr as (-> & -> & _); exact H2|].
        destruct Hr as (-> & ->). rewrite total_snoc, (region_sa_size _ _ _ Hsz). lia. }
    rewrite Hs. eapply G; eauto. }
  rewrite Hend, N.ltb_irrefl. cbn [bind]. rewrite Ha3. cbn [bind fst snd]. rewrite N.eqb_refl. reflexivity.
Qed.

(** ** giving a virtual function the index it already has *)
Theorem pad_to_same out : pad_to (N.of_nat (List.length out)) out = out.
Proof. unfold pad_to. rewrite N.sub_diag. reflexivity. Qed.

Definition with_index (f : gfunction) (i : N) : gfunction :=
  {| gf_vis := gf_vis f; gf_name := gf_name f;
     gf_attrs := gf_attrs f ++ [AFn "index"%string [EInt (Z.of_N i)]];
     gf_args := gf_args f; gf_ret := gf_ret f |}.

Lemma attrs_doc_aux_app_nondoc : forall attrs acc a,
  (forall k v, a <> AAssign k v) ->
  attrs_doc_aux (attrs ++ [a]) acc = attrs_doc_aux attrs acc.
Proof.
  induction attrs as [|x attrs IH]; intros acc a Ha; cbn [app attrs_doc_aux].
  - destruct a as [?|? ?|k v]; try reflexivity. exfalso. eapply Ha. reflexivity.
  - destruct x as [?|? ?|k v]; try (apply IH; exact Ha).
    destruct (String.eqb k "doc"); [|apply IH; exact Ha].
    destruct v; try reflexivity. apply IH. exact Ha.
Qed.

Lemma z_to_usize_of_N n : z_to_usize (Z.of_N n) = Some n.
Proof. unfold z_to_usize. destruct (Z.of_N n <? 0)%Z eqn:E; [lia|]. now rewrite N2Z.id. Qed.

Lemma scan_int_ok_or_err name : forall attrs acc,
  (exists r, foldM (scan_int_attr name) attrs acc = Ok r) \/ (exists m, foldM (scan_int_attr name) attrs acc = Err m).
Proof.
  induction attrs as [|a attrs IH]; intros acc; cbn [foldM]; [left; eauto|].
  assert ((exists r, scan_int_attr name acc a = Ok r) \/ (exists m, scan_int_attr name acc a = Err m)) as [[r Hr]|[m Hm]].
  { unfold scan_int_attr. destruct a as [?|? [|[?|?|?] [|? ?]]|? ?]; eauto.
    destruct (String.eqb _ _); eauto. destruct (z_to_usize _); eauto. }
  - rewrite Hr. cbn [bind]. apply IH.
  - rewrite Hm. cbn [bind]. right. eauto.
Qed.

Theorem convert_one_index_explicit R scope out f :
  fn_index f = Some None ->
  convert_one R scope out (with_index f (N.of_nat (List.length out))) = convert_one R scope out f.
Proof.
  intros Hidx. unfold convert_one.
  (* the index scan *)
  assert (foldM scan_index_attr (gf_attrs f) None = Ok None \/ exists m, foldM scan_index_attr (gf_attrs f) None = Err m) as Hscan.
  { destruct (scan_int_ok_or_err "index" (gf_attrs f) None) as [[r E]|[m E]]; [left | right; eauto].
    pose proof (scan_index_spec _ _ _ E) as Hs. unfold fn_index, declared_index in Hidx.
    unfold scan_index_attr. rewrite E. f_equal.
    destruct (last_some index_attr (gf_attrs f) None) as [z|].
    - destruct (z_to_usize z); cbn in *; congruence.
    - exact Hs. }
  cbn [with_index gf_attrs]. rewrite foldM_app.
  destruct Hscan as [Hs|[m Hs]]; rewrite Hs; cbn [bind foldM]; [|reflexivity].
  unfold scan_index_attr at 1, scan_int_attr. cbn [String.eqb Ascii.eqb Bool.eqb].
  rewrite z_to_usize_of_N. cbn [bind]. rewrite N.ltb_irrefl, pad_to_same.
  (* function_build ignores the added index attribute *)
  assert (function_build R scope true (with_index f (N.of_nat (List.length out))) = function_build R scope true f) as ->; [|reflexivity].
  unfold function_build. cbn [with_index gf_attrs gf_name gf_args gf_ret gf_vis].
  unfold attrs_doc. rewrite attrs_doc_aux_app_nondoc by (intros; discriminate).
  destruct (attrs_doc_aux (gf_attrs f) None); cbn [bind]; try reflexivity.
  rewrite foldM_app. destruct (foldM (scan_fn_attr true) (gf_attrs f) _) as [[b c]| | |]; cbn [bind foldM]; try reflexivity.
Qed.
