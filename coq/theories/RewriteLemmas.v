(** * Equivalent descriptions produce identical results (C20) *)
From Coq Require Import List NArith ZArith Bool Lia String.
From PyxisModel Require Import Base Grammar SemTypes Registry Sem RustLayout LayoutLemmas SemLemmas PlacementLemmas FunctionLemmas VftableLemmas.
Import ListNotations.
Local Open Scope N_scope.

(** ** writing an enum value that equals the implicit one *)
Fixpoint explicitate (stmts : list genumstmt) (next : Z) : list genumstmt :=
  match stmts with
  | [] => []
  | s :: r =>
    match ge_expr s with
    | Some (EInt v) => s :: explicitate r (v + 1)%Z
    | Some _ => s :: r
    | None => {| ge_name := ge_name s; ge_expr := Some (EInt next); ge_attrs := ge_attrs s |}
                :: explicitate r (next + 1)%Z
    end
  end.

Theorem enum_cases_explicit : forall stmts last next idx fields di r,
  enum_cases stmts last idx fields di = Ok r -> (last = Some next \/ last = None) ->
  enum_cases (explicitate stmts next) last idx fields di = Ok r.
Proof.
  induction stmts as [|s stmts IH]; intros last next idx fields di r H Hl; cbn [explicitate enum_cases] in *.
  - exact H.
  - destruct (ge_expr s) as [[v|?|?]|] eqn:Ee.
    + cbn [enum_cases]. rewrite Ee. inv_bind H. inversion Ha; subst a. inv_bind H. rewrite Ha0. cbn [bind].
      eapply IH; [exact H|]. destruct (v <? isize_max)%Z; auto.
    + cbn [enum_cases]. rewrite Ee. exact H.
    + cbn [enum_cases]. rewrite Ee. exact H.
    + destruct Hl as [->| ->]; [|discriminate]. cbn [enum_cases ge_expr ge_attrs ge_name bind] in *.
      inv_bind H. rewrite Ha. cbn [bind]. eapply IH; [exact H|]. destruct (next <? isize_max)%Z; auto.
Qed.

(** ** giving a field the explicit address it already has *)
Theorem push_pending_address_explicit R rs last r :
  reg_u8 R -> push_pending R (rs, last) (Some last, r) = push_pending R (rs, last) (None, r).
Proof.
  intros Hu. unfold push_pending. cbn [fst snd]. rewrite N.ltb_irrefl, N.sub_diag.
  assert (regions_push R (rs, last) (unnamed_region (padding_type 0)) = Some (rs, last)) as ->.
  { unfold regions_push. cbn [unnamed_region r_type]. rewrite (padding_size_eq _ _ Hu).
    unfold checked_mul. cbn. reflexivity. }
  reflexivity.
Qed.

(** ** adding a size attribute equal to the natural size *)
Theorem resolve_regions_natural_size st owner v pending vfs st' regions vt size :
  resolve_regions st owner v None pending vfs = Ok (st', regions, vt, size) ->
  resolve_regions st owner v (Some size) pending vfs = Ok (st', regions, vt, size).
Proof.
  unfold resolve_regions. intros H.
  destruct (first_base_unresolved _ _); [discriminate|].
  inv_bind H. destruct a as [[st1 vt1] vr1]. rewrite Ha. cbn [bind].
  inv_bind H. rewrite Ha0. cbn [bind]. inv_bind H. rewrite Ha1. cbn [bind].
  inv_bind H. inversion Ha2; subst a1. inv_bind H. destruct a1 as [named sz].
  cbn [fst snd] in *.
  assert (st1 = st' /\ named = regions /\ vt1 = vt /\ sz = size) as (-> & -> & -> & Hsz) by (inversion H; auto).
  subst sz. rename size into sz.
  destruct (name_regions_spec _ _ _ _ _ Ha3) as (_ & Hs & _).
  (* the natural end equals the sum, so no tail padding is added *)
  assert (snd a0 = sz) as Hend.
  { (* the running offset is the total of the regions pushed so far *)
    destruct a as [rs0 l0]. destruct a0 as [rs1 l1]. cbn [fst snd] in *.
    assert (l0 = total 0 (map (region_sa (st_reg st')) rs0)) as H0.
    { destruct vr1 as [vr|].
      - apply defer_opt_ok in Ha0. destruct (regions_push_spec _ _ _ _ _ _ Ha0) as (s & Hsz & Hr).
        destruct (ignored _ vr); [destruct Hr as (-> & -> & _); reflexivity|].
        destruct Hr as (-> & ->). cbn [app map total]. unfold region_sa. rewrite Hsz. cbn. lia.
      - inversion Ha0. reflexivity. }
    (* push_all_spec needs reg_u8 only for the padding of explicit addresses; we avoid it by a direct
       statement about the running total *)
    assert (G : forall pending rs l rs' l', foldM (push_pending (st_reg st')) pending (rs, l) = Ok (rs', l') ->
              l = total 0 (map (region_sa (st_reg st')) rs) -> l' = total 0 (map (region_sa (st_reg st')) rs')).
    { clear. induction pending as [|[addr r] pending IH]; intros rs l rs' l' H Hl; cbn [foldM] in H.
      - inversion H. congruence.
      - inv_bind H. destruct a as [rs1 l1]. eapply IH; [exact H|].
        unfold push_pending in Ha. cbn [fst snd] in Ha. inv_bind Ha. destruct a as [rs2 l2].
        apply defer_opt_ok in Ha.
        assert (l2 = total 0 (map (region_sa (st_reg st')) rs2)) as H2.
        { destruct addr as [a|].
          - destruct (a <? l); [discriminate|]. apply defer_opt_ok in Ha0.
            destruct (regions_push_spec _ _ _ _ _ _ Ha0) as (s & Hsz & Hr).
            destruct (ignored _ _); [destruct Hr as (-> & -> & _); exact Hl|].
            destruct Hr as (-> & ->). rewrite total_snoc, (region_sa_size _ _ _ Hsz). lia.
          - inversion Ha0. congruence. }
        destruct (regions_push_spec _ _ _ _ _ _ Ha) as (s & Hsz & Hr).
        destruct (ignored _ r); [destruct Hr as (-> & -> & _); exact H2|].
        destruct Hr as (-> & ->). rewrite total_snoc, (region_sa_size _ _ _ Hsz). lia. }
    rewrite Hs. eapply G; eauto. }
  rewrite Hend, N.ltb_irrefl. cbn [bind]. rewrite Ha3. cbn [bind fst snd]. rewrite N.eqb_refl. reflexivity.
Qed.

(** ** giving a virtual function the index it already has *)
Theorem pad_to_same out : pad_to (N.of_nat (List.length out)) out = out.
Proof. unfold pad_to. rewrite N.sub_diag. reflexivity. Qed.

Definition with_index (f : gfunction) (i : N) : gfunction :=
  {| gf_vis := gf_vis f; gf_name := gf_name f;
     gf_attrs := gf_attrs f ++ [AFn "index"%string [EInt (Z.of_N i)]];
     gf_args := gf_args f; gf_ret := gf_ret f |}.

Lemma attrs_doc_aux_app_nondoc : forall attrs acc a,
  (forall k v, a <> AAssign k v) ->
  attrs_doc_aux (attrs ++ [a]) acc = attrs_doc_aux attrs acc.
Proof.
  induction attrs as [|x attrs IH]; intros acc a Ha; cbn [app attrs_doc_aux].
  - destruct a as [?|? ?|k v]; try reflexivity. exfalso. eapply Ha. reflexivity.
  - destruct x as [?|? ?|k v]; try (apply IH; exact Ha).
    destruct (String.eqb k "doc"); [|apply IH; exact Ha].
    destruct v; try reflexivity. apply IH. exact Ha.
Qed.

Lemma z_to_usize_of_N n : z_to_usize (Z.of_N n) = Some n.
Proof. unfold z_to_usize. destruct (Z.of_N n <? 0)%Z eqn:E; [lia|]. now rewrite N2Z.id. Qed.

Lemma scan_int_ok_or_err name : forall attrs acc,
  (exists r, foldM (scan_int_attr name) attrs acc = Ok r) \/ (exists m, foldM (scan_int_attr name) attrs acc = Err m).
Proof.
  induction attrs as [|a attrs IH]; intros acc; cbn [foldM]; [left; eauto|].
  assert ((exists r, scan_int_attr name acc a = Ok r) \/ (exists m, scan_int_attr name acc a = Err m)) as [[r Hr]|[m Hm]].
  { unfold scan_int_attr. destruct a as [?|? [|[?|?|?] [|? ?]]|? ?]; eauto.
    destruct (String.eqb _ _); eauto. destruct (z_to_usize _); eauto. }
  - rewrite Hr. cbn [bind]. apply IH.
  - rewrite Hm. cbn [bind]. right. eauto.
Qed.

Theorem convert_one_index_explicit R scope out f :
  fn_index f = Some None ->
  convert_one R scope out (with_index f (N.of_nat (List.length out))) = convert_one R scope out f.
Proof.
  intros Hidx. unfold convert_one.
  (* the index scan *)
  assert (foldM scan_index_attr (gf_attrs f) None = Ok None \/ exists m, foldM scan_index_attr (gf_attrs f) None = Err m) as Hscan.
  { destruct (scan_int_ok_or_err "index" (gf_attrs f) None) as [[r E]|[m E]]; [left | right; eauto].
    pose proof (scan_index_spec _ _ _ E) as Hs. unfold fn_index, declared_index in Hidx.
    unfold scan_index_attr. rewrite E. f_equal.
    destruct (last_some index_attr (gf_attrs f) None) as [z|].
    - destruct (z_to_usize z); cbn in *; congruence.
    - exact Hs. }
  cbn [with_index gf_attrs]. rewrite foldM_app.
  destruct Hscan as [Hs|[m Hs]]; rewrite Hs; cbn [bind foldM]; [|reflexivity].
  unfold scan_index_attr at 1, scan_int_attr. cbn [String.eqb Ascii.eqb Bool.eqb].
  rewrite z_to_usize_of_N. cbn [bind]. rewrite N.ltb_irrefl, pad_to_same.
  (* function_build ignores the added index attribute *)
  assert (function_build R scope true (with_index f (N.of_nat (List.length out))) = function_build R scope true f) as ->; [|reflexivity].
  unfold function_build. cbn [with_index gf_attrs gf_name gf_args gf_ret gf_vis].
  unfold attrs_doc. rewrite attrs_doc_aux_app_nondoc by (intros; discriminate).
  destruct (attrs_doc_aux (gf_attrs f) None); cbn [bind]; try reflexivity.
  rewrite foldM_app. destruct (foldM (scan_fn_attr true) (gf_attrs f) _) as [[b c]| | |]; cbn [bind foldM]; try reflexivity.
Qed.
(** ** a gap written as [_: unknown<N>] and the same gap written as an address on the next field *)

(** two regions that the naming pass cannot tell apart: same type, and either both unnamed or equal *)
Definition same_named (a b : region) : Prop :=
  r_type a = r_type b /\ ((r_name a = None /\ r_name b = None) \/ a = b).

Lemma same_named_refl a : same_named a a.
Proof. split; auto. Qed.

Lemma name_regions_same_named R : forall rs1 rs2 s0,
  Forall2 same_named rs1 rs2 -> name_regions R rs1 s0 = name_regions R rs2 s0.
Proof.
  induction rs1 as [|a rs1 IH]; intros rs2 s0 H; inversion H as [|a' b rs1' rs2' Hab Hrest]; subst; cbn [name_regions];
    [reflexivity|].
  destruct Hab as [Ht Hn]. rewrite Ht. destruct (size_of R (r_type b)) as [sz|]; [|reflexivity].
  rewrite (IH _ _ Hrest).
  destruct Hn as [[Ha Hb]|Heq]; [|subst; reflexivity]. rewrite Ha, Hb. reflexivity.
Qed.

(** a gap region: unnamed, of the padding type, not a base *)
Definition is_gap (g : region) (n : N) : Prop :=
  r_name g = None /\ r_type g = padding_type n /\ r_is_base g = false.

(** one step: [gap; field] against [#[address(last + n)] field] *)
Theorem gap_then_field_is_address R rs last g n r :
  is_gap g n ->
  match bind (push_pending R (rs, last) (None, g)) (fun a => push_pending R a (None, r)),
        push_pending R (rs, last) (Some (last + n), r) with
  | Ok (rs1, l1), Ok (rs2, l2) =>
      l1 = l2 /\ exists mid1 mid2, rs1 = rs ++ mid1 /\ rs2 = rs ++ mid2 /\ Forall2 same_named mid1 mid2
  | Defer, Defer => True
  | Err _, Err _ => True
  | Panic _, Panic _ => True
  | _, _ => False
  end.
Proof.
  intros (Hgn & Hgt & _). unfold push_pending. cbn [fst snd bind].
  replace (last + n <? last) with false by (symmetry; apply N.ltb_ge; lia).
  replace (last + n - last) with n by lia.
  assert (same_named g (unnamed_region (padding_type n))) as Hsn by (split; [exact Hgt | left; split; [exact Hgn | reflexivity]]).
  unfold regions_push. cbn [unnamed_region r_type fst snd]. rewrite Hgt.
  destruct (size_of R (padding_type n)) as [sg|]; cbn [defer_opt bind]; [|exact I].
  destruct ((sg =? 0) && stype_is_array (padding_type n)); cbn [defer_opt bind fst snd].
  - unfold regions_push. cbn [fst snd]. destruct (size_of R (r_type r)) as [sr|]; cbn [defer_opt]; [|exact I].
    destruct ((sr =? 0) && stype_is_array (r_type r)); cbn [defer_opt].
    + split; [reflexivity|]. exists [], []. rewrite app_nil_r. repeat split. constructor.
    + destruct (checked_add last sr); cbn [defer_opt]; [|exact I].
      split; [reflexivity|]. exists [r], [r]. repeat split. constructor; [apply same_named_refl | constructor].
  - destruct (checked_add last sg) as [l1|]; cbn [defer_opt bind fst snd]; [|exact I].
    unfold regions_push. cbn [fst snd]. destruct (size_of R (r_type r)) as [sr|]; cbn [defer_opt]; [|exact I].
    destruct ((sr =? 0) && stype_is_array (r_type r)); cbn [defer_opt].
    + split; [reflexivity|]. exists [g], [unnamed_region (padding_type n)]. repeat split. constructor; [exact Hsn | constructor].
    + destruct (checked_add l1 sr); cbn [defer_opt]; [|exact I].
      split; [reflexivity|]. exists [g; r], [unnamed_region (padding_type n); r]. rewrite <- !app_assoc. repeat split.
      constructor; [exact Hsn | constructor; [apply same_named_refl | constructor]].
Qed.

(** pushes only append to the region list and only read the offset *)
Definition shift (rs : list region) (o : outcome (list region * N)) : outcome (list region * N) :=
  match o with
  | Ok (d, l) => Ok (rs ++ d, l)
  | Defer => Defer
  | Err m => Err m
  | Panic m => Panic m
  end.

Lemma regions_push_frame R rs l a :
  regions_push R (rs, l) a = option_map (fun x => (rs ++ fst x, snd x)) (regions_push R ([], l) a).
Proof.
  unfold regions_push. cbn [fst snd]. destruct (size_of R (r_type a)) as [s|]; [|reflexivity].
  destruct (_ && _); cbn [option_map fst snd]; [now rewrite app_nil_r|].
  destruct (checked_add l s); reflexivity.
Qed.

Lemma push_pending_frame R rs l p : push_pending R (rs, l) p = shift rs (push_pending R ([], l) p).
Proof.
  unfold push_pending. cbn [fst snd].
  assert (forall a, defer_opt (regions_push R (rs, l) a) = shift rs (defer_opt (regions_push R ([], l) a))) as Hd.
  { intros a. rewrite regions_push_frame. destruct (regions_push R ([], l) a) as [[d l']|]; reflexivity. }
  destruct (fst p) as [off|].
  - destruct (off <? l); [reflexivity|]. rewrite Hd.
    destruct (defer_opt (regions_push R ([], l) _)) as [[d l']| | |]; cbn [shift bind]; try reflexivity.
    rewrite regions_push_frame. rewrite (regions_push_frame R d l').
    destruct (regions_push R ([], l') (snd p)) as [[d2 l2]|]; cbn [option_map defer_opt shift fst snd]; [|reflexivity].
    now rewrite app_assoc.
  - cbn [bind]. apply Hd.
Qed.

Lemma fold_push_frame R : forall ps rs l,
  foldM (push_pending R) ps (rs, l) = shift rs (foldM (push_pending R) ps ([], l)).
Proof.
  induction ps as [|p ps IH]; intros rs l; cbn [foldM]; [cbn; now rewrite app_nil_r|].
  rewrite push_pending_frame. rewrite (push_pending_frame R [] l). 
  destruct (push_pending R ([], l) p) as [[d l']| | |]; cbn [shift bind app]; try reflexivity.
  rewrite IH, (IH d l'). destruct (foldM (push_pending R) ps ([], l')) as [[d2 l2]| | |]; cbn [shift]; try reflexivity.
  now rewrite app_assoc.
Qed.

(** the whole list of declared fields: [pre ++ gap :: field :: post] against
    [pre ++ (field with the address the gap gave it) :: post] *)
Definition same_result (o1 o2 : outcome (list region * N)) : Prop :=
  match o1, o2 with
  | Ok (rs1, l1), Ok (rs2, l2) => l1 = l2 /\ Forall2 same_named rs1 rs2
  | Defer, Defer | Err _, Err _ | Panic _, Panic _ => True
  | _, _ => False
  end.

Lemma Forall2_same_refl rs : Forall2 same_named rs rs.
Proof. induction rs; constructor; [apply same_named_refl | assumption]. Qed.

Theorem gap_is_address_fold R pre g n r post acc0 accp :
  is_gap g n -> foldM (push_pending R) pre acc0 = Ok accp ->
  same_result (foldM (push_pending R) (pre ++ (None, g) :: (None, r) :: post) acc0)
              (foldM (push_pending R) (pre ++ (Some (snd accp + n), r) :: post) acc0).
Proof.
  intros Hg Hpre. rewrite !foldM_app, Hpre. cbn [bind foldM]. destruct accp as [rs last]. cbn [snd].
  pose proof (gap_then_field_is_address R rs last g n r Hg) as H.
  destruct (push_pending R (rs, last) (None, g)) as [a1| | |] eqn:E1; cbn [bind] in *.
  - destruct (push_pending R a1 (None, r)) as [[rs1 l1]| | |] eqn:E2,
             (push_pending R (rs, last) (Some (last + n), r)) as [[rs2 l2]| | |] eqn:E3; cbn [bind same_result]; try contradiction; auto.
    destruct H as (<- & mid1 & mid2 & -> & -> & Hm).
    rewrite fold_push_frame, (fold_push_frame R post (rs ++ mid2)).
    destruct (foldM (push_pending R) post ([], l1)) as [[d l']| | |]; cbn [shift same_result]; auto.
    split; [reflexivity|]. apply Forall2_app; [apply Forall2_app; [apply Forall2_same_refl | exact Hm] | apply Forall2_same_refl].
  - destruct (push_pending R (rs, last) (Some (last + n), r)) as [[rs2 l2]| | |]; cbn [bind same_result]; try contradiction; auto.
  - destruct (push_pending R (rs, last) (Some (last + n), r)) as [[rs2 l2]| | |]; cbn [bind same_result]; try contradiction; auto.
  - destruct (push_pending R (rs, last) (Some (last + n), r)) as [[rs2 l2]| | |]; cbn [bind same_result]; try contradiction; auto.
Qed.
