(** * Order independence of the model's whole build (C09, C10).

    The model's resolution loop is an instance of the abstract chaotic iteration of Confluence.v:
    the abstract state is the map "input item -> resolved value", the abstract attempt is the
    model's [attempt] run in the input state with those items marked resolved.  Monotone.v gives M1
    and M2; this file proves the simulation and concludes: for inputs that are [collision_free] and
    [clean], any two permutation-valued schedules give the same verdict class and the same resolved
    value for every input item. *)
From Coq Require Import List NArith ZArith Bool Lia String Permutation.
From PyxisModel Require Import Base Grammar SemTypes Registry Sem SemLemmas ScopeLemmas
     PlacementLemmas TotalityLemmas EmitLemmas WholeBuild Monotone.
From PyxisModel Require Confluence.
Import ListNotations.
Local Open Scope string_scope.
Local Open Scope list_scope.

(** ** the list of unresolved keys under replacement/append of resolved items *)
Definition ukeys (l : list (path * item)) : list path := map fst (filter unres_kv l).

Definition unres_at (l : list (path * item)) (p : path) : bool :=
  match alookup p l with Some it => unres_kv (p, it) | None => false end.

Lemma in_keys_ainsert {V} k (v : V) q : forall l, In q (map fst (ainsert k v l)) -> q = k \/ In q (map fst l).
Proof.
  induction l as [|[k' v'] l IH]; cbn [ainsert map fst].
  - intros [E|[]]; auto.
  - destruct (path_eqb_spec k k') as [->|Hne]; cbn [map fst].
    + intros [E|Hin]; auto. right; now right.
    + intros [E|Hin]; [right; now left|]. destruct (IH Hin); auto. right; now right.
Qed.

Lemma ainsert_nodup {V} k (v : V) : forall l, NoDup (map fst l) -> NoDup (map fst (ainsert k v l)).
Proof.
  induction l as [|[k' v'] l IH]; cbn [ainsert map fst]; intros H.
  - constructor; [intros [] | constructor].
  - inversion H as [|? ? Hn Hd]; subst. destruct (path_eqb_spec k k') as [->|Hne]; cbn [map fst].
    + constructor; assumption.
    + constructor; [|auto]. intros Hin. destruct (in_keys_ainsert _ _ _ _ Hin); [congruence | contradiction].
Qed.

Lemma ukeys_subset l q : In q (ukeys l) -> In q (map fst l).
Proof. unfold ukeys. intros H. apply in_map_iff in H as (kv & <- & Hin). apply filter_In in Hin as [Hin _]. now apply in_map. Qed.

Lemma filter_neq_notin k : forall l : list path, ~ In k l -> filter (fun q => negb (path_eqb q k)) l = l.
Proof.
  induction l as [|q l IH]; cbn [filter]; [reflexivity|]. intros H.
  destruct (path_eqb_spec q k) as [->|Hne]; [exfalso; apply H; now left|]. cbn [negb]. rewrite IH; [reflexivity|].
  intros Hin; apply H; now right.
Qed.

(** replacing or appending a resolved item removes its key from the unresolved list, nothing else *)
Lemma ukeys_ainsert k v : item_is_resolved v = true -> forall l, NoDup (map fst l) ->
  ukeys (ainsert k v l) = filter (fun q => negb (path_eqb q k)) (ukeys l).
Proof.
  intros Hv. assert (unres_kv (k, v) = false) as Hk by (unfold unres_kv; cbn; rewrite Hv; apply andb_false_r).
  induction l as [|[k' v'] l IH]; intros Hd; cbn [ainsert].
  - unfold ukeys. cbn [filter]. now rewrite Hk.
  - inversion Hd as [|? ? Hn Hd']; subst. destruct (path_eqb_spec k k') as [->|Hne].
    + unfold ukeys. cbn [filter]. rewrite Hk. fold (ukeys l).
      destruct (unres_kv (k', v')); cbn [map fst filter].
      * rewrite path_eqb_refl. cbn [negb]. symmetry. apply filter_neq_notin.
        intros Hin. apply Hn. now apply ukeys_subset.
      * symmetry. apply filter_neq_notin. intros Hin. apply Hn. now apply ukeys_subset.
    + unfold ukeys in *. cbn [filter]. destruct (unres_kv (k', v')) eqn:E; cbn [map fst filter].
      * destruct (path_eqb_spec k' k) as [->|_]; [congruence|]. cbn [negb]. f_equal. now apply IH.
      * now apply IH.
Qed.

Lemma unres_at_ainsert k v l q : item_is_resolved v = true ->
  unres_at (ainsert k v l) q = unres_at l q && negb (path_eqb q k).
Proof.
  intros Hv. unfold unres_at. destruct (path_eqb_spec q k) as [->|Hne].
  - rewrite alookup_ainsert_same. unfold unres_kv. cbn. rewrite Hv. now rewrite !andb_false_r.
  - rewrite alookup_ainsert_other by congruence. now rewrite andb_true_r.
Qed.

(** registries reached from [l0] by inserting resolved items *)
Inductive evolves (l0 : list (path * item)) : list (path * item) -> Prop :=
| ev_refl : evolves l0 l0
| ev_step l k v : evolves l0 l -> item_is_resolved v = true -> evolves l0 (ainsert k v l).

Lemma evolves_nodup l0 l : NoDup (map fst l0) -> evolves l0 l -> NoDup (map fst l).
Proof. intros H0. induction 1; [exact H0 | now apply ainsert_nodup]. Qed.

Lemma alookup_of_in {V} q (v : V) : forall l, NoDup (map fst l) -> In (q, v) l -> alookup q l = Some v.
Proof.
  induction l as [|[k' v'] l IH]; cbn [alookup map fst]; intros Hd Hin; [destruct Hin|].
  inversion Hd as [|? ? Hn Hd']; subst. destruct Hin as [E|Hin].
  - inversion E; subst. now rewrite path_eqb_refl.
  - destruct (path_eqb_spec q k') as [->|_]; [|auto]. exfalso. apply Hn. now apply (in_map fst) in Hin.
Qed.

Lemma filter_all_true {A} (f : A -> bool) : forall l, (forall x, In x l -> f x = true) -> filter f l = l.
Proof.
  induction l as [|a l IH]; cbn [filter]; intros H; [reflexivity|].
  rewrite (H a (or_introl eq_refl)). f_equal. apply IH. intros; apply H; now right.
Qed.

Lemma filter_filter2 {A} (f g : A -> bool) : forall l, filter f (filter g l) = filter (fun x => g x && f x) l.
Proof.
  induction l as [|a l IH]; cbn [filter]; [reflexivity|]. destruct (g a); cbn [filter andb]; [destruct (f a)|]; now rewrite IH.
Qed.

Lemma ukeys_self l : NoDup (map fst l) -> filter (unres_at l) (ukeys l) = ukeys l.
Proof.
  intros Hd. apply filter_all_true. intros q Hq. unfold ukeys in Hq.
  apply in_map_iff in Hq as ([k it] & <- & Hin). apply filter_In in Hin as [Hin Hu]. cbn [fst].
  unfold unres_at. now rewrite (alookup_of_in _ _ _ Hd Hin).
Qed.

Lemma evolves_ukeys l0 l : NoDup (map fst l0) -> evolves l0 l ->
  ukeys l = filter (unres_at l) (ukeys l0).
Proof.
  intros H0. induction 1 as [|l k v Hev IH Hv].
  - symmetry. now apply ukeys_self.
  - rewrite (ukeys_ainsert _ _ Hv) by (eapply evolves_nodup; eauto). rewrite IH.
    rewrite filter_filter2. apply filter_ext. intros q. now rewrite unres_at_ainsert.
Qed.

(** ** the abstract state, made concrete: the input registry with some items marked resolved *)
Definition astate := path -> option resolved.

Definition mark_item (A : astate) (kv : path * item) : path * item :=
  match it_state (snd kv), A (fst kv) with
  | Unresolved _, Some r =>
      (fst kv, {| it_vis := it_vis (snd kv); it_path := it_path (snd kv); it_state := Resolved r;
                  it_cat := it_cat (snd kv) |})
  | _, _ => kv
  end.
Definition mark (R0 : registry) (A : astate) : registry :=
  {| reg_types := map (mark_item A) (reg_types R0); reg_ptr := reg_ptr R0 |}.

Lemma mark_item_key A kv : fst (mark_item A kv) = fst kv.
Proof. unfold mark_item. destruct (it_state (snd kv)), (A (fst kv)); reflexivity. Qed.

Lemma reg_get_mark R0 A p :
  reg_get (mark R0 A) p = option_map (fun it => snd (mark_item A (p, it))) (reg_get R0 p).
Proof.
  unfold reg_get, mark. cbn [reg_types]. induction (reg_types R0) as [|[k it] l IH]; cbn [map alookup]; [reflexivity|].
  pose proof (mark_item_key A (k, it)) as Hk. destruct (mark_item A (k, it)) as [k2 it2] eqn:E. cbn [fst] in Hk. subst k2.
  destruct (path_eqb_spec p k) as [->|Hne]; [cbn [option_map]; now rewrite E | exact IH].
Qed.

Lemma reg_has_mark R0 A p : reg_has (mark R0 A) p = reg_has R0 p.
Proof.
  unfold reg_has, amem. fold (reg_get (mark R0 A) p). fold (reg_get R0 p). rewrite reg_get_mark.
  destruct (reg_get R0 p); reflexivity.
Qed.

Lemma forallb_ext_in {X} (f g : X -> bool) : forall l, (forall x, In x l -> f x = g x) -> forallb f l = forallb g l.
Proof.
  induction l as [|x l IH]; cbn [forallb]; intros H; [reflexivity|].
  rewrite (H x (or_introl eq_refl)), IH; [reflexivity|]. intros; apply H; now right.
Qed.
Lemma forallb_ext {X} (f g : X -> bool) l : (forall x, f x = g x) -> forallb f l = forallb g l.
Proof. intros H. apply forallb_ext_in. auto. Qed.

Lemma mods_rel_agree ms ms0 : mods_rel ms ms0 -> mods_agree ms ms0.
Proof.
  induction 1 as [|[k m] [k0 m0] ms ms0 [Hk He] _ IH]; intros q; cbn [alookup]; [exact I|].
  cbn [fst snd] in *. subst k0. destruct (path_eqb q k); [exact He | apply IH].
Qed.

Section Abs.
  Variable st0 : sstate.
  Let R0 := st_reg st0.
  Hypothesis Hcf : collision_free R0.
  Hypothesis Hu8 : user R0 ["u8"].
  Hypothesis Hclean_mods : forall km, In km (st_modules st0) -> clean_module (snd km) = true.

  Lemma clean_mods_lookup k m : alookup k (st_modules st0) = Some m -> clean_module m = true.
  Proof. intros H. destruct (alookup_in _ _ _ H) as (k' & Hin & _). apply (Hclean_mods _ Hin). Qed.
  Hypothesis Hclean_defs : forall p it gd, reg_get R0 p = Some it -> it_state it = Unresolved gd -> clean_def gd = true.

  Definition conc (A : astate) : sstate := {| st_modules := st_modules st0; st_reg := mark R0 A |}.

  Definition classify (o : outcome resolved) : Confluence.res resolved :=
    match o with
    | Ok r => Confluence.Done _ r
    | Defer => Confluence.Defer _
    | _ => Confluence.Fail _
    end.

  Definition att (A : astate) (k : path) : Confluence.res resolved :=
    match reg_get R0 k with
    | Some it => match it_state it with
                 | Unresolved gd => classify (snd (attempt (conc A) k gd))
                 | Resolved _ => Confluence.Fail _
                 end
    | None => Confluence.Fail _
    end.

  Lemma mods_agree_refl ms : mods_agree ms ms.
  Proof. intros k. destruct (alookup k ms); [repeat split | exact I]. Qed.

  Lemma present_mark A : present R0 (mark R0 A).
  Proof. intros p Hp. rewrite reg_get_mark. destruct (reg_get R0 p); [discriminate | congruence]. Qed.

  Lemma chas_mark A : chas R0 (mark R0 A).
  Proof. intros c _. apply reg_has_mark. Qed.

  Lemma usub_mark A A' : Confluence.le _ _ A A' -> usub R0 (mark R0 A) (mark R0 A').
  Proof.
    intros Hle. split; [reflexivity|]. intros p it _ Hg Hr. rewrite reg_get_mark in *.
    destruct (reg_get R0 p) as [it0|]; [|discriminate]. cbn [option_map] in *. inversion Hg; subst it. f_equal.
    unfold mark_item in *. cbn [fst snd] in *. destruct (it_state it0) as [gd|r0] eqn:Es; [|reflexivity].
    destruct (A p) as [r|] eqn:Ea.
    - now rewrite (Hle _ _ Ea).
    - cbn [snd] in Hr. unfold item_is_resolved in Hr. rewrite Es in Hr. discriminate.
  Qed.

  Lemma att_mono A A' k o :
    Confluence.le _ _ A A' -> att A k = o -> o <> Confluence.Defer _ -> att A' k = o.
  Proof.
    intros Hle H Hn. unfold att in *. destruct (reg_get R0 k) as [it|] eqn:Eg; [|exact H].
    destruct (it_state it) as [gd|r] eqn:Es; [|exact H].
    assert (snd (attempt (conc A') k gd) = snd (attempt (conc A) k gd)) as ->; [|exact H].
    eapply (attempt_mono R0 Hcf Hu8 (conc A) (conc A')); cbn [conc st_reg st_modules].
    - now apply usub_mark.
    - apply mods_agree_refl.
    - apply present_mark.
    - apply chas_mark.
    - apply chas_mark.
    - unfold user. fold R0. congruence.
    - intros parent m _ Hm. eapply clean_mods_lookup; eauto.
    - eapply Hclean_defs; eauto.
    - reflexivity.
    - intros E. rewrite E in H. cbn in H. congruence.
  Qed.

  Lemma att_M1 A A' k v : Confluence.le _ _ A A' -> A k = None -> A' k = None ->
    att A k = Confluence.Done _ v -> att A' k = Confluence.Done _ v.
  Proof. intros Hle _ _ H. eapply att_mono; eauto. discriminate. Qed.

  Lemma att_M2 A A' k : Confluence.le _ _ A A' -> A k = None -> A' k = None ->
    att A k = Confluence.Fail _ -> att A' k = Confluence.Fail _.
  Proof. intros Hle _ _ H. eapply att_mono; eauto. discriminate. Qed.

  (** ** simulation: a state of the model's loop and the abstract state it stands for *)
  Hypothesis HK0 : keyed R0.
  Hypothesis HND : NoDup (map fst (reg_types R0)).

  Definition items : list path := reg_unresolved R0.

  Record sim (st : sstate) (A : astate) : Prop := {
    sim_inv : Inv R0 (st_reg st);
    sim_present : present R0 (st_reg st);
    sim_keyed : keyed (st_reg st);
    sim_mods : mods_rel (st_modules st) (st_modules st0);
    sim_ev : evolves (reg_types R0) (reg_types (st_reg st));
    sim_user : forall p, user R0 p -> reg_get (st_reg st) p = reg_get (mark R0 A) p;
    sim_supp : forall p, A p <> None -> In p items }.

  Lemma mark_empty p : reg_get (mark R0 (fun _ => None)) p = reg_get R0 p.
  Proof.
    rewrite reg_get_mark. destruct (reg_get R0 p) as [it|]; [|reflexivity]. cbn [option_map]. f_equal.
    unfold mark_item. cbn [fst snd]. destruct (it_state it); reflexivity.
  Qed.

  Lemma sim_init : sim st0 (fun _ => None).
  Proof.
    constructor; fold R0.
    - apply Inv_init.
    - apply present_init.
    - exact HK0.
    - apply mods_rel_refl.
    - constructor.
    - intros p _. now rewrite mark_empty.
    - intros p H. congruence.
  Qed.

  Lemma mods_agree_sym ms ms' : mods_agree ms ms' -> mods_agree ms' ms.
  Proof.
    intros H k. specialize (H k). destruct (alookup k ms), (alookup k ms'); auto.
    destruct H as (A & B & C & D). repeat split; congruence.
  Qed.

  Lemma mods_agree_trans a b c : mods_agree a b -> mods_agree b c -> mods_agree a c.
  Proof.
    intros H1 H2 k. specialize (H1 k). specialize (H2 k).
    destruct (alookup k a), (alookup k b), (alookup k c); auto; try contradiction.
    destruct H1 as (A1 & B1 & C1 & D1), H2 as (A2 & B2 & C2 & D2). repeat split; congruence.
  Qed.

  Lemma clean_module_eq m m' : mod_eq m m' -> clean_module m = clean_module m'.
  Proof. intros (A & B & C & D). unfold clean_module, module_scope. now rewrite A, B, C, D. Qed.

  Lemma sim_clean_mods st A : sim st A ->
    forall k m, alookup k (st_modules st) = Some m -> clean_module m = true.
  Proof.
    intros HS k m Hm. pose proof (mods_rel_agree _ _ (sim_mods _ _ HS) k) as H. rewrite Hm in H.
    destruct (alookup k (st_modules st0)) as [m0|] eqn:E0; [|contradiction].
    rewrite (clean_module_eq _ _ H). eapply clean_mods_lookup; eauto.
  Qed.

  Lemma sim_usub st A : sim st A -> usub R0 (st_reg st) (mark R0 A) /\ usub R0 (mark R0 A) (st_reg st).
  Proof.
    intros HS. destruct (sim_inv _ _ HS) as [Hptr _]. split; (split; [cbn [mark reg_ptr]; fold R0; congruence|]).
    - intros p it Hu Hg _. now rewrite <- (sim_user _ _ HS p Hu).
    - intros p it Hu Hg _. now rewrite (sim_user _ _ HS p Hu).
  Qed.

  (** the concrete attempt and the abstract one fall in the same class *)
  Lemma attempt_class st A k it gd :
    sim st A -> reg_get R0 k = Some it -> it_state it = Unresolved gd ->
    classify (snd (attempt st k gd)) = att A k.
  Proof.
    intros HS Hg Hs. unfold att. rewrite Hg, Hs.
    destruct (sim_usub _ _ HS) as [Hu1 Hu2].
    assert (user R0 k) as Huk by (unfold user; fold R0; congruence).
    assert (chas R0 (st_reg st)) as HC by (apply reach_chas; split; [apply (sim_inv _ _ HS) | apply (sim_present _ _ HS)]).
    assert (clean_def gd = true) as Hcd by (eapply Hclean_defs; eauto).
    destruct (snd (attempt st k gd)) as [r| |m|m] eqn:E.
    - rewrite (attempt_mono R0 Hcf Hu8 st (conc A) k gd _ Hu1 (mods_rel_agree _ _ (sim_mods _ _ HS)) (sim_present _ _ HS) HC (chas_mark A) Huk
                 (fun parent m _ Hm => sim_clean_mods _ _ HS _ _ Hm) Hcd E); [reflexivity | discriminate].
    - destruct (snd (attempt (conc A) k gd)) as [r| |m|m] eqn:E'; try reflexivity; exfalso.
      all: pose proof (attempt_mono R0 Hcf Hu8 (conc A) st k gd _ Hu2 (mods_agree_sym _ _ (mods_rel_agree _ _ (sim_mods _ _ HS)))
                         (present_mark A) (chas_mark A) HC Huk
                         (fun parent m _ Hm => clean_mods_lookup _ _ Hm) Hcd E' ltac:(discriminate)) as X;
        rewrite E in X; discriminate.
    - rewrite (attempt_mono R0 Hcf Hu8 st (conc A) k gd _ Hu1 (mods_rel_agree _ _ (sim_mods _ _ HS)) (sim_present _ _ HS) HC (chas_mark A) Huk
                 (fun parent m _ Hm => sim_clean_mods _ _ HS _ _ Hm) Hcd E); [reflexivity | discriminate].
    - rewrite (attempt_mono R0 Hcf Hu8 st (conc A) k gd _ Hu1 (mods_rel_agree _ _ (sim_mods _ _ HS)) (sim_present _ _ HS) HC (chas_mark A) Huk
                 (fun parent m _ Hm => sim_clean_mods _ _ HS _ _ Hm) Hcd E); [reflexivity | discriminate].
  Qed.

  (** *** the state after an attempt still stands for the same abstract state *)
  Lemma add_item_mods st it st1 : add_item st it = Ok st1 -> mods_agree (st_modules st1) (st_modules st).
  Proof.
    unfold add_item. destruct (path_parent (it_path it)) as [parent|]; [|discriminate].
    destruct (alookup parent (st_modules st)) as [m|] eqn:Em; [|discriminate].
    intros H; inversion H; subst; clear H. cbn [st_modules]. intros k.
    destruct (path_eqb_spec parent k) as [<-|Hne].
    - rewrite alookup_ainsert_same, Em. repeat split.
    - rewrite alookup_ainsert_other by exact Hne. destruct (alookup k (st_modules st)); [repeat split | exact I].
  Qed.

  Lemma attempt_sim st A k it gd st1 o :
    sim st A -> reg_get (st_reg st) k = Some it -> it_state it = Unresolved gd ->
    attempt st k gd = (st1, o) -> sim st1 A.
  Proof.
    intros HS Hg Hs Hat.
    destruct (attempt_inv R0 _ _ _ _ _ _ Hcf (sim_inv _ _ HS) (sim_keyed _ _ HS) Hg Hs Hat) as (HI1 & HK1 & _ & Hback).
    assert (st1 = st \/ exists vit, item_is_resolved vit = true /\ add_item st vit = Ok st1) as Hstep.
    { unfold attempt in Hat. destruct (gi_inner gd) as [td|ed].
      - destruct (type_build_step _ _ _ _ _ _ Hat) as [->|v fs vit _ Hvi Hadd]; [now left|]. right. exists vit. split; [|exact Hadd].
        unfold vftable_item in Hvi. destruct (vftable_path k); [|discriminate]. now inversion Hvi.
      - inversion Hat; now left. }
    destruct Hstep as [->|(vit & Hres & Hadd)]; [exact HS|].
    constructor.
    - exact HI1.
    - rewrite (add_item_reg _ _ _ Hadd). apply present_add. apply (sim_present _ _ HS).
    - exact HK1.
    - unfold add_item in Hadd. destruct (path_parent (it_path vit)) as [parent|]; [|discriminate].
      destruct (alookup parent (st_modules st)) as [m|] eqn:Em; [|discriminate].
      inversion Hadd; subst st1. cbn [st_modules].
      eapply mods_rel_insert; [apply (sim_mods _ _ HS) | exact Em | repeat split].
    - rewrite (add_item_reg _ _ _ Hadd). cbn [reg_add reg_types]. constructor; [apply (sim_ev _ _ HS) | exact Hres].
    - intros p Hp. rewrite (Hback p Hp). apply (sim_user _ _ HS p Hp).
    - apply (sim_supp _ _ HS).
  Qed.

  Lemma set_resolved_sim st A k it0 gd r :
    sim st A -> In k items -> reg_get R0 k = Some it0 -> it_state it0 = Unresolved gd -> A k = None ->
    sim (set_resolved st k r) (Confluence.upd _ _ path_eqb A k r).
  Proof.
    intros HS Hki Hg0 Hs0 HA.
    assert (user R0 k) as Huk by (unfold user; fold R0; congruence).
    assert (reg_get (st_reg st) k = Some it0) as Hg.
    { rewrite (sim_user _ _ HS k Huk), reg_get_mark. fold R0. rewrite Hg0. cbn [option_map]. f_equal.
      unfold mark_item. cbn [fst snd]. now rewrite Hs0, HA. }
    destruct (set_resolved_inv R0 st k it0 gd r Hcf (sim_inv _ _ HS) (sim_keyed _ _ HS) Hg Hs0)
      as (HI2 & HK2 & _ & (it2 & Hg2 & Hs2) & Hoth).
    assert (st_reg (set_resolved st k r) =
            reg_add (st_reg st) {| it_vis := it_vis it0; it_path := it_path it0; it_state := Resolved r; it_cat := it_cat it0 |}) as Hreg.
    { unfold set_resolved. now rewrite Hg. }
    constructor.
    - exact HI2.
    - rewrite Hreg. apply present_add. apply (sim_present _ _ HS).
    - exact HK2.
    - unfold set_resolved. rewrite Hg. cbn [st_modules]. apply (sim_mods _ _ HS).
    - rewrite Hreg. cbn [reg_add reg_types]. constructor; [apply (sim_ev _ _ HS) | reflexivity].
    - intros p Hp. destruct (path_eqb_spec p k) as [->|Hne].
      + rewrite Hreg. assert (it_path it0 = k) as Hk by (apply HK0; exact Hg0).
        assert (forall R it p, it_path it = p -> reg_get (reg_add R it) p = Some it) as Hsame
            by (intros ? ? ? <-; apply reg_get_add_same).
        rewrite (Hsame _ _ k) by exact Hk. rewrite reg_get_mark. fold R0. rewrite Hg0. cbn [option_map]. f_equal.
        unfold mark_item, Confluence.upd. cbn [fst snd]. now rewrite Hs0, path_eqb_refl.
      + rewrite (Hoth p Hne), (sim_user _ _ HS p Hp), !reg_get_mark.
        destruct (reg_get R0 p) as [itp|]; [|reflexivity]. cbn [option_map]. f_equal.
        unfold mark_item, Confluence.upd. cbn [fst snd].
        destruct (path_eqb_spec p k); [contradiction | reflexivity].
    - intros p. unfold Confluence.upd. destruct (path_eqb_spec p k) as [->|_]; [intros _; exact Hki | apply (sim_supp _ _ HS)].
  Qed.

  Lemma items_spec k : In k items -> exists it gd, reg_get R0 k = Some it /\ it_state it = Unresolved gd /\
                                                 item_is_predefined it = false.
  Proof.
    unfold items, reg_unresolved. intros H. apply in_map_iff in H as ([k' it] & <- & Hin).
    apply filter_In in Hin as [Hin Hu]. cbn [fst snd] in *. apply andb_prop in Hu as [Hp Hr].
    exists it. unfold reg_get. rewrite (alookup_of_in _ _ _ HND Hin).
    unfold item_is_resolved in Hr. destruct (it_state it) as [gd|r]; [|discriminate].
    exists gd. repeat split. now apply negb_true_iff in Hp.
  Qed.

  Definition is_abort (r : build_result) : Prop := (exists m, r = BErr m) \/ (exists m, r = BPanic m).

  Lemma pass_sim : forall ks st A, sim st A -> (forall k, In k ks -> In k items) ->
    match resolve_pass st ks with
    | inl st' => exists A', Confluence.pass _ _ path_eqb att true A ks = Some A' /\ sim st' A'
    | inr r => Confluence.pass _ _ path_eqb att true A ks = None /\ is_abort r
    end.
  Proof.
    induction ks as [|k ks IH]; intros st A HS Hin; cbn [resolve_pass Confluence.pass].
    - eauto.
    - destruct (items_spec k (Hin k (or_introl eq_refl))) as (it0 & gd & Hg0 & Hs0 & _).
      assert (user R0 k) as Huk by (unfold user; fold R0; congruence).
      assert (forall k', In k' ks -> In k' items) as Hin' by (intros; apply Hin; now right).
      rewrite (sim_user _ _ HS k Huk), reg_get_mark. fold R0. rewrite Hg0. cbn [option_map].
      unfold mark_item. cbn [fst snd]. rewrite Hs0. destruct (A k) as [r|] eqn:HA; cbn [snd it_state].
      + apply IH; assumption.
      + rewrite Hs0.
        assert (reg_get (st_reg st) k = Some it0) as Hg.
        { rewrite (sim_user _ _ HS k Huk), reg_get_mark. fold R0. rewrite Hg0. cbn [option_map]. f_equal.
          unfold mark_item. cbn [fst snd]. now rewrite Hs0, HA. }
        rewrite <- (attempt_class st A k it0 gd HS Hg0 Hs0).
        destruct (attempt st k gd) as [st1 o] eqn:Hat. cbn [snd].
        pose proof (attempt_sim _ _ _ _ _ _ _ HS Hg Hs0 Hat) as HS1.
        destruct o as [r| |m|m]; cbn [classify].
        * apply IH; [|exact Hin']. eapply set_resolved_sim; eauto. apply Hin. now left.
        * apply IH; assumption.
        * split; [reflexivity | left; eauto].
        * split; [reflexivity | right; eauto].
  Qed.

  (** *** the unresolved list of the concrete state is the abstract one, as a list *)
  Lemma sim_unresolved st A : sim st A -> reg_unresolved (st_reg st) = Confluence.unres _ _ items A.
  Proof.
    intros HS. change (reg_unresolved (st_reg st)) with (ukeys (reg_types (st_reg st))).
    rewrite (evolves_ukeys _ _ HND (sim_ev _ _ HS)). unfold Confluence.unres.
    change (ukeys (reg_types R0)) with items. apply filter_ext_in. intros k Hk.
    destruct (items_spec k Hk) as (it0 & gd & Hg0 & Hs0 & Hp0).
    assert (user R0 k) as Huk by (unfold user; fold R0; congruence).
    unfold unres_at, Confluence.isnone. fold (reg_get (st_reg st) k).
    rewrite (sim_user _ _ HS k Huk), reg_get_mark. fold R0. rewrite Hg0. cbn [option_map].
    unfold mark_item. cbn [fst snd]. rewrite Hs0. destruct (A k) as [r|]; cbn [snd].
    - unfold unres_kv. cbn. now rewrite andb_false_r.
    - unfold unres_kv, item_is_resolved. cbn [snd]. now rewrite Hp0, Hs0.
  Qed.

  Definition abs_result (r : build_result) (o : Confluence.outcome path resolved) : Prop :=
    match r, o with
    | BOk st, Confluence.OOk _ _ A => sim st A
    | BNoProgress l, Confluence.ONoProgress _ _ A => Permutation l (Confluence.unres _ _ items A)
    | BErr _, Confluence.OFail _ _ => True
    | BPanic _, Confluence.OFail _ _ => True
    | BFuel, Confluence.OFuel _ _ => True
    | _, _ => False
    end.

  Lemma loop_sim order : (forall l, Permutation (order l) l) -> forall fuel st A, sim st A ->
    abs_result (resolve_loop order fuel st) (Confluence.loop _ _ path_eqb att items order true fuel A).
  Proof.
    intros Hperm. induction fuel as [|fuel IH]; intros st A HS; cbn [resolve_loop Confluence.loop]; [exact I|].
    rewrite (sim_unresolved _ _ HS). set (U := Confluence.unres _ _ items A).
    destruct U as [|u0 U'] eqn:EU.
    - assert (order [] = []) as -> by (apply Permutation_nil; apply Permutation_sym, Hperm). exact HS.
    - destruct (order (u0 :: U')) as [|k0 ks] eqn:Eo.
      { exfalso. pose proof (Hperm (u0 :: U')) as P. rewrite Eo in P. apply Permutation_nil in P. discriminate. }
      rewrite <- Eo.
      assert (forall k, In k (order (u0 :: U')) -> In k items) as Hin.
      { intros k Hk. apply (Permutation_in _ (Hperm _)) in Hk. rewrite <- EU in Hk. unfold U, Confluence.unres in Hk.
        apply filter_In in Hk. tauto. }
      pose proof (pass_sim _ _ _ HS Hin) as Hp.
      destruct (resolve_pass st (order (u0 :: U'))) as [st1|r] eqn:Ep.
      + destruct Hp as (A1 & Hp & HS1). rewrite Hp. rewrite (sim_unresolved _ _ HS1).
        rewrite (Permutation_length (Hperm (u0 :: U'))).
        destruct (Nat.eqb _ _) eqn:En.
        * apply Nat.eqb_eq in En. rewrite <- EU in En. unfold U in En.
          assert (Confluence.unres _ _ items A1 = Confluence.unres _ _ items A) as Heq.
          { pose proof (Confluence.pass_le _ _ path_eqb path_eqb_spec att items true _ _ _ Hin Hp) as Hle.
            unfold Confluence.unres. apply filter_ext_in. intros k Hk. unfold Confluence.isnone.
            destruct (A k) as [r|] eqn:Ea; [now rewrite (Hle _ _ Ea)|].
            now rewrite (Confluence.unres_eq _ _ items A A1 Hle En k Hk Ea). }
          cbn [abs_result]. rewrite Heq. fold U. rewrite EU. apply Hperm.
        * apply IH. exact HS1.
      + destruct Hp as [-> [[m ->]|[m ->]]]; exact I.
  Qed.

  (** ** the theorem: the resolution loop is order independent *)
  Definition same_verdict (r1 r2 : build_result) : Prop :=
    match r1, r2 with
    | BOk s1, BOk s2 => forall p, user R0 p -> reg_get (st_reg s1) p = reg_get (st_reg s2) p
    | BNoProgress l1, BNoProgress l2 => Permutation l1 l2
    | BErr _, BErr _ | BErr _, BPanic _ | BPanic _, BErr _ | BPanic _, BPanic _ => True
    | _, _ => False
    end.

  Lemma mark_agree A1 A2 : (forall k, In k items -> A1 k = A2 k) ->
    (forall p, A1 p <> None -> In p items) -> (forall p, A2 p <> None -> In p items) ->
    forall p, reg_get (mark R0 A1) p = reg_get (mark R0 A2) p.
  Proof.
    intros Hag H1 H2 p. rewrite !reg_get_mark. destruct (reg_get R0 p) as [it|]; [|reflexivity]. cbn [option_map]. f_equal.
    unfold mark_item. cbn [fst snd]. destruct (it_state it); [|reflexivity].
    destruct (in_dec (list_eq_dec string_dec) p items) as [Hin|Hn]; [now rewrite (Hag p Hin)|].
    destruct (A1 p) eqn:E1; [exfalso; apply Hn, H1; congruence|].
    destruct (A2 p) eqn:E2; [exfalso; apply Hn, H2; congruence|]. reflexivity.
  Qed.

  Theorem resolve_loop_order_independent o1 o2 :
    (forall l, Permutation (o1 l) l) -> (forall l, Permutation (o2 l) l) ->
    forall fuel, List.length items < fuel ->
    same_verdict (resolve_loop o1 fuel st0) (resolve_loop o2 fuel st0).
  Proof.
    intros P1 P2 fuel Hf.
    pose proof (loop_sim o1 P1 fuel _ _ sim_init) as S1.
    pose proof (loop_sim o2 P2 fuel _ _ sim_init) as S2.
    assert (List.length (Confluence.unres path resolved items (fun _ => None)) < fuel) as Hf'.
    { unfold Confluence.unres. rewrite filter_all_true; [exact Hf | reflexivity]. }
    pose proof (Confluence.order_independent path resolved path_eqb path_eqb_spec att att_M1 att_M2
                  items o1 o2 P1 P2 fuel (fun _ => None) Hf') as OI.
    destruct (resolve_loop o1 fuel st0) as [s1|m1|l1|m1|], (Confluence.loop _ _ _ _ _ o1 _ _ _) as [A1|A1| |];
      cbn [abs_result] in S1; try contradiction;
    destruct (resolve_loop o2 fuel st0) as [s2|m2|l2|m2|], (Confluence.loop _ _ _ _ _ o2 _ _ _) as [A2|A2| |];
      cbn [abs_result] in S2; try contradiction; cbn [Confluence.same_outcome same_verdict] in *; try contradiction; auto.
    - intros p Hp. rewrite (sim_user _ _ S1 p Hp), (sim_user _ _ S2 p Hp).
      apply mark_agree; [exact OI | apply (sim_supp _ _ S1) | apply (sim_supp _ _ S2)].
    - eapply Permutation_trans; [exact S1|]. eapply Permutation_trans; [|apply Permutation_sym; exact S2].
      assert (Confluence.unres _ _ items A1 = Confluence.unres _ _ items A2) as ->; [|apply Permutation_refl].
      unfold Confluence.unres. apply filter_ext_in. intros k Hk. unfold Confluence.isnone. now rewrite (OI k Hk).
  Qed.
  (** ** [finish_build] on two final states that stand for the same abstract state *)
  Lemma sim_clean_nonuser st A k : sim st A -> ~ user R0 k -> clean_path k = true -> reg_get (st_reg st) k = None.
  Proof.
    intros HS Hnu Hc. destruct (reg_get (st_reg st) k) as [it|] eqn:E; [|reflexivity]. exfalso.
    destruct (sim_inv _ _ HS) as [_ HI]. specialize (HI _ _ E).
    destruct (reg_get R0 k) eqn:E0; [apply Hnu; unfold user; fold R0; congruence|].
    destruct HI as (owner & ? & ? & ? & ? & ? & _ & _ & _ & Hvp & _).
    rewrite (gen_path_not_clean _ _ Hvp) in Hc. discriminate.
  Qed.

  Definition agreeA (A1 A2 : astate) : Prop := forall k, In k items -> A1 k = A2 k.

  Lemma sim_reg_agree s1 A1 s2 A2 k : sim s1 A1 -> sim s2 A2 -> agreeA A1 A2 -> clean_path k = true ->
    reg_get (st_reg s1) k = reg_get (st_reg s2) k.
  Proof.
    intros H1 H2 Ha Hc. destruct (reg_get R0 k) eqn:E0.
    - assert (user R0 k) as Hu by (unfold user; fold R0; congruence).
      rewrite (sim_user _ _ H1 k Hu), (sim_user _ _ H2 k Hu).
      apply mark_agree; [exact Ha | apply (sim_supp _ _ H1) | apply (sim_supp _ _ H2)].
    - assert (~ user R0 k) as Hu by (unfold user; fold R0; congruence).
      now rewrite (sim_clean_nonuser _ _ _ H1 Hu Hc), (sim_clean_nonuser _ _ _ H2 Hu Hc).
  Qed.

  Definition impls_ok (R : registry) (ms : list (path * smodule)) : bool :=
    forallb (fun km => forallb (fun kb => impl_is_defined_type R (fst kb)) (m_impls (snd km))) ms.

  Lemma impls_ok_rel R ms ms0 : mods_rel ms ms0 -> impls_ok R ms = impls_ok R ms0.
  Proof.
    unfold impls_ok. induction 1 as [|km km0 ms ms0 [_ (_ & _ & Hi & _)] _ IH]; cbn [forallb]; [reflexivity|].
    now rewrite Hi, IH.
  Qed.

  Lemma impls_ok_agree s1 A1 s2 A2 : sim s1 A1 -> sim s2 A2 -> agreeA A1 A2 ->
    impls_ok (st_reg s1) (st_modules s1) = impls_ok (st_reg s2) (st_modules s2).
  Proof.
    intros H1 H2 Ha. rewrite (impls_ok_rel _ _ _ (sim_mods _ _ H1)), (impls_ok_rel _ _ _ (sim_mods _ _ H2)).
    unfold impls_ok. apply forallb_ext_in. intros km Hkm. apply forallb_ext_in. intros kb Hkb.
    pose proof (Hclean_mods _ Hkm) as Hc. unfold clean_module in Hc. apply andb_prop in Hc as [_ Hc].
    apply andb_prop in Hc as [Hc _]. rewrite forallb_forall in Hc. specialize (Hc _ Hkb).
    unfold impl_is_defined_type. now rewrite (sim_reg_agree _ _ _ _ _ H1 H2 Ha Hc).
  Qed.

  Definition evs_ok (R : registry) (m : smodule) : bool :=
    forallb (fun ev => match resolve_gtype R (module_scope m) (ev_gtype ev) with Some _ => true | None => false end)
            (m_extern_values m).

  Lemma resolve_extern_values_ok R m : is_ok (resolve_extern_values R m) = evs_ok R m.
  Proof.
    unfold resolve_extern_values, evs_ok. induction (m_extern_values m) as [|ev evs IH]; cbn [mapM forallb]; [reflexivity|].
    destruct (resolve_gtype R (module_scope m) (ev_gtype ev)); cbn [bind andb]; [|reflexivity].
    destruct (mapM _ evs); cbn [bind is_ok] in *; auto.
  Qed.

  Lemma mapM_is_ok {X Y} (f : X -> outcome Y) : forall l, is_ok (mapM f l) = forallb (fun x => is_ok (f x)) l.
  Proof.
    induction l as [|x l IH]; cbn [mapM forallb]; [reflexivity|].
    destruct (f x); cbn [bind is_ok andb]; try reflexivity. rewrite <- IH. destruct (mapM f l); reflexivity.
  Qed.

  Definition all_evs_ok (R : registry) (ms : list (path * smodule)) : bool :=
    forallb (fun km => evs_ok R (snd km)) ms.

  Lemma finish_build_class st :
    match finish_build st with
    | BOk t => st_reg t = st_reg st /\ impls_ok (st_reg st) (st_modules st) = true /\ all_evs_ok (st_reg st) (st_modules st) = true
    | BErr _ | BPanic _ => impls_ok (st_reg st) (st_modules st) && all_evs_ok (st_reg st) (st_modules st) = false
    | _ => False
    end.
  Proof.
    unfold finish_build. fold (impls_ok (st_reg st) (st_modules st)).
    destruct (impls_ok (st_reg st) (st_modules st)) eqn:Ei; cbn [negb]; [|reflexivity].
    set (f := fun km : path * smodule => do m' <- resolve_extern_values (st_reg st) (snd km); Ok (fst km, m')).
    assert (is_ok (mapM f (st_modules st)) = all_evs_ok (st_reg st) (st_modules st)) as Hok.
    { rewrite mapM_is_ok. unfold all_evs_ok. apply forallb_ext. intros km. unfold f.
      rewrite <- resolve_extern_values_ok. destruct (resolve_extern_values _ _); reflexivity. }
    destruct (mapM f (st_modules st)); cbn [is_ok] in Hok; cbn [andb]; auto.
  Qed.

  Lemma all_evs_rel R : chas R0 R -> forall ms ms0, mods_rel ms ms0 ->
    (forall km0, In km0 ms0 -> clean_module (snd km0) = true) ->
    all_evs_ok R ms = all_evs_ok R0 ms0.
  Proof.
    intros HC. unfold all_evs_ok. induction 1 as [|km km0 ms ms0 [_ (Hp & Ha & _ & Hev)] _ IH]; intros Hcl; cbn [forallb]; [reflexivity|].
    rewrite IH by (intros; apply Hcl; now right). f_equal.
    pose proof (Hcl km0 (or_introl eq_refl)) as Hc. unfold clean_module in Hc. apply andb_prop in Hc as [Hc1 Hc2].
    apply andb_prop in Hc1 as [Hcs _]. apply andb_prop in Hc2 as [_ Hce].
    unfold evs_ok. assert (module_scope (snd km) = module_scope (snd km0)) as -> by (unfold module_scope; congruence).
    rewrite Hev. apply forallb_ext_in. intros ev Hin. rewrite forallb_forall in Hce.
    now rewrite (resolve_gtype_reach R0 R _ HC Hcs _ (Hce _ Hin)).
  Qed.

  Lemma all_evs_ok_agree s1 A1 s2 A2 : sim s1 A1 -> sim s2 A2 ->
    all_evs_ok (st_reg s1) (st_modules s1) = all_evs_ok (st_reg s2) (st_modules s2).
  Proof.
    intros H1 H2.
    assert (forall s A, sim s A -> chas R0 (st_reg s)) as HC
        by (intros s A HS; apply reach_chas; split; [apply (sim_inv _ _ HS) | apply (sim_present _ _ HS)]).
    rewrite (all_evs_rel _ (HC _ _ H1) _ _ (sim_mods _ _ H1) Hclean_mods).
    now rewrite (all_evs_rel _ (HC _ _ H2) _ _ (sim_mods _ _ H2) Hclean_mods).
  Qed.

  (** the whole front half after the loop: same class, and an accepted build keeps the registry *)
  Definition same_final (r1 r2 : build_result) : Prop :=
    match r1, r2 with
    | BOk s1, BOk s2 => forall p, user R0 p -> reg_get (st_reg s1) p = reg_get (st_reg s2) p
    | BErr _, BErr _ | BErr _, BPanic _ | BPanic _, BErr _ | BPanic _, BPanic _ => True
    | _, _ => False
    end.

  Lemma finish_build_agree s1 A1 s2 A2 : sim s1 A1 -> sim s2 A2 -> agreeA A1 A2 ->
    same_final (finish_build s1) (finish_build s2).
  Proof.
    intros H1 H2 Ha. pose proof (finish_build_class s1) as C1. pose proof (finish_build_class s2) as C2.
    rewrite (impls_ok_agree _ _ _ _ H1 H2 Ha), (all_evs_ok_agree _ _ _ _ H1 H2) in C1.
    destruct (finish_build s1) as [t1|m1|l1|m1|], (finish_build s2) as [t2|m2|l2|m2|]; cbn [same_final]; try contradiction; auto.
    - destruct C1 as (E1 & _), C2 as (E2 & _). intros p Hp. rewrite E1, E2, (sim_user _ _ H1 p Hp), (sim_user _ _ H2 p Hp).
      apply mark_agree; [exact Ha | apply (sim_supp _ _ H1) | apply (sim_supp _ _ H2)].
    - destruct C1 as (_ & I1 & V1). rewrite I1, V1 in C2. discriminate.
    - destruct C1 as (_ & I1 & V1). rewrite I1, V1 in C2. discriminate.
    - destruct C2 as (_ & I2 & V2). rewrite I2, V2 in C1. discriminate.
    - destruct C2 as (_ & I2 & V2). rewrite I2, V2 in C1. discriminate.
  Qed.
  (** ** the whole front half ([sem_build] = loop, then [finish_build]) is order independent *)
  Definition same_build (r1 r2 : build_result) : Prop :=
    match r1, r2 with
    | BOk s1, BOk s2 => forall p, user R0 p -> reg_get (st_reg s1) p = reg_get (st_reg s2) p
    | BNoProgress l1, BNoProgress l2 => Permutation l1 l2
    | BErr _, BErr _ | BErr _, BPanic _ | BPanic _, BErr _ | BPanic _, BPanic _ => True
    | _, _ => False
    end.

  Theorem sem_build_order_independent o1 o2 :
    (forall l, Permutation (o1 l) l) -> (forall l, Permutation (o2 l) l) ->
    same_build (sem_build o1 st0) (sem_build o2 st0).
  Proof.
    intros P1 P2. unfold sem_build. fold R0. set (fuel := S (List.length (reg_unresolved R0))).
    pose proof (loop_sim o1 P1 fuel _ _ sim_init) as S1.
    pose proof (loop_sim o2 P2 fuel _ _ sim_init) as S2.
    assert (List.length (Confluence.unres path resolved items (fun _ => None)) < fuel) as Hf'.
    { unfold Confluence.unres. rewrite filter_all_true; [unfold fuel, items; lia | reflexivity]. }
    pose proof (Confluence.order_independent path resolved path_eqb path_eqb_spec att att_M1 att_M2
                  items o1 o2 P1 P2 fuel (fun _ => None) Hf') as OI.
    destruct (resolve_loop o1 fuel st0) as [s1|m1|l1|m1|], (Confluence.loop _ _ _ _ _ o1 _ _ _) as [A1|A1| |];
      cbn [abs_result] in S1; try contradiction;
    destruct (resolve_loop o2 fuel st0) as [s2|m2|l2|m2|], (Confluence.loop _ _ _ _ _ o2 _ _ _) as [A2|A2| |];
      cbn [abs_result] in S2; try contradiction; cbn [Confluence.same_outcome same_build] in *; try contradiction; auto.
    - pose proof (finish_build_agree _ _ _ _ S1 S2 OI) as F.
      destruct (finish_build s1), (finish_build s2); cbn [same_final same_build] in *; auto; contradiction.
    - eapply Permutation_trans; [exact S1|]. eapply Permutation_trans; [|apply Permutation_sym; exact S2].
      assert (Confluence.unres _ _ items A1 = Confluence.unres _ _ items A2) as ->; [|apply Permutation_refl].
      unfold Confluence.unres. apply filter_ext_in. intros k Hk. unfold Confluence.isnone. now rewrite (OI k Hk).
  Qed.
End Abs.

(** ** the schedules the hook installs are permutations *)
Lemma remove_nth_perm {A} (d : A) : forall l i, (i < List.length l)%nat ->
  Permutation l (nth i l d :: remove_nth i l).
Proof.
  induction l as [|x l IH]; intros i Hi; [cbn in Hi; lia|].
  destruct i as [|i]; cbn [nth remove_nth]; [reflexivity|].
  cbn [List.length] in Hi. rewrite perm_swap. constructor. apply IH. lia.
Qed.

Lemma nth_perm_aux_perm {A} : forall fuel k (l : list A), List.length l = fuel ->
  Permutation (nth_perm_aux fuel k l) l.
Proof.
  induction fuel as [|f IH]; intros k l Hl; cbn [nth_perm_aux].
  - destruct l; [reflexivity | discriminate].
  - destruct l as [|d l']; [discriminate|].
    set (n := N.of_nat (List.length (d :: l'))).
    assert (N.to_nat (k mod n) < List.length (d :: l'))%nat as Hi.
    { assert (n <> 0)%N by (unfold n; cbn [List.length]; lia).
      pose proof (N.mod_lt k n H). unfold n in *. lia. }
    symmetry. etransitivity; [apply (remove_nth_perm d _ _ Hi)|]. constructor. symmetry. apply IH.
    rewrite remove_nth_length by exact Hi. rewrite Hl. reflexivity.
Qed.

Theorem hook_schedule_perm ks l : Permutation (hook_schedule ks l) l.
Proof.
  unfold hook_schedule, nth_perm. etransitivity; [apply nth_perm_aux_perm; reflexivity|].
  symmetry. apply sort_perm.
Qed.

(** ** the side conditions, decidable, and the input states of pyxis *)
Definition clean_stateb (st0 : sstate) : bool :=
  forallb (fun km => clean_module (snd km)) (st_modules st0) &&
  forallb (fun kv => match it_state (snd kv) with Unresolved gd => clean_def gd | Resolved _ => true end)
          (reg_types (st_reg st0)).

Lemma clean_stateb_sound st0 : clean_stateb st0 = true ->
  (forall km, In km (st_modules st0) -> clean_module (snd km) = true) /\
  (forall p it gd, reg_get (st_reg st0) p = Some it -> it_state it = Unresolved gd -> clean_def gd = true).
Proof.
  unfold clean_stateb. intros H. apply andb_prop in H as [H1 H2]. rewrite forallb_forall in H1, H2. split.
  - exact H1.
  - intros p it gd Hg Hs. unfold reg_get in Hg. destruct (alookup_in _ _ _ Hg) as (k' & Hin & _).
    specialize (H2 _ Hin). cbn [snd] in H2. now rewrite Hs in H2.
Qed.

Lemma add_item_nodup st it st' : NoDup (map fst (reg_types (st_reg st))) -> add_item st it = Ok st' ->
  NoDup (map fst (reg_types (st_reg st'))).
Proof. intros H Ha. rewrite (add_item_reg _ _ _ Ha). cbn [reg_add reg_types]. now apply ainsert_nodup. Qed.

Lemma input_state_nodup ptr mods st0 : input_state ptr mods = Ok st0 -> NoDup (map fst (reg_types (st_reg st0))).
Proof.
  unfold input_state. intros H. inv_bind H.
  eapply (foldM_preserves (fun s => NoDup (map fst (reg_types (st_reg s))))); [| |exact H].
  - intros s pm s2 Hs Hpm. cbn beta in Hpm. unfold add_module in Hpm. inv_bind Hpm. inv_bind Hpm. inv_bind Hpm.
    eapply (foldM_preserves (fun s => NoDup (map fst (reg_types (st_reg s))))); [| |exact Hpm].
    + intros s3 e s4 Hs3 He. unfold add_extern_type in He. inv_bind He. destruct a3 as [[size|] [al|]]; try discriminate.
      destruct (reg_has _ _); [discriminate|]. eapply add_item_nodup; [exact Hs3 | exact He].
    + eapply (foldM_preserves (fun s => NoDup (map fst (reg_types (st_reg s))))); [| |exact Ha2].
      * intros s3 d s4 Hs3 Hd. unfold add_definition in Hd. destruct (reg_has _ _); [discriminate|]. eapply add_item_nodup; [exact Hs3 | exact Hd].
      * exact Hs.
  - unfold sem_new in Ha. eapply (foldM_preserves (fun s => NoDup (map fst (reg_types (st_reg s))))); [| |exact Ha].
    + intros s ns s' Hs Hadd. eapply add_item_nodup; [exact Hs | exact Hadd].
    + constructor.
Qed.

Lemma reg_u8_user R : reg_u8 R -> user R ["u8"].
Proof. unfold reg_u8, user. cbn [size_of]. destruct (reg_get R ["u8"]); [discriminate | discriminate]. Qed.

(** ** C09 for the model: for every input (any pointer width, any modules) that is collision free
    and clean, any two schedules the hook can install -- and any two permutation-valued order
    functions at all -- end the resolution loop with the same verdict class and the same resolved
    value for every input item. *)
Theorem pyxis_loop_order_independent ptr mods st0 o1 o2 :
  input_state ptr mods = Ok st0 -> collision_free (st_reg st0) -> clean_stateb st0 = true ->
  (forall l, Permutation (o1 l) l) -> (forall l, Permutation (o2 l) l) ->
  let fuel := S (List.length (reg_unresolved (st_reg st0))) in
  same_verdict st0 (resolve_loop o1 fuel st0) (resolve_loop o2 fuel st0).
Proof.
  intros Hin Hcf Hcl P1 P2 fuel. destruct (clean_stateb_sound _ Hcl) as [Hm Hd].
  apply resolve_loop_order_independent; auto.
  - apply reg_u8_user. eapply input_state_u8; eauto.
  - eapply input_state_keyed; eauto.
  - eapply input_state_nodup; eauto.
Qed.

(** ** C09 for the model, whole front half: [pyxis_resolve] (registration, resolution loop,
    [finish_build]) gives the same verdict class under any two permutation-valued order functions,
    and an accepted build resolves every input item to the same value *)
Theorem pyxis_resolve_order_independent ptr mods st0 o1 o2 :
  input_state ptr mods = Ok st0 -> collision_free (st_reg st0) -> clean_stateb st0 = true ->
  (forall l, Permutation (o1 l) l) -> (forall l, Permutation (o2 l) l) ->
  same_build st0 (pyxis_resolve o1 ptr mods) (pyxis_resolve o2 ptr mods).
Proof.
  intros Hin Hcf Hcl P1 P2. destruct (clean_stateb_sound _ Hcl) as [Hm Hd].
  assert (forall o, pyxis_resolve o ptr mods = sem_build o st0) as E.
  { intros o. unfold pyxis_resolve. unfold input_state in Hin. now rewrite Hin. }
  rewrite !E. apply sem_build_order_independent; auto.
  - apply reg_u8_user. eapply input_state_u8; eauto.
  - eapply input_state_keyed; eauto.
  - eapply input_state_nodup; eauto.
Qed.
