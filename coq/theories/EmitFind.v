(** * EmitFind: the struct of a declared type is THE struct of that name in its module's file.

    A module's file holds the items of the module's definitions, in path order.  Every definition of
    a module has the module as its parent, the paths are pairwise distinct, and only the first item
    emitted for a type is a struct (named like the last segment of the type's path): so looking a
    struct up by name in the file ([find_struct]) finds the item emitted for the type of that
    name. *)
From Coq Require Import List NArith ZArith Bool Lia String Permutation.
From PyxisModel Require Import Base Sexp Grammar SemTypes Registry Sem SemLemmas FunctionLemmas Emit
     EmitLemmas WholeBuild EmitInvariance EmitReaders EmitShape EmitFinal.
Import ListNotations.
Local Open Scope string_scope.
Local Open Scope list_scope.

Lemma mapM_app_inv {A B} (f : A -> outcome B) : forall l1 a l2 out,
  mapM f (l1 ++ a :: l2) = Ok out ->
  exists o1 b o2, mapM f l1 = Ok o1 /\ f a = Ok b /\ mapM f l2 = Ok o2 /\ out = o1 ++ b :: o2.
Proof.
  induction l1 as [|x l1 IH]; intros a l2 out H; cbn [app mapM] in H.
  - inv_bind H. inv_bind H. inversion H; subst out. exists [], a0, a1. repeat split; auto.
  - inv_bind H. inv_bind H. inversion H; subst out; clear H.
    destruct (IH _ _ _ Ha0) as (o1 & b & o2 & H1 & Hb & H2 & ->).
    exists (a0 :: o1), b, o2. cbn [mapM]. rewrite Ha, H1. repeat split; auto.
Qed.

Lemma find_app_skip {A} (f : A -> bool) l1 l2 :
  Forall (fun x => f x = false) l1 -> find f (l1 ++ l2) = find f l2.
Proof. induction 1 as [|x l1 Hx _ IH]; cbn [app find]; [reflexivity|]. now rewrite Hx. Qed.

(** a path is its parent plus its last segment *)
Lemma path_parent_last p k n : path_parent p = Some k -> path_last p = Some n -> p = k ++ [n].
Proof.
  unfold path_parent, path_last. destruct p as [|s p]; [discriminate|].
  intros Hk Hn. injection Hk as <-. injection Hn as <-.
  change (s :: p = removelast (s :: p) ++ [last (s :: p) ""]). apply app_removelast_last. discriminate.
Qed.

(** ** the definitions of a module *)
Lemma module_definitions_from R m it :
  In it (module_definitions R m) -> exists q, In q (m_defpaths m) /\ reg_get R q = Some it.
Proof.
  intros H. eapply Permutation_in in H; [|apply module_definitions_perm].
  apply in_somes in H. apply in_map_iff in H as (q & Hq & Hin). eauto.
Qed.

Lemma somes_map_nodup R : keyed R -> forall ps, NoDup ps -> NoDup (somes (map (reg_get R) ps)).
Proof.
  intros HK. induction 1 as [|a ps Ha _ IH]; cbn [map somes]; [constructor|].
  destruct (reg_get R a) as [x|] eqn:E; [|exact IH]. constructor; [|exact IH].
  intros Hin. apply in_somes in Hin. apply in_map_iff in Hin as (q & Hq & Hqin).
  pose proof (HK _ _ E) as K1. pose proof (HK _ _ Hq) as K2. apply Ha. congruence.
Qed.

Lemma module_definitions_nodup R m : keyed R -> NoDup (m_defpaths m) -> NoDup (module_definitions R m).
Proof.
  intros HK HN. eapply Permutation_NoDup; [apply Permutation_sym, module_definitions_perm|].
  now apply somes_map_nodup.
Qed.

(** ** a struct among the items emitted for a registry item carries the item's last segment *)
Lemma Forall_not_struct l n :
  Forall (fun e => exists k, item_kind e = Some k /\ k <> "struct") l ->
  Forall (fun e => is_struct_named n e = false) l.
Proof. apply Forall_impl. intros e (k & Hk & Hne). eapply not_struct_kind; eauto. Qed.

Lemma checks_not_struct name size checks n :
  size_check_shape name size checks -> Forall (fun e => is_struct_named n e = false) checks.
Proof.
  intros [[_ ->]|(_ & c & -> & Hk & _)]; [constructor|].
  apply Forall_not_struct. constructor; [|constructor]. exists "fn". split; [exact Hk | discriminate].
Qed.

Lemma rest_not_struct rest n :
  Forall is_impl_or_const rest -> Forall (fun e => is_struct_named n e = false) rest.
Proof.
  intros H. apply Forall_not_struct. eapply Forall_impl; [|exact H].
  intros e [Hk|Hk]; eexists; (split; [exact Hk | discriminate]).
Qed.

Lemma build_item_struct_names R fuel it its n e :
  build_item R fuel it = Ok its -> In e its -> is_struct_named n e = true ->
  path_last (it_path it) = Some n.
Proof.
  intros H Hin Hn. unfold build_item in H.
  destruct (item_resolved it) as [rs|] eqn:Er; [|discriminate].
  destruct (it_cat it) eqn:Ec; try (inversion H; subst its; destruct Hin).
  destruct (rs_inner rs) as [td|ed] eqn:Ei.
  - destruct (build_type_struct_shape _ _ _ _ _ _ _ _ H) as (name & s & checks & rest & Hname & -> & Hsh & Hck & Hrest).
    destruct Hin as [<-|Hin].
    + destruct Hsh as [_ Hsn _ _ _ _ _]. unfold is_struct_named in Hn. rewrite Hsn in Hn.
      apply String.eqb_eq in Hn. now subst.
    + exfalso. apply in_app_or in Hin as [Hin|Hin].
      * pose proof (checks_not_struct _ _ _ n Hck) as F. rewrite Forall_forall in F. rewrite (F _ Hin) in Hn. discriminate.
      * pose proof (rest_not_struct _ n Hrest) as F. rewrite Forall_forall in F. rewrite (F _ Hin) in Hn. discriminate.
  - exfalso.
    destruct (build_enum_shape _ _ _ _ _ H) as (name & en & checks & rest & Hname & -> & Hsh & Hck & Hrest).
    destruct Hin as [<-|Hin].
    + destruct Hsh as [Hk _ _ _ _ _ _]. rewrite (not_struct_kind _ _ Hk) in Hn; discriminate.
    + apply in_app_or in Hin as [Hin|Hin].
      * pose proof (checks_not_struct _ _ _ n Hck) as F. rewrite Forall_forall in F. rewrite (F _ Hin) in Hn. discriminate.
      * pose proof (rest_not_struct _ n Hrest) as F. rewrite Forall_forall in F. rewrite (F _ Hin) in Hn. discriminate.
Qed.

(** ** the file *)
Theorem module_file_find_struct st m f parent name p it s its' :
  module_file st m = Ok f ->
  keyed (st_reg st) -> NoDup (m_defpaths m) ->
  (forall q, In q (m_defpaths m) -> path_parent q = Some parent) ->
  In p (m_defpaths m) -> reg_get (st_reg st) p = Some it -> path_last p = Some name ->
  build_item (st_reg st) (S (List.length (reg_types (st_reg st)))) it = Ok (s :: its') ->
  is_struct_named name s = true ->
  exists pre post,
    file_items f = Some (pre ++ (s :: its') ++ post) /\
    Forall (fun e => is_struct_named name e = false) pre /\
    find_struct name (pre ++ (s :: its') ++ post) = Some s.
Proof.
  intros H HK HN Hpar Hp Hg Hname Hb Hs.
  destruct (module_file_shape _ _ _ H) as (items & evs & Hitems & _ & ->).
  pose proof (module_definitions_in _ _ _ _ Hp Hg) as Hin.
  pose proof (module_definitions_nodup (st_reg st) m HK HN) as Hnd.
  destruct (in_split _ _ Hin) as (l1 & l2 & Hl). rewrite Hl in Hitems, Hnd.
  destruct (mapM_app_inv _ _ _ _ _ Hitems) as (o1 & b & o2 & H1 & Hb' & _ & ->).
  rewrite Hb in Hb'. inversion Hb'; subst b. clear Hb'.
  assert (~ In it l1) as Hnot.
  { apply NoDup_remove_2 in Hnd. intros X. apply Hnd. apply in_or_app. now left. }
  assert (Forall (fun e => is_struct_named name e = false) (List.concat o1)) as Hpre.
  { apply Forall_forall. intros e He. apply in_concat in He as (its1 & Hits1 & He).
    destruct (is_struct_named name e) eqn:En; [exfalso|reflexivity].
    pose proof (mapM_ok _ _ _ H1) as F2.
    assert (exists it1, In it1 l1 /\ build_item (st_reg st) (S (List.length (reg_types (st_reg st)))) it1 = Ok its1)
      as (it1 & Hit1 & Hb1).
    { clear -F2 Hits1. induction F2 as [|x y l l' Hxy _ IH]; [destruct Hits1|].
      destruct Hits1 as [<-|Hi]; [exists x; split; [now left | exact Hxy]|].
      destruct (IH Hi) as (it1 & A & B). exists it1. split; [now right | exact B]. }
    pose proof (build_item_struct_names _ _ _ _ _ _ Hb1 He En) as Hlast.
    assert (In it1 (module_definitions (st_reg st) m)) as Hin1 by (rewrite Hl; apply in_or_app; now left).
    destruct (module_definitions_from _ _ _ Hin1) as (q & Hq & Hgq).
    pose proof (HK _ _ Hgq) as Hkq. rewrite Hkq in Hlast.
    assert (q = p) as ->.
    { rewrite (path_parent_last _ _ _ (Hpar _ Hq) Hlast), (path_parent_last _ _ _ (Hpar _ Hp) Hname). reflexivity. }
    rewrite Hg in Hgq. inversion Hgq; subst it1. contradiction. }
  exists (SList [Atom "opaque"; Str (prologue_text m)] :: List.concat o1),
         (List.concat o2 ++ evs ++ [SList [Atom "opaque"; Str (epilogue_text m)]]).
  assert (Forall (fun e => is_struct_named name e = false)
                 (SList [Atom "opaque"; Str (prologue_text m)] :: List.concat o1)) as Hpre'.
  { constructor; [reflexivity | exact Hpre]. }
  split; [|split; [exact Hpre'|]].
  - unfold file_items. cbn [tagged String.eqb Ascii.eqb Bool.eqb app].
    rewrite concat_app. cbn [List.concat]. now rewrite <- !app_assoc.
  - unfold find_struct. rewrite (find_app_skip _ _ _ Hpre'). cbn [app find]. now rewrite Hs.
Qed.
